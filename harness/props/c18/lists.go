package c18

// List-valued flag fields and combinations of enumerated fields.
//
// (1) FastMathFlags / OverflowFlags are slices of keywords on instructions and
// constant expressions.  The property treats them as SETS ("flag sets print as
// exactly the set of their members"): Enum.tla generates every subset of the
// defined values of the family (member rows with bits = {value}); each subset
// is placed on EVERY carrier (every struct type of ir and ir/constant that has
// such a field - found in the source at run time; a carrier the harness cannot
// build is exit 2), printed by the real LLString, the flag tokens are cut out
// of the printed instruction (difference to the instruction with the empty
// list), each token goes through the real FromString and the whole module
// through the real parser; the list of the parsed instruction is read back.
// The rows are flag-set rows (kind "set", node = carrier) judged by EnumTrace.
//
// (2) Linkage x Preemption x Visibility x DLLStorageClass on one entity
// (global, function declaration, function definition, alias, ifunc): the
// candidate values per entity are those that round-trip alone; EnumCombo.tla
// generates the full product; each combination is set through the ir API,
// printed, parsed, read back: combo rows judged by EnumTrace (ComboRoundTrip).
// A combination the library's parser rejects goes to llvm-as: rejected there as
// well -> discarded and counted; accepted by LLVM -> violation.

import (
	"fmt"
	"math/bits"
	"os"
	"path/filepath"
	"regexp"
	"sort"
	"strconv"
	"strings"
	"time"

	"github.com/llir/llvm/asm"
	"github.com/llir/llvm/ir"
	"github.com/llir/llvm/ir/constant"
	"github.com/llir/llvm/ir/enum"
	"github.com/llir/llvm/ir/types"

	"verif/harness/llvmoracle"
	"verif/harness/mbt"
)

// listFams are the keyword families that occur as list-valued fields.
var listFams = []string{"FastMathFlag", "OverflowFlag"}

var listField = map[string]string{"FastMathFlag": "FastMathFlags", "OverflowFlag": "OverflowFlags"}

// carrier is a struct type with a list-valued flag field.
type carrier struct {
	Fam, Type string
	Build     func(vals []uint64) *ir.Module
	// Line returns the printed instruction / expression of the module text; Get the list of the parsed module
	Get func(m *ir.Module) ([]uint64, error)
}

func fmf(vals []uint64) []enum.FastMathFlag {
	var out []enum.FastMathFlag
	for _, v := range vals {
		out = append(out, enum.FastMathFlag(v))
	}
	return out
}

func ovf(vals []uint64) []enum.OverflowFlag {
	var out []enum.OverflowFlag
	for _, v := range vals {
		out = append(out, enum.OverflowFlag(v))
	}
	return out
}

func fmfBack(fs []enum.FastMathFlag) []uint64 {
	out := []uint64{}
	for _, f := range fs {
		out = append(out, uint64(f))
	}
	return out
}

func ovfBack(fs []enum.OverflowFlag) []uint64 {
	out := []uint64{}
	for _, f := range fs {
		out = append(out, uint64(f))
	}
	return out
}

// instCarrier: the instruction is the first one of the first block of function f (the second function of the module).
func instCarrier(fam, typ string, emit func(e *env, vals []uint64), get func(i ir.Instruction) ([]uint64, bool)) carrier {
	return carrier{Fam: fam, Type: typ,
		Build: func(vals []uint64) *ir.Module {
			e := newEnv()
			emit(e, vals)
			e.b.NewRet(nil)
			return e.m
		},
		Get: func(m *ir.Module) ([]uint64, error) {
			if len(m.Funcs) != 2 || len(m.Funcs[1].Blocks) == 0 {
				return nil, fmt.Errorf("unexpected module shape")
			}
			var last error = fmt.Errorf("no instruction of type %s", typ)
			for _, b := range m.Funcs[1].Blocks {
				for _, i := range b.Insts {
					if out, ok := get(i); ok {
						return out, nil
					}
				}
			}
			return nil, last
		}}
}

func exprCarrier(typ string, mk func(vals []uint64) constant.Constant, get func(c constant.Constant) ([]uint64, bool)) carrier {
	return carrier{Fam: "OverflowFlag", Type: typ,
		Build: func(vals []uint64) *ir.Module {
			m := ir.NewModule()
			m.NewGlobalDef("g", mk(vals))
			return m
		},
		Get: func(m *ir.Module) ([]uint64, error) {
			if len(m.Globals) != 1 || m.Globals[0].Init == nil {
				return nil, fmt.Errorf("unexpected module shape")
			}
			if out, ok := get(m.Globals[0].Init); ok {
				return out, nil
			}
			return nil, fmt.Errorf("initializer is %T", m.Globals[0].Init)
		}}
}

func carriers() []carrier {
	one, two := constant.NewInt(i32, 1), constant.NewInt(i32, 2)
	return []carrier{
		instCarrier("FastMathFlag", "InstFAdd", func(e *env, v []uint64) { e.b.NewFAdd(e.a, e.c).FastMathFlags = fmf(v) },
			func(i ir.Instruction) ([]uint64, bool) {
				c, ok := i.(*ir.InstFAdd)
				if !ok {
					return nil, false
				}
				return fmfBack(c.FastMathFlags), true
			}),
		instCarrier("FastMathFlag", "InstFSub", func(e *env, v []uint64) { e.b.NewFSub(e.a, e.c).FastMathFlags = fmf(v) },
			func(i ir.Instruction) ([]uint64, bool) {
				c, ok := i.(*ir.InstFSub)
				if !ok {
					return nil, false
				}
				return fmfBack(c.FastMathFlags), true
			}),
		instCarrier("FastMathFlag", "InstFMul", func(e *env, v []uint64) { e.b.NewFMul(e.a, e.c).FastMathFlags = fmf(v) },
			func(i ir.Instruction) ([]uint64, bool) {
				c, ok := i.(*ir.InstFMul)
				if !ok {
					return nil, false
				}
				return fmfBack(c.FastMathFlags), true
			}),
		instCarrier("FastMathFlag", "InstFDiv", func(e *env, v []uint64) { e.b.NewFDiv(e.a, e.c).FastMathFlags = fmf(v) },
			func(i ir.Instruction) ([]uint64, bool) {
				c, ok := i.(*ir.InstFDiv)
				if !ok {
					return nil, false
				}
				return fmfBack(c.FastMathFlags), true
			}),
		instCarrier("FastMathFlag", "InstFRem", func(e *env, v []uint64) { e.b.NewFRem(e.a, e.c).FastMathFlags = fmf(v) },
			func(i ir.Instruction) ([]uint64, bool) {
				c, ok := i.(*ir.InstFRem)
				if !ok {
					return nil, false
				}
				return fmfBack(c.FastMathFlags), true
			}),
		instCarrier("FastMathFlag", "InstFNeg", func(e *env, v []uint64) { e.b.NewFNeg(e.a).FastMathFlags = fmf(v) },
			func(i ir.Instruction) ([]uint64, bool) {
				c, ok := i.(*ir.InstFNeg)
				if !ok {
					return nil, false
				}
				return fmfBack(c.FastMathFlags), true
			}),
		instCarrier("FastMathFlag", "InstFCmp", func(e *env, v []uint64) { e.b.NewFCmp(enum.FPredOEQ, e.a, e.c).FastMathFlags = fmf(v) },
			func(i ir.Instruction) ([]uint64, bool) {
				c, ok := i.(*ir.InstFCmp)
				if !ok {
					return nil, false
				}
				return fmfBack(c.FastMathFlags), true
			}),
		instCarrier("FastMathFlag", "InstPhi", func(e *env, v []uint64) {
			// entry block branches to a second block that holds the phi
			b2 := e.f.NewBlock("next")
			e.b.NewBr(b2)
			b2.NewPhi(ir.NewIncoming(e.a, e.b)).FastMathFlags = fmf(v)
			e.b = b2
		}, func(i ir.Instruction) ([]uint64, bool) {
			c, ok := i.(*ir.InstPhi)
			if !ok {
				return nil, false
			}
			return fmfBack(c.FastMathFlags), true
		}),
		instCarrier("FastMathFlag", "InstSelect", func(e *env, v []uint64) { e.b.NewSelect(constant.True, e.a, e.c).FastMathFlags = fmf(v) },
			func(i ir.Instruction) ([]uint64, bool) {
				c, ok := i.(*ir.InstSelect)
				if !ok {
					return nil, false
				}
				return fmfBack(c.FastMathFlags), true
			}),
		instCarrier("FastMathFlag", "InstCall", func(e *env, v []uint64) {
			fc := e.m.NewFunc("fcallee", types.Float, ir.NewParam("", types.Float))
			// keep f the second function of the module
			e.m.Funcs = []*ir.Func{fc, e.f}
			e.b.NewCall(fc, e.a).FastMathFlags = fmf(v)
		}, func(i ir.Instruction) ([]uint64, bool) {
			c, ok := i.(*ir.InstCall)
			if !ok {
				return nil, false
			}
			return fmfBack(c.FastMathFlags), true
		}),
		instCarrier("OverflowFlag", "InstAdd", func(e *env, v []uint64) { e.b.NewAdd(e.x, e.y).OverflowFlags = ovf(v) },
			func(i ir.Instruction) ([]uint64, bool) {
				c, ok := i.(*ir.InstAdd)
				if !ok {
					return nil, false
				}
				return ovfBack(c.OverflowFlags), true
			}),
		instCarrier("OverflowFlag", "InstSub", func(e *env, v []uint64) { e.b.NewSub(e.x, e.y).OverflowFlags = ovf(v) },
			func(i ir.Instruction) ([]uint64, bool) {
				c, ok := i.(*ir.InstSub)
				if !ok {
					return nil, false
				}
				return ovfBack(c.OverflowFlags), true
			}),
		instCarrier("OverflowFlag", "InstMul", func(e *env, v []uint64) { e.b.NewMul(e.x, e.y).OverflowFlags = ovf(v) },
			func(i ir.Instruction) ([]uint64, bool) {
				c, ok := i.(*ir.InstMul)
				if !ok {
					return nil, false
				}
				return ovfBack(c.OverflowFlags), true
			}),
		instCarrier("OverflowFlag", "InstShl", func(e *env, v []uint64) { e.b.NewShl(e.x, e.y).OverflowFlags = ovf(v) },
			func(i ir.Instruction) ([]uint64, bool) {
				c, ok := i.(*ir.InstShl)
				if !ok {
					return nil, false
				}
				return ovfBack(c.OverflowFlags), true
			}),
		exprCarrier("ExprAdd", func(v []uint64) constant.Constant { x := constant.NewAdd(one, two); x.OverflowFlags = ovf(v); return x },
			func(c constant.Constant) ([]uint64, bool) {
				x, ok := c.(*constant.ExprAdd)
				if !ok {
					return nil, false
				}
				return ovfBack(x.OverflowFlags), true
			}),
		exprCarrier("ExprSub", func(v []uint64) constant.Constant { x := constant.NewSub(one, two); x.OverflowFlags = ovf(v); return x },
			func(c constant.Constant) ([]uint64, bool) {
				x, ok := c.(*constant.ExprSub)
				if !ok {
					return nil, false
				}
				return ovfBack(x.OverflowFlags), true
			}),
		exprCarrier("ExprMul", func(v []uint64) constant.Constant { x := constant.NewMul(one, two); x.OverflowFlags = ovf(v); return x },
			func(c constant.Constant) ([]uint64, bool) {
				x, ok := c.(*constant.ExprMul)
				if !ok {
					return nil, false
				}
				return ovfBack(x.OverflowFlags), true
			}),
		exprCarrier("ExprShl", func(v []uint64) constant.Constant { x := constant.NewShl(one, two); x.OverflowFlags = ovf(v); return x },
			func(c constant.Constant) ([]uint64, bool) {
				x, ok := c.(*constant.ExprShl)
				if !ok {
					return nil, false
				}
				return ovfBack(x.OverflowFlags), true
			}),
	}
}

var reStruct = regexp.MustCompile(`(?ms)^type (\w+) struct \{(.*?)^\}`)

// carriersInSource finds the struct types of ir and ir/constant with a field `<Field> []enum.<Fam>`.
func carriersInSource() map[string]bool {
	out := map[string]bool{}
	for _, dir := range []string{"ir", filepath.Join("ir", "constant")} {
		files, _ := filepath.Glob(filepath.Join(mbt.Repo, dir, "*.go"))
		for _, f := range files {
			if strings.HasSuffix(f, "_test.go") {
				continue
			}
			src, err := os.ReadFile(f)
			if err != nil {
				mbt.Infra("%v", err)
			}
			for _, m := range reStruct.FindAllStringSubmatch(string(src), -1) {
				for fam, field := range listField {
					if regexp.MustCompile(`(?m)^\s*` + field + `\s+\[\]enum\.` + fam + `\b`).MatchString(m[2]) {
						out[fam+"@"+m[1]] = true
					}
				}
			}
		}
	}
	return out
}

// midTokens returns the tokens of with that are not in the common prefix / suffix with without.
func midTokens(without, with string) []string {
	a, b := strings.Fields(without), strings.Fields(with)
	i := 0
	for i < len(a) && i < len(b) && a[i] == b[i] {
		i++
	}
	j := 0
	for j < len(a)-i && j < len(b)-i && a[len(a)-1-j] == b[len(b)-1-j] {
		j++
	}
	return b[i : len(b)-j]
}

// listOrder is the order in which the members of the set are put into the list: ascending, rotated by a
// function of the set (the property speaks of sets; the order is not to matter).
func listOrder(mask uint64) []uint64 {
	var vals []uint64
	for _, b := range bitsOf(mask) {
		vals = append(vals, uint64(b))
	}
	if n := len(vals); n > 1 {
		k := int(mask % uint64(n))
		vals = append(append([]uint64{}, vals[k:]...), vals[:k]...)
	}
	return vals
}

func parseGuard(text string) (m *ir.Module, err error) {
	if msg, p := mbt.Guard(func() { m, err = asm.ParseString("c18.ll", text) }); p {
		return nil, fmt.Errorf("parser panics: %s", msg)
	}
	return m, err
}

// the line of text that differs from base (first difference)
func diffLine(base, text string) (string, string) {
	a, b := strings.Split(base, "\n"), strings.Split(text, "\n")
	for i := range b {
		if i >= len(a) || a[i] != b[i] {
			if i < len(a) {
				return a[i], b[i]
			}
			return "", b[i]
		}
	}
	return "", ""
}

// listRow places the set mask of family f on carrier c.
func listRow(c carrier, f *family, names map[uint64]string, mask uint64) (*row, string) {
	r := &row{Kind: "set", Fam: c.Fam, Node: c.Type, Bits: bitsOf(mask), Toks: []tok{}, PBack: []int{}, val: mask}
	var nm []string
	for _, b := range bitsOf(mask) {
		nm = append(nm, names[uint64(b)])
	}
	r.Name = strings.Join(nm, "+")
	if r.Name == "" {
		r.Name = "(empty)"
	}
	var base, text string
	if msg, p := mbt.Guard(func() { base = c.Build(nil).String(); text = c.Build(listOrder(mask)).String() }); p {
		r.panicMsg = "printer panics: " + msg
		return r, ""
	}
	l0, l1 := diffLine(base, text)
	toks := midTokens(l0, l1)
	if mask == 0 && text != base {
		mbt.Infra("C18 lists: %s with an empty list prints differently from nil", c.Type)
	}
	r.Printed = strings.Join(toks, " ")
	r.Absent = len(toks) == 0
	for _, t := range toks {
		k := tok{T: t, Bits: []int{}}
		var tv uint64
		if _, p := mbt.Guard(func() { tv = f.From(t) }); !p {
			k.OK, k.Bits = true, []int{int(tv)}
		}
		r.Toks = append(r.Toks, k)
	}
	m2, err := parseGuard(text)
	if err != nil {
		r.perr = err.Error()
		return r, text
	}
	back, err := c.Get(m2)
	if err != nil {
		r.perr = err.Error()
		return r, text
	}
	r.POK = true
	seen := map[uint64]bool{}
	for _, v := range back {
		if !seen[v] {
			seen[v] = true
			r.PBack = append(r.PBack, int(v))
		}
	}
	sort.Ints(r.PBack)
	return r, text
}

// ---------------------------------------------------------------------------------------------------
// combinations

var comboFams = []string{"Linkage", "Preemption", "Visibility", "DLLStorageClass"}

type entity struct {
	Name  string
	Build func(v []uint64) *ir.Module
	Get   func(m *ir.Module) ([]uint64, error)
	// Base: the values of the other families while one family is tried alone (nil: their zero values).  A
	// global declaration needs a linkage (`external`, `extern_weak`) to be a declaration at all.
	Base []uint64
}

func entities() []entity {
	setG := func(g *ir.Global, v []uint64) {
		g.Linkage, g.Preemption, g.Visibility, g.DLLStorageClass = enum.Linkage(v[0]), enum.Preemption(v[1]), enum.Visibility(v[2]), enum.DLLStorageClass(v[3])
	}
	setF := func(g *ir.Func, v []uint64) {
		g.Linkage, g.Preemption, g.Visibility, g.DLLStorageClass = enum.Linkage(v[0]), enum.Preemption(v[1]), enum.Visibility(v[2]), enum.DLLStorageClass(v[3])
	}
	getF := func(m *ir.Module) ([]uint64, error) {
		if len(m.Funcs) != 1 {
			return nil, fmt.Errorf("%d functions", len(m.Funcs))
		}
		g := m.Funcs[0]
		return []uint64{uint64(g.Linkage), uint64(g.Preemption), uint64(g.Visibility), uint64(g.DLLStorageClass)}, nil
	}
	getG := func(m *ir.Module) ([]uint64, error) {
		if len(m.Globals) != 1 {
			return nil, fmt.Errorf("%d globals", len(m.Globals))
		}
		g := m.Globals[0]
		return []uint64{uint64(g.Linkage), uint64(g.Preemption), uint64(g.Visibility), uint64(g.DLLStorageClass)}, nil
	}
	return []entity{
		{"global definition", func(v []uint64) *ir.Module {
			m := ir.NewModule()
			setG(m.NewGlobalDef("g", constant.NewInt(i32, 0)), v)
			return m
		}, getG, nil},
		{"global declaration", func(v []uint64) *ir.Module {
			m := ir.NewModule()
			setG(m.NewGlobal("g", i32), v)
			return m
		}, getG, []uint64{uint64(enum.LinkageExternal), uint64(enum.PreemptionNone), uint64(enum.VisibilityNone), uint64(enum.DLLStorageClassNone)}},
		{"function declaration", func(v []uint64) *ir.Module {
			m := ir.NewModule()
			setF(m.NewFunc("f", types.Void), v)
			return m
		}, getF, nil},
		{"function definition", func(v []uint64) *ir.Module {
			m := ir.NewModule()
			f := m.NewFunc("f", types.Void)
			setF(f, v)
			f.NewBlock("").NewRet(nil)
			return m
		}, getF, nil},
		{"alias", func(v []uint64) *ir.Module {
			m := ir.NewModule()
			g := m.NewGlobalDef("g", constant.NewInt(i32, 0))
			a := m.NewAlias("a", g)
			a.Linkage, a.Preemption, a.Visibility, a.DLLStorageClass = enum.Linkage(v[0]), enum.Preemption(v[1]), enum.Visibility(v[2]), enum.DLLStorageClass(v[3])
			return m
		}, func(m *ir.Module) ([]uint64, error) {
			if len(m.Aliases) != 1 {
				return nil, fmt.Errorf("%d aliases", len(m.Aliases))
			}
			a := m.Aliases[0]
			return []uint64{uint64(a.Linkage), uint64(a.Preemption), uint64(a.Visibility), uint64(a.DLLStorageClass)}, nil
		}, nil},
		{"ifunc", func(v []uint64) *ir.Module {
			m := ir.NewModule()
			fp := types.NewPointer(types.NewFunc(types.Void))
			res := m.NewFunc("resolver", fp)
			res.NewBlock("").NewRet(constant.NewNull(fp))
			a := m.NewIFunc("f", res)
			a.Linkage, a.Preemption, a.Visibility, a.DLLStorageClass = enum.Linkage(v[0]), enum.Preemption(v[1]), enum.Visibility(v[2]), enum.DLLStorageClass(v[3])
			return m
		}, func(m *ir.Module) ([]uint64, error) {
			if len(m.IFuncs) != 1 {
				return nil, fmt.Errorf("%d ifuncs", len(m.IFuncs))
			}
			a := m.IFuncs[0]
			return []uint64{uint64(a.Linkage), uint64(a.Preemption), uint64(a.Visibility), uint64(a.DLLStorageClass)}, nil
		}, nil},
	}
}

// comboTry sets the combination on the entity, prints, parses, reads back.
func comboTry(e entity, v []uint64) (text string, back []uint64, err error) {
	if msg, p := mbt.Guard(func() { text = e.Build(v).String() }); p {
		return "", nil, fmt.Errorf("printer panics: %s", msg)
	}
	m2, err := parseGuard(text)
	if err != nil {
		return text, nil, err
	}
	back, err = e.Get(m2)
	return text, back, err
}

func eq(a, b []uint64) bool {
	if len(a) != len(b) {
		return false
	}
	for i := range a {
		if a[i] != b[i] {
			return false
		}
	}
	return true
}

type comboSiteRow struct {
	Site string     `json:"site"`
	Fams []string   `json:"fams"`
	Vals [][]int    `json:"vals"`
	Kws  [][]string `json:"kws"`
}

var reCombo = regexp.MustCompile(`<<\s*"COMBO",\s*"([^"]+)",\s*<<([^>]*)>>\s*>>`)

type comboRec struct {
	row  *row
	ent  string
	v    []uint64
	text string
	err  error
}

// comboRows: candidates per entity (values that round-trip alone), the product from TLC, one row per combination.
func comboRows(rep *mbt.Report, found map[string]*enumType, regOf map[string]*family, only []replayCase) []*comboRec {
	ents := entities()
	entOf := map[string]entity{}
	for _, e := range ents {
		entOf[e.Name] = e
	}
	name := func(k int, v uint64) string {
		for _, c := range found[comboFams[k]].values() {
			if c.Val == v {
				return c.Name
			}
		}
		return strconv.FormatUint(v, 10)
	}
	var combos [][2]interface{}
	if only != nil {
		for _, c := range only {
			if c.Layer != "combo" {
				continue
			}
			var v []uint64
			for _, s := range c.Extra {
				x, _ := strconv.ParseUint(s, 10, 64)
				v = append(v, x)
			}
			combos = append(combos, [2]interface{}{c.Site, v})
		}
		if len(combos) == 0 {
			return nil
		}
	} else {
		var siteRows []comboSiteRow
		for _, e := range ents {
			sr := comboSiteRow{Site: e.Name, Fams: comboFams}
			for k, fn := range comboFams {
				et := found[fn]
				if et == nil {
					mbt.Infra("specification gap: family %s not found in the source", fn)
				}
				zero, ok := et.constNamed("None")
				if !ok {
					mbt.Infra("specification gap: family %s has no ...None value", fn)
				}
				vals, kws := []int{int(zero)}, []string{""}
				for _, c := range et.values() {
					if c.Val == zero {
						continue
					}
					v := []uint64{0, 0, 0, 0}
					for j, fj := range comboFams {
						z, _ := found[fj].constNamed("None")
						v[j] = z
					}
					if e.Base != nil {
						copy(v, e.Base)
					}
					v[k] = c.Val
					_, back, err := comboTry(e, v)
					if err == nil && eq(back, v) {
						vals = append(vals, int(c.Val))
						kws = append(kws, regOf["enum."+fn].Str(c.Val))
					}
				}
				sr.Vals = append(sr.Vals, vals)
				sr.Kws = append(sr.Kws, kws)
			}
			siteRows = append(siteRows, sr)
		}
		data := map[string][]byte{"combos.ndjson": mbt.NDJSONBytes(siteRows)}
		gen := mbt.MustTLC(mbt.TLCOpts{Spec: "EnumCombo", Cfg: "EnumCombo.cfg", Workers: 2, Timeout: 10 * time.Minute, Data: data})
		if len(gen.Violated) > 0 {
			out := gen.Output
			gen.Cleanup()
			mbt.Infra("EnumCombo.tla: the reference printer/parser of optional keyword positions violates %v on the recorded keywords (two adjacent families share a keyword, or a specification error)\n%s", gen.Violated, mbt.Truncate(out, 2500))
		}
		rep.AddTLC(gen)
		for _, m := range reCombo.FindAllStringSubmatch(gen.Output, -1) {
			var v []uint64
			for _, s := range strings.Split(m[2], ",") {
				x, err := strconv.ParseUint(strings.TrimSpace(s), 10, 64)
				if err != nil {
					mbt.Infra("EnumCombo: cannot parse %q", m[0])
				}
				v = append(v, x)
			}
			combos = append(combos, [2]interface{}{m[1], v})
		}
		want := 0
		for _, sr := range siteRows {
			n := 1
			for _, vs := range sr.Vals {
				n *= len(vs)
			}
			want += n
		}
		gen.Cleanup()
		if len(combos) != want || gen.Distinct != int64(want+len(siteRows)+1) {
			mbt.Infra("EnumCombo generator: %d COMBO lines parsed, %d expected, %d states", len(combos), want, gen.Distinct)
		}
		// vacuity: the wrong reference printer (keyword dropped where another field is set) must be rejected
		vac := mbt.MustTLC(mbt.TLCOpts{Spec: "EnumCombo", Cfg: "EnumComboImplied.cfg", Workers: 2, Timeout: 10 * time.Minute, Data: data})
		rejected := len(vac.Violated) > 0
		vac.Cleanup()
		if !rejected {
			mbt.Infra("EnumCombo.tla: RefRoundTrip holds for the reference printer that drops implied keywords (vacuous law)")
		}
		rep.Extra["combo_generator"] = map[string]interface{}{"families": comboFams, "entities": len(ents), "combinations": want, "vacuity_wrong_printer_rejected": rejected}
	}
	sort.SliceStable(combos, func(i, j int) bool { return combos[i][0].(string) < combos[j][0].(string) })
	var recs []*comboRec
	discarded := 0
	var rejects []*comboRec
	for _, cb := range combos {
		e, ok := entOf[cb[0].(string)]
		if !ok {
			mbt.Infra("EnumCombo names unknown entity %q", cb[0])
		}
		v := cb[1].([]uint64)
		if len(v) != len(comboFams) {
			mbt.Infra("EnumCombo: combination %v of %s", v, e.Name)
		}
		var nm []string
		bitsv := []int{}
		for k, x := range v {
			nm = append(nm, name(k, x))
			bitsv = append(bitsv, int(x))
		}
		r := &row{Kind: "combo", Fam: strings.Join(comboFams, "*"), Node: e.Name, Name: strings.Join(nm, "+"), Bits: bitsv, Toks: []tok{}, PBack: []int{}}
		text, back, err := comboTry(e, v)
		rec := &comboRec{row: r, ent: e.Name, v: v, text: text, err: err}
		r.Printed = firstLine(text)
		if err == nil {
			r.POK = true
			for _, x := range back {
				r.PBack = append(r.PBack, int(x))
			}
		} else {
			rejects = append(rejects, rec)
		}
		recs = append(recs, rec)
	}
	// combinations the library's parser rejects: LLVM arbitrates (rejected there too: discarded)
	drop := map[*comboRec]bool{}
	if len(rejects) > 0 {
		llvmoracle.Require()
		verdict := make([]bool, len(rejects))
		llvmoracle.Parallel(len(rejects), func(i int) {
			if rejects[i].text == "" {
				return // printer panic: stays a failure
			}
			_, ok, _, _ := canon(rejects[i].text)
			verdict[i] = !ok
		})
		for i, rc := range rejects {
			if verdict[i] {
				drop[rc] = true
				discarded++
			}
		}
	}
	var out []*comboRec
	for _, rc := range recs {
		if !drop[rc] {
			out = append(out, rc)
			rep.Count("combo|"+rc.ent+"|"+rc.row.Name, true)
		}
	}
	rep.Extra["combo_rows"] = len(out)
	rep.Extra["combo_discarded_rejected_by_library_and_llvm"] = discarded
	return out
}

// comboSignature: the families whose value did not come back, and the minimal description of the context.
func comboFailure(rc *comboRec, found map[string]*enumType) mbt.Failure {
	r := rc.row
	extra := []string{}
	for _, x := range rc.v {
		extra = append(extra, strconv.FormatUint(x, 10))
	}
	cs := replayCase{Layer: "combo", Fam: r.Fam, Site: rc.ent, Extra: extra}
	if !r.POK {
		return mbt.Failure{Signature: "C18|" + rc.ent + ".combination|the library's parser rejects the printed combination that LLVM 14 accepts|" + r.Name,
			What: fmt.Sprintf("%s with %s: %v\n%s", rc.ent, r.Name, rc.err, rc.text), Case: cs}
	}
	var lost []string
	for k := range rc.v {
		if k < len(r.PBack) && uint64(r.PBack[k]) != rc.v[k] {
			n := strconv.Itoa(r.PBack[k])
			for _, c := range found[comboFams[k]].values() {
				if c.Val == rc.v[k] {
					n = c.Name
				}
			}
			lost = append(lost, n)
		}
	}
	return mbt.Failure{Signature: "C18|" + rc.ent + ".combination|value does not come back when set together with other enumerated fields of the entity|" + strings.Join(lost, "+"),
		What: fmt.Sprintf("%s with %s (%v) is printed `%s` and read back as %v", rc.ent, r.Name, rc.v, r.Printed, r.PBack), Case: cs}
}

var _ = bits.OnesCount64
