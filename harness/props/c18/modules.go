package c18

import (
	"fmt"

	asmenum "github.com/llir/llvm/asm/enum"
	"github.com/llir/llvm/ir"
	"github.com/llir/llvm/ir/constant"
	"github.com/llir/llvm/ir/enum"
	"github.com/llir/llvm/ir/metadata"
	"github.com/llir/llvm/ir/types"
	"github.com/llir/llvm/ir/value"

	"verif/harness/mbt"
)

// A site is a grammatical position of a keyword family in a module: how to
// build (through the ir API, so that the real printers produce the text) a
// minimal module that uses value v there, and how to read the value back from
// the module the real parser produced.  Several shapes are tried in order
// until LLVM 14 accepts one (e.g. `external` needs a declaration, `appending`
// an array).
type site struct {
	Fam, Name string
	Shapes    []shape
}

type shape struct {
	Name    string
	Build   func(v uint64) *ir.Module
	Extract func(m *ir.Module) (uint64, error)
}

var i32 = types.I32

func global(m *ir.Module) (*ir.Global, error) {
	if len(m.Globals) != 1 {
		return nil, fmt.Errorf("%d globals", len(m.Globals))
	}
	return m.Globals[0], nil
}

// globalSite builds sites for a field of a global variable.
func globalSite(fam, name string, set func(g *ir.Global, v uint64), get func(g *ir.Global) uint64) site {
	ex := func(m *ir.Module) (uint64, error) {
		g, err := global(m)
		if err != nil {
			return 0, err
		}
		return get(g), nil
	}
	return site{Fam: fam, Name: name, Shapes: []shape{
		{"definition", func(v uint64) *ir.Module {
			m := ir.NewModule()
			set(m.NewGlobalDef("g", constant.NewInt(i32, 0)), v)
			return m
		}, ex},
		{"declaration", func(v uint64) *ir.Module {
			m := ir.NewModule()
			set(m.NewGlobal("g", i32), v)
			return m
		}, ex},
		{"external declaration", func(v uint64) *ir.Module {
			m := ir.NewModule()
			g := m.NewGlobal("g", i32)
			g.Linkage = enum.LinkageExternal
			set(g, v)
			return m
		}, ex},
		{"array definition", func(v uint64) *ir.Module {
			m := ir.NewModule()
			set(m.NewGlobalDef("g", constant.NewZeroInitializer(types.NewArray(1, i32))), v)
			return m
		}, ex},
	}}
}

func fn(m *ir.Module, i int) (*ir.Func, error) {
	if len(m.Funcs) <= i {
		return nil, fmt.Errorf("%d functions", len(m.Funcs))
	}
	return m.Funcs[i], nil
}

// declSite builds sites for a field of a function declaration / definition.
func declSite(fam, name string, ret types.Type, params func() []*ir.Param, set func(f *ir.Func, v uint64), get func(f *ir.Func) (uint64, error)) site {
	ex := func(m *ir.Module) (uint64, error) {
		f, err := fn(m, 0)
		if err != nil {
			return 0, err
		}
		return get(f)
	}
	return site{Fam: fam, Name: name, Shapes: []shape{
		{"declare", func(v uint64) *ir.Module {
			m := ir.NewModule()
			set(m.NewFunc("f", ret, params()...), v)
			return m
		}, ex},
		{"define", func(v uint64) *ir.Module {
			m := ir.NewModule()
			f := m.NewFunc("f", ret, params()...)
			set(f, v)
			b := f.NewBlock("")
			if types.Equal(ret, types.Void) {
				b.NewRet(nil)
			} else {
				b.NewRet(constant.NewZeroInitializer(ret))
			}
			return m
		}, ex},
	}}
}

// instSite builds a site for an instruction inside `define void @f(i32 %x, i32 %y, float %a, float %b, i32* %p, float* %q)`.
type env struct {
	m          *ir.Module
	f          *ir.Func
	b          *ir.Block
	x, y, a, c value.Value
	p, q       value.Value
	callee     *ir.Func
}

func newEnv() *env {
	m := ir.NewModule()
	callee := m.NewFunc("callee", types.Void)
	f := m.NewFunc("f", types.Void, ir.NewParam("x", i32), ir.NewParam("y", i32), ir.NewParam("a", types.Float), ir.NewParam("b", types.Float),
		ir.NewParam("p", types.NewPointer(i32)), ir.NewParam("q", types.NewPointer(types.Float)))
	return &env{m: m, f: f, b: f.NewBlock(""), x: f.Params[0], y: f.Params[1], a: f.Params[2], c: f.Params[3], p: f.Params[4], q: f.Params[5], callee: callee}
}

func instSite(fam, name string, shapes ...instShape) site {
	s := site{Fam: fam, Name: name}
	for _, sh := range shapes {
		sh := sh
		s.Shapes = append(s.Shapes, shape{sh.Name, func(v uint64) *ir.Module {
			e := newEnv()
			sh.Emit(e, v)
			e.b.NewRet(nil)
			return e.m
		}, func(m *ir.Module) (uint64, error) {
			f, err := fn(m, 1)
			if err != nil {
				return 0, err
			}
			if len(f.Blocks) != 1 || len(f.Blocks[0].Insts) < 1 {
				return 0, fmt.Errorf("unexpected body")
			}
			return sh.Get(f.Blocks[0].Insts[0])
		}})
	}
	return s
}

type instShape struct {
	Name string
	Emit func(e *env, v uint64)
	Get  func(inst ir.Instruction) (uint64, error)
}

func wrongInst(inst ir.Instruction) (uint64, error) {
	return 0, fmt.Errorf("parsed instruction is %T", inst)
}

// otherType: the parsed module holds the keyword as a value of another Go type than the enumerated
// type it was printed from.
type otherType struct{ typ string }

func (o otherType) Error() string { return "held as " + o.typ }

func firstFuncAttr(f *ir.Func) (uint64, error) {
	for _, a := range f.FuncAttrs {
		if e, ok := a.(enum.FuncAttr); ok {
			return uint64(e), nil
		}
	}
	// the parser may hold a keyword in a richer attribute type (`uwtable` becomes ir.UnwindTable): the
	// attribute denotes the enum value whose keyword it prints (decided by the real FromString table),
	// but it is not the value that was printed -- reported as otherType by roundTrip
	if len(f.FuncAttrs) == 1 {
		var v uint64
		if _, p := mbt.Guard(func() { v = uint64(asmenum.FuncAttrFromString(f.FuncAttrs[0].String())) }); !p {
			return v, otherType{fmt.Sprintf("%T", f.FuncAttrs[0])}
		}
	}
	return 0, fmt.Errorf("no enum function attribute among %d attributes", len(f.FuncAttrs))
}

func mdModule(named string, defs ...metadata.Definition) *ir.Module {
	m := ir.NewModule()
	m.MetadataDefs = append(m.MetadataDefs, defs...)
	m.NamedMetadataDefs[named] = &metadata.NamedDef{Name: named, Nodes: []metadata.Node{defs[len(defs)-1].(metadata.Node)}}
	return m
}

// mdSite: the node under test is the LAST metadata definition.
func mdSite(fam, name, named string, build func(v uint64) []metadata.Definition, get func(d metadata.Definition) (uint64, error)) site {
	return site{Fam: fam, Name: name, Shapes: []shape{{"node", func(v uint64) *ir.Module {
		return mdModule(named, build(v)...)
	}, func(m *ir.Module) (uint64, error) {
		if len(m.MetadataDefs) == 0 {
			return 0, fmt.Errorf("no metadata definition")
		}
		return get(m.MetadataDefs[len(m.MetadataDefs)-1])
	}}}}
}

func file() *metadata.DIFile {
	return &metadata.DIFile{MetadataID: -1, Filename: "a.c", Directory: "/"}
}

// checksumSite: the checksum must have the length the kind demands (32, 40 or 64 hex digits).
func checksumSite() site {
	s := site{Fam: "ChecksumKind", Name: "DIFile.checksumkind"}
	for _, n := range []int{32, 40, 64} {
		n := n
		s.Shapes = append(s.Shapes, shape{fmt.Sprintf("checksum of %d digits", n), func(v uint64) *ir.Module {
			sum := ""
			for len(sum) < n {
				sum += "d41d8cd98f00b204"
			}
			return mdModule("n", &metadata.DIFile{MetadataID: -1, Filename: "a.c", Directory: "/", Checksumkind: enum.ChecksumKind(v), Checksum: sum[:n]})
		}, func(m *ir.Module) (uint64, error) {
			if len(m.MetadataDefs) != 1 {
				return 0, fmt.Errorf("%d metadata definitions", len(m.MetadataDefs))
			}
			if b, ok := m.MetadataDefs[0].(*metadata.DIFile); ok {
				return uint64(b.Checksumkind), nil
			}
			return 0, fmt.Errorf("parsed node is %T", m.MetadataDefs[0])
		}})
	}
	return s
}

func sites() []site {
	ptr := types.NewPointer(i32)
	var ss []site
	// --- globals
	ss = append(ss,
		globalSite("Linkage", "global.linkage", func(g *ir.Global, v uint64) { g.Linkage = enum.Linkage(v) }, func(g *ir.Global) uint64 { return uint64(g.Linkage) }),
		globalSite("Visibility", "global.visibility", func(g *ir.Global, v uint64) { g.Visibility = enum.Visibility(v) }, func(g *ir.Global) uint64 { return uint64(g.Visibility) }),
		globalSite("DLLStorageClass", "global.dllstorage", func(g *ir.Global, v uint64) { g.DLLStorageClass = enum.DLLStorageClass(v) }, func(g *ir.Global) uint64 { return uint64(g.DLLStorageClass) }),
		globalSite("TLSModel", "global.tls", func(g *ir.Global, v uint64) { g.TLSModel = enum.TLSModel(v) }, func(g *ir.Global) uint64 { return uint64(g.TLSModel) }),
		globalSite("Preemption", "global.preemption", func(g *ir.Global, v uint64) { g.Preemption = enum.Preemption(v) }, func(g *ir.Global) uint64 { return uint64(g.Preemption) }),
		globalSite("UnnamedAddr", "global.unnamed_addr", func(g *ir.Global, v uint64) { g.UnnamedAddr = enum.UnnamedAddr(v) }, func(g *ir.Global) uint64 { return uint64(g.UnnamedAddr) }),
		globalSite("SanitizerKind", "global.sanitizer", func(g *ir.Global, v uint64) { g.Sanitizer = enum.SanitizerKind(v) }, func(g *ir.Global) uint64 { return uint64(g.Sanitizer) }),
	)
	ss = append(ss, site{Fam: "FloatKind", Name: "global.type", Shapes: []shape{{"external declaration", func(v uint64) *ir.Module {
		m := ir.NewModule()
		m.NewGlobal("g", &types.FloatType{Kind: types.FloatKind(v)}).Linkage = enum.LinkageExternal
		return m
	}, func(m *ir.Module) (uint64, error) {
		g, err := global(m)
		if err != nil {
			return 0, err
		}
		ft, ok := g.ContentType.(*types.FloatType)
		if !ok {
			return 0, fmt.Errorf("content type %T", g.ContentType)
		}
		return uint64(ft.Kind), nil
	}}}})
	ss = append(ss, site{Fam: "SelectionKind", Name: "comdat.kind", Shapes: []shape{{"comdat", func(v uint64) *ir.Module {
		m := ir.NewModule()
		cd := &ir.ComdatDef{Name: "g", Kind: enum.SelectionKind(v)}
		m.ComdatDefs = append(m.ComdatDefs, cd)
		m.NewGlobalDef("g", constant.NewInt(i32, 0)).Comdat = cd
		return m
	}, func(m *ir.Module) (uint64, error) {
		if len(m.ComdatDefs) != 1 {
			return 0, fmt.Errorf("%d comdats", len(m.ComdatDefs))
		}
		return uint64(m.ComdatDefs[0].Kind), nil
	}}}})
	// --- aliases and ifuncs: the same six families, printed by Alias.LLString / IFunc.LLString
	for _, gf := range []struct {
		fam, suffix string
		setA        func(a *ir.Alias, v uint64)
		getA        func(a *ir.Alias) uint64
		setI        func(a *ir.IFunc, v uint64)
		getI        func(a *ir.IFunc) uint64
	}{
		{"Linkage", "linkage", func(a *ir.Alias, v uint64) { a.Linkage = enum.Linkage(v) }, func(a *ir.Alias) uint64 { return uint64(a.Linkage) },
			func(a *ir.IFunc, v uint64) { a.Linkage = enum.Linkage(v) }, func(a *ir.IFunc) uint64 { return uint64(a.Linkage) }},
		{"Visibility", "visibility", func(a *ir.Alias, v uint64) { a.Visibility = enum.Visibility(v) }, func(a *ir.Alias) uint64 { return uint64(a.Visibility) },
			func(a *ir.IFunc, v uint64) { a.Visibility = enum.Visibility(v) }, func(a *ir.IFunc) uint64 { return uint64(a.Visibility) }},
		{"DLLStorageClass", "dllstorage", func(a *ir.Alias, v uint64) { a.DLLStorageClass = enum.DLLStorageClass(v) }, func(a *ir.Alias) uint64 { return uint64(a.DLLStorageClass) },
			func(a *ir.IFunc, v uint64) { a.DLLStorageClass = enum.DLLStorageClass(v) }, func(a *ir.IFunc) uint64 { return uint64(a.DLLStorageClass) }},
		{"TLSModel", "tls", func(a *ir.Alias, v uint64) { a.TLSModel = enum.TLSModel(v) }, func(a *ir.Alias) uint64 { return uint64(a.TLSModel) },
			func(a *ir.IFunc, v uint64) { a.TLSModel = enum.TLSModel(v) }, func(a *ir.IFunc) uint64 { return uint64(a.TLSModel) }},
		{"Preemption", "preemption", func(a *ir.Alias, v uint64) { a.Preemption = enum.Preemption(v) }, func(a *ir.Alias) uint64 { return uint64(a.Preemption) },
			func(a *ir.IFunc, v uint64) { a.Preemption = enum.Preemption(v) }, func(a *ir.IFunc) uint64 { return uint64(a.Preemption) }},
		{"UnnamedAddr", "unnamed_addr", func(a *ir.Alias, v uint64) { a.UnnamedAddr = enum.UnnamedAddr(v) }, func(a *ir.Alias) uint64 { return uint64(a.UnnamedAddr) },
			func(a *ir.IFunc, v uint64) { a.UnnamedAddr = enum.UnnamedAddr(v) }, func(a *ir.IFunc) uint64 { return uint64(a.UnnamedAddr) }},
	} {
		gf := gf
		ss = append(ss, site{Fam: gf.fam, Name: "alias." + gf.suffix, Shapes: []shape{{"alias of a global", func(v uint64) *ir.Module {
			m := ir.NewModule()
			g := m.NewGlobalDef("g", constant.NewInt(i32, 0))
			gf.setA(m.NewAlias("a", g), v)
			return m
		}, func(m *ir.Module) (uint64, error) {
			if len(m.Aliases) != 1 {
				return 0, fmt.Errorf("%d aliases", len(m.Aliases))
			}
			return gf.getA(m.Aliases[0]), nil
		}}}})
		ss = append(ss, site{Fam: gf.fam, Name: "ifunc." + gf.suffix, Shapes: []shape{{"ifunc with a resolver", func(v uint64) *ir.Module {
			m := ir.NewModule()
			fp := types.NewPointer(types.NewFunc(types.Void))
			res := m.NewFunc("resolver", fp)
			res.NewBlock("").NewRet(constant.NewNull(fp))
			gf.setI(m.NewIFunc("f", res), v)
			return m
		}, func(m *ir.Module) (uint64, error) {
			if len(m.IFuncs) != 1 {
				return 0, fmt.Errorf("%d ifuncs", len(m.IFuncs))
			}
			return gf.getI(m.IFuncs[0]), nil
		}}}})
	}
	// --- function headers
	noParams := func() []*ir.Param { return nil }
	ss = append(ss,
		declSite("Linkage", "func.linkage", types.Void, noParams, func(f *ir.Func, v uint64) { f.Linkage = enum.Linkage(v) }, func(f *ir.Func) (uint64, error) { return uint64(f.Linkage), nil }),
		declSite("CallingConv", "func.callingconv", types.Void, noParams, func(f *ir.Func, v uint64) { f.CallingConv = enum.CallingConv(v) }, func(f *ir.Func) (uint64, error) { return uint64(f.CallingConv), nil }),
		declSite("Visibility", "func.visibility", types.Void, noParams, func(f *ir.Func, v uint64) { f.Visibility = enum.Visibility(v) }, func(f *ir.Func) (uint64, error) { return uint64(f.Visibility), nil }),
		declSite("FuncAttr", "func.attr", types.Void, noParams, func(f *ir.Func, v uint64) { f.FuncAttrs = append(f.FuncAttrs, enum.FuncAttr(v)) }, firstFuncAttr),
		declSite("UnwindTableKind", "func.uwtable", types.Void, noParams, func(f *ir.Func, v uint64) {
			f.FuncAttrs = append(f.FuncAttrs, ir.UnwindTable{Kind: enum.UnwindTableKind(v)})
		}, func(f *ir.Func) (uint64, error) {
			for _, a := range f.FuncAttrs {
				switch a := a.(type) {
				case ir.UnwindTable:
					return uint64(a.Kind), nil
				case *ir.UnwindTable:
					return uint64(a.Kind), nil
				case enum.FuncAttr: // plain `uwtable`
					return 0, nil
				}
			}
			return 0, fmt.Errorf("no uwtable attribute")
		}),
	)
	for _, t := range []types.Type{ptr, i32} {
		t := t
		ss = append(ss,
			declSite("ParamAttr", "param.attr("+t.String()+")", types.Void, func() []*ir.Param { return []*ir.Param{ir.NewParam("", t)} },
				func(f *ir.Func, v uint64) { f.Params[0].Attrs = append(f.Params[0].Attrs, enum.ParamAttr(v)) },
				func(f *ir.Func) (uint64, error) {
					if len(f.Params) != 1 {
						return 0, fmt.Errorf("%d params", len(f.Params))
					}
					for _, a := range f.Params[0].Attrs {
						if e, ok := a.(enum.ParamAttr); ok {
							return uint64(e), nil
						}
					}
					return 0, fmt.Errorf("no enum parameter attribute")
				}),
			declSite("ReturnAttr", "return.attr("+t.String()+")", t, noParams,
				func(f *ir.Func, v uint64) { f.ReturnAttrs = append(f.ReturnAttrs, enum.ReturnAttr(v)) },
				func(f *ir.Func) (uint64, error) {
					for _, a := range f.ReturnAttrs {
						if e, ok := a.(enum.ReturnAttr); ok {
							return uint64(e), nil
						}
					}
					return 0, fmt.Errorf("no enum return attribute")
				}),
		)
	}
	// --- instructions
	ss = append(ss,
		instSite("IPred", "icmp.pred", instShape{"icmp", func(e *env, v uint64) { e.b.NewICmp(enum.IPred(v), e.x, e.y) }, func(i ir.Instruction) (uint64, error) {
			if c, ok := i.(*ir.InstICmp); ok {
				return uint64(c.Pred), nil
			}
			return wrongInst(i)
		}}),
		instSite("FPred", "fcmp.pred", instShape{"fcmp", func(e *env, v uint64) { e.b.NewFCmp(enum.FPred(v), e.a, e.c) }, func(i ir.Instruction) (uint64, error) {
			if c, ok := i.(*ir.InstFCmp); ok {
				return uint64(c.Pred), nil
			}
			return wrongInst(i)
		}}),
		instSite("AtomicOrdering", "atomic.ordering",
			instShape{"fence", func(e *env, v uint64) { e.b.NewFence(enum.AtomicOrdering(v)) }, func(i ir.Instruction) (uint64, error) {
				if c, ok := i.(*ir.InstFence); ok {
					return uint64(c.Ordering), nil
				}
				return wrongInst(i)
			}},
			instShape{"load atomic", func(e *env, v uint64) {
				l := e.b.NewLoad(i32, e.p)
				l.Atomic, l.Ordering, l.Align = true, enum.AtomicOrdering(v), 4
			}, func(i ir.Instruction) (uint64, error) {
				if c, ok := i.(*ir.InstLoad); ok {
					return uint64(c.Ordering), nil
				}
				return wrongInst(i)
			}},
			instShape{"cmpxchg failure ordering", func(e *env, v uint64) {
				e.b.NewCmpXchg(e.p, e.x, e.y, enum.AtomicOrderingSequentiallyConsistent, enum.AtomicOrdering(v))
			}, func(i ir.Instruction) (uint64, error) {
				if c, ok := i.(*ir.InstCmpXchg); ok {
					return uint64(c.FailureOrdering), nil
				}
				return wrongInst(i)
			}}),
		instSite("AtomicOp", "atomicrmw.op",
			instShape{"atomicrmw i32", func(e *env, v uint64) {
				e.b.NewAtomicRMW(enum.AtomicOp(v), e.p, e.x, enum.AtomicOrderingSequentiallyConsistent)
			}, func(i ir.Instruction) (uint64, error) {
				if c, ok := i.(*ir.InstAtomicRMW); ok {
					return uint64(c.Op), nil
				}
				return wrongInst(i)
			}},
			instShape{"atomicrmw float", func(e *env, v uint64) {
				e.b.NewAtomicRMW(enum.AtomicOp(v), e.q, e.a, enum.AtomicOrderingSequentiallyConsistent)
			}, func(i ir.Instruction) (uint64, error) {
				if c, ok := i.(*ir.InstAtomicRMW); ok {
					return uint64(c.Op), nil
				}
				return wrongInst(i)
			}}),
		instSite("FastMathFlag", "fadd.fastmath", instShape{"fadd", func(e *env, v uint64) {
			e.b.NewFAdd(e.a, e.c).FastMathFlags = []enum.FastMathFlag{enum.FastMathFlag(v)}
		}, func(i ir.Instruction) (uint64, error) {
			if c, ok := i.(*ir.InstFAdd); ok && len(c.FastMathFlags) == 1 {
				return uint64(c.FastMathFlags[0]), nil
			}
			return wrongInst(i)
		}}),
		instSite("OverflowFlag", "add.overflow", instShape{"add", func(e *env, v uint64) {
			e.b.NewAdd(e.x, e.y).OverflowFlags = []enum.OverflowFlag{enum.OverflowFlag(v)}
		}, func(i ir.Instruction) (uint64, error) {
			if c, ok := i.(*ir.InstAdd); ok && len(c.OverflowFlags) == 1 {
				return uint64(c.OverflowFlags[0]), nil
			}
			return wrongInst(i)
		}}),
		instSite("Tail", "call.tail", instShape{"call", func(e *env, v uint64) { e.b.NewCall(e.callee).Tail = enum.Tail(v) }, func(i ir.Instruction) (uint64, error) {
			if c, ok := i.(*ir.InstCall); ok {
				return uint64(c.Tail), nil
			}
			return wrongInst(i)
		}}),
		instSite("CallingConv", "call.callingconv", instShape{"call", func(e *env, v uint64) {
			e.callee.CallingConv = enum.CallingConv(v)
			e.b.NewCall(e.callee).CallingConv = enum.CallingConv(v)
		}, func(i ir.Instruction) (uint64, error) {
			if c, ok := i.(*ir.InstCall); ok {
				return uint64(c.CallingConv), nil
			}
			return wrongInst(i)
		}}),
	)
	// calling convention on the terminators that call
	ss = append(ss, site{Fam: "CallingConv", Name: "invoke.callingconv", Shapes: []shape{{"invoke", func(v uint64) *ir.Module {
		m := ir.NewModule()
		pers := m.NewFunc("pers", i32)
		pers.Sig.Variadic = true
		callee := m.NewFunc("callee", types.Void)
		callee.CallingConv = enum.CallingConv(v)
		f := m.NewFunc("f", types.Void)
		f.Personality = pers
		entry, ok, lp := f.NewBlock("entry"), f.NewBlock("ok"), f.NewBlock("lp")
		entry.NewInvoke(callee, nil, ok, lp).CallingConv = enum.CallingConv(v)
		ok.NewRet(nil)
		lp.NewLandingPad(types.NewStruct(types.NewPointer(types.I8), i32)).Cleanup = true
		lp.NewRet(nil)
		return m
	}, func(m *ir.Module) (uint64, error) {
		f, err := fn(m, 2)
		if err != nil {
			return 0, err
		}
		if len(f.Blocks) != 3 {
			return 0, fmt.Errorf("unexpected body")
		}
		inv, ok := f.Blocks[0].Term.(*ir.TermInvoke)
		if !ok {
			return 0, fmt.Errorf("terminator is %T", f.Blocks[0].Term)
		}
		return uint64(inv.CallingConv), nil
	}}}})
	// landingpad clause
	ss = append(ss, site{Fam: "ClauseType", Name: "landingpad.clause", Shapes: []shape{{"invoke+landingpad", func(v uint64) *ir.Module {
		m := ir.NewModule()
		i8p := types.NewPointer(types.I8)
		pers := m.NewFunc("pers", i32)
		pers.Sig.Variadic = true
		callee := m.NewFunc("callee", types.Void)
		f := m.NewFunc("f", types.Void)
		f.Personality = pers
		entry, ok, lp := f.NewBlock("entry"), f.NewBlock("ok"), f.NewBlock("lp")
		entry.NewInvoke(callee, nil, ok, lp)
		ok.NewRet(nil)
		var x value.Value = constant.NewNull(i8p)
		if enum.ClauseType(v) == enum.ClauseTypeFilter {
			x = constant.NewZeroInitializer(types.NewArray(0, i8p))
		}
		lp.NewLandingPad(types.NewStruct(i8p, i32), ir.NewClause(enum.ClauseType(v), x))
		lp.NewRet(nil)
		return m
	}, func(m *ir.Module) (uint64, error) {
		f, err := fn(m, 2)
		if err != nil {
			return 0, err
		}
		if len(f.Blocks) != 3 || len(f.Blocks[2].Insts) != 1 {
			return 0, fmt.Errorf("unexpected body")
		}
		lp, ok := f.Blocks[2].Insts[0].(*ir.InstLandingPad)
		if !ok || len(lp.Clauses) != 1 {
			return wrongInst(f.Blocks[2].Insts[0])
		}
		return uint64(lp.Clauses[0].Type), nil
	}}}})
	// --- debug info
	cu := func(set func(c *metadata.DICompileUnit)) []metadata.Definition {
		f := file()
		c := &metadata.DICompileUnit{MetadataID: -1, Distinct: true, Language: enum.DwarfLangC99, File: f, EmissionKind: enum.EmissionKindFullDebug}
		set(c)
		return []metadata.Definition{f, c}
	}
	getCU := func(get func(c *metadata.DICompileUnit) uint64) func(d metadata.Definition) (uint64, error) {
		return func(d metadata.Definition) (uint64, error) {
			c, ok := d.(*metadata.DICompileUnit)
			if !ok {
				return 0, fmt.Errorf("parsed node is %T", d)
			}
			return get(c), nil
		}
	}
	ss = append(ss,
		mdSite("DwarfLang", "DICompileUnit.language", "llvm.dbg.cu", func(v uint64) []metadata.Definition {
			return cu(func(c *metadata.DICompileUnit) { c.Language = enum.DwarfLang(v) })
		}, getCU(func(c *metadata.DICompileUnit) uint64 { return uint64(c.Language) })),
		mdSite("EmissionKind", "DICompileUnit.emissionKind", "llvm.dbg.cu", func(v uint64) []metadata.Definition {
			return cu(func(c *metadata.DICompileUnit) { c.EmissionKind = enum.EmissionKind(v) })
		}, getCU(func(c *metadata.DICompileUnit) uint64 { return uint64(c.EmissionKind) })),
		mdSite("NameTableKind", "DICompileUnit.nameTableKind", "llvm.dbg.cu", func(v uint64) []metadata.Definition {
			return cu(func(c *metadata.DICompileUnit) { c.NameTableKind = enum.NameTableKind(v) })
		}, getCU(func(c *metadata.DICompileUnit) uint64 { return uint64(c.NameTableKind) })),
		mdSite("DwarfAttEncoding", "DIBasicType.encoding", "n", func(v uint64) []metadata.Definition {
			return []metadata.Definition{&metadata.DIBasicType{MetadataID: -1, Name: "t", Size: 32, Encoding: enum.DwarfAttEncoding(v)}}
		}, func(d metadata.Definition) (uint64, error) {
			if b, ok := d.(*metadata.DIBasicType); ok {
				return uint64(b.Encoding), nil
			}
			return 0, fmt.Errorf("parsed node is %T", d)
		}),
		mdSite("DwarfTag", "GenericDINode.tag", "n", func(v uint64) []metadata.Definition {
			return []metadata.Definition{&metadata.GenericDINode{MetadataID: -1, Tag: enum.DwarfTag(v)}}
		}, func(d metadata.Definition) (uint64, error) {
			if b, ok := d.(*metadata.GenericDINode); ok {
				return uint64(b.Tag), nil
			}
			return 0, fmt.Errorf("parsed node is %T", d)
		}),
		checksumSite(),
		mdSite("DwarfVirtuality", "DISubprogram.virtuality", "n", func(v uint64) []metadata.Definition {
			return []metadata.Definition{&metadata.DISubprogram{MetadataID: -1, Name: "f", Virtuality: enum.DwarfVirtuality(v)}}
		}, func(d metadata.Definition) (uint64, error) {
			if b, ok := d.(*metadata.DISubprogram); ok {
				return uint64(b.Virtuality), nil
			}
			return 0, fmt.Errorf("parsed node is %T", d)
		}),
		mdSite("DwarfCC", "DISubroutineType.cc", "n", func(v uint64) []metadata.Definition {
			return []metadata.Definition{&metadata.DISubroutineType{MetadataID: -1, CC: enum.DwarfCC(v), Types: &metadata.Tuple{MetadataID: -1}}}
		}, func(d metadata.Definition) (uint64, error) {
			if b, ok := d.(*metadata.DISubroutineType); ok {
				return uint64(b.CC), nil
			}
			return 0, fmt.Errorf("parsed node is %T", d)
		}),
		mdSite("DwarfMacinfo", "DIMacro.type", "n", func(v uint64) []metadata.Definition {
			return []metadata.Definition{&metadata.DIMacro{MetadataID: -1, Type: enum.DwarfMacinfo(v), Name: "N", Value: "1"}}
		}, func(d metadata.Definition) (uint64, error) {
			if b, ok := d.(*metadata.DIMacro); ok {
				return uint64(b.Type), nil
			}
			return 0, fmt.Errorf("parsed node is %T", d)
		}),
		mdSite("DwarfOp", "DIExpression.op", "n", func(v uint64) []metadata.Definition {
			ex := &metadata.DIExpression{MetadataID: -1, Fields: []metadata.DIExpressionField{enum.DwarfOp(v)}}
			return []metadata.Definition{&metadata.Tuple{MetadataID: -1, Fields: []metadata.Field{ex}}}
		}, func(d metadata.Definition) (uint64, error) {
			t, ok := d.(*metadata.Tuple)
			if !ok || len(t.Fields) != 1 {
				return 0, fmt.Errorf("parsed node is %T", d)
			}
			ex, ok := t.Fields[0].(*metadata.DIExpression)
			if !ok || len(ex.Fields) != 1 {
				return 0, fmt.Errorf("parsed field is %T", t.Fields[0])
			}
			op, ok := ex.Fields[0].(enum.DwarfOp)
			if !ok {
				return 0, fmt.Errorf("parsed expression field is %T", ex.Fields[0])
			}
			return uint64(op), nil
		}),
	)
	return ss
}
