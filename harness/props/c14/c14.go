// Package c14 checks property C14: observing the IR (printing, Type, Ident,
// Operands, Succs) never changes it.
//
// (S) spec/IRState.tla is checked by TLC: with ValidateOnPrint = FALSE (what the
// property requires of printing) ObserverTransparent and PrintTwiceSame hold on
// every reachable state; with TRUE (the code as implemented) TLC reports the
// print-edit-print counterexample.
// (G) every transition TLC explores (a history prefix plus the next call) is
// written out by the ACTION_CONSTRAINT Emit and replayed twice into the real ir
// API -- with and without its observer calls; the final Module.String() (or the
// class of its panic) must agree, and printing once more must give the same.
package c14

import (
	"fmt"
	"os"
	"path/filepath"
	"regexp"
	"sort"
	"strings"
	"sync"
	"time"

	"verif/harness/mbt"
	"verif/harness/props/irhist"
	"verif/harness/props/reg"
)

func init() { reg.Register("C14", Run) }

// maxHung: after so many histories in which a call of the library did not return, the remaining
// transitions are not replayed (each would cost the deadline); the run ends with those verdicts.
const maxHung = 3

const (
	sigLocal  = "C14|print-edit-print|panic|cached local ID validated against position"
	sigGlobal = "C14|print-edit-print|panic|cached global ID validated against position"
)

// observersBeforeMutator lists the observer ops of h that are followed by a mutator.
func observersBeforeMutator(h []irhist.Call) []string {
	lastMut := -1
	for i, c := range h {
		if !irhist.IsObserver(c.Op) {
			lastMut = i
		}
	}
	set := map[string]bool{}
	for i, c := range h {
		if i < lastMut && irhist.IsObserver(c.Op) {
			set[c.Op] = true
		}
	}
	var out []string
	for k := range set {
		out = append(out, k)
	}
	sort.Strings(out)
	return out
}

func allObservers(h []irhist.Call) []string {
	set := map[string]bool{}
	for _, c := range h {
		if irhist.IsObserver(c.Op) {
			set[c.Op] = true
		}
	}
	var out []string
	for k := range set {
		out = append(out, k)
	}
	sort.Strings(out)
	return out
}

// signature classifies a with/without difference.
func signature(h []irhist.Call, with, without irhist.Result) string {
	switch {
	case with.Hung != "":
		return "C14|observed history|does not return|" + with.Hung
	case without.Hung != "":
		return "C14|unobserved history|does not return|" + without.Hung
	case with.EarlyMsg != "" || without.EarlyMsg != "":
		m := with.EarlyMsg
		if m == "" {
			m = without.EarlyMsg
		}
		return "C14|mutator|panic|" + irhist.PanicClass(m)
	case with.Panicked && !without.Panicked:
		switch irhist.PanicClass(with.Msg) {
		case "invalid local ID":
			return sigLocal
		case "invalid global ID":
			return sigGlobal
		}
		return "C14|observed history|panic|" + irhist.PanicClass(with.Msg)
	case !with.Panicked && without.Panicked:
		return "C14|unobserved history|panic|" + irhist.PanicClass(without.Msg)
	case with.Panicked && without.Panicked && irhist.PanicClass(with.Msg) == "invalid local ID":
		return sigLocal
	case with.Panicked && without.Panicked && irhist.PanicClass(with.Msg) == "invalid global ID":
		return sigGlobal
	case with.Panicked && without.Panicked:
		return "C14|observed history|panic class differs|" + irhist.PanicClass(with.Msg) + " vs " + irhist.PanicClass(without.Msg)
	}
	if what := staleTypeOf(with, without); what != "" {
		return "C14|observe-edit-print|stale cached type|" + what
	}
	return "C14|observed history|text differs|observers " + strings.Join(allObservers(h), "+")
}

type stats struct {
	transitions, withObs, nontrivial, divergences, obsPanics int
	mdRelabelled, dupSkipped, hung, primed                   int
	exact                                                    bool
	mdExample                                                string
	known                                                    map[string]int
}

// judge replays one transition and reports failures.
func judge(rep *mbt.Report, tr irhist.Transition, st *stats, source string) {
	h := tr.Hist
	key := irhist.Key(h)
	pre := observersBeforeMutator(h)
	st.transitions++
	if len(allObservers(h)) > 0 {
		st.withObs++
	}
	if len(pre) > 0 {
		st.nontrivial++
	}
	rep.Count(key, len(pre) > 0)
	with := irhist.ReplayOpt(h, true, st.exact)
	without := irhist.ReplayOpt(h, false, st.exact)
	st.obsPanics += with.ObsPanics + with.QueryPanics
	c := map[string]interface{}{"hist": h, "want": tr.Want, "source": source, "exact": st.exact}
	if with.Hung != "" || without.Hung != "" {
		// a call of the library did not return within the deadline: a verdict of the real code
		st.hung++
		rep.Fail(mbt.Failure{Signature: signature(h, with, without),
			What: fmt.Sprintf("history %s: with observers -> %s; without observers -> %s (deadline %s per replay)", key, with.Outcome(), without.Outcome(), irhist.Deadline),
			Case: c})
		return
	}
	if irhist.SameOutcome(with, without) && !irhist.SameOutcomeLiteral(with, without) {
		// same module, metadata definitions labelled differently (see notes/C14.md)
		st.mdRelabelled++
		if st.mdExample == "" {
			st.mdExample = key
		}
	}
	if !irhist.SameOutcome(with, without) {
		rep.Fail(mbt.Failure{Signature: signature(h, with, without),
			What: fmt.Sprintf("history %s: with observers -> %s; without observers -> %s%s", key, with.Outcome(), without.Outcome(), firstTextDiff(with, without)),
			Case: c})
	}
	// printing twice in a row yields identical text
	if with.EarlyMsg == "" {
		again := irhist.Result{Text: with.AgainText, Panicked: with.AgainPanicked, Msg: with.AgainMsg}
		if !irhist.SameOutcomeLiteral(with, again) {
			rep.Fail(mbt.Failure{Signature: "C14|print twice|" + map[bool]string{true: "panic", false: "text differs"}[with.Panicked != again.Panicked] + "|second print after " + lastOp(h),
				What: fmt.Sprintf("history %s: first print -> %s; second print -> %s", key, with.Outcome(), again.Outcome()),
				Case: c})
		}
	}
	// every printing observer of the history, repeated at once, returned the same text
	if with.TwiceDiff != "" {
		rep.Fail(mbt.Failure{Signature: "C14|print twice|text differs|" + with.TwiceOp,
			What: fmt.Sprintf("history %s: observer repeated at once gives another text -- %s", key, with.TwiceDiff), Case: c})
	}
	// a print that failed half way (WriteTo into a failing writer) leaves nothing behind for the print of another module
	if with.OtherDiff != "" {
		rep.Fail(mbt.Failure{Signature: "C14|observed history|text of an unrelated module differs|after WriteToFail",
			What: fmt.Sprintf("history %s: %s", key, with.OtherDiff), Case: c})
	}
	if with.ObsDiff != "" {
		rep.Fail(mbt.Failure{Signature: "C14|WriteTo into a failing writer|bytes delivered are not the beginning of the module text",
			What: fmt.Sprintf("history %s: %s", key, with.ObsDiff), Case: c})
	}
	// after the final print, Func.LLString of each function is its part of the module text
	for _, r := range []irhist.Result{with, without} {
		if r.PartDiff != "" {
			rep.Fail(mbt.Failure{Signature: "C14|print twice|text differs|Func.LLString is not the function's part of Module.String",
				What: fmt.Sprintf("history %s: %s", key, r.PartDiff), Case: c})
			break
		}
	}
	// the outcome of a printing observer does not depend on whether Type() / String() were asked before it:
	// when a print of the history panicked, the history is replayed once more with such queries in front
	// of every print
	if with.ObsPanics > 0 {
		primed := irhist.ReplayPrimed(h, st.exact)
		st.primed++
		if primed.Hung == "" && len(primed.PrintOutcomes) == len(with.PrintOutcomes) {
			k := 0
			for i := range with.PrintOutcomes {
				if with.PrintOutcomes[i] != primed.PrintOutcomes[i] {
					for _, c := range h {
						if c.Op == "PrintModule" || c.Op == "PrintFunc" || c.Op == "PrintBlock" {
							if k == i {
								how := "panics unless Type() was asked before"
								msg := with.PrintMsgs[i]
								if with.PrintOutcomes[i] == "ok" {
									how, msg = "panics once Type() was asked before", primed.PrintMsgs[i]
								}
								rep.Fail(mbt.Failure{Signature: "C14|observer outcome depends on an earlier query|" + c.Op + "|" + how + "|" + irhist.PanicClass(msg),
									What: fmt.Sprintf("history %s: %s -> %s; the same call after Type() and String() of every object were asked -> %s (%s)", key, c.String(), with.PrintOutcomes[i], primed.PrintOutcomes[i], mbt.Truncate(msg, 120)),
									Case: c2map(h, tr, source, st.exact)})
							}
							k++
						}
					}
					break
				}
			}
		}
	}
	// conformance of the generator: the unobserved history prints what the specification requires
	// (a divergence is C08's subject -- it is counted here, judged there)
	if without.EarlyMsg == "" {
		if without.Panicked == tr.Want.Ok || (!without.Panicked && !irhist.SameToks(irhist.DefTokens(without.Text), tr.Want.Text)) {
			st.divergences++
			if os.Getenv("VERIF_DEBUG") != "" && st.divergences <= 12 {
				fmt.Printf("DIVERGENCE %s\n  want ok=%v %s\n  got  %s\n", key, tr.Want.Ok, irhist.FmtToks(tr.Want.Text), without.Outcome())
			}
		}
	}
	if st.transitions%9973 == 1 {
		rep.Sample(map[string]interface{}{"hist": key, "want_ok": tr.Want.Ok, "want_text": irhist.FmtToks(tr.Want.Text),
			"with_observers": with.Outcome(), "without_observers": without.Outcome()})
	}
}

var reInitLine = regexp.MustCompile(`^@[\w.]+ = global (.*) (@[\w.]+)$`)
var reAddrSpace = regexp.MustCompile(` addrspace\(\d+\)`)
var reUseLine = regexp.MustCompile(`@h\.use\((.*) ([%@][\w.]+)\)`)
var reIndLine = regexp.MustCompile(`^(@[\w.]+) = (alias|ifunc) `)
var reDepLine = regexp.MustCompile(`^\s*(%[\w.]+) = (phi|select|call) `)

// staleTypeOf classifies a text difference that consists in the type shown for a typed
// operand: "type of alloca operand", "type of global operand", "type of function operand".
func staleTypeOf(a, b irhist.Result) string {
	la, lb := strings.Split(a.Text, "\n"), strings.Split(b.Text, "\n")
	if len(la) != len(lb) {
		return ""
	}
	what := ""
	for i := range la {
		if la[i] == lb[i] {
			continue
		}
		// the definition line of an alias / ifunc, or an instruction that shows its own cached result type
		k2 := ""
		if xa, xb := reIndLine.FindStringSubmatch(la[i]), reIndLine.FindStringSubmatch(lb[i]); xa != nil && xb != nil && xa[1] == xb[1] && xa[2] == xb[2] {
			k2 = "type shown by the " + xa[2] + " definition"
		} else if xa, xb := reDepLine.FindStringSubmatch(la[i]), reDepLine.FindStringSubmatch(lb[i]); xa != nil && xb != nil && xa[1] == xb[1] && xa[2] == xb[2] {
			k2 = "result type of " + xa[2]
		}
		if k2 != "" {
			if what != "" && what != k2 {
				return ""
			}
			what = k2
			continue
		}
		ma, mb := reUseLine.FindStringSubmatch(la[i]), reUseLine.FindStringSubmatch(lb[i])
		if ma == nil || mb == nil {
			// a global initialised with the object: its ContentType is a copy of the operand's type
			ma, mb = reInitLine.FindStringSubmatch(la[i]), reInitLine.FindStringSubmatch(lb[i])
		}
		if ma == nil || mb == nil || ma[2] != mb[2] {
			return ""
		}
		k := "type of global operand"
		if definedAs(a.Text, ma[2], "alias") {
			k = "type of alias operand"
		} else if definedAs(a.Text, ma[2], "ifunc") {
			k = "type of ifunc operand"
		} else if strings.HasPrefix(ma[2], "%") {
			k = "type of alloca operand"
		} else if strings.HasSuffix(reAddrSpace.ReplaceAllString(ma[1], ""), ")*") {
			k = "type of function operand"
		}
		if what != "" && what != k {
			return ""
		}
		what = k
	}
	return what
}

// definedAs reports whether text defines ident by a line `ident = kind ...` (kind: alias, ifunc).
func definedAs(text, ident, kind string) bool {
	return strings.HasPrefix(text, ident+" = "+kind+" ") || strings.Contains(text, "\n"+ident+" = "+kind+" ")
}

// firstTextDiff shows the first line on which two printed texts differ.
func firstTextDiff(a, b irhist.Result) string {
	if a.Panicked || b.Panicked || a.EarlyMsg != "" || b.EarlyMsg != "" {
		return ""
	}
	la, lb := strings.Split(a.Text, "\n"), strings.Split(b.Text, "\n")
	for i := 0; i < len(la) && i < len(lb); i++ {
		if la[i] != lb[i] {
			return fmt.Sprintf("; first differing line: %q vs %q", strings.TrimSpace(la[i]), strings.TrimSpace(lb[i]))
		}
	}
	return ""
}

func c2map(h []irhist.Call, tr irhist.Transition, source string, exact bool) map[string]interface{} {
	return map[string]interface{}{"hist": h, "want": tr.Want, "source": source, "exact": exact}
}

func lastOp(h []irhist.Call) string {
	if len(h) == 0 {
		return "nothing"
	}
	return h[len(h)-1].Op
}

// emission is one run of the transition generator.
type emission struct {
	label  string
	consts map[string]string
	exact  bool // replay with the abstract names as concrete names (name collisions)
	// structs: the globals are built with a literal struct type of their own as content type, which the history
	// names / fills after pointers to it exist (FieldEdits GlobalTypeName, GlobalTypeFill)
	structs bool
	t       *mbt.TLCResult
}

// emitAll runs the transition generator for every configuration (TLC processes in
// parallel, one worker each) and then judges every transition, configuration by
// configuration.
func emitAll(rep *mbt.Report, ems []*emission, st *stats, timeout time.Duration) {
	var wg sync.WaitGroup
	for _, e := range ems {
		e.consts["ValidateOnPrint"] = "FALSE"
		wg.Add(1)
		go func(e *emission) {
			defer wg.Done()
			e.t = mbt.MustTLC(mbt.TLCOpts{Spec: "IRState", Cfg: "IRStateEmit.cfg", Consts: e.consts, Workers: 1, Timeout: timeout})
		}(e)
	}
	wg.Wait()
	for _, e := range ems {
		t, label := e.t, e.label
		if len(t.Violated) > 0 {
			mbt.Infra("IRState (%s) with ValidateOnPrint = FALSE violates %v: specification error", label, t.Violated)
		}
		rep.AddTLC(t)
		trs, err := mbt.ReadNDJSON[irhist.Transition](filepath.Join(t.Dir, "transitions.ndjson"))
		if err != nil {
			mbt.Infra("transitions of %s: %v", label, err)
		}
		if int64(len(trs)) != t.Generated-1 {
			mbt.Infra("%s: TLC generated %d states but wrote %d transitions", label, t.Generated, len(trs))
		}
		before := st.transitions
		for _, tr := range trs {
			if st.hung >= maxHung {
				break
			}
			if e.exact && tr.Dup {
				// the final state defines a name twice: a transient state, not a module LLVM accepts
				st.dupSkipped++
				continue
			}
			st.exact = e.exact
			irhist.StructGlobals = e.structs
			judge(rep, tr, st, label)
		}
		st.exact = false
		irhist.StructGlobals = false
		rep.TracesValidated += st.transitions - before
		rep.Extra["transitions_"+label] = len(trs)
		rep.Extra["tlc_wall_s_"+label] = t.Wall.Seconds()
		rep.Extra["tlc_states_"+label] = t.Distinct
		t.Cleanup()
	}
}

// Run is the C14 check.
func Run(tier, replay string) {
	rep := mbt.NewReport("C14", tier, "model_checking")
	rep.Rule = "explored transitions of IRState (history prefix + next call) whose history has an observer call before a later mutator; each is replayed into the real ir API with and without its observer calls and the final String() outcomes are compared"
	st := &stats{}
	if replay != "" {
		runReplay(rep, replay, st)
		rep.Finish()
	}

	// (S) the code as implemented, in the model: TLC must find the counterexamples.
	ai := mbt.MustTLC(mbt.TLCOpts{Spec: "IRState", Cfg: "IRStateAsImpl.cfg", Workers: 4, Continue: true})
	want := map[string]bool{"ObserverTransparent": false, "ObserverTransparentStep": false, "PrintTotalOnParsed": false}
	for _, v := range ai.Violated {
		if _, ok := want[v]; !ok {
			mbt.Infra("IRState as implemented violates %s, which the implemented behaviour should satisfy: specification error", v)
		}
		want[v] = true
	}
	for k, seen := range want {
		if !seen {
			mbt.Infra("IRState as implemented (ValidateOnPrint = TRUE) does not violate %s: the model lost the print-edit-print counterexample", k)
		}
	}
	rep.Extra["as_implemented_model"] = map[string]interface{}{
		"violated": ai.Violated, "states": ai.Distinct,
		"ObserverTransparent_counterexamples": strings.Count(ai.Output, "Error: Invariant ObserverTransparent is violated"),
	}
	rep.CheckerCmds = append(rep.CheckerCmds, ai.Cmd+" (as implemented, violations expected)")
	ai.Cleanup()

	// (G) one test per explored transition of the model as required.
	var ems []*emission
	build := map[string]string{"MaxSrc": "0", "MaxCalls": "4"}
	parse := map[string]string{"MaxSrc": "2", "MaxCalls": "3"}
	// one function, everything unnamed: deeper histories over the local numbering
	// (two parameters: naming / un-naming one shifts the other)
	locals := map[string]string{"MaxSrc": "0", "MaxCalls": "5", "MaxPerGroup": "0", "MaxParams": "2", "NewNames": `{""}`, "SetNames": `{"y"}`}
	if tier == "thorough" {
		build["TermKinds"] = `{"ret", "br", "invoke", "callbr", "catchswitch"}`
		parse["TermKinds"] = `{"ret", "invoke", "catchswitch"}`
		locals["MaxCalls"] = "6"
	}
	ems = append(ems, &emission{label: "build", consts: build})
	ems = append(ems, &emission{label: "parse", consts: parse})
	ems = append(ems, &emission{label: "locals", consts: locals})
	// terminators and renames beyond the first alphabet, on functions only
	wide := map[string]string{"MaxSrc": "0", "MaxCalls": "5", "MaxPerGroup": "0", "MaxParams": "0", "MaxBlocks": "1",
		"NewNames": `{""}`, "SetNames": `{"y"}`, "InstRes": `{"value"}`,
		"TermKinds": `{"ret", "br", "invoke", "callbr", "catchswitch"}`}
	if tier == "thorough" {
		wide["MaxCalls"] = "5"
		wide["MaxBlocks"] = "2"
	}
	// ... and the failing observer: Module.WriteTo into a writer that rejects the first byte / half of the text / the
	// last byte (error or short write), followed at once by a print of this or of an unrelated module
	wide["Observers"] = `{"PrintModule", "PrintFunc", "PrintBlock", "QueryType", "QueryIdent", "QueryOperands", "QuerySuccs", "WriteToFail"}`
	ems = append(ems, &emission{label: "terminators", consts: wide})
	// pure queries remembered (TrackQueries): histories "query, edit, print" -- Type() and Succs()
	// fill the caches Typ / Successors, Retarget then changes what Succs() cached
	queries := map[string]string{"MaxSrc": "0", "MaxCalls": "5", "MaxPerGroup": "0", "MaxParams": "0", "MaxBlocks": "2", "MaxInsts": "1",
		"NewNames": `{""}`, "SetNames": `{"y"}`, "InstRes": `{"value"}`, "TermKinds": `{"br", "invoke"}`, "TrackQueries": "TRUE",
		"Observers": `{"PrintModule", "PrintBlock", "QueryType", "QueryIdent", "QueryOperands", "QuerySuccs"}`}
	if tier == "thorough" {
		queries["MaxCalls"] = "6"
		queries["TermKinds"] = `{"br", "invoke", "callbr", "catchswitch"}`
	}
	ems = append(ems, &emission{label: "queries", consts: queries})
	// metadata definitions: insert / remove / attach, print-edit-print over AssignMetadataIDs
	metadata := map[string]string{"MaxSrc": "0", "MaxCalls": "6", "Groups": `{"globals"}`, "MaxParams": "0", "MaxBlocks": "1", "MaxInsts": "1",
		"NewNames": `{""}`, "SetNames": `{"y"}`, "InstRes": `{"value"}`, "TermKinds": `{"ret"}`,
		"MaxMd": "3", "MdAttach": "TRUE", "Observers": `{"PrintModule", "PrintFunc", "PrintBlock"}`}
	// fields assigned after construction that a cached type depends on, and typed operands that
	// show the cached type; pure queries remembered so that every observer precedes such edits
	typesCfg := map[string]string{"MaxSrc": "0", "MaxCalls": "5", "Groups": `{"globals"}`, "MaxPerGroup": "2", "MaxParams": "0", "MaxBlocks": "1",
		"NewNames": `{""}`, "SetNames": `{"y"}`, "InstRes": `{"value"}`, "TermKinds": `{"ret"}`,
		"InstOps": `{"alloca", "use"}`, "RefTargets": `{"global", "func", "alloca"}`, "RefGlobals": "TRUE",
		"FieldEdits":   `{"GlobalAddrSpace", "GlobalContent", "FuncAddrSpace", "FuncVariadic", "AllocaAddrSpace", "AllocaElem"}`,
		"TrackQueries": "TRUE", "StickyQueries": "TRUE"}
	if tier == "thorough" {
		metadata["MaxCalls"] = "7"
		typesCfg["MaxCalls"] = "6"
	}
	ems = append(ems, &emission{label: "metadata", consts: metadata})
	ems = append(ems, &emission{label: "types", consts: typesCfg})
	// the same field edits from a prebuilt scaffold (Preset "typed": global, function, alloca, typed uses of both --
	// six calls that are not counted), so that the bounded part of the history reaches "set a field, observe, set it
	// BACK, print" and two different fields around one observation
	typedPreset := map[string]string{"MaxSrc": "0", "MaxCalls": "4", "Groups": `{"globals"}`, "MaxPerGroup": "1", "MaxParams": "0", "MaxBlocks": "1",
		"MaxInsts": "3", "NewNames": `{""}`, "SetNames": `{}`, "InstRes": `{"value"}`, "TermKinds": `{"ret"}`,
		"InstOps": `{"alloca", "use"}`, "RefTargets": `{"global", "func", "alloca"}`, "RefGlobals": "TRUE", "Preset": `"typed"`,
		"FieldEdits":   `{"GlobalAddrSpace", "GlobalContent", "FuncAddrSpace", "FuncVariadic", "AllocaAddrSpace", "AllocaElem"}`,
		"TrackQueries": "TRUE", "StickyQueries": "TRUE", "Observers": `{"PrintModule", "PrintFunc", "QueryType"}`}
	if tier == "thorough" {
		typedPreset["MaxCalls"] = "5"
	}
	ems = append(ems, &emission{label: "types-preset", consts: typedPreset})
	// the spelling of a type changes after pointers to it exist: the global of the scaffold has a literal struct of its
	// own as content type; Module.NewTypeDef names it (and the name is taken away again), a field is appended (and cut
	// off again), after observers have rendered the global's pointer type
	typeDefs := map[string]string{"MaxSrc": "0", "MaxCalls": "4", "Groups": `{"globals"}`, "MaxPerGroup": "1", "MaxParams": "0", "MaxBlocks": "1",
		"MaxInsts": "3", "NewNames": `{""}`, "SetNames": `{}`, "InstRes": `{}`, "TermKinds": `{"ret"}`,
		"InstOps": `{"use"}`, "RefTargets": `{"global"}`, "Preset": `"typed"`,
		"FieldEdits":   `{"GlobalAddrSpace", "GlobalTypeName", "GlobalTypeFill"}`,
		"TrackQueries": "TRUE", "StickyQueries": "TRUE", "Observers": `{"PrintModule", "PrintFunc", "QueryType", "WriteToFail"}`}
	ems = append(ems, &emission{label: "typedefs", consts: typeDefs, structs: true})
	// blockaddress of a block from a global initialiser and from another function (two functions)
	blockaddr := map[string]string{"MaxSrc": "0", "MaxCalls": "5", "Groups": `{"globals"}`, "MaxFuncs": "2", "MaxBlocks": "2", "MaxInsts": "1",
		"NewNames": `{""}`, "SetNames": `{"y"}`, "InstRes": `{"value"}`, "TermKinds": `{"ret"}`, "InstOps": `{"use"}`,
		"RefTargets": `{"block"}`, "RefGlobals": "TRUE", "Observers": `{"PrintModule", "PrintFunc"}`}
	// operand-level edits between operand queries: call with two arguments, phi with two incoming values
	operands := map[string]string{"MaxSrc": "0", "MaxCalls": "6", "MaxPerGroup": "0", "MaxParams": "0", "MaxBlocks": "1",
		"NewNames": `{""}`, "SetNames": `{"y"}`, "InstRes": `{"value"}`, "TermKinds": `{"ret"}`, "InstOps": `{"call2", "phi2"}`,
		"Observers": `{"PrintModule", "QueryOperands"}`, "TrackQueries": "TRUE", "StickyQueries": "TRUE"}
	// SetName to any name of a small pool including names in use (replayed with the names as they are):
	// histories pass through states in which two locals share a name
	names := map[string]string{"MaxSrc": "0", "MaxCalls": "5", "MaxPerGroup": "0", "MaxBlocks": "1",
		"SetNames": `{"", "x", "y"}`, "InstRes": `{"value"}`, "Observers": `{"PrintModule", "PrintFunc"}`}
	if tier == "thorough" {
		blockaddr["MaxCalls"] = "6"
		operands["MaxInsts"] = "2"
		names["MaxCalls"] = "6"
	}
	ems = append(ems, &emission{label: "blockaddr", consts: blockaddr})
	ems = append(ems, &emission{label: "operands", consts: operands})
	ems = append(ems, &emission{label: "names", consts: names, exact: true})
	// aliases and ifuncs (scaffold: a global, an alias of it, an ifunc, a function that uses both as typed operands):
	// the cached Typ of an indirect symbol against edits of what it points to -- the aliasee's fields, Aliasee /
	// Resolver assigned -- with Type() / String() queries and prints in between
	indirect := map[string]string{"MaxSrc": "0", "MaxCalls": "4", "Groups": `{}`, "MaxPerGroup": "1", "MaxParams": "0", "MaxBlocks": "1",
		"MaxInsts": "3", "NewNames": `{""}`, "SetNames": `{}`, "InstRes": `{"value"}`, "TermKinds": `{"ret"}`, "InstOps": `{"use"}`,
		"RefTargets": `{"global", "alias", "ifunc"}`, "Preset": `"indirect"`, "FieldEdits": `{"GlobalAddrSpace", "GlobalContent"}`,
		"Edits": `{"SetTarget"}`, "TrackQueries": "TRUE", "StickyQueries": "TRUE", "Observers": `{"PrintModule", "PrintFunc", "QueryType"}`}
	// count-preserving edits of a printed function (scaffold: a parameter, two value instructions): an instruction
	// replaced in place by one with another name / result, two instructions swapped, the terminator replaced
	inplace := map[string]string{"MaxSrc": "0", "MaxCalls": "4", "MaxPerGroup": "0", "MaxParams": "1", "MaxBlocks": "1", "MaxInsts": "3",
		"InstRes": `{"value", "void"}`, "Preset": `"body"`, "Edits": `{"ReplaceInst", "SwapInsts"}`,
		"Observers": `{"PrintModule", "PrintFunc", "PrintBlock"}`}
	// half-built IR: phi / select / call whose result type comes from operands that are assigned after
	// construction (struct literal, then FillArgs) or replaced by operands of another type (RetypeArgs), blocks
	// without terminator; observers in between panic on the incomplete parts and must leave nothing behind
	halfbuilt := map[string]string{"MaxSrc": "0", "MaxCalls": "4", "MaxPerGroup": "0", "MaxParams": "0", "MaxBlocks": "2", "MaxInsts": "2",
		"NewNames": `{""}`, "SetNames": `{"y"}`, "InstRes": `{"value"}`, "TermKinds": `{"ret"}`, "Preset": `"func"`,
		"DepKinds": `{"phi", "select", "call"}`, "Edits": `{"FillArgs", "RetypeArgs"}`, "TrackQueries": "TRUE", "StickyQueries": "TRUE",
		"Observers": `{"PrintModule", "PrintFunc", "PrintBlock", "QueryType"}`}
	// restructuring and identity fields (scaffold "pair": two functions, the first with a parameter, each with a finished
	// block): a block removed / moved to another function by slice operations (it carries the IDs a print of its old
	// function cached in it), a block appended as a detached ir.NewBlock, LocalName / GlobalName assigned as fields
	// (the cached ID is not cleared as SetName does), IDs stored by the client (SetID)
	restructure := map[string]string{"MaxSrc": "0", "MaxCalls": "3", "Groups": `{}`, "MaxPerGroup": "0", "MaxFuncs": "2", "MaxParams": "1",
		"MaxBlocks": "2", "MaxInsts": "1", "NewNames": `{""}`, "SetNames": `{"y"}`, "InstRes": `{"value"}`, "TermKinds": `{"ret"}`,
		"Preset": `"pair"`, "Edits": `{"RemoveBlock", "MoveBlock", "DetachedBlock", "SetNameField", "SetID"}`,
		"TrackQueries": "TRUE", "StickyQueries": "TRUE", "Observers": `{"PrintModule", "PrintFunc", "QueryIdent"}`}
	// the module's own lists edited: the last global / alias / ifunc cut off the exported slice (the unnamed definitions
	// of the later groups and the function move up), GlobalName assigned as a field, GlobalID stored by the client
	globalsEdit := map[string]string{"MaxSrc": "0", "MaxCalls": "4", "MaxPerGroup": "2", "MaxFuncs": "1", "MaxParams": "0", "MaxBlocks": "0",
		"MaxInsts": "0", "NewNames": `{""}`, "SetNames": `{"y"}`, "InstRes": `{"value"}`, "TermKinds": `{"ret"}`,
		"Edits": `{"RemoveGlobal", "SetNameField", "SetID"}`, "TrackQueries": "TRUE", "StickyQueries": "TRUE",
		"Observers": `{"PrintModule", "QueryIdent"}`}
	// instructions built as struct literals, one kind of every family whose Typ is cached lazily (phi, select, call, add,
	// icmp, getelementptr, extractvalue): operands assigned afterwards (FillArgs), then the first observer is a print
	// (Block / Func / Module) or a Type() query -- the outcome of the print must not depend on which
	literals := map[string]string{"MaxSrc": "0", "MaxCalls": "3", "MaxPerGroup": "0", "MaxParams": "0", "MaxBlocks": "1", "MaxInsts": "1",
		"NewNames": `{""}`, "SetNames": `{}`, "InstRes": `{}`, "TermKinds": `{"ret"}`, "Preset": `"func"`,
		"DepKinds": `{"phi", "select", "call", "add", "icmp", "gep", "extractvalue"}`, "Edits": `{"FillArgs"}`,
		"TrackQueries": "TRUE", "StickyQueries": "TRUE", "Observers": `{"PrintModule", "PrintFunc", "PrintBlock", "QueryType"}`}
	if tier == "thorough" {
		literals["MaxCalls"] = "4"
		literals["MaxInsts"] = "2"
		indirect["MaxCalls"] = "5"
		inplace["MaxCalls"] = "5"
		halfbuilt["MaxCalls"] = "5"
		restructure["Observers"] = `{"PrintModule", "PrintFunc", "PrintBlock", "QueryIdent"}`
		globalsEdit["MaxCalls"] = "6"
	}
	ems = append(ems, &emission{label: "indirect", consts: indirect})
	ems = append(ems, &emission{label: "inplace", consts: inplace})
	ems = append(ems, &emission{label: "halfbuilt", consts: halfbuilt})
	ems = append(ems, &emission{label: "restructure", consts: restructure})
	ems = append(ems, &emission{label: "globals-edit", consts: globalsEdit})
	ems = append(ems, &emission{label: "literals", consts: literals})
	emitAll(rep, ems, st, 25*time.Minute)
	if st.hung >= maxHung {
		rep.Note("replay stopped after %d histories in which a call of the library did not return within %s; the remaining transitions were not replayed", st.hung, irhist.Deadline)
	}
	// vacuity guards: plausible variants of the code that the model must reject
	// (the guards are independent TLC runs that stop at the first violation: started together, at most six at a time)
	var gwg sync.WaitGroup
	var gmu sync.Mutex
	gsem := make(chan struct{}, 6)
	guard := func(label string, consts map[string]string, extra map[string]string, cfg string, want string) {
		c := map[string]string{}
		for k, v := range consts {
			c[k] = v
		}
		for k, v := range extra {
			c[k] = v
		}
		c["ValidateOnPrint"] = "FALSE"
		if _, ok := extra["MaxCalls"]; !ok {
			c["MaxCalls"] = "5"
		}
		gwg.Add(1)
		go func() {
			defer gwg.Done()
			gsem <- struct{}{}
			t := mbt.MustTLC(mbt.TLCOpts{Spec: "IRState", Cfg: cfg, Consts: c, Workers: 1})
			<-gsem
			gmu.Lock()
			defer gmu.Unlock()
			found := false
			for _, v := range t.Violated {
				for _, w := range strings.Split(want, ",") {
					if v == w || v == w+"Step" {
						found = true
					}
				}
			}
			if !found {
				mbt.Infra("vacuity guard %s: IRState does not violate %s (violated: %v)", label, want, t.Violated)
			}
			rep.Extra["guard_"+label] = fmt.Sprint(t.Violated) + " violated as expected after " + fmt.Sprint(t.Distinct) + " states"
			t.Cleanup()
		}()
	}
	// (a type that is computed lazily *and never refreshed*: with a refresh that follows the fields the
	// moment of the first Type() call no longer matters)
	guard("lazy_type", typesCfg, map[string]string{"EagerType": "FALSE", "GlobalRefresh": `"never"`, "AllocaRefresh": `"never"`}, "IRState.cfg", "ObserverTransparent")
	guard("header_before_assign", locals, map[string]string{"HeaderBeforeAssign": "TRUE"}, "IRState.cfg", "PrintTwiceSame,PrintFuncTwiceSame,PrintFuncIsPart,ObserverTransparent")
	guard("number_function_when_printed", blockaddr, map[string]string{"AssignAllFirst": "FALSE"}, "IRState.cfg", "PrintTwiceSame,ObserverTransparent")
	guard("operands_memo", operands, map[string]string{"OperandsMemo": "TRUE", "MaxCalls": "6"}, "IRState.cfg", "ObserverTransparent")
	guard("rename_taken", names, map[string]string{"RenameTaken": "TRUE"}, "IRState.cfg", "ObserverTransparent,PrintTwiceSame,PrintFuncTwiceSame")
	guard("md_one_pass", metadata, map[string]string{"MdVariant": `"one-pass"`}, "IRState.cfg", "ObserverTransparent")
	guard("md_literal_ids", metadata, nil, "IRStateMdLiteral.cfg", "ObserverTransparentLiteral")
	// Alias.Type() / IFunc.Type() follow the aliasee while the definition line reads the raw field
	guard("indirect_type_follows_on_query", indirect, map[string]string{"IndirectRefresh": `"query"`, "MaxCalls": "4"}, "IRState.cfg", "ObserverTransparent,PrintTwiceSame")
	// Func.LLString keeps the function mutex when the rendering panics
	guard("mutex_kept_on_panic", halfbuilt, map[string]string{"UnlockOnPanic": "FALSE", "MaxCalls": "4"}, "IRState.cfg", "ObserverTransparent,PrintTwiceSame,PrintFuncTwiceSame")
	// a printer skips AssignIDs while the number of parameters, blocks and instructions is unchanged
	guard("renumber_skipped_by_count", inplace, map[string]string{"CountMemo": "TRUE", "MaxCalls": "4"}, "IRState.cfg", "NumberingCorrect,ObserverTransparent,PrintTwiceSame,PrintFuncTwiceSame,PrintFuncIsPart")
	// Type() of an instruction without operands caches a placeholder
	guard("placeholder_type_cached", halfbuilt, map[string]string{"EmptyType": `"void"`, "MaxCalls": "4"}, "IRState.cfg", "ObserverTransparent")
	// InstPhi.LLString reads the field Typ (the code as it is): a struct-literal phi prints only after a Type() query
	guard("print_reads_typ_field", literals, map[string]string{"PrintReadsTyp": "TRUE", "MaxCalls": "3"}, "IRState.cfg", "ObserverOrderFree")
	// an unnamed local that carries a non-zero ID keeps it: a block printed in one function and moved to another
	guard("cached_id_trusted", restructure, map[string]string{"TrustCachedID": "TRUE", "MaxCalls": "3", "Edits": `{"RemoveBlock", "MoveBlock"}`}, "IRState.cfg", "NumberingCorrect,ObserverTransparent,PrintFuncIsPart")
	// the history class left out of the emission: operands of a struct-literal instruction retyped after a query
	guard("literal_retyped", halfbuilt, map[string]string{"LitRetype": "TRUE", "MaxCalls": "4"}, "IRState.cfg", "ObserverTransparent")
	if tier == "thorough" {
		// InstAlloca.Type() as written by 141f39c (refresh on AddrSpace only): counterexample 7 calls deep
		// Global.Type() as written by 1644016 (refresh on AddrSpace only)
		guard("global_refresh_addrspace_only", typesCfg, map[string]string{"GlobalRefresh": `"addrspace"`, "MaxCalls": "7"}, "IRState.cfg", "ObserverTransparent")
		guard("alloca_refresh_addrspace_only", typesCfg, map[string]string{"AllocaRefresh": `"addrspace"`, "MaxCalls": "7"}, "IRState.cfg", "ObserverTransparent")
	}

	gwg.Wait()

	if tier == "thorough" {
		// the object graph closed under all calls (no bound on the history), small structure
		t := mbt.MustTLC(mbt.TLCOpts{Spec: "IRState", Cfg: "IRState.cfg", Workers: 8, Timeout: 25 * time.Minute,
			Consts: map[string]string{"MaxCalls": "0", "MaxPerGroup": "1", "MaxParams": "1", "MaxBlocks": "1", "MaxInsts": "1",
				"InstRes": `{"value", "void"}`, "SetNames": `{""}`, "Observers": `{"PrintModule", "PrintFunc"}`}})
		if len(t.Violated) > 0 {
			mbt.Infra("IRState (unbounded history) with ValidateOnPrint = FALSE violates %v: specification error", t.Violated)
		}
		rep.AddTLC(t)
		rep.Extra["tlc_states_closed"] = t.Distinct
		rep.Extra["tlc_wall_s_closed"] = t.Wall.Seconds()
		t.Cleanup()
	}

	rep.Extra["transitions_replayed"] = st.transitions
	rep.Extra["transitions_with_observer"] = st.withObs
	rep.Extra["observer_calls_that_panicked_on_incomplete_ir"] = st.obsPanics
	rep.Extra["unobserved_history_differs_from_required_numbering"] = st.divergences
	rep.Extra["same_module_metadata_labelled_differently"] = st.mdRelabelled
	rep.Extra["transitions_not_judged_duplicate_name_in_final_state"] = st.dupSkipped
	rep.Extra["histories_replayed_again_with_type_queries_before_every_print"] = st.primed
	if st.mdRelabelled > 0 {
		rep.Note("%d histories print the same module with and without observers but label the metadata definitions differently (an ID stored by a print is kept by the next one), e.g. %s", st.mdRelabelled, st.mdExample)
	}
	if st.divergences > 0 {
		rep.Note("%d histories print, without any observer, something else than the numbering IRState requires: judged by C08, not a C14 verdict", st.divergences)
	}
	rep.Exhaustive = true
	rep.Explanation = "every transition of the seventeen IRState configurations of this tier was emitted and replayed (no sampling)"
	rep.Assumptions = []string{
		"the replay (harness/props/irhist) maps each IRState action to the public API call it stands for; instructions are add/call/store/fence, terminators ret/br/invoke/callbr/catchswitch with placeholder operands",
		"Type(), Ident(), Operands(), Succs() are called on every object of the module at the observer's position",
		"outcomes are compared as the full String() text up to a consistent renaming of metadata IDs (a print keeps the IDs it finds, C17), or the class of the panic message; a second print must equal the first exactly",
	}
	rep.Finish()
}

func runReplay(rep *mbt.Report, path string, st *stats) {
	type rf struct {
		Failures []struct {
			Case struct {
				Hist  []irhist.Call `json:"hist"`
				Want  irhist.Out    `json:"want"`
				Exact bool          `json:"exact"`
			} `json:"case"`
		} `json:"failures"`
	}
	var one rf
	if err := mbt.ReadJSON(path, &one); err != nil {
		mbt.Infra("replay %s: %v", path, err)
	}
	for _, f := range one.Failures {
		if len(f.Case.Hist) == 0 {
			continue
		}
		st.exact = f.Case.Exact
		judge(rep, irhist.Transition{Hist: f.Case.Hist, Want: f.Case.Want}, st, "replay")
		rep.TracesValidated++
	}
	_ = os.Stdout
}
