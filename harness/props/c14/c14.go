// Package c14 checks property C14: observing the IR (printing, Type, Ident,
// Operands, Succs) never changes it.
//
// (S) spec/IRState.tla is checked by TLC: with ValidateOnPrint = FALSE (what the
// property requires of printing) ObserverTransparent and PrintTwiceSame hold on
// every reachable state; with TRUE (the code as implemented) TLC reports the
// print-edit-print counterexample.
// (G) every transition TLC explores (a history prefix plus the next call) is
// written out by the ACTION_CONSTRAINT Emit and replayed twice into the real ir
// API -- with and without its observer calls; the final Module.String() (or the
// class of its panic) must agree, and printing once more must give the same.
package c14

import (
	"fmt"
	"os"
	"path/filepath"
	"sort"
	"strings"
	"time"

	"verif/harness/mbt"
	"verif/harness/props/irhist"
	"verif/harness/props/reg"
)

func init() { reg.Register("C14", Run) }

const (
	sigLocal  = "C14|print-edit-print|panic|cached local ID validated against position"
	sigGlobal = "C14|print-edit-print|panic|cached global ID validated against position"
)

// observersBeforeMutator lists the observer ops of h that are followed by a mutator.
func observersBeforeMutator(h []irhist.Call) []string {
	lastMut := -1
	for i, c := range h {
		if !irhist.IsObserver(c.Op) {
			lastMut = i
		}
	}
	set := map[string]bool{}
	for i, c := range h {
		if i < lastMut && irhist.IsObserver(c.Op) {
			set[c.Op] = true
		}
	}
	var out []string
	for k := range set {
		out = append(out, k)
	}
	sort.Strings(out)
	return out
}

func allObservers(h []irhist.Call) []string {
	set := map[string]bool{}
	for _, c := range h {
		if irhist.IsObserver(c.Op) {
			set[c.Op] = true
		}
	}
	var out []string
	for k := range set {
		out = append(out, k)
	}
	sort.Strings(out)
	return out
}

// signature classifies a with/without difference.
func signature(h []irhist.Call, with, without irhist.Result) string {
	switch {
	case with.EarlyMsg != "" || without.EarlyMsg != "":
		m := with.EarlyMsg
		if m == "" {
			m = without.EarlyMsg
		}
		return "C14|mutator|panic|" + irhist.PanicClass(m)
	case with.Panicked && !without.Panicked:
		switch irhist.PanicClass(with.Msg) {
		case "invalid local ID":
			return sigLocal
		case "invalid global ID":
			return sigGlobal
		}
		return "C14|observed history|panic|" + irhist.PanicClass(with.Msg)
	case !with.Panicked && without.Panicked:
		return "C14|unobserved history|panic|" + irhist.PanicClass(without.Msg)
	case with.Panicked && without.Panicked && irhist.PanicClass(with.Msg) == "invalid local ID":
		return sigLocal
	case with.Panicked && without.Panicked && irhist.PanicClass(with.Msg) == "invalid global ID":
		return sigGlobal
	case with.Panicked && without.Panicked:
		return "C14|observed history|panic class differs|" + irhist.PanicClass(with.Msg) + " vs " + irhist.PanicClass(without.Msg)
	}
	return "C14|observed history|text differs|observers " + strings.Join(allObservers(h), "+")
}

type stats struct {
	transitions, withObs, nontrivial, divergences, obsPanics int
	known                                                    map[string]int
}

// judge replays one transition and reports failures.
func judge(rep *mbt.Report, tr irhist.Transition, st *stats, source string) {
	h := tr.Hist
	key := irhist.Key(h)
	pre := observersBeforeMutator(h)
	st.transitions++
	if len(allObservers(h)) > 0 {
		st.withObs++
	}
	if len(pre) > 0 {
		st.nontrivial++
	}
	rep.Count(key, len(pre) > 0)
	with := irhist.Replay(h, true)
	without := irhist.Replay(h, false)
	st.obsPanics += with.ObsPanics
	c := map[string]interface{}{"hist": h, "want": tr.Want, "source": source}
	if !irhist.SameOutcome(with, without) {
		rep.Fail(mbt.Failure{Signature: signature(h, with, without),
			What: fmt.Sprintf("history %s: with observers -> %s; without observers -> %s", key, with.Outcome(), without.Outcome()),
			Case: c})
	}
	// printing twice in a row yields identical text
	if with.EarlyMsg == "" {
		again := irhist.Result{Text: with.AgainText, Panicked: with.AgainPanicked, Msg: with.AgainMsg}
		if !irhist.SameOutcome(with, again) {
			rep.Fail(mbt.Failure{Signature: "C14|print twice|" + map[bool]string{true: "panic", false: "text differs"}[with.Panicked != again.Panicked] + "|second print after " + lastOp(h),
				What: fmt.Sprintf("history %s: first print -> %s; second print -> %s", key, with.Outcome(), again.Outcome()),
				Case: c})
		}
	}
	// conformance of the generator: the unobserved history prints what the specification requires
	// (a divergence is C08's subject -- it is counted here, judged there)
	if without.EarlyMsg == "" {
		if without.Panicked == tr.Want.Ok || (!without.Panicked && !irhist.SameToks(irhist.DefTokens(without.Text), tr.Want.Text)) {
			st.divergences++
			if os.Getenv("VERIF_DEBUG") != "" && st.divergences <= 12 {
				fmt.Printf("DIVERGENCE %s\n  want ok=%v %s\n  got  %s\n", key, tr.Want.Ok, irhist.FmtToks(tr.Want.Text), without.Outcome())
			}
		}
	}
	if st.transitions%9973 == 1 {
		rep.Sample(map[string]interface{}{"hist": key, "want_ok": tr.Want.Ok, "want_text": irhist.FmtToks(tr.Want.Text),
			"with_observers": with.Outcome(), "without_observers": without.Outcome()})
	}
}

func lastOp(h []irhist.Call) string {
	if len(h) == 0 {
		return "nothing"
	}
	return h[len(h)-1].Op
}

// emitRun runs the transition generator with the given constants and judges every transition.
func emitRun(rep *mbt.Report, label string, consts map[string]string, st *stats, timeout time.Duration) {
	consts["ValidateOnPrint"] = "FALSE"
	t := mbt.MustTLC(mbt.TLCOpts{Spec: "IRState", Cfg: "IRStateEmit.cfg", Consts: consts, Workers: 1, Timeout: timeout})
	defer t.Cleanup()
	if len(t.Violated) > 0 {
		mbt.Infra("IRState (%s) with ValidateOnPrint = FALSE violates %v: specification error", label, t.Violated)
	}
	rep.AddTLC(t)
	trs, err := mbt.ReadNDJSON[irhist.Transition](filepath.Join(t.Dir, "transitions.ndjson"))
	if err != nil {
		mbt.Infra("transitions of %s: %v", label, err)
	}
	if int64(len(trs)) != t.Generated-1 {
		mbt.Infra("%s: TLC generated %d states but wrote %d transitions", label, t.Generated, len(trs))
	}
	before := st.transitions
	for _, tr := range trs {
		judge(rep, tr, st, label)
	}
	rep.TracesValidated += st.transitions - before
	rep.Extra["transitions_"+label] = len(trs)
	rep.Extra["tlc_wall_s_"+label] = t.Wall.Seconds()
	rep.Extra["tlc_states_"+label] = t.Distinct
}

// Run is the C14 check.
func Run(tier, replay string) {
	rep := mbt.NewReport("C14", tier, "model_checking")
	rep.Rule = "explored transitions of IRState (history prefix + next call) whose history has an observer call before a later mutator; each is replayed into the real ir API with and without its observer calls and the final String() outcomes are compared"
	st := &stats{}
	if replay != "" {
		runReplay(rep, replay, st)
		rep.Finish()
	}

	// (S) the code as implemented, in the model: TLC must find the counterexamples.
	ai := mbt.MustTLC(mbt.TLCOpts{Spec: "IRState", Cfg: "IRStateAsImpl.cfg", Workers: 4, Continue: true})
	want := map[string]bool{"ObserverTransparent": false, "ObserverTransparentStep": false, "PrintTotalOnParsed": false}
	for _, v := range ai.Violated {
		if _, ok := want[v]; !ok {
			mbt.Infra("IRState as implemented violates %s, which the implemented behaviour should satisfy: specification error", v)
		}
		want[v] = true
	}
	for k, seen := range want {
		if !seen {
			mbt.Infra("IRState as implemented (ValidateOnPrint = TRUE) does not violate %s: the model lost the print-edit-print counterexample", k)
		}
	}
	rep.Extra["as_implemented_model"] = map[string]interface{}{
		"violated": ai.Violated, "states": ai.Distinct,
		"ObserverTransparent_counterexamples": strings.Count(ai.Output, "Error: Invariant ObserverTransparent is violated"),
	}
	rep.CheckerCmds = append(rep.CheckerCmds, ai.Cmd+" (as implemented, violations expected)")
	ai.Cleanup()

	// (G) one test per explored transition of the model as required.
	build := map[string]string{"MaxSrc": "0", "MaxCalls": "4"}
	parse := map[string]string{"MaxSrc": "2", "MaxCalls": "3"}
	// one function, everything unnamed: deeper histories over the local numbering
	locals := map[string]string{"MaxSrc": "0", "MaxCalls": "5", "MaxPerGroup": "0", "NewNames": `{""}`, "SetNames": `{"y"}`}
	if tier == "thorough" {
		build["TermKinds"] = `{"ret", "br", "invoke", "callbr", "catchswitch"}`
		parse["TermKinds"] = `{"ret", "invoke", "catchswitch"}`
		locals["MaxCalls"] = "6"
	}
	emitRun(rep, "build", build, st, 25*time.Minute)
	emitRun(rep, "parse", parse, st, 25*time.Minute)
	emitRun(rep, "locals", locals, st, 25*time.Minute)
	// terminators and renames beyond the first alphabet, on functions only
	wide := map[string]string{"MaxSrc": "0", "MaxCalls": "5", "MaxPerGroup": "0", "MaxParams": "0", "MaxBlocks": "1",
		"NewNames": `{""}`, "SetNames": `{"y"}`, "InstRes": `{"value"}`,
		"TermKinds": `{"ret", "br", "invoke", "callbr", "catchswitch"}`}
	if tier == "thorough" {
		wide["MaxCalls"] = "6"
		wide["MaxBlocks"] = "2"
	}
	emitRun(rep, "terminators", wide, st, 25*time.Minute)
	// pure queries remembered (TrackQueries): histories "query, edit, print" -- Type() and Succs()
	// fill the caches Typ / Successors, Retarget then changes what Succs() cached
	queries := map[string]string{"MaxSrc": "0", "MaxCalls": "5", "MaxPerGroup": "0", "MaxParams": "0", "MaxBlocks": "2", "MaxInsts": "1",
		"NewNames": `{""}`, "SetNames": `{"y"}`, "InstRes": `{"value"}`, "TermKinds": `{"br", "invoke"}`, "TrackQueries": "TRUE",
		"Observers": `{"PrintModule", "PrintBlock", "QueryType", "QueryIdent", "QueryOperands", "QuerySuccs"}`}
	if tier == "thorough" {
		queries["MaxCalls"] = "6"
		queries["TermKinds"] = `{"br", "invoke", "callbr", "catchswitch"}`
	}
	emitRun(rep, "queries", queries, st, 25*time.Minute)

	if tier == "thorough" {
		// the object graph closed under all calls (no bound on the history), small structure
		t := mbt.MustTLC(mbt.TLCOpts{Spec: "IRState", Cfg: "IRState.cfg", Workers: 8, Timeout: 25 * time.Minute,
			Consts: map[string]string{"MaxCalls": "0", "MaxPerGroup": "1", "MaxParams": "1", "MaxBlocks": "1", "MaxInsts": "1",
				"InstRes": `{"value", "void"}`, "SetNames": `{""}`, "Observers": `{"PrintModule", "PrintFunc"}`}})
		if len(t.Violated) > 0 {
			mbt.Infra("IRState (unbounded history) with ValidateOnPrint = FALSE violates %v: specification error", t.Violated)
		}
		rep.AddTLC(t)
		rep.Extra["tlc_states_closed"] = t.Distinct
		rep.Extra["tlc_wall_s_closed"] = t.Wall.Seconds()
		t.Cleanup()
	}

	rep.Extra["transitions_replayed"] = st.transitions
	rep.Extra["transitions_with_observer"] = st.withObs
	rep.Extra["observer_calls_that_panicked_on_incomplete_ir"] = st.obsPanics
	rep.Extra["unobserved_history_differs_from_required_numbering"] = st.divergences
	if st.divergences > 0 {
		rep.Note("%d histories print, without any observer, something else than the numbering IRState requires: judged by C08, not a C14 verdict", st.divergences)
	}
	rep.Exhaustive = true
	rep.Explanation = "every transition of the five IRState configurations of this tier was emitted and replayed (no sampling)"
	rep.Assumptions = []string{
		"the replay (harness/props/irhist) maps each IRState action to the public API call it stands for; instructions are add/call/store/fence, terminators ret/br/invoke/callbr/catchswitch with placeholder operands",
		"Type(), Ident(), Operands(), Succs() are called on every object of the module at the observer's position",
		"outcomes are compared as the full String() text, or the class of the panic message",
	}
	rep.Finish()
}

func runReplay(rep *mbt.Report, path string, st *stats) {
	type rf struct {
		Failures []struct {
			Case struct {
				Hist []irhist.Call `json:"hist"`
				Want irhist.Out    `json:"want"`
			} `json:"case"`
		} `json:"failures"`
	}
	var one rf
	if err := mbt.ReadJSON(path, &one); err != nil {
		mbt.Infra("replay %s: %v", path, err)
	}
	for _, f := range one.Failures {
		if len(f.Case.Hist) == 0 {
			continue
		}
		judge(rep, irhist.Transition{Hist: f.Case.Hist, Want: f.Case.Want}, st, "replay")
		rep.TracesValidated++
	}
	_ = os.Stdout
}
