// Package c14 checks property C14 (not built yet).
package c14

import (
	"verif/harness/mbt"
	"verif/harness/props/reg"
)

func init() { reg.Register("C14", Run) }

// Run is the C14 check.
func Run(tier, replay string) { mbt.Infra("check C14 is not built yet") }
