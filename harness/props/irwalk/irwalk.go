// Package irwalk walks the object graph of an *ir.Module by reflection and
// checks the identity discipline of property C04: every reference reachable
// from a definition is the very object that the module (or the enclosing
// function) lists as the definition; no placeholder block survives; locals do
// not leak between functions; parent links agree with containment.
package irwalk

import (
	"fmt"
	"reflect"
	"sort"

	"github.com/llir/llvm/ir"
	"github.com/llir/llvm/ir/constant"
	"github.com/llir/llvm/ir/metadata"
	"github.com/llir/llvm/ir/types"
)

// Issue is one breach of the identity discipline.
type Issue struct {
	Kind   string // stable class, e.g. "type-copy", "dummy-block", "scope-leak"
	Detail string
}

func (i Issue) String() string { return i.Kind + ": " + i.Detail }

type walker struct {
	m        *ir.Module
	globals  map[interface{}]bool
	locals   map[*ir.Func]map[interface{}]bool
	typeDefs map[types.Type]bool
	typeName map[string]types.Type
	comdats  map[*ir.ComdatDef]bool
	attrs    map[*ir.AttrGroupDef]bool
	mdByID   map[int64]metadata.Definition
	mdSet    map[interface{}]bool
	visited  map[visitKey]bool
	issues   []Issue
	seenIss  map[string]bool
	// statistics
	Refs int
	// uses[d] = number of references found that are bound to the listed definition object d
	// (global entities, comdats, numbered metadata nodes, and blocks named by blockaddress /
	// uselistorder_bb)
	uses map[interface{}]int
}

type visitKey struct {
	p uintptr
	t reflect.Type
	// ctx: an object that is not a definition is walked once per function it is reached from (an
	// object shared between two functions may hold locals of only one of them)
	ctx *ir.Func
}

func (w *walker) add(kind, format string, a ...interface{}) {
	d := fmt.Sprintf(format, a...)
	k := kind + "\x00" + d
	if w.seenIss[k] {
		return
	}
	w.seenIss[k] = true
	w.issues = append(w.issues, Issue{Kind: kind, Detail: d})
}

// Stats reports how many references were checked.
type Stats struct {
	Refs int
	// Uses counts, per listed definition object, the references bound to that very object.
	Uses map[interface{}]int
}

// Check walks m and returns the breaches found (nil if none).
func Check(m *ir.Module) ([]Issue, Stats) {
	w := &walker{m: m,
		globals: map[interface{}]bool{}, locals: map[*ir.Func]map[interface{}]bool{},
		typeDefs: map[types.Type]bool{}, typeName: map[string]types.Type{},
		comdats: map[*ir.ComdatDef]bool{}, attrs: map[*ir.AttrGroupDef]bool{},
		mdByID: map[int64]metadata.Definition{}, mdSet: map[interface{}]bool{},
		visited: map[visitKey]bool{}, seenIss: map[string]bool{}, uses: map[interface{}]int{}}
	// definition sets
	for _, t := range m.TypeDefs {
		if prev, ok := w.typeName[t.Name()]; ok && prev != t {
			w.add("type-listed-twice", "module lists two type definitions named %%%s", t.Name())
		}
		w.typeName[t.Name()] = t
		w.typeDefs[t] = true
	}
	for _, c := range m.ComdatDefs {
		w.comdats[c] = true
	}
	for _, a := range m.AttrGroupDefs {
		w.attrs[a] = true
	}
	for _, g := range m.Globals {
		w.globals[g] = true
	}
	for _, g := range m.Aliases {
		w.globals[g] = true
	}
	for _, g := range m.IFuncs {
		w.globals[g] = true
	}
	for _, f := range m.Funcs {
		w.globals[f] = true
		ls := map[interface{}]bool{}
		for _, p := range f.Params {
			ls[p] = true
		}
		for _, b := range f.Blocks {
			ls[b] = true
			for _, inst := range b.Insts {
				ls[inst] = true
			}
			if b.Term != nil {
				ls[b.Term] = true
			}
		}
		w.locals[f] = ls
	}
	for _, md := range m.MetadataDefs {
		if prev, ok := w.mdByID[md.ID()]; ok && prev != md {
			w.add("metadata-listed-twice", "module lists two metadata definitions with ID !%d", md.ID())
		}
		w.mdByID[md.ID()] = md
		w.mdSet[md] = true
	}
	// walk every definition's fields
	for _, t := range m.TypeDefs {
		w.fields(reflect.ValueOf(t), nil)
	}
	for _, g := range m.Globals {
		w.fields(reflect.ValueOf(g), nil)
	}
	for _, g := range m.Aliases {
		w.fields(reflect.ValueOf(g), nil)
	}
	for _, g := range m.IFuncs {
		w.fields(reflect.ValueOf(g), nil)
	}
	for _, f := range m.Funcs {
		if f.Parent != m {
			w.add("parent-link", "function %s: Parent is not the module that lists it", f.Ident())
		}
		w.fields(reflect.ValueOf(f), f)
		for _, p := range f.Params {
			w.fields(reflect.ValueOf(p), f)
		}
		for _, b := range f.Blocks {
			if b.Parent != f {
				w.add("parent-link", "block of function %s: Parent is not the function that lists it", f.Ident())
			}
			w.fields(reflect.ValueOf(b), f)
			for _, inst := range b.Insts {
				w.fields(reflect.ValueOf(inst), f)
			}
			if b.Term != nil {
				w.fields(reflect.ValueOf(b.Term), f)
			}
		}
	}
	for _, a := range m.AttrGroupDefs {
		w.fields(reflect.ValueOf(a), nil)
	}
	names := make([]string, 0, len(m.NamedMetadataDefs))
	for n := range m.NamedMetadataDefs {
		names = append(names, n)
	}
	sort.Strings(names)
	for _, n := range names {
		w.fields(reflect.ValueOf(m.NamedMetadataDefs[n]), nil)
	}
	for _, md := range m.MetadataDefs {
		w.fields(reflect.ValueOf(md), nil)
	}
	for _, u := range m.UseListOrders {
		w.value(reflect.ValueOf(u.Value), nil)
	}
	for _, u := range m.UseListOrderBBs {
		w.Refs += 2
		if !w.globals[u.Func] {
			w.add("global-not-definition", "uselistorder_bb names a function object the module does not list")
		} else if !w.locals[u.Func][u.Block] {
			w.add("dummy-block", "uselistorder_bb names a block that is not a block of its function")
		} else {
			w.uses[u.Func]++
			w.uses[u.Block]++
		}
	}
	return w.issues, Stats{Refs: w.Refs, Uses: w.uses}
}

// fields walks the exported fields of the struct that def points to.
func (w *walker) fields(def reflect.Value, ctx *ir.Func) {
	for def.Kind() == reflect.Interface || def.Kind() == reflect.Ptr {
		if def.IsNil() {
			return
		}
		if def.Kind() == reflect.Ptr {
			k := visitKey{def.Pointer(), def.Type(), nil}
			if w.visited[k] {
				return
			}
			w.visited[k] = true
		}
		def = def.Elem()
	}
	if def.Kind() != reflect.Struct {
		w.value(def, ctx)
		return
	}
	t := def.Type()
	for i := 0; i < def.NumField(); i++ {
		f := t.Field(i)
		if f.PkgPath != "" { // unexported (mutexes)
			continue
		}
		if f.Name == "Parent" {
			continue
		}
		// A function lists its own parameters, blocks; a block its instructions: those are
		// definition sites, checked as members of ctx and walked by the driver.
		w.value(def.Field(i), ctx)
	}
}

func isLocalDef(x interface{}) bool {
	switch x.(type) {
	case *ir.Param, *ir.Block:
		return true
	}
	if _, ok := x.(ir.Instruction); ok {
		return true
	}
	if _, ok := x.(ir.Terminator); ok {
		return true
	}
	return false
}

// value walks a value reached from a definition; definable objects are
// checked for identity and not entered.
func (w *walker) value(v reflect.Value, ctx *ir.Func) {
	switch v.Kind() {
	case reflect.Interface:
		if v.IsNil() {
			return
		}
		w.value(v.Elem(), ctx)
		return
	case reflect.Slice, reflect.Array:
		for i := 0; i < v.Len(); i++ {
			w.value(v.Index(i), ctx)
		}
		return
	case reflect.Map:
		for _, k := range v.MapKeys() {
			w.value(v.MapIndex(k), ctx)
		}
		return
	case reflect.Struct:
		t := v.Type()
		for i := 0; i < v.NumField(); i++ {
			if t.Field(i).PkgPath != "" || t.Field(i).Name == "Parent" {
				continue
			}
			w.value(v.Field(i), ctx)
		}
		return
	case reflect.Ptr:
		if v.IsNil() {
			return
		}
	default:
		return
	}
	if !v.CanInterface() {
		return
	}
	x := v.Interface()
	switch x := x.(type) {
	case *ir.Global, *ir.Func, *ir.Alias, *ir.IFunc:
		w.Refs++
		if !w.globals[x] {
			w.add("global-not-definition", "a reference to %s is not the object the module lists", x.(interface{ Ident() string }).Ident())
		} else {
			w.uses[x]++
		}
		return
	case *constant.BlockAddress:
		w.Refs += 2
		f, ok := x.Func.(*ir.Func)
		if !ok || !w.globals[f] {
			w.add("global-not-definition", "blockaddress names a function object the module does not list")
			return
		}
		if !w.locals[f][x.Block] {
			for g, ls := range w.locals {
				if ls[x.Block] {
					w.add("scope-leak", "blockaddress(%s, %s) holds the block of another function, %s", f.Ident(), x.Block.Ident(), g.Ident())
					return
				}
			}
			w.add("dummy-block", "blockaddress(%s, %s) holds a block that is not a block of that function", f.Ident(), x.Block.Ident())
		} else {
			w.uses[f]++
			w.uses[x.Block]++
		}
		return
	case *ir.ComdatDef:
		w.Refs++
		if !w.comdats[x] {
			w.add("comdat-not-definition", "a reference to comdat $%s is not the object the module lists", x.Name)
		} else {
			w.uses[x]++
		}
		return
	case *ir.AttrGroupDef:
		w.Refs++
		if !w.attrs[x] {
			listedSameID := false
			for a := range w.attrs {
				if a.ID == x.ID {
					listedSameID = true
				}
			}
			switch {
			case listedSameID:
				w.add("attrgroup-copy", "a reference to attribute group #%d is not the object the module lists as definition #%d", x.ID, x.ID)
			case len(x.FuncAttrs) > 0:
				w.add("attrgroup-not-listed", "a reference to the non-empty attribute group #%d is an object the module does not list", x.ID)
			default:
				// documented exception (C05): a reference to an attribute group the input does not
				// define is materialised as an empty group; the input has no definition to be
				// identical with, and LLVM rejects an empty `attributes #N = { }` definition, so the
				// group cannot be listed.
			}
		}
		return
	}
	if isLocalDef(x) {
		w.Refs++
		id := ""
		if n, ok := x.(interface{ Ident() string }); ok {
			id = n.Ident()
		}
		if ctx == nil {
			w.add("scope-leak", "local %s %T is referenced from module level", id, x)
			return
		}
		if !w.locals[ctx][x] {
			owner := "no function of the module"
			for f, ls := range w.locals {
				if ls[x] {
					owner = "function " + f.Ident()
				}
			}
			if _, isBlock := x.(*ir.Block); isBlock && owner == "no function of the module" {
				w.add("dummy-block", "function %s references block %s that no function lists (placeholder)", ctx.Ident(), id)
			} else if owner == "no function of the module" {
				w.add("local-not-definition", "function %s references local %s (%T) that no function lists", ctx.Ident(), id, x)
			} else {
				w.add("scope-leak", "function %s references local %s (%T) of %s", ctx.Ident(), id, x, owner)
			}
		}
		return
	}
	if t, ok := x.(types.Type); ok {
		if name := t.Name(); name != "" {
			w.Refs++
			def, listed := w.typeName[name]
			switch {
			case !listed:
				w.add("type-not-listed", "a use of type %%%s is an object the module does not list under that name", name)
			case def != t:
				w.add("type-copy", "a use of type %%%s is not the object the module lists as its definition", name)
			}
			return
		}
		// unnamed type: enter (recursion always passes through a name)
		k := visitKey{v.Pointer(), v.Type(), ctx}
		if w.visited[k] {
			return
		}
		w.visited[k] = true
		w.value(v.Elem(), ctx)
		return
	}
	if md, ok := x.(metadata.Definition); ok {
		if id := md.ID(); id != -1 {
			w.Refs++
			def, listed := w.mdByID[id]
			switch {
			case !listed:
				w.add("metadata-not-listed", "a reference to !%d is a node the module does not list", id)
			case def != md:
				w.add("metadata-copy", "a reference to !%d is not the node the module lists as definition !%d", id, id)
			default:
				w.uses[md]++
			}
			return
		}
	}
	// any other pointer: enter once
	k := visitKey{v.Pointer(), v.Type(), ctx}
	if w.visited[k] {
		return
	}
	w.visited[k] = true
	w.value(v.Elem(), ctx)
}
