package irwalk

import (
	"crypto/sha256"
	"encoding/hex"
	"fmt"
	"hash"
	"reflect"
	"sort"
	"strings"
)

// Digest returns a structural digest of the object graph reachable from v
// through exported fields: kinds, type names and scalar values in depth-first
// order, every pointer replaced by the number of its first visit, so that
// sharing and cycles are part of the digest and addresses are not.
func Digest(v interface{}) string {
	d := &digester{h: sha256.New(), seen: map[visitKey]int{}}
	d.walk(reflect.ValueOf(v), 0)
	return hex.EncodeToString(d.h.Sum(nil))[:24]
}

type digester struct {
	h    hash.Hash
	seen map[visitKey]int
	n    int
}

func (d *digester) put(format string, a ...interface{}) { fmt.Fprintf(d.h, format, a...) }

func (d *digester) walk(v reflect.Value, depth int) {
	if !v.IsValid() {
		d.put("<invalid>")
		return
	}
	switch v.Kind() {
	case reflect.Interface:
		if v.IsNil() {
			d.put("nil;")
			return
		}
		d.walk(v.Elem(), depth)
	case reflect.Ptr:
		if v.IsNil() {
			d.put("nil;")
			return
		}
		// Constants and unnamed types are values: whether two uses share one Go object (the
		// package-level singletons constant.True, types.I32 ...) or hold equal copies is not part of
		// the module's structure. They are expanded at every use; recursion always passes through a
		// global, a local or a named type, which keep their identity.
		if pp := v.Type().Elem().PkgPath(); pp == "math/big" {
			if sv, ok := v.Interface().(fmt.Stringer); ok {
				d.put("%s(%s);", v.Type().Elem().String(), sv.String())
				return
			}
		} else if strings.HasSuffix(pp, "/ir/constant") && depth < 200 {
			d.put("&%s{", v.Type().Elem().String())
			d.walk(v.Elem(), depth+1)
			d.put("}")
			return
		} else if strings.HasSuffix(pp, "/ir/types") && depth < 200 {
			if t, ok := v.Interface().(interface{ Name() string }); ok && t.Name() == "" {
				d.put("&%s{", v.Type().Elem().String())
				d.walk(v.Elem(), depth+1)
				d.put("}")
				return
			}
		}
		k := visitKey{v.Pointer(), v.Type(), nil}
		if n, ok := d.seen[k]; ok {
			d.put("^%d;", n)
			return
		}
		d.n++
		d.seen[k] = d.n
		d.put("&%s#%d{", v.Type().Elem().String(), d.n)
		d.walk(v.Elem(), depth+1)
		d.put("}")
	case reflect.Struct:
		t := v.Type()
		if t.PkgPath() == "math/big" && v.CanAddr() {
			if s, ok := v.Addr().Interface().(fmt.Stringer); ok {
				d.put("%s(%s)", t.String(), s.String())
				return
			}
		}
		d.put("%s(", t.String())
		for i := 0; i < v.NumField(); i++ {
			f := t.Field(i)
			if f.PkgPath != "" {
				continue
			}
			d.put("%s=", f.Name)
			d.walk(v.Field(i), depth+1)
		}
		d.put(")")
	case reflect.Slice, reflect.Array:
		d.put("[%d:", v.Len())
		for i := 0; i < v.Len(); i++ {
			d.walk(v.Index(i), depth+1)
			d.put(",")
		}
		d.put("]")
	case reflect.Map:
		keys := v.MapKeys()
		sort.Slice(keys, func(i, j int) bool { return fmt.Sprint(keys[i].Interface()) < fmt.Sprint(keys[j].Interface()) })
		d.put("map[%d:", len(keys))
		for _, k := range keys {
			d.put("%v=>", k.Interface())
			d.walk(v.MapIndex(k), depth+1)
			d.put(",")
		}
		d.put("]")
	case reflect.String:
		d.put("%q;", v.String())
	case reflect.Bool:
		d.put("%v;", v.Bool())
	case reflect.Int, reflect.Int8, reflect.Int16, reflect.Int32, reflect.Int64:
		d.put("%d;", v.Int())
	case reflect.Uint, reflect.Uint8, reflect.Uint16, reflect.Uint32, reflect.Uint64, reflect.Uintptr:
		d.put("%d;", v.Uint())
	case reflect.Float32, reflect.Float64:
		d.put("%x;", v.Float())
	default:
		d.put("<%s>", v.Kind())
	}
}
