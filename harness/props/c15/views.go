package c15

import (
	"fmt"
	"reflect"
	"runtime"
	"strconv"
	"sync"
	"time"

	"github.com/llir/llvm/ir"
	"github.com/llir/llvm/ir/constant"
	"github.com/llir/llvm/ir/types"
	"github.com/llir/llvm/ir/value"

	"verif/harness/mbt"
	"verif/harness/props/schema"
)

// --- struct copies (the CopyStruct action of Operands.tla) ------------------------
//
// The library has no Clone; all fields are exported, so an instruction is duplicated by a struct
// copy (dup := *inst). The views of the COPY must be the copy's own: Operands() of the copy is
// complete, every slot is live in the copy, the operands held in fields of the struct itself are
// exposed as the addresses of the copy's fields (slice elements and helper structs are shared
// with the original, as Go copies them), a write through such a slot does not change the
// original, and Succs() of the copy is its targets. The copy is made AFTER Operands() and Succs()
// were called on the original, so that anything the struct remembers is copied along.

func (ck *checker) checkCopy(c *schema.Case) {
	w := newWorld()
	ms := w.markers(c)
	u, _, p := build(w, c, ms)
	if p {
		return
	}
	if _, p := mbt.Guard(func() {
		u.Operands()
		if t, ok := u.(ir.Terminator); ok {
			t.Succs()
		}
	}); p {
		return // reported by checkCase
	}
	rv := reflect.ValueOf(u)
	if rv.Kind() != reflect.Ptr || rv.Elem().Kind() != reflect.Struct {
		return
	}
	dv := reflect.New(rv.Type().Elem())
	dv.Elem().Set(rv.Elem())
	dup, ok := dv.Interface().(value.User)
	if !ok {
		mbt.Infra("struct copy of %T is no value.User", u)
	}
	ck.rep.Count("copy:"+c.ID(), len(c.Ops) > 0)
	ck.copies++
	origText, _, _ := text(u)
	// completeness, liveness of every slot (in the copy), successors of the copy
	if !ck.verifyViews(w, dup, c, ms, "struct-copy", c) {
		return
	}
	var ops []*value.Value
	if _, p := mbt.Guard(func() { ops = dup.Operands() }); p {
		return
	}
	for i := range c.Ops {
		op := &c.Ops[i]
		if _, isSlice := topSlice(dup, op); isSlice {
			continue // shared with the original by the semantics of a Go struct copy
		}
		f := leaf(dup, op)
		if !f.IsValid() || !f.CanAddr() {
			continue
		}
		own, ok := f.Addr().Interface().(*value.Value)
		if !ok {
			continue
		}
		found := false
		for _, s := range ops {
			if s == own {
				found = true
			}
		}
		if !found {
			ck.fail("C15|copy|"+c.Kind+"|slot-not-own-field|"+op.Role,
				fmt.Sprintf("%s: after Operands() on the original and dup := *inst, dup.Operands() has no slot that is the address of the copy's field %s", c.Kind, op.Key()), c)
			return
		}
		// a write through the copy's slot leaves the original alone
		old := *own
		*own = w.value(c, op, "fresh", true)
		after, _, _ := text(u)
		*own = old
		if after != origText {
			ck.fail("C15|copy|"+c.Kind+"|write-changes-original|"+op.Role,
				fmt.Sprintf("%s: writing through the slot of %s of a struct copy changes the original: %q -> %q", c.Kind, op.Key(), origText, after), c)
			return
		}
	}
}

// --- concurrent read-only views (OperandsConc.tla) ---------------------------------
//
// Succs() and Operands() are queries; several goroutines asking ONE terminator / instruction at
// the same time (nobody edits it) must each get the branch targets / the operand slots. Run
// without the race detector: the unchanged Succs() assigns the exported field Successors on every
// call, which is a (benign for the result) write; only the RESULTS are judged.

// hammer calls f from g goroutines n times each; f returns a difference class ("" = as expected).
// The first difference (or panic) per class is returned.
func hammer(g, n int, f func() string) map[string]string {
	var mu sync.Mutex
	bad := map[string]string{}
	var wg sync.WaitGroup
	start := make(chan struct{})
	for r := 0; r < g; r++ {
		wg.Add(1)
		go func() {
			defer wg.Done()
			<-start
			for k := 0; k < n; k++ {
				var cls string
				if msg, p := mbt.Guard(func() { cls = f() }); p {
					cls = "panic"
					mu.Lock()
					if _, ok := bad[cls]; !ok {
						bad[cls] = mbt.Truncate(msg, 200)
					}
					mu.Unlock()
					continue
				}
				if cls != "" {
					mu.Lock()
					if _, ok := bad[cls]; !ok {
						bad[cls] = "call " + strconv.Itoa(k)
					}
					mu.Unlock()
					return
				}
			}
		}()
	}
	close(start)
	wg.Wait()
	return bad
}

// succsClass: which way a returned list differs depends on the schedule, so there is one class.
func succsClass(got, want []*ir.Block) string {
	if sameBlocks(got, want) {
		return ""
	}
	return "not-the-targets"
}

func succsHow(got, want []*ir.Block) string {
	return fmt.Sprintf("%d entries for %d targets: %s", len(got), len(want), mbt.Truncate(blockNames(got), 160))
}

// concurrentViews hammers the views of user u (expected successors want, nil for instructions).
func (ck *checker) concurrentViews(kind, shape string, u value.User, want []*ir.Block, g, n int, cs interface{}) {
	if t, ok := u.(ir.Terminator); ok {
		seq := t.Succs()
		if !sameBlocks(seq, want) {
			return // sequentially wrong: reported by the sequential checks
		}
		var how sync.Once
		var example string
		for cls, at := range hammer(g, n, func() string {
			got := t.Succs()
			cls := succsClass(got, want)
			if cls != "" {
				// (the example is copied after the comparison: a list built in shared memory may have changed again)
				how.Do(func() { example = succsHow(append([]*ir.Block{}, got...), want) })
			}
			return cls
		}) {
			at += "; " + example
			ck.rep.Fail(mbt.Failure{Signature: "C15|succs-concurrent|" + kind + "|" + cls + "|" + shape,
				What: fmt.Sprintf("%s with %d targets: %d goroutines only calling Succs() of the same terminator get a list that is not its branch targets (%s; %s)", kind, len(want), g, cls, at), Case: cs})
		}
		ck.concCalls += g * n
	}
	seqOps := u.Operands()
	for cls, at := range hammer(g, n/4+1, func() string {
		ops := u.Operands()
		if len(ops) != len(seqOps) {
			return "length"
		}
		for i := range ops {
			if ops[i] != seqOps[i] {
				return "slot"
			}
		}
		return ""
	}) {
		ck.rep.Fail(mbt.Failure{Signature: "C15|operands-concurrent|" + kind + "|" + cls + "|" + shape,
			What: fmt.Sprintf("%s: %d goroutines only calling Operands() of the same user get a slot list that differs from the sequential one (%s; %s)", kind, g, cls, at), Case: cs})
	}
	ck.concCalls += g * (n/4 + 1)
}

// bigTerminators builds, for every terminator kind whose successor list is variadic, one
// terminator with n+1 or more targets (the window of a non-atomic list construction grows with the
// length of the list).
func bigTerminators(n int) map[string]struct {
	T    ir.Terminator
	Want []*ir.Block
} {
	f := ir.NewFunc("f", types.Void, ir.NewParam("x", types.I32))
	var bs []*ir.Block
	for i := 0; i <= n; i++ {
		bs = append(bs, f.NewBlock("l"+strconv.Itoa(i)))
	}
	out := map[string]struct {
		T    ir.Terminator
		Want []*ir.Block
	}{}
	add := func(k string, t ir.Terminator, want []*ir.Block) {
		out[k] = struct {
			T    ir.Terminator
			Want []*ir.Block
		}{t, want}
	}
	var cases []*ir.Case
	for i := 1; i <= n; i++ {
		cases = append(cases, ir.NewCase(constant.NewInt(types.I32, int64(i)), bs[i]))
	}
	add("switch", ir.NewSwitch(f.Params[0], bs[0], cases...), bs)
	add("indirectbr", ir.NewIndirectBr(constant.NewBlockAddress(f, bs[0]), bs...), bs)
	asmv := ir.NewInlineAsm(types.NewPointer(types.NewFunc(types.Void)), "", "!i")
	add("callbr", ir.NewCallBr(asmv, nil, bs[0], bs[1:]...), bs)
	add("catchswitch", ir.NewCatchSwitch(constant.None, bs[:n], bs[n]), bs)
	return out
}

func (ck *checker) concurrentBig(kind string) {
	b, ok := bigTerminators(12)[kind]
	if !ok {
		return
	}
	ck.rep.Count("concurrent-many-targets:"+kind, true)
	ck.concurrentViews(kind, "many-targets", b.T.(value.User), b.Want, 8, 100000, map[string]interface{}{"kind": kind, "targets": len(b.Want), "goroutines": 8})
}

func (ck *checker) concurrentCase(c *schema.Case) {
	w := newWorld()
	ms := w.markers(c)
	u, _, p := build(w, c, ms)
	if p {
		return
	}
	var want []*ir.Block
	n := 40
	if _, ok := u.(ir.Terminator); ok {
		want = succMarkers(ck.tabs.Lookup(c.Cat, c.Kind), c, ms)
		n = 400
	}
	ck.rep.Count("concurrent:"+c.ID(), true)
	ck.concurrentViews(c.Kind, "config", u, want, 4, n, caseRec{ID: c.ID(), Case: c})
}

// checkConcurrent: the model runs, then the real views.
func (ck *checker) checkConcurrent(cases []*schema.Case) {
	rep := ck.rep
	r := mbt.MustTLC(mbt.TLCOpts{Spec: "OperandsConc", Cfg: "OperandsConc.cfg", Workers: 2, Timeout: 5 * time.Minute})
	if len(r.Violated) > 0 {
		mbt.Infra("OperandsConc.tla as written violates %v: specification error", r.Violated)
	}
	rep.AddTLC(r)
	r.Cleanup()
	r = mbt.MustTLC(mbt.TLCOpts{Spec: "OperandsConc", Cfg: "OperandsConcInPlace.cfg", Workers: 2, Timeout: 5 * time.Minute})
	if len(r.Violated) == 0 {
		mbt.Infra("vacuity guard: OperandsConc.tla with the list rebuilt in place violates nothing")
	}
	r.Cleanup()

	if runtime.GOMAXPROCS(0) < 4 {
		defer runtime.GOMAXPROCS(runtime.GOMAXPROCS(4))
	}
	t0 := time.Now()
	// every kind with a variadic successor list (as the Schema table says), with many targets
	big := bigTerminators(12)
	for i := range ck.tabs.Kinds {
		e := &ck.tabs.Kinds[i]
		if e.Cat != "term" {
			continue
		}
		variadic := false
		for _, s := range e.Succs {
			for _, g := range e.Groups {
				for _, m := range g.Mem {
					if m.N == s && (g.Ar == "many" || g.Ar == "many1") {
						variadic = true
					}
				}
			}
		}
		if !variadic {
			continue
		}
		if _, ok := big[e.Kind]; !ok {
			mbt.Infra("spec gap: no many-target terminator for kind %s, whose successor list is variadic in Schema.tla", e.Kind)
		}
		ck.concurrentBig(e.Kind)
	}
	// every configuration of the table, cheaply
	for _, c := range cases {
		if c.Fam != "config" || len(c.Ops) == 0 {
			continue
		}
		ck.concurrentCase(c)
	}
	rep.Extra["concurrent_view_calls"] = ck.concCalls
	rep.Extra["concurrent_view_seconds"] = int(time.Since(t0).Seconds())
}
