package c15

import (
	"fmt"

	"github.com/llir/llvm/ir"
	"github.com/llir/llvm/ir/value"

	"verif/harness/mbt"
)

// The frame condition between the instructions of one (parsed) function: "a write through a slot
// changes exactly that operand" also means that no operand of any OTHER instruction changes.
//  1. slot addresses are pairwise disjoint across the instructions of the function;
//  2. after a write through any slot of instruction u, every other instruction prints as before
//     (and after restoring the slot everything prints as at the start).
// Functions with very many instructions are sampled by the caller's corpus sizes; the cost is
// users x slots x users prints.

func (ck *checker) checkFrame(f *ir.Func, users []value.User, src string) {
	if len(users) < 2 || len(users) > 400 {
		return
	}
	owner := map[*value.Value]int{}
	texts := make([]string, len(users))
	for i, u := range users {
		texts[i], _, _ = text(u)
	}
	for i, u := range users {
		for _, sl := range u.Operands() {
			if sl == nil {
				continue
			}
			if j, dup := owner[sl]; dup && j != i {
				ck.rep.Fail(mbt.Failure{Signature: "C15|frame|" + kindOfUser(u) + "|slot-shared-between-instructions",
					What: fmt.Sprintf("parsed %s %s: a slot of %q is the very same memory cell as a slot of %q (holding %s): a write through one rewrites the other",
						src, f.Ident(), texts[i], texts[j], identOf(*sl)),
					Case: map[string]string{"src": src, "inst": texts[i], "other": texts[j]}})
				return
			}
			owner[sl] = i
		}
	}
	for i, u := range users {
		ops := u.Operands()
		// all slots of u are overwritten at once (with the addresses pairwise disjoint, this is as strong
		// as one write at a time and costs one round of prints per instruction)
		olds := make([]value.Value, len(ops))
		n := 0
		for k, sl := range ops {
			if sl == nil || *sl == nil {
				continue
			}
			olds[k] = *sl
			if _, isBlock := olds[k].(*ir.Block); isBlock {
				*sl = ir.NewBlock("verif_frame")
			} else {
				*sl = ir.NewParam("verif_frame", olds[k].Type())
			}
			n++
		}
		ck.frames += n
		bad, now := -1, ""
		if n > 0 {
			for j, o := range users {
				if j != i {
					if t, _, _ := text(o); t != texts[j] {
						bad, now = j, t
						break
					}
				}
			}
		}
		for k, sl := range ops {
			if olds[k] != nil {
				*sl = olds[k]
			}
		}
		ck.rep.Count(fmt.Sprintf("frame:%s:%s:%d", src, f.Ident(), i), n > 0)
		if bad >= 0 {
			ck.rep.Fail(mbt.Failure{Signature: "C15|frame|" + kindOfUser(u) + "|write-changes-another-instruction",
				What: fmt.Sprintf("parsed %s %s: writing %%verif_frame through the slots of %q also changes another instruction: %q now prints %q",
					src, f.Ident(), texts[i], texts[bad], now),
				Case: map[string]string{"src": src, "inst": texts[i], "other": texts[bad]}})
			return
		}
	}
	for i, u := range users {
		if now, _, _ := text(u); now != texts[i] {
			ck.rep.Fail(mbt.Failure{Signature: "C15|frame|" + kindOfUser(u) + "|restore-differs",
				What: fmt.Sprintf("parsed %s %s: after writing the old values back %q prints %q", src, f.Ident(), texts[i], now),
				Case: map[string]string{"src": src, "inst": texts[i]}})
			return
		}
	}
}

func identOf(v value.Value) string {
	if v == nil {
		return "<nil>"
	}
	return v.Ident()
}
