// Package c15 checks property C15: the operand list of every instruction and
// terminator exposes one live slot for every value it uses, and a terminator's
// successor list is exactly its branch targets.
//
// (S) spec/Operands.tla: ReplaceOperand / ReplaceAllUses / QuerySuccs as a state
// machine over every configuration of spec/Schema.tla, invariants NoUseLeft,
// SuccsLive, Complete, WriteExact; with AsImplemented=TRUE TLC must find the
// three defect classes. (G) spec/SchemaEnum.tla enumerates every configuration
// with the operand slot list and successor list the tables require; this
// package builds the real instruction for each with distinct marker values and
// compares Operands(), writes through every slot, Succs() before and after a
// write. (T) replace-all-uses experiments on composed and on parsed functions
// are recorded and judged by spec/OperandsTrace.tla.
package c15

import (
	"fmt"
	"math/rand"
	"os"
	"path/filepath"
	"reflect"
	"regexp"
	"sort"
	"strconv"
	"strings"
	"sync"
	"time"

	"github.com/llir/llvm/asm"
	"github.com/llir/llvm/ir"
	"github.com/llir/llvm/ir/constant"
	"github.com/llir/llvm/ir/metadata"
	"github.com/llir/llvm/ir/types"
	"github.com/llir/llvm/ir/value"

	"verif/harness/mbt"
	"verif/harness/props/reg"
	"verif/harness/props/schema"
)

func init() { reg.Register("C15", Run) }

// --- marker values -------------------------------------------------------------

type world struct {
	tc *schema.TypeCtx
	F  *ir.Func
	n  int
}

func newWorld() *world {
	return &world{tc: schema.NewTypeCtx(nil), F: ir.NewFunc("f", types.Void)}
}

func (w *world) constOf(t types.Type, n int, tag string) constant.Constant {
	switch t := t.(type) {
	case *types.IntType:
		if t.BitSize == 1 {
			return constant.NewBool(n%2 == 1)
		}
		return constant.NewInt(t, int64(100+n))
	case *types.FloatType:
		return constant.NewFloat(t, float64(n))
	case *types.PointerType:
		return ir.NewGlobal(tag, t.ElemType)
	case *types.VectorType:
		if t.Scalable {
			if n%2 == 0 {
				return constant.NewZeroInitializer(t)
			}
			return constant.NewUndef(t)
		}
		var es []constant.Constant
		for i := 0; i < int(t.Len); i++ {
			es = append(es, w.constOf(t.ElemType, (n+i)%4-100, tag+strconv.Itoa(i)))
		}
		return constant.NewVector(t, es...)
	case *types.ArrayType:
		var es []constant.Constant
		for i := 0; i < int(t.Len); i++ {
			es = append(es, w.constOf(t.ElemType, n+i, tag+strconv.Itoa(i)))
		}
		return constant.NewArray(t, es...)
	case *types.StructType:
		var es []constant.Constant
		for i, f := range t.Fields {
			es = append(es, w.constOf(f, n+i, tag+strconv.Itoa(i)))
		}
		return constant.NewStruct(t, es...)
	}
	return constant.NewUndef(t)
}

// value returns a fresh value fit for operand op; alt selects the replacement flavour.
func (w *world) value(c *schema.Case, op *schema.Op, tag string, alt bool) value.Value {
	w.n++
	t := w.tc.Type(&op.Ty)
	switch op.Src {
	case "any":
		return ir.NewParam(tag, t)
	case "const":
		if op.VC != "" && !alt {
			return w.classConst(t, op.VC, tag, nil)
		}
		if op.CV >= 0 && op.VC == "" { // constant struct index of a getelementptr: must stay a valid field number
			it := t.(*types.IntType)
			if alt && (c.Cls == "struct" || c.Cls == "nstruct") && op.CV == 1 {
				return constant.NewInt(it, 0)
			}
			return constant.NewInt(it, int64(op.CV)) // a fresh object with the same text where no other index is valid
		}
		return w.constOf(t, w.n, tag)
	case "block", "blockval": // blockval: a block passed as a value (label-typed argument / bundle input), not a target
		return w.F.NewBlock(tag)
	case "func":
		ft := w.tc.Type(op.Ty.E).(*types.FuncType)
		var ps []*ir.Param
		for _, p := range ft.Params {
			ps = append(ps, ir.NewParam("", p))
		}
		f := ir.NewFunc(tag, ft.RetType, ps...)
		f.Sig.Variadic = ft.Variadic
		return f
	case "pad":
		if !alt {
			return constant.None
		}
		p := ir.NewCleanupPad(constant.None)
		p.SetName(tag)
		return p
	case "catchswitch":
		cs := ir.NewCatchSwitch(constant.None, []*ir.Block{w.F.NewBlock(tag + "h")}, nil)
		cs.SetName(tag)
		return cs
	case "catchpad":
		cs := ir.NewCatchSwitch(constant.None, []*ir.Block{w.F.NewBlock(tag + "h")}, nil)
		cs.SetName(tag + "s")
		p := ir.NewCatchPad(cs)
		p.SetName(tag)
		return p
	case "cleanuppad":
		p := ir.NewCleanupPad(constant.None)
		p.SetName(tag)
		return p
	}
	mbt.Infra("spec gap: operand source %q of %s has no marker binding", op.Src, c.Kind)
	return nil
}

// classConst returns a constant of value class vc (Schema.tla, VClasses) and type t. target is the
// block a "blockaddr" constant takes the address of.
func (w *world) classConst(t types.Type, vc, tag string, target *ir.Block) constant.Constant {
	lit := func(t types.Type, v int64) constant.Constant {
		mk := func(t types.Type) constant.Constant {
			it := t.(*types.IntType)
			if it.BitSize == 1 {
				return constant.NewBool(v != 0)
			}
			return constant.NewInt(it, v)
		}
		if vt, ok := t.(*types.VectorType); ok {
			var es []constant.Constant
			for i := 0; i < int(vt.Len); i++ {
				es = append(es, mk(vt.ElemType))
			}
			return constant.NewVector(vt, es...)
		}
		return mk(t)
	}
	g := func() *ir.Global { return ir.NewGlobal(tag+"g", types.I32) }
	switch vc {
	case "lit0":
		return lit(t, 0)
	case "lit1":
		return lit(t, 1)
	case "lit":
		return w.constOf(t, w.n, tag)
	case "null":
		return constant.NewNull(t.(*types.PointerType))
	case "zero":
		return constant.NewZeroInitializer(t)
	case "undef":
		return constant.NewUndef(t)
	case "poison":
		return constant.NewPoison(t)
	case "global":
		return ir.NewGlobal(tag, t.(*types.PointerType).ElemType)
	case "blockaddr":
		if target == nil {
			target = w.F.NewBlock(tag + "b")
		}
		return constant.NewBlockAddress(w.F, target)
	case "expr":
		switch t := t.(type) {
		case *types.IntType:
			return constant.NewPtrToInt(g(), t)
		case *types.FloatType:
			n := uint64(32)
			if t.Kind == types.FloatKindDouble {
				n = 64
			}
			return constant.NewBitCast(constant.NewPtrToInt(g(), types.NewInt(n)), t)
		case *types.PointerType:
			if types.Equal(t.ElemType, types.I32) {
				return constant.NewGetElementPtr(types.I32, g(), constant.NewInt(types.I64, 1))
			}
			return constant.NewBitCast(g(), t)
		case *types.VectorType:
			a, b := w.constOf(t, 1, tag+"a"), w.constOf(t, 2, tag+"b")
			switch t.ElemType.(type) {
			case *types.IntType:
				return constant.NewAdd(a, b)
			case *types.FloatType:
				return constant.NewFNeg(a)
			}
			return a
		}
	}
	mbt.Infra("spec gap: value class %q of type %s has no binding", vc, t)
	return nil
}

func (w *world) markers(c *schema.Case) []value.Value {
	out := make([]value.Value, len(c.Ops))
	defer func() {
		// the address of one of the destinations (needs the marker of the destination)
		for i := range c.Ops {
			if c.Ops[i].VC == "blockaddr" {
				for j := range c.Ops {
					if b, ok := out[j].(*ir.Block); ok && c.Ops[j].Src == "block" {
						out[i] = w.classConst(w.tc.Type(&c.Ops[i].Ty), "blockaddr", "", b)
						break
					}
				}
			}
		}
	}()
	for i := range c.Ops {
		if i < len(c.Alias) && c.Alias[i] != i+1 {
			out[i] = out[c.Alias[i]-1] // the "alias" family: two operands hold the same value (repeated branch target)
			continue
		}
		out[i] = w.value(c, &c.Ops[i], "m"+strconv.Itoa(i+1), false)
	}
	return out
}

func build(w *world, c *schema.Case, vals []value.Value) (u value.User, msg string, panicked bool) {
	msg, panicked = mbt.Guard(func() { u = schema.BuildInst(w.F.NewBlock("scratch"), c, vals, w.tc) })
	return
}

type llstringer interface{ LLString() string }

func text(u value.User) (s string, msg string, panicked bool) {
	msg, panicked = mbt.Guard(func() { s = u.(llstringer).LLString() })
	return
}

func same(a, b value.Value) bool {
	defer func() { recover() }() // uncomparable dynamic types are never the same marker
	return a == b
}

// --- the per-configuration check (G) ----------------------------------------------

type caseRec struct {
	ID   string       `json:"id"`
	Case *schema.Case `json:"case"`
}

type checker struct {
	rep         *mbt.Report
	tabs        *schema.Tables
	unbuild     int
	orderDiff   map[string]bool
	reflected   map[string]bool
	slotsSeen   int
	writesSeen  int
	classWrites int
	configs     map[string]*schema.Case // "config" family: kind/cnt/bund -> case (neighbouring configurations for edits)
	frames      int
	copies      int
	concCalls   int
}

func cfgKey(kind string, cnt, bund []int) string { return fmt.Sprintf("%s/%v/%v", kind, cnt, bund) }

func (ck *checker) fail(sig, what string, c *schema.Case) {
	ck.rep.Fail(mbt.Failure{Signature: sig, What: what, Case: caseRec{ID: c.ID(), Case: c}})
}

var reTok = regexp.MustCompile(`[%@](?:"[^"]*"|[-a-zA-Z$._0-9]+)`)

// tokens returns the identifier tokens of the printed user, its own result name excluded.
func tokens(s string) []string {
	if k := strings.Index(s, " = "); k > 0 && (s[0] == '%') && !strings.ContainsAny(s[:k], " \t") {
		s = s[k+3:]
	}
	t := reTok.FindAllString(s, -1)
	if t == nil {
		t = []string{}
	}
	return t
}

func (ck *checker) checkCase(c *schema.Case) {
	rep := ck.rep
	if c.Res != nil && !c.Res.IsVoid() {
		c.Name = "r"
	}
	w := newWorld()
	ms := w.markers(c)
	u, msg, p := build(w, c, ms)
	if p {
		ck.unbuild++
		rep.Note("configuration %s cannot be built: %s (constructor type checks are C03's subject)", c.ID(), mbt.Truncate(msg, 200))
		return
	}
	rep.Count("case:"+c.ID(), len(c.Ops) > 0)
	ck.reflectCheck(u, c)
	var ops []*value.Value
	if msg, p := mbt.Guard(func() { ops = u.Operands() }); p {
		ck.fail("C15|operands|"+c.Kind+"|panic", "Operands() panics: "+msg, c)
		return
	}
	orig, _, _ := text(u)
	// completeness: a bijection between table slots and returned slots, by identity of the marker
	slotOf := make([]int, len(c.Ops)) // index into ops, -1 if missing
	used := make([]bool, len(ops))
	for i := range c.Ops {
		slotOf[i] = -1
		for k := range ops {
			if !used[k] && ops[k] != nil && same(*ops[k], ms[i]) {
				slotOf[i], used[k] = k, true
				break
			}
		}
	}
	wrapperOf := map[int]int{}
	for i := range c.Ops {
		ck.slotsSeen++
		if slotOf[i] >= 0 {
			continue
		}
		op := &c.Ops[i]
		// is the marker hidden inside an *ir.Arg wrapper?
		wrapped := false
		for k := range ops {
			if used[k] || ops[k] == nil {
				continue
			}
			if a, ok := (*ops[k]).(*ir.Arg); ok && same(a.Value, ms[i]) {
				wrapped, used[k] = true, true
				wrapperOf[i] = k
				break
			}
		}
		switch {
		case wrapped:
			ck.fail("C15|operands|"+c.Kind+"|arg-wrapped-not-reachable-as-itself",
				fmt.Sprintf("%s: operand %s (%s) is only reachable as its *ir.Arg wrapper, *slot != the value; instruction: %s", c.Kind, op.Key(), ms[i].Ident(), orig), c)
		case op.Role == "bundle input":
			ck.fail("C15|operands|"+c.Kind+"|bundle-input-not-exposed",
				fmt.Sprintf("%s: Operands() has no slot for operand-bundle input %s (%s); instruction: %s", c.Kind, op.Key(), ms[i].Ident(), orig), c)
		default:
			ck.fail("C15|operands|"+c.Kind+"|slot-missing|"+op.Slot,
				fmt.Sprintf("%s: Operands() has no slot holding operand %s (%s); %d slots returned; instruction: %s", c.Kind, op.Key(), ms[i].Ident(), len(ops), orig), c)
		}
	}
	for k := range ops {
		if ops[k] == nil {
			ck.fail("C15|operands|"+c.Kind+"|nil-slot", fmt.Sprintf("%s: Operands()[%d] is nil", c.Kind, k), c)
		} else if !used[k] {
			ck.fail("C15|operands|"+c.Kind+"|unexpected-slot",
				fmt.Sprintf("%s: Operands()[%d] holds %v, which is no operand of the table; instruction: %s", c.Kind, k, *ops[k], orig), c)
		}
	}
	prev := -1
	for i := range c.Ops {
		if slotOf[i] >= 0 {
			if slotOf[i] < prev {
				ck.orderDiff[c.Kind] = true
			}
			prev = slotOf[i]
		}
	}
	// liveness: write a fresh value through each slot; the text must be that of the instruction built with it
	for i := range c.Ops {
		k, isWrapper := slotOf[i], false
		if k < 0 {
			if wk, ok := wrapperOf[i]; ok {
				k, isWrapper = wk, true
			} else {
				continue
			}
		}
		ck.writesSeen++
		w2 := newWorld()
		ms2 := w2.markers(c)
		u2, _, p := build(w2, c, ms2)
		if p {
			continue
		}
		repl := w2.value(c, &c.Ops[i], "fresh", true)
		ms3 := append([]value.Value{}, ms2...)
		ms3[i] = repl
		u3, msg, p := build(w2, c, ms3)
		if p {
			rep.Note("configuration %s cannot be rebuilt with a replacement for %s: %s", c.ID(), c.Ops[i].Key(), mbt.Truncate(msg, 160))
			continue
		}
		want, _, _ := text(u3)
		before, _, _ := text(u2)
		ops2 := u2.Operands()
		if k >= len(ops2) || ops2[k] == nil {
			continue
		}
		*ops2[k] = repl
		got, msg, p := text(u2)
		rep.Count("write:"+c.ID()+":"+c.Ops[i].Key(), true)
		ck.succsUnmoved(u2, c, ms2, i, repl, "a fresh value")
		switch {
		case p:
			ck.fail("C15|write|"+c.Kind+"|"+c.Ops[i].Role+"|print-panics", fmt.Sprintf("%s: LLString() panics after writing %s through the slot of %s: %s", c.Kind, repl.Ident(), c.Ops[i].Key(), msg), c)
		case got == want:
		case isWrapper:
			ck.fail("C15|write|"+c.Kind+"|arg-wrapped-attrs-dropped",
				fmt.Sprintf("%s: writing %s through the slot of %s replaces the whole *ir.Arg: got %q, the instruction built with the replacement prints %q", c.Kind, repl.Ident(), c.Ops[i].Key(), got, want), c)
		case got == before:
			ck.fail("C15|write|"+c.Kind+"|"+c.Ops[i].Role+"|write-not-live",
				fmt.Sprintf("%s: writing %s through the slot of %s does not change the printed instruction %q (want %q)", c.Kind, repl.Ident(), c.Ops[i].Key(), got, want), c)
		default:
			ck.fail("C15|write|"+c.Kind+"|"+c.Ops[i].Role+"|text-differs",
				fmt.Sprintf("%s: after writing %s through the slot of %s: got %q, want %q", c.Kind, repl.Ident(), c.Ops[i].Key(), got, want), c)
		}
	}
	// value classes: every operand that admits any value is overwritten, through its slot, with a constant
	// of every class of its type; the instruction must print like the one built with that constant and
	// the successor list must not move
	if c.Fam == "config" || c.Fam == "labelarg" {
		for i := range c.Ops {
			if c.Ops[i].Src != "any" || slotOf[i] < 0 {
				continue
			}
			for _, vc := range ck.vclassesOf(&c.Ops[i].Ty) {
				w2 := newWorld()
				ms2 := w2.markers(c)
				u2, _, p := build(w2, c, ms2)
				if p {
					continue
				}
				var repl value.Value
				if msg, p := mbt.Guard(func() { repl = w2.classConst(w2.tc.Type(&c.Ops[i].Ty), vc, "k", nil) }); p {
					mbt.Infra("spec gap: value class %s of %s cannot be built: %s", vc, c.Ops[i].Ty.String(), msg)
				}
				ms3 := append([]value.Value{}, ms2...)
				ms3[i] = repl
				u3, _, p := build(w2, c, ms3)
				if p {
					continue // the constructor rejects the constant (C03's subject)
				}
				want, _, _ := text(u3)
				ops2 := u2.Operands()
				if slotOf[i] >= len(ops2) || ops2[slotOf[i]] == nil {
					continue
				}
				*ops2[slotOf[i]] = repl
				got, msg, p := text(u2)
				rep.Count("write-class:"+c.ID()+":"+c.Ops[i].Key()+":"+vc, true)
				ck.classWrites++
				if p {
					ck.fail("C15|write|"+c.Kind+"|"+c.Ops[i].Role+"|print-panics", fmt.Sprintf("%s: LLString() panics after writing the %s constant %s through the slot of %s: %s", c.Kind, vc, repl.Ident(), c.Ops[i].Key(), msg), c)
				} else if got != want {
					ck.fail("C15|write|"+c.Kind+"|"+c.Ops[i].Role+"|text-differs", fmt.Sprintf("%s: after writing the %s constant %s through the slot of %s: got %q, want %q", c.Kind, vc, repl.Ident(), c.Ops[i].Key(), got, want), c)
				}
				ck.succsUnmoved(u2, c, ms2, i, repl, "the "+vc+" constant")
			}
		}
	}
	// successors
	if t, ok := u.(ir.Terminator); ok {
		ck.checkSuccs(t, c, w, ms, slotOf)
	}
	// direct edits of the operand fields between calls of Operands() / Succs()
	if c.Fam == "config" {
		ck.checkEdits(c)
	}
	// struct copies made after Operands() / Succs() of the original
	if c.Fam == "config" || c.Fam == "labelarg" {
		ck.checkCopy(c)
	}
}

// vclassesOf: the value classes of a type, as the table says (Schema.tla, VClasses).
func (ck *checker) vclassesOf(t *schema.Type) []string {
	key := t.K
	switch {
	case t.K == "ptr" && t.AS != 0:
		key = "ptras"
	case t.K == "vec" && t.SC:
		key = "svec"
	case t.K == "arr" || t.K == "struct" || t.K == "named":
		key = "agg"
	}
	return ck.tabs.VClasses[key]
}

// succsUnmoved: the successor list is independent of the operands that are not branch targets. u is a
// user built from markers ms in which operand i has just been overwritten through its slot.
func (ck *checker) succsUnmoved(u value.User, c *schema.Case, ms []value.Value, i int, repl value.Value, what string) {
	t, ok := u.(ir.Terminator)
	if !ok {
		return
	}
	for _, s := range c.Succs {
		if s-1 == i {
			return // a target was written: checkSuccs
		}
	}
	want := []*ir.Block{}
	for _, s := range c.Succs {
		want = append(want, ms[s-1].(*ir.Block))
	}
	var got []*ir.Block
	if msg, p := mbt.Guard(func() { got = t.Succs() }); p {
		ck.fail("C15|succs|"+c.Kind+"|panic-after-write", "Succs() panics after a write through a non-target slot: "+msg, c)
		return
	}
	ck.rep.Count(fmt.Sprintf("succs-after-nontarget-write:%s:%s:%s", c.ID(), c.Ops[i].Key(), what), true)
	if !sameBlocks(got, want) {
		txt, _, _ := text(u)
		ck.fail("C15|succs|"+c.Kind+"|depends-on-non-target-operand",
			fmt.Sprintf("%s: after writing %s %s through the slot of %s (no branch target) Succs() = %s, but the branch targets are unchanged: %s; the instruction prints %q",
				c.Kind, what, repl.Ident(), c.Ops[i].Key(), blockNames(got), blockNames(want), txt), c)
	}
}

func blockNames(bs []*ir.Block) string {
	var s []string
	for _, b := range bs {
		if b == nil {
			s = append(s, "<nil>")
		} else {
			s = append(s, b.Ident())
		}
	}
	return "[" + strings.Join(s, " ") + "]"
}

func sameBlocks(a, b []*ir.Block) bool {
	if len(a) != len(b) {
		return false
	}
	for i := range a {
		if a[i] != b[i] {
			return false
		}
	}
	return true
}

func (ck *checker) checkSuccs(t ir.Terminator, c *schema.Case, w *world, ms []value.Value, slotOf []int) {
	want := []*ir.Block{}
	for _, s := range c.Succs {
		want = append(want, ms[s-1].(*ir.Block))
	}
	var got []*ir.Block
	if msg, p := mbt.Guard(func() { got = t.Succs() }); p {
		ck.fail("C15|succs|"+c.Kind+"|panic", "Succs() panics: "+msg, c)
		return
	}
	ck.rep.Count("succs:"+c.ID(), len(want) > 0)
	if !sameBlocks(got, want) {
		cls := "differs-from-targets"
		if len(got) < len(want) && c.Fam == "alias" {
			cls = "repeated-target-dropped"
		}
		ck.fail("C15|succs|"+c.Kind+"|"+cls, fmt.Sprintf("%s: Succs() = %s, the branch targets in order (with multiplicity) are %s", c.Kind, blockNames(got), blockNames(want)), c)
		return
	}
	for _, b := range got {
		if b.Parent != w.F {
			ck.fail("C15|succs|"+c.Kind+"|foreign-block", fmt.Sprintf("%s: successor %s does not belong to the function", c.Kind, b.Ident()), c)
		}
	}
	// after a write through the slot of a target -- a fresh block, or another target that is
	// already in the list (successors are a list with multiplicity) -- with and without an
	// earlier Succs() call
	for n, s := range c.Succs {
		for _, primed := range []bool{false, true} {
			for src := -1; src < len(c.Succs); src++ { // -1: a fresh block; else: the block of another target
				if src == n || slotOf[s-1] < 0 {
					continue
				}
				w2 := newWorld()
				ms2 := w2.markers(c)
				u2, _, p := build(w2, c, ms2)
				if p {
					continue
				}
				t2 := u2.(ir.Terminator)
				if primed {
					t2.Succs()
				}
				var nb *ir.Block
				if src < 0 {
					nb = w2.F.NewBlock("fresh")
				} else {
					nb = ms2[c.Succs[src]-1].(*ir.Block)
				}
				ops2 := u2.Operands()
				if slotOf[s-1] >= len(ops2) || ops2[slotOf[s-1]] == nil {
					continue
				}
				*ops2[slotOf[s-1]] = nb
				want2 := []*ir.Block{}
				for _, s2 := range c.Succs {
					want2 = append(want2, ms2[s2-1].(*ir.Block))
				}
				want2[n] = nb
				var got2 []*ir.Block
				if msg, p := mbt.Guard(func() { got2 = t2.Succs() }); p {
					ck.fail("C15|succs|"+c.Kind+"|panic-after-write", "Succs() panics after a write: "+msg, c)
					continue
				}
				ck.rep.Count(fmt.Sprintf("succs-after-write:%s:%d:%d:%v", c.ID(), n, src, primed), true)
				if !sameBlocks(got2, want2) {
					cls := "wrong-after-write"
					if primed {
						cls = "stale-after-write"
					}
					if src >= 0 && len(got2) < len(want2) {
						cls = "repeated-target-dropped"
					}
					txt, _, _ := text(u2)
					ck.fail("C15|succs|"+c.Kind+"|"+cls, fmt.Sprintf("%s: after writing %s through the slot of %s (Succs() called before: %v) Succs() = %s but the instruction prints %q (targets %s)",
						c.Kind, nb.Ident(), c.Ops[s-1].Key(), primed, blockNames(got2), txt, blockNames(want2)), c)
				}
			}
		}
	}
}

// --- reflection cross-check of the table -----------------------------------------

var valueType = reflect.TypeOf((*value.Value)(nil)).Elem()

// valueFields lists the paths of value-typed fields of struct type t
// (value.Value, []value.Value, and one level into helper structs).
func valueFields(t reflect.Type, prefix string, depth int) []string {
	var out []string
	for i := 0; i < t.NumField(); i++ {
		f := t.Field(i)
		if !f.IsExported() {
			continue
		}
		ft := f.Type
		switch {
		case f.Anonymous:
			// LocalIdent, Metadata: no operands (metadata attachments are not values)
		case ft == valueType, ft.Kind() == reflect.Slice && ft.Elem() == valueType:
			out = append(out, prefix+f.Name)
		case depth == 0 && ft.Kind() == reflect.Slice && ft.Elem().Kind() == reflect.Ptr && ft.Elem().Elem().Kind() == reflect.Struct && ft.Elem().Elem().PkgPath() == t.PkgPath():
			out = append(out, valueFields(ft.Elem().Elem(), prefix+f.Name+".", 1)...)
		case depth == 0 && ft.Kind() == reflect.Ptr && ft.Elem().Kind() == reflect.Struct && ft.Elem().PkgPath() == t.PkgPath() && ft.Elem().Name() != "Func" && ft.Elem().Name() != "Block":
			out = append(out, valueFields(ft.Elem(), prefix+f.Name+".", 1)...)
		}
	}
	return out
}

func (ck *checker) reflectCheck(u value.User, c *schema.Case) {
	t := reflect.TypeOf(u).Elem()
	if ck.reflected[t.Name()] {
		return
	}
	ck.reflected[t.Name()] = true
	e := ck.tabs.Lookup(c.Cat, c.Kind)
	table := map[string]bool{}
	for _, n := range e.SlotNames() {
		table[n] = true
	}
	fields := map[string]bool{}
	for _, f := range valueFields(t, "", 0) {
		fields[f] = true
		if !table[f] {
			mbt.Infra("spec gap: %s has the value-typed field %s, which the Schema table of %q lacks", t.Name(), f, c.Kind)
		}
	}
	for n := range table {
		if !fields[n] {
			mbt.Infra("spec gap: slot %s of the Schema table of %q names no value-typed field of %s", n, c.Kind, t.Name())
		}
	}
}

// --- replace-all-uses experiments (T) ---------------------------------------------

type userRec struct {
	Kind   string   `json:"kind"`
	Before []string `json:"before"`
	After  []string `json:"after"`
}

type rauwRec struct {
	ID    string    `json:"id"`
	Old   string    `json:"old"`
	New   string    `json:"new"`
	Users []userRec `json:"users"`
	// Go side only
	classes []string // per user: where a remaining use sits
	src     string
}

// contains reports where value old occurs inside v (not as v itself).
func whereInside(v, old value.Value) string {
	switch x := v.(type) {
	case *ir.Arg:
		if same(x.Value, old) {
			return "arg-wrapper"
		}
		return whereInside(x.Value, old)
	case *metadata.Value:
		if v, ok := x.Value.(value.Value); ok && same(v, old) {
			return "metadata-wrapper"
		}
	case constant.Constant:
		if old != nil && strings.Contains(x.Ident(), old.Ident()) && !same(v, old) {
			return "nested-constant"
		}
	}
	return ""
}

func kindOfUser(u value.User) string {
	n := reflect.TypeOf(u).Elem().Name()
	n = strings.TrimPrefix(strings.TrimPrefix(n, "Inst"), "Term")
	if n == "VAArg" {
		return "va_arg"
	}
	return strings.ToLower(n)
}

// classify says where a use of old that survived the substitution sits in user u.
func classify(u value.User, old value.Value) string {
	for _, sl := range u.Operands() {
		if sl == nil || *sl == nil {
			continue
		}
		if w := whereInside(*sl, old); w != "" {
			return w
		}
	}
	// operand bundles are not reachable through Operands(): look at the fields
	rv := reflect.ValueOf(u).Elem()
	if f := rv.FieldByName("OperandBundles"); f.IsValid() {
		for _, b := range f.Interface().([]*ir.OperandBundle) {
			for _, in := range b.Inputs {
				if same(in, old) {
					return "bundle-input"
				}
			}
		}
	}
	return "other"
}

// substitute performs ReplaceAllUses(old, new) through the slots of the users and records the texts.
func substitute(id string, users []value.User, old, nw value.Value) (rec rauwRec, undo func()) {
	rec = rauwRec{ID: id, Old: old.Ident(), New: nw.Ident()}
	type saved struct {
		sl *value.Value
		v  value.Value
	}
	var log []saved
	before := make([][]string, len(users))
	for i, u := range users {
		s, _, _ := text(u)
		before[i] = tokens(s)
	}
	for _, u := range users {
		for _, sl := range u.Operands() {
			if sl != nil && same(*sl, old) {
				log = append(log, saved{sl, *sl})
				*sl = nw
			}
		}
	}
	for i, u := range users {
		s, _, _ := text(u)
		after := tokens(s)
		uses := false
		for _, t := range before[i] {
			if t == rec.Old {
				uses = true
			}
		}
		if !uses {
			continue // not a user of old
		}
		rec.Users = append(rec.Users, userRec{Kind: kindOfUser(u), Before: before[i], After: after})
		rec.classes = append(rec.classes, classify(u, old))
	}
	undo = func() {
		for _, s := range log {
			*s.sl = s.v
		}
	}
	return rec, undo
}

var reBadUse = regexp.MustCompile(`<<"BADUSE", "([^"]+)", (\d+), (\d+)>>`)

// judge lets TLC (OperandsTrace.tla) judge the recorded experiments.
func judge(rep *mbt.Report, recs []rauwRec, label string) {
	if len(recs) == 0 {
		return
	}
	t := mbt.MustTLC(mbt.TLCOpts{Spec: "OperandsTrace", Cfg: "OperandsTrace.cfg", Workers: 4, Continue: true,
		Data: map[string][]byte{"rauw_rec.ndjson": mbt.NDJSONBytes(recs)}, Timeout: 10 * time.Minute})
	defer t.Cleanup()
	rep.AddTLC(t)
	if t.Distinct != int64(len(recs))+1 {
		mbt.Infra("OperandsTrace consumed %d rows of %d (%s)", t.Distinct-1, len(recs), label)
	}
	rep.TracesValidated += len(recs)
	for _, v := range t.Violated {
		if v != "RowOK" {
			mbt.Infra("OperandsTrace: unexpected violation %s", v)
		}
	}
	seen := map[string]bool{}
	for _, m := range reBadUse.FindAllStringSubmatch(t.Output, -1) {
		r, _ := strconv.Atoi(m[2])
		u, _ := strconv.Atoi(m[3])
		key := m[1] + ":" + m[2] + ":" + m[3]
		if seen[key] {
			continue
		}
		seen[key] = true
		rec := recs[r-1]
		ur := rec.Users[u-1]
		cls := rec.classes[u-1]
		sig := fmt.Sprintf("C15|rauw|%s|%s|%s", ur.Kind, m[1], cls)
		rep.Fail(mbt.Failure{Signature: sig,
			What: fmt.Sprintf("%s: after substituting %s for %s through the Operands() of all users, the %s still prints %v (before: %v) [%s]", rec.src, rec.New, rec.Old, ur.Kind, ur.After, ur.Before, cls),
			Case: map[string]interface{}{"rauw": rec, "src": rec.src}})
	}
}

// composed: two users built from the same configuration share their markers (all operands of one
// type and source hold the same value), every named marker is replaced.
func composedExperiments(rep *mbt.Report, cases []*schema.Case) []rauwRec {
	var recs []rauwRec
	for _, c := range cases {
		if c.Fam != "config" && c.Fam != "wrap" || len(c.Ops) == 0 {
			continue
		}
		mk := func() (*world, []value.User, []value.Value) {
			w := newWorld()
			shared := map[string]value.Value{}
			ms := make([]value.Value, len(c.Ops))
			for i := range c.Ops {
				key := c.Ops[i].Ty.String() + "/" + c.Ops[i].Src
				if c.Ops[i].Src == "const" || c.Ops[i].Src == "func" || c.Ops[i].Src == "pad" {
					key += "/" + strconv.Itoa(i) // constants are not replaced; callee and pads stay single
				}
				if _, ok := shared[key]; !ok {
					shared[key] = w.value(c, &c.Ops[i], "s"+strconv.Itoa(len(shared)+1), false)
				}
				ms[i] = shared[key]
			}
			var us []value.User
			for k := 0; k < 2; k++ {
				u, _, p := build(w, c, ms)
				if p {
					return nil, nil, nil
				}
				us = append(us, u)
			}
			return w, us, ms
		}
		_, _, ms0 := mk()
		if ms0 == nil {
			continue
		}
		done := map[string]bool{}
		for i := range ms0 {
			id := ms0[i].Ident()
			if done[id] || !(strings.HasPrefix(id, "%") || strings.HasPrefix(id, "@")) {
				continue
			}
			done[id] = true
			w, us, ms := mk()
			nw := w.value(c, &c.Ops[i], "verif_new", true)
			rec, _ := substitute(c.ID()+"#"+c.Ops[i].Key(), us, ms[i], nw)
			rec.src = "composed " + c.ID()
			if len(rec.Users) > 0 {
				recs = append(recs, rec)
				rep.Count("rauw:"+rec.ID, true)
			}
		}
	}
	return recs
}

type namedLocal interface {
	value.Named
	ID() int64
	SetID(int64)
	IsUnnamed() bool
}

// parsedExperiments: for every named or numbered local value and every directly used global of
// every function of the module, substitute through all users' slots and re-print.
func parsedExperiments(rep *mbt.Report, ck *checker, m *ir.Module, src string, skipped map[string]int) []rauwRec {
	var recs []rauwRec
	for _, f := range m.Funcs {
		if len(f.Blocks) == 0 {
			continue
		}
		var users []value.User
		var olds []value.Value
		for _, p := range f.Params {
			olds = append(olds, p)
		}
		for _, b := range f.Blocks {
			olds = append(olds, b)
			for _, in := range b.Insts {
				users = append(users, in)
				if v, ok := in.(value.Named); ok {
					if !types.Equal(v.Type(), types.Void) {
						olds = append(olds, v)
					}
				}
			}
			users = append(users, b.Term)
			if v, ok := b.Term.(value.Named); ok && !types.Equal(v.Type(), types.Void) {
				olds = append(olds, v)
			}
			ck.checkParsedTerm(f, b, src)
		}
		ck.checkParsedOperands(users, src)
		ck.checkFrame(f, users, src)
		if strings.HasPrefix(src, "cover2:") {
			continue // the doubled programs serve the frame condition; replace-all-uses is judged on the single ones
		}
		for _, g := range m.Globals {
			olds = append(olds, g)
		}
		for _, g := range m.Funcs {
			olds = append(olds, g)
		}
		for oi, old := range olds {
			var nw value.Value
			var restore func()
			switch o := old.(type) {
			case *ir.Block:
				name, id, unnamed := o.LocalName, o.LocalID, o.IsUnnamed()
				o.SetName("verif_old")
				restore = func() {
					o.LocalName, o.LocalID = name, id
					_ = unnamed
				}
				nw = ir.NewBlock("verif_new")
			case namedLocal:
				name, id, unnamed := o.Name(), o.ID(), o.IsUnnamed()
				o.SetName("verif_old")
				restore = func() {
					if unnamed {
						o.SetName("")
						o.SetID(id)
					} else {
						o.SetName(name)
					}
				}
				nw = ir.NewParam("verif_new", o.Type())
			default:
				restore = func() {}
				nw = ir.NewParam("verif_new", old.Type())
			}
			var rec rauwRec
			var undo func()
			if msg, p := mbt.Guard(func() {
				rec, undo = substitute(fmt.Sprintf("%s:%s#%d", src, f.Ident(), oi), users, old, nw)
			}); p {
				restore()
				rep.Fail(mbt.Failure{Signature: "C15|rauw|parsed|panic", What: fmt.Sprintf("%s %s: substituting for %s panics: %s", src, f.Ident(), old.Ident(), msg), Case: map[string]string{"src": src}})
				continue
			}
			rec.src = fmt.Sprintf("parsed %s %s", src, f.Ident())
			// uses nested in constants (constant expressions, blockaddress) are not operands of the
			// instruction in this library: outside the property's quantifier, counted
			nested := false
			for i, cl := range rec.classes {
				if cl == "nested-constant" {
					left := false
					for _, t := range rec.Users[i].After {
						if t == rec.Old {
							left = true
						}
					}
					if left {
						nested = true
					}
				}
			}
			undo()
			restore()
			if nested {
				skipped["nested-constant"]++
				continue
			}
			if len(rec.Users) > 0 {
				recs = append(recs, rec)
				rep.Count("rauw:"+rec.ID, true)
			}
		}
	}
	return recs
}

// checkParsedOperands: every value-typed field of a parsed instruction (by the slot names of the
// table) must be addressed by exactly one slot of Operands().
func (ck *checker) checkParsedOperands(users []value.User, src string) {
	for _, u := range users {
		kind := kindOfUser(u)
		e := ck.tabs.Lookup("inst", kind)
		if e == nil {
			mbt.Infra("spec gap: no Schema entry for %T (%s)", u, kind)
		}
		ops := u.Operands()
		addr := map[*value.Value]bool{}
		for _, sl := range ops {
			addr[sl] = true
		}
		txt, _, _ := text(u)
		missing := func(slot, cls string) {
			ck.rep.Fail(mbt.Failure{Signature: "C15|operands|" + kind + "|" + cls,
				What: fmt.Sprintf("parsed %s: Operands() of %q has no slot addressing field %s", src, txt, slot),
				Case: map[string]string{"src": src, "inst": txt}})
		}
		rv := reflect.ValueOf(u).Elem()
		for _, slot := range e.SlotNames() {
			parts := strings.Split(slot, ".")
			f := rv.FieldByName(parts[0])
			if !f.IsValid() {
				continue
			}
			var ptrs []*value.Value
			collect := func(fv reflect.Value) {
				switch {
				case fv.Type() == valueType:
					if !fv.IsNil() {
						ptrs = append(ptrs, fv.Addr().Interface().(*value.Value))
					}
				case fv.Kind() == reflect.Slice && fv.Type().Elem() == valueType:
					for i := 0; i < fv.Len(); i++ {
						ptrs = append(ptrs, fv.Index(i).Addr().Interface().(*value.Value))
					}
				}
			}
			if len(parts) == 1 {
				collect(f)
			} else {
				for i := 0; i < f.Len(); i++ {
					collect(f.Index(i).Elem().FieldByName(parts[1]))
				}
			}
			for _, p := range ptrs {
				ck.rep.Count("parsed-slot:"+kind+":"+slot, true)
				ck.slotsSeen++
				if !addr[p] {
					cls := "slot-missing|" + slot
					if slot == "OperandBundles.Inputs" {
						cls = "bundle-input-not-exposed"
					}
					missing(slot, cls)
				} else if a, ok := (*p).(*ir.Arg); ok {
					ck.rep.Fail(mbt.Failure{Signature: "C15|operands|" + kind + "|arg-wrapped-not-reachable-as-itself",
						What: fmt.Sprintf("parsed %s: argument %s of %q is only reachable as its *ir.Arg wrapper", src, a.Value.Ident(), txt),
						Case: map[string]string{"src": src, "inst": txt}})
				}
			}
		}
	}
}

// checkParsedTerm: Succs() of a parsed terminator = the target fields named by the table, in order,
// all blocks of the enclosing function.
func (ck *checker) checkParsedTerm(f *ir.Func, b *ir.Block, src string) {
	t := b.Term
	if t == nil {
		return
	}
	kind := kindOfUser(t)
	e := ck.tabs.Lookup("term", kind)
	if e == nil {
		mbt.Infra("spec gap: no Schema entry for %T", t)
	}
	rv := reflect.ValueOf(t).Elem()
	want := []*ir.Block{}
	for _, slot := range e.Succs {
		parts := strings.Split(slot, ".")
		fv := rv.FieldByName(parts[0])
		add := func(v reflect.Value) {
			if v.Type() == valueType {
				if !v.IsNil() {
					if bl, ok := v.Interface().(*ir.Block); ok {
						want = append(want, bl)
					}
				}
			} else if v.Kind() == reflect.Slice {
				for i := 0; i < v.Len(); i++ {
					if bl, ok := v.Index(i).Interface().(*ir.Block); ok {
						want = append(want, bl)
					}
				}
			}
		}
		if len(parts) == 1 {
			add(fv)
		} else {
			for i := 0; i < fv.Len(); i++ {
				add(fv.Index(i).Elem().FieldByName(parts[1]))
			}
		}
	}
	var got []*ir.Block
	txt, _, _ := text(t)
	if msg, p := mbt.Guard(func() { got = t.Succs() }); p {
		ck.rep.Fail(mbt.Failure{Signature: "C15|succs|" + kind + "|panic", What: fmt.Sprintf("parsed %s: Succs() of %q panics: %s", src, txt, msg), Case: map[string]string{"src": src}})
		return
	}
	ck.rep.Count("parsed-succs:"+src+":"+f.Ident()+":"+b.Ident(), len(want) > 0)
	if !sameBlocks(got, want) {
		ck.rep.Fail(mbt.Failure{Signature: "C15|succs|" + kind + "|differs-from-targets",
			What: fmt.Sprintf("parsed %s: Succs() of %q = %s, targets are %s", src, txt, blockNames(got), blockNames(want)), Case: map[string]string{"src": src, "term": txt}})
		return
	}
	in := map[*ir.Block]bool{}
	for _, x := range f.Blocks {
		in[x] = true
	}
	for _, s := range got {
		if !in[s] || s.Parent != f {
			ck.rep.Fail(mbt.Failure{Signature: "C15|succs|" + kind + "|foreign-block",
				What: fmt.Sprintf("parsed %s: successor %s of %q is not a block of %s (Parent link or containment)", src, s.Ident(), txt, f.Ident()), Case: map[string]string{"src": src, "term": txt}})
		}
	}
}

// --- corpus ------------------------------------------------------------------------

type source struct{ name, text string }

func corpus(tier string, tabs *schema.Tables, rng *rand.Rand) []source {
	var out []source
	for _, dir := range []string{filepath.Join(mbt.Repo, "testdata"), filepath.Join(mbt.Repo, "asm", "testdata")} {
		fs, _ := filepath.Glob(filepath.Join(dir, "*.ll"))
		sort.Strings(fs)
		for _, f := range fs {
			if b, err := os.ReadFile(f); err == nil {
				out = append(out, source{"file:" + filepath.Base(f), string(b)})
			}
		}
	}
	// every Schema kind in a valid context: the cover programs of Build.tla, rendered from the templates
	t := mbt.MustTLC(mbt.TLCOpts{Spec: "Build", Cfg: "BuildCover.cfg", Workers: 1, Timeout: 10 * time.Minute})
	progs, err := mbt.ReadNDJSON[schema.Prog](filepath.Join(t.Dir, "progs.ndjson"))
	t.Cleanup()
	if err != nil {
		mbt.Infra("progs.ndjson: %v", err)
	}
	for i := range progs {
		if progs[i].Fam == "cover" {
			out = append(out, source{"cover:" + progs[i].ID, schema.RenderProg(tabs, &progs[i])})
			// the same body twice in one function: two users with identical operand lists, bundles,
			// incoming lists, cases (for the frame condition between instructions)
			// (quick tier: the repetition / bundle configurations only; thorough: every program)
			if tier != "thorough" && !strings.Contains(progs[i].ID, "/config/") {
				continue
			}
			if d := schema.DoubleProg(&progs[i]); d != nil {
				out = append(out, source{"cover2:" + progs[i].ID, schema.RenderProg(tabs, d)})
			}
		}
	}
	n := 8
	if tier == "thorough" {
		n = 60
	}
	for i := 0; i < n; i++ {
		seed := rng.Intn(1 << 30)
		so, _, code, err := mbt.Tool(nil, 30*time.Second, "llvm-stress", "-seed", strconv.Itoa(seed), "-size", "120")
		if err != nil || code != 0 {
			mbt.Infra("llvm-stress failed")
		}
		out = append(out, source{"stress:" + strconv.Itoa(seed), string(so)})
	}
	return out
}

// --- driver --------------------------------------------------------------------------

// Run is the C15 check.
func Run(tier, replay string) {
	rep := mbt.NewReport("C15", tier, "model_checking")
	rep.Rule = "instruction configurations (kind x class x repetition counts x bundle shape x Arg wrapping) with at least one operand whose Operands() was compared with the Schema table; every (configuration, slot) written through; every terminator configuration's Succs() before and after a write; replace-all-uses experiments judged by TLC"
	rng := rand.New(rand.NewSource(mbt.Seed()))

	// (G) the configurations
	t := mbt.MustTLC(mbt.TLCOpts{Spec: "SchemaEnum", Cfg: "SchemaEnum.cfg", Workers: 1, Timeout: 10 * time.Minute})
	if len(t.Violated) > 0 {
		mbt.Infra("SchemaEnum: table inconsistency %v", t.Violated)
	}
	rep.AddTLC(t)
	var tabs schema.Tables
	if err := mbt.ReadJSON(filepath.Join(t.Dir, "schema.json"), &tabs); err != nil {
		mbt.Infra("schema.json: %v", err)
	}
	cases, err := mbt.ReadNDJSON[*schema.Case](filepath.Join(t.Dir, "cases.ndjson"))
	if err != nil {
		mbt.Infra("cases.ndjson: %v", err)
	}
	t.Cleanup()
	ck := &checker{rep: rep, tabs: &tabs, orderDiff: map[string]bool{}, reflected: map[string]bool{}}

	if replay != "" {
		runReplay(rep, ck, replay)
		rep.Finish()
	}

	// (S) the design-level model: all histories of 3 calls / direct edits over the configurations with
	// few operands, and all histories of 2 over every configuration
	nConfigStates := t.Distinct
	bounds := []map[string]string{{"MaxCalls": "3", "MaxOps": "4"}, {"MaxCalls": "2", "MaxOps": "20"}}
	if tier == "thorough" {
		bounds[0] = map[string]string{"MaxCalls": "3", "MaxOps": "6"}
	}
	// the model runs proceed in the background while the configurations are replayed into the real code
	var wg sync.WaitGroup
	modelRuns := make([]*mbt.TLCResult, len(bounds))
	for i := range bounds {
		wg.Add(1)
		go func(i int) {
			defer wg.Done()
			r := mbt.MustTLC(mbt.TLCOpts{Spec: "Operands", Cfg: "Operands.cfg", Consts: bounds[i], Workers: 6, Timeout: 20 * time.Minute})
			if len(r.Violated) > 0 {
				mbt.Infra("Operands.tla with Dev={} violates %v: specification error", r.Violated)
			}
			modelRuns[i] = r
		}(i)
	}
	// every deviation the model knows must violate its property (the model is sensitive to it)
	wg.Add(1)
	go func() {
		defer wg.Done()
		for _, dev := range []string{"HideBundles", "WrapArgs", "CacheSuccs", "CacheOps", "StructOps", "DedupSuccs", "StickySuccs"} {
			r := mbt.MustTLC(mbt.TLCOpts{Spec: "Operands", Cfg: "OperandsDev_" + dev + ".cfg", Workers: 2, Timeout: 10 * time.Minute})
			if len(r.Violated) == 0 {
				mbt.Infra("vacuity guard: Operands.tla with deviation %s violates nothing", dev)
			}
			r.Cleanup()
		}
	}()
	joinModels := func() {
		wg.Wait()
		for _, r := range modelRuns {
			rep.AddTLC(r)
			r.Cleanup()
		}
	}

	if int64(len(cases)) != nConfigStates-1-int64(len(tabs.Kinds)) {
		mbt.Infra("cases.ndjson has %d rows for %d configuration states", len(cases), nConfigStates-1-int64(len(tabs.Kinds)))
	}
	ck.configs = map[string]*schema.Case{}
	for _, c := range cases {
		if c.Fam == "config" {
			ck.configs[cfgKey(c.Kind, c.Cfg.Cnt, c.Cfg.Bund)] = c
		}
	}
	kinds := map[string]bool{}
	for _, c := range cases {
		kinds[c.Kind] = true
		ck.checkCase(c)
	}
	rep.TracesValidated += len(cases)
	// concurrent read-only views (OperandsConc.tla)
	ck.checkConcurrent(cases)
	if len(kinds) != len(tabs.Kinds) || len(ck.reflected) != len(tabs.Kinds) {
		mbt.Infra("only %d of %d kinds were built (%d struct types cross-checked)", len(kinds), len(tabs.Kinds), len(ck.reflected))
	}
	if ck.unbuild*50 > len(cases) {
		mbt.Infra("%d of %d configurations cannot be built: the Schema typing is wrong", ck.unbuild, len(cases))
	}
	for i, c := range cases {
		if i%200 == 0 {
			rep.Sample(map[string]interface{}{"configuration": c.ID(), "operands": len(c.Ops), "succs": c.Succs})
		}
	}

	// (T) replace-all-uses: composed users, then parsed functions
	recs := composedExperiments(rep, cases)
	judge(rep, recs, "composed")
	skipped := map[string]int{}
	var precs []rauwRec
	nparsed, nrejected := 0, 0
	var rejected []string
	for _, s := range corpus(tier, &tabs, rng) {
		var m *ir.Module
		var perr error
		if msg, p := mbt.Guard(func() { m, perr = asm.ParseString(s.name, s.text) }); p || perr != nil {
			nrejected++
			if perr != nil {
				msg = perr.Error()
			}
			rejected = append(rejected, s.name+": "+mbt.Truncate(strings.ReplaceAll(msg, "\n", " "), 140))
			continue // parser acceptance is C01's subject
		}
		nparsed++
		precs = append(precs, parsedExperiments(rep, ck, m, s.name, skipped)...)
	}
	judge(rep, precs, "parsed")
	if len(precs) > 0 {
		rep.Sample(map[string]interface{}{"rauw": precs[len(precs)/2].ID, "old": precs[len(precs)/2].Old, "users": precs[len(precs)/2].Users})
	}
	rep.Extra["kinds_covered"] = len(kinds)
	rep.Extra["configurations"] = len(cases)
	rep.Extra["slots_checked"] = ck.slotsSeen
	rep.Extra["slot_writes_checked"] = ck.writesSeen
	rep.Extra["struct_copies_checked"] = ck.copies
	rep.Extra["frame_condition_writes_on_parsed_functions"] = ck.frames
	rep.Extra["struct_types_cross_checked_by_reflection"] = len(ck.reflected)
	rep.Extra["rauw_experiments_composed"] = len(recs)
	rep.Extra["rauw_experiments_parsed"] = len(precs)
	rep.Extra["parsed_modules"] = nparsed
	rep.Extra["corpus_modules_rejected_by_parser"] = nrejected
	if len(rejected) > 12 {
		rejected = rejected[:12]
	}
	rep.Extra["corpus_modules_rejected_by_parser_examples"] = rejected
	rep.Extra["rauw_skipped_use_nested_in_constant"] = skipped["nested-constant"]
	rep.Extra["unbuildable_configurations"] = ck.unbuild
	var od []string
	for k := range ck.orderDiff {
		od = append(od, k)
	}
	sort.Strings(od)
	rep.Extra["kinds_whose_slot_order_differs_from_textual_order"] = od
	rep.Exhaustive = false
	rep.Explanation = "the bounded configuration space of SchemaEnum.tla is enumerated completely (every kind, optional operands present/absent, lists of length 0..2, bundle shapes, Arg wrapping), but operand lists longer than 2 only occur in the parsed corpus; the replace-all-uses experiments on parsed functions are a seeded sample"
	rep.Assumptions = []string{
		"Schema.tla transcribes the operand structure of the LLVM 14 LangRef correctly; the reflection pass shows that it names every value-typed field of the 66 instruction structs (a missing field is exit 2)",
		"slots are matched by identity of the marker value, not by position: a different but complete slot order is accepted",
		"concurrent readers are run without the race detector: the unsynchronised assignment of the exported field Successors by every Succs() call is not judged, only the returned lists (on x86 stores are not reordered, so a reader that sees another reader's list sees its elements)",
		"uses of a value nested inside a constant (constant expression, blockaddress) are not operands of the instruction in this library and are outside the quantifier (counted in rauw_skipped_use_nested_in_constant)",
	}
	joinModels()
	rep.Finish()
}

func runReplay(rep *mbt.Report, ck *checker, path string) {
	var rf struct {
		Failures []struct {
			Case map[string]interface{} `json:"case"`
		} `json:"failures"`
	}
	if err := mbt.ReadJSON(path, &rf); err != nil {
		mbt.Infra("replay %s: %v", path, err)
	}
	for _, f := range rf.Failures {
		if f.Case == nil {
			continue
		}
		b := mbt.NDJSONBytes([]interface{}{f.Case})
		tmp, _ := os.CreateTemp("", "c15-replay-*.json")
		tmp.Write(b)
		tmp.Close()
		if _, ok := f.Case["case"]; ok {
			var cr caseRec
			if err := mbt.ReadJSON(tmp.Name(), &cr); err == nil && cr.Case != nil {
				ck.checkCase(cr.Case)
				ck.concurrentCase(cr.Case)
			}
		} else if kind, ok := f.Case["kind"].(string); ok && f.Case["targets"] != nil {
			ck.concurrentBig(kind)
		} else if src, ok := f.Case["src"].(string); ok {
			rep.Note("replay of a corpus experiment: source %s is re-run by the full check (corpus is regenerated from the seed)", src)
			rep.Count("replay:"+src, true)
		}
		os.Remove(tmp.Name())
	}
}
