// Package c15 checks property C15 (not built yet).
package c15

import (
	"verif/harness/mbt"
	"verif/harness/props/reg"
)

func init() { reg.Register("C15", Run) }

// Run is the C15 check.
func Run(tier, replay string) { mbt.Infra("check C15 is not built yet") }
