package c15

import (
	"fmt"
	"reflect"
	"strings"

	"github.com/llir/llvm/ir"
	"github.com/llir/llvm/ir/enum"
	"github.com/llir/llvm/ir/value"

	"verif/harness/mbt"
	"verif/harness/props/schema"
)

// Direct edits (the DirectAssign / ReplaceElem / SwapSlice / Append / Remove actions of
// Operands.tla): a client changes the exported operand fields of an instruction itself, between
// two calls of Operands() / Succs(). Afterwards Operands() must again expose exactly the current
// operands (complete), each slot must be live, and Succs() must be the current targets. Every edit
// is applied to a fresh instruction on which Operands() (and Succs()) was called before, so that
// anything the views remember from the first call is exposed.

// leaf returns the settable reflect.Value of the field that holds operand op.
func leaf(u value.User, op *schema.Op) reflect.Value {
	rv := reflect.ValueOf(u).Elem()
	parts := strings.Split(op.Slot, ".")
	f := rv.FieldByName(parts[0])
	if len(parts) == 1 {
		if f.Kind() == reflect.Slice {
			return f.Index(op.I - 1)
		}
		return f
	}
	g := f.Index(op.I - 1).Elem().FieldByName(parts[1])
	if g.Kind() == reflect.Slice {
		return g.Index(op.J - 1)
	}
	return g
}

// topSlice returns the slice-valued field that holds the repetitions of op's group (the inner
// Inputs slice for operand-bundle inputs); ok=false if the operand is not in a slice.
func topSlice(u value.User, op *schema.Op) (reflect.Value, bool) {
	rv := reflect.ValueOf(u).Elem()
	parts := strings.Split(op.Slot, ".")
	f := rv.FieldByName(parts[0])
	if f.Kind() != reflect.Slice {
		return f, false
	}
	if op.Slot == "OperandBundles.Inputs" {
		return f.Index(op.I - 1).Elem().FieldByName("Inputs"), true
	}
	return f, true
}

func sameGroup(a, b *schema.Op) bool {
	if a.Slot == "OperandBundles.Inputs" || b.Slot == "OperandBundles.Inputs" {
		return a.Slot == b.Slot && a.I == b.I
	}
	return strings.Split(a.Slot, ".")[0] == strings.Split(b.Slot, ".")[0]
}

func cloneCase(c *schema.Case) *schema.Case {
	d := *c
	d.Ops = append([]schema.Op{}, c.Ops...)
	d.Cfg.Bund = append([]int{}, c.Cfg.Bund...)
	d.Cfg.Cnt = append([]int{}, c.Cfg.Cnt...)
	d.Alias = nil
	return &d
}

// succMarkers lists the markers of the successor slots of the table entry, in successor order.
func succMarkers(e *schema.Entry, c *schema.Case, ms []value.Value) []*ir.Block {
	out := []*ir.Block{}
	for _, name := range e.Succs {
		for i := range c.Ops {
			if c.Ops[i].Slot == name {
				out = append(out, ms[i].(*ir.Block))
			}
		}
	}
	return out
}

// verifyViews checks completeness, liveness and successors of instruction u, which is supposed to
// be in the state described by (c, ms). what names the edit for messages and signatures.
func (ck *checker) verifyViews(w *world, u value.User, c *schema.Case, ms []value.Value, edit string, orig *schema.Case) bool {
	fail := func(cls, msg string) bool {
		ck.fail("C15|edit|"+c.Kind+"|"+edit+"|"+cls, fmt.Sprintf("%s, after Operands() and then a direct edit (%s) of the instruction: %s", c.Kind, edit, msg), orig)
		return false
	}
	// the model and the instruction agree on what is printed
	d, msg, p := build(w, c, ms)
	if p {
		return true // the edited shape cannot be built directly (e.g. an index path that no longer types): not judged
	}
	want, _, _ := text(d)
	got, msg, p := text(u)
	if p {
		return fail("print-panics", "LLString() panics: "+msg)
	}
	if got != want {
		return fail("print-differs", fmt.Sprintf("it prints %q, the instruction built directly in that state prints %q", got, want))
	}
	var ops []*value.Value
	if msg, p := mbt.Guard(func() { ops = u.Operands() }); p {
		return fail("operands-panic", "Operands() panics: "+msg)
	}
	used := make([]bool, len(ops))
	slot := make([]int, len(c.Ops))
	for i := range c.Ops {
		slot[i] = -1
		for k := range ops {
			if !used[k] && ops[k] != nil && same(*ops[k], ms[i]) {
				slot[i], used[k] = k, true
				break
			}
		}
		if slot[i] < 0 {
			return fail("slot-missing", fmt.Sprintf("Operands() has no slot holding the current operand %s (%s); it prints %q", c.Ops[i].Key(), ms[i].Ident(), got))
		}
	}
	for k := range ops {
		if !used[k] {
			return fail("stale-slot", fmt.Sprintf("Operands()[%d] holds %v, which is not an operand any more; it prints %q", k, deref(ops[k]), got))
		}
	}
	// liveness of every slot
	for i := range c.Ops {
		repl := w.value(c, &c.Ops[i], "fresh", true)
		ms3 := append([]value.Value{}, ms...)
		ms3[i] = repl
		d3, _, p := build(w, c, ms3)
		if p {
			continue
		}
		want3, _, _ := text(d3)
		old := *ops[slot[i]]
		*ops[slot[i]] = repl
		got3, _, _ := text(u)
		*ops[slot[i]] = old
		ck.rep.Count("edit-write:"+orig.ID()+":"+edit+":"+c.Ops[i].Key(), true)
		if got3 != want3 {
			cls := "write-differs"
			if got3 == got {
				cls = "write-not-live"
			}
			return fail(cls, fmt.Sprintf("writing %s through the slot of %s gives %q, want %q", repl.Ident(), c.Ops[i].Key(), got3, want3))
		}
	}
	if t, ok := u.(ir.Terminator); ok {
		e := ck.tabs.Lookup(c.Cat, c.Kind)
		wantS := succMarkers(e, c, ms)
		var gotS []*ir.Block
		if msg, p := mbt.Guard(func() { gotS = t.Succs() }); p {
			return fail("succs-panic", "Succs() panics: "+msg)
		}
		if !sameBlocks(gotS, wantS) {
			return fail("succs-differ", fmt.Sprintf("Succs() = %s, the targets are %s; it prints %q", blockNames(gotS), blockNames(wantS), got))
		}
	}
	return true
}

func deref(p *value.Value) interface{} {
	if p == nil || *p == nil {
		return nil
	}
	return *p
}

// checkEdits applies every kind of direct edit at every operand of configuration c.
func (ck *checker) checkEdits(c *schema.Case) {
	ck.checkOptional(c)
	e := ck.tabs.Lookup(c.Cat, c.Kind)
	minOf := func(op *schema.Op) int {
		for _, g := range e.Groups {
			for _, m := range g.Mem {
				if m.N == op.Slot {
					return g.Min
				}
			}
		}
		return 0
	}
	// fresh returns a primed instruction with its markers
	fresh := func() (*world, value.User, []value.Value) {
		w := newWorld()
		ms := w.markers(c)
		u, _, p := build(w, c, ms)
		if p {
			return nil, nil, nil
		}
		u.Operands()
		if t, ok := u.(ir.Terminator); ok {
			t.Succs()
		}
		return w, u, ms
	}
	set := func(dst reflect.Value, v value.Value) { dst.Set(reflect.ValueOf(&v).Elem()) }
	for i := range c.Ops {
		op := &c.Ops[i]
		// E1: assign the field / slice element directly
		if w, u, ms := fresh(); u != nil {
			r := w.value(c, op, "edit", true)
			set(leaf(u, op), r)
			ms[i] = r
			ck.rep.Count("edit:"+c.ID()+":assign:"+op.Key(), true)
			ck.verifyViews(w, u, c, ms, "assign-field", c)
		}
		if _, isSlice := topSlice(mustBuild(c), op); !isSlice {
			continue
		}
		parts := strings.Split(op.Slot, ".")
		// E2: replace the element that holds the operand by a new helper struct (Incs[i] = NewIncoming(...))
		if len(parts) == 2 {
			if w, u, ms := fresh(); u != nil {
				r := w.value(c, op, "edit", true)
				f := reflect.ValueOf(u).Elem().FieldByName(parts[0])
				old := f.Index(op.I - 1)
				n := reflect.New(old.Elem().Type())
				n.Elem().Set(old.Elem())
				if inner := n.Elem().FieldByName(parts[1]); inner.Kind() == reflect.Slice {
					cp := reflect.MakeSlice(inner.Type(), inner.Len(), inner.Len())
					reflect.Copy(cp, inner)
					inner.Set(cp)
					set(inner.Index(op.J-1), r)
				} else {
					set(inner, r)
				}
				f.Index(op.I - 1).Set(n)
				ms[i] = r
				ck.rep.Count("edit:"+c.ID()+":replace:"+op.Key(), true)
				ck.verifyViews(w, u, c, ms, "replace-element", c)
			}
		}
		// E3: swap the slice for a new one of the same length, one element changed
		if w, u, ms := fresh(); u != nil {
			r := w.value(c, op, "edit", true)
			sl, _ := topSlice(u, op)
			cp := reflect.MakeSlice(sl.Type(), sl.Len(), sl.Len())
			reflect.Copy(cp, sl)
			sl.Set(cp)
			set(leaf(u, op), r)
			ms[i] = r
			ck.rep.Count("edit:"+c.ID()+":swap:"+op.Key(), true)
			ck.verifyViews(w, u, c, ms, "swap-slice", c)
		}
		// the remaining edits once per group: at its last repetition
		last := true
		for k := i + 1; k < len(c.Ops); k++ {
			if sameGroup(&c.Ops[k], op) {
				last = false
			}
		}
		if !last || op.Slot == "Indices" { // a longer index path need not type
			continue
		}
		// members of the last repetition
		var rep []int
		for k := range c.Ops {
			if sameGroup(&c.Ops[k], op) && c.Ops[k].I == op.I && (op.Slot != "OperandBundles.Inputs" || c.Ops[k].J == op.J) {
				rep = append(rep, k)
			}
		}
		// E4: append one repetition
		if w, u, ms := fresh(); u != nil {
			c2 := cloneCase(c)
			sl, _ := topSlice(u, op)
			var add []schema.Op
			var vals []value.Value
			for _, k := range rep {
				o := c.Ops[k]
				if op.Slot == "OperandBundles.Inputs" {
					o.J++
				} else {
					o.I++
				}
				add = append(add, o)
				vals = append(vals, w.value(c, &o, "app", true))
			}
			if len(parts) == 2 && op.Slot != "OperandBundles.Inputs" {
				n := reflect.New(sl.Type().Elem().Elem())
				n.Elem().Set(sl.Index(sl.Len() - 1).Elem())
				for x, k := range rep {
					set(n.Elem().FieldByName(strings.Split(c.Ops[k].Slot, ".")[1]), vals[x])
				}
				if tf := n.Elem().FieldByName("Type"); tf.IsValid() && op.Slot == "Clauses.X" { // clause kind by position, as schema.BuildInst
					ct := enum.ClauseTypeCatch
					if sl.Len() == 1 {
						ct = enum.ClauseTypeFilter
					}
					tf.Set(reflect.ValueOf(ct))
				}
				sl.Set(reflect.Append(sl, n))
			} else {
				sl.Set(reflect.Append(sl, reflect.ValueOf(&vals[0]).Elem()))
			}
			at := rep[len(rep)-1] + 1
			c2.Ops = append(append(append([]schema.Op{}, c.Ops[:at]...), add...), c.Ops[at:]...)
			ms2 := append(append(append([]value.Value{}, ms[:at]...), vals...), ms[at:]...)
			if op.Slot == "OperandBundles.Inputs" {
				c2.Cfg.Bund[op.I-1]++
			}
			ck.rep.Count("edit:"+c.ID()+":append:"+op.Key(), true)
			ck.verifyViews(w, u, c2, ms2, "append", c)
		}
		// E5: remove the last repetition
		if op.I > minOf(op) || op.Slot == "OperandBundles.Inputs" {
			if w, u, ms := fresh(); u != nil {
				c2 := cloneCase(c)
				sl, _ := topSlice(u, op)
				sl.Set(sl.Slice(0, sl.Len()-1))
				drop := map[int]bool{}
				for _, k := range rep {
					drop[k] = true
				}
				c2.Ops = nil
				var ms2 []value.Value
				for k := range c.Ops {
					if !drop[k] {
						c2.Ops = append(c2.Ops, c.Ops[k])
						ms2 = append(ms2, ms[k])
					}
				}
				if op.Slot == "OperandBundles.Inputs" {
					c2.Cfg.Bund[op.I-1]--
				}
				if c.Kind == "landingpad" && len(c2.Ops) == 0 {
					continue
				}
				ck.rep.Count("edit:"+c.ID()+":remove:"+op.Key(), true)
				ck.verifyViews(w, u, c2, ms2, "remove", c)
			}
		}
	}
}

// checkOptional: an optional operand (ret value, alloca count, unwind target of cleanupret /
// catchswitch) is cleared (field = nil, or nil written through its slot) or set after the views
// were used; the model of the edited instruction is the neighbouring configuration of the table.
func (ck *checker) checkOptional(c *schema.Case) {
	e := ck.tabs.Lookup(c.Cat, c.Kind)
	fresh := func() (*world, value.User, []value.Value) {
		w := newWorld()
		ms := w.markers(c)
		u, _, p := build(w, c, ms)
		if p {
			return nil, nil, nil
		}
		u.Operands()
		if t, ok := u.(ir.Terminator); ok {
			t.Succs()
		}
		return w, u, ms
	}
	for gi, g := range e.Groups {
		if g.Ar != "opt" || gi >= len(c.Cfg.Cnt) {
			continue
		}
		slot := g.Mem[0].N
		cnt := append([]int{}, c.Cfg.Cnt...)
		cnt[gi] = 1 - c.Cfg.Cnt[gi]
		nb0 := ck.configs[cfgKey(c.Kind, cnt, c.Cfg.Bund)]
		if nb0 == nil {
			mbt.Infra("spec gap: no configuration %s of %s for the optional operand %s", cfgKey(c.Kind, cnt, c.Cfg.Bund), c.Kind, slot)
		}
		nb := cloneCase(nb0)
		nb.Name = c.Name
		if c.Cfg.Cnt[gi] == 1 {
			// present -> absent
			at := -1
			for i := range c.Ops {
				if c.Ops[i].Slot == slot {
					at = i
				}
			}
			for _, via := range []string{"set-absent", "set-absent-through-slot"} {
				w, u, ms := fresh()
				if u == nil {
					continue
				}
				if via == "set-absent" {
					f := reflect.ValueOf(u).Elem().FieldByName(slot)
					f.Set(reflect.Zero(f.Type()))
				} else {
					done := false
					for _, sl := range u.Operands() {
						if sl != nil && same(*sl, ms[at]) {
							*sl = nil
							done = true
							break
						}
					}
					if !done {
						continue
					}
				}
				ms2 := append(append([]value.Value{}, ms[:at]...), ms[at+1:]...)
				ck.rep.Count("edit:"+c.ID()+":"+via+":"+slot, true)
				ck.verifyViews(w, u, cloneCase(nb), ms2, via, c)
			}
		} else {
			// absent -> present
			at := -1
			for i := range nb.Ops {
				if nb.Ops[i].Slot == slot {
					at = i
				}
			}
			w, u, ms := fresh()
			if u == nil || at < 0 {
				continue
			}
			r := w.value(nb, &nb.Ops[at], "edit", true)
			f := reflect.ValueOf(u).Elem().FieldByName(slot)
			f.Set(reflect.ValueOf(&r).Elem())
			ms2 := append(append(append([]value.Value{}, ms[:at]...), r), ms[at:]...)
			ck.rep.Count("edit:"+c.ID()+":set-present:"+slot, true)
			ck.verifyViews(w, u, cloneCase(nb), ms2, "set-present", c)
		}
	}
}

// mustBuild builds the configuration once (to inspect field kinds).
func mustBuild(c *schema.Case) value.User {
	w := newWorld()
	u, msg, p := build(w, c, w.markers(c))
	if p {
		mbt.Infra("configuration %s cannot be built: %s", c.ID(), msg)
	}
	return u
}
