package c11

import (
	"fmt"
	"reflect"
	"strings"

	"github.com/llir/llvm/asm"
	"github.com/llir/llvm/ir"
	"github.com/llir/llvm/ir/constant"
	"github.com/llir/llvm/ir/enum"
	"github.com/llir/llvm/ir/metadata"
	"github.com/llir/llvm/ir/types"
	"github.com/llir/llvm/ir/value"
)

// Printing positions of the string classes beyond the basic ones of
// positions.go: every place a string attribute is printed (eight sites, three
// forms), further quoted strings of the module, and the string fields of the
// specialized metadata (debug info) nodes.

// ---------------------------------------------------------------------------
// string attributes: "key"="value" pairs and "string" attributes

// attrSite is one place of the grammar where string attributes are printed.
type attrSite struct {
	name string
	// build adds an entity carrying the attribute to m.
	build func(m *ir.Module, it item, attr interface{})
	// wrap renders the module text around the attribute text.
	wrap func(attr string, it item) string
	// locate finds the text that starts at the attribute in a printed module.
	locate func(text string, it item) (string, bool)
	// attrs returns the attributes of the entity in a parsed module.
	attrs func(m *ir.Module, it item) []interface{}
}

func anys[T any](xs []T) []interface{} {
	out := make([]interface{}, len(xs))
	for i, x := range xs {
		out[i] = x
	}
	return out
}

// viaGroup follows "#N" to the attribute group definition line.
func viaGroup(text, rest string) (string, bool) {
	if !strings.HasPrefix(rest, "#") {
		return rest, true
	}
	id := rest
	if i := strings.IndexAny(id, " ,\n"); i >= 0 {
		id = id[:i]
	}
	return afterPrefix(text, "attributes "+id+" = { ")
}

func firstInst(m *ir.Module, name string) ir.Instruction {
	f := findFunc(m, name)
	if f == nil || len(f.Blocks) != 1 || len(f.Blocks[0].Insts) < 1 {
		return nil
	}
	return f.Blocks[0].Insts[0]
}

func attrSites() []*attrSite {
	fname := func(it item) string { return fmt.Sprintf("f%d", it.idx) }
	hname := func(it item) string { return fmt.Sprintf("h%d", it.idx) }
	return []*attrSite{
		{name: "fn", // on the function header
			build: func(m *ir.Module, it item, a interface{}) {
				f := m.NewFunc(fname(it), types.Void)
				f.FuncAttrs = append(f.FuncAttrs, a.(ir.FuncAttribute))
			},
			wrap: func(attr string, it item) string { return fmt.Sprintf("declare void @f%d() %s\n", it.idx, attr) },
			locate: func(text string, it item) (string, bool) {
				rest, ok := afterPrefix(text, fmt.Sprintf("declare void @f%d() ", it.idx))
				if !ok {
					return "", false
				}
				return viaGroup(text, rest)
			},
			attrs: func(m *ir.Module, it item) []interface{} {
				if f := findFunc(m, fname(it)); f != nil {
					return anys(f.FuncAttrs)
				}
				return nil
			},
		},
		{name: "param", // on a parameter
			build: func(m *ir.Module, it item, a interface{}) {
				p := ir.NewParam("", types.I32)
				p.Attrs = append(p.Attrs, a.(ir.ParamAttribute))
				m.NewFunc(fname(it), types.Void, p)
			},
			wrap: func(attr string, it item) string { return fmt.Sprintf("declare void @f%d(i32 %s)\n", it.idx, attr) },
			locate: func(text string, it item) (string, bool) {
				return afterInfix(text, fmt.Sprintf("@f%d(i32 ", it.idx))
			},
			attrs: func(m *ir.Module, it item) []interface{} {
				if f := findFunc(m, fname(it)); f != nil && len(f.Params) == 1 {
					return anys(f.Params[0].Attrs)
				}
				return nil
			},
		},
		{name: "ret", // on the return type
			build: func(m *ir.Module, it item, a interface{}) {
				f := m.NewFunc(fname(it), types.I32)
				f.ReturnAttrs = append(f.ReturnAttrs, a.(ir.ReturnAttribute))
			},
			wrap: func(attr string, it item) string { return fmt.Sprintf("declare %s i32 @f%d()\n", attr, it.idx) },
			locate: func(text string, it item) (string, bool) {
				suffix := fmt.Sprintf(" i32 @f%d()", it.idx)
				for _, l := range lines(text) {
					if strings.HasPrefix(l, "declare ") && strings.HasSuffix(strings.TrimRight(l, " "), suffix) {
						return l[len("declare "):], true
					}
				}
				return "", false
			},
			attrs: func(m *ir.Module, it item) []interface{} {
				if f := findFunc(m, fname(it)); f != nil {
					return anys(f.ReturnAttrs)
				}
				return nil
			},
		},
		{name: "callfn", // function attribute on a call site
			build: func(m *ir.Module, it item, a interface{}) {
				h := m.NewFunc(hname(it), types.Void)
				f := m.NewFunc(fname(it), types.Void)
				b := f.NewBlock("")
				call := b.NewCall(h)
				call.FuncAttrs = append(call.FuncAttrs, a.(ir.FuncAttribute))
				b.NewRet(nil)
			},
			wrap: func(attr string, it item) string {
				return fmt.Sprintf("declare void @h%d()\ndefine void @f%d() {\n  call void @h%d() %s\n  ret void\n}\n", it.idx, it.idx, it.idx, attr)
			},
			locate: func(text string, it item) (string, bool) {
				rest, ok := afterInfix(text, fmt.Sprintf("call void @h%d() ", it.idx))
				if !ok {
					return "", false
				}
				return viaGroup(text, rest)
			},
			attrs: func(m *ir.Module, it item) []interface{} {
				if c, ok := firstInst(m, fname(it)).(*ir.InstCall); ok {
					return anys(c.FuncAttrs)
				}
				return nil
			},
		},
		{name: "callarg", // parameter attribute on a call argument
			build: func(m *ir.Module, it item, a interface{}) {
				h := m.NewFunc(hname(it), types.Void, ir.NewParam("", types.I32))
				f := m.NewFunc(fname(it), types.Void)
				b := f.NewBlock("")
				b.NewCall(h, ir.NewArg(constant.NewInt(types.I32, 0), a.(ir.ParamAttribute)))
				b.NewRet(nil)
			},
			wrap: func(attr string, it item) string {
				return fmt.Sprintf("declare void @h%d(i32)\ndefine void @f%d() {\n  call void @h%d(i32 %s 0)\n  ret void\n}\n", it.idx, it.idx, it.idx, attr)
			},
			locate: func(text string, it item) (string, bool) {
				return afterInfix(text, fmt.Sprintf("call void @h%d(i32 ", it.idx))
			},
			attrs: func(m *ir.Module, it item) []interface{} {
				if c, ok := firstInst(m, fname(it)).(*ir.InstCall); ok && len(c.Args) == 1 {
					if arg, ok := c.Args[0].(*ir.Arg); ok {
						return anys(arg.Attrs)
					}
				}
				return nil
			},
		},
		{name: "callret", // return attribute on a call site
			build: func(m *ir.Module, it item, a interface{}) {
				h := m.NewFunc(hname(it), types.I32)
				f := m.NewFunc(fname(it), types.Void)
				b := f.NewBlock("")
				call := b.NewCall(h)
				call.ReturnAttrs = append(call.ReturnAttrs, a.(ir.ReturnAttribute))
				b.NewRet(nil)
			},
			wrap: func(attr string, it item) string {
				return fmt.Sprintf("declare i32 @h%d()\ndefine void @f%d() {\n  %%1 = call %s i32 @h%d()\n  ret void\n}\n", it.idx, it.idx, attr, it.idx)
			},
			locate: func(text string, it item) (string, bool) {
				suffix := fmt.Sprintf(" i32 @h%d()", it.idx)
				for _, l := range lines(text) {
					if k := strings.Index(l, "= call "); k >= 0 && strings.HasSuffix(strings.TrimRight(l, " "), suffix) {
						return l[k+len("= call "):], true
					}
				}
				return "", false
			},
			attrs: func(m *ir.Module, it item) []interface{} {
				if c, ok := firstInst(m, fname(it)).(*ir.InstCall); ok {
					return anys(c.ReturnAttrs)
				}
				return nil
			},
		},
		{name: "group", // inside an attribute group definition used by a function
			build: func(m *ir.Module, it item, a interface{}) {
				def := &ir.AttrGroupDef{ID: int64(it.ord), FuncAttrs: []ir.FuncAttribute{a.(ir.FuncAttribute)}}
				m.AttrGroupDefs = append(m.AttrGroupDefs, def)
				f := m.NewFunc(fname(it), types.Void)
				f.FuncAttrs = append(f.FuncAttrs, def)
			},
			wrap: func(attr string, it item) string {
				return fmt.Sprintf("declare void @f%d() #%d\nattributes #%d = { %s }\n", it.idx, it.ord, it.ord, attr)
			},
			locate: func(text string, it item) (string, bool) {
				rest, ok := afterPrefix(text, fmt.Sprintf("declare void @f%d() ", it.idx))
				if !ok || !strings.HasPrefix(rest, "#") {
					return "", false
				}
				return viaGroup(text, rest)
			},
			attrs: func(m *ir.Module, it item) []interface{} {
				if f := findFunc(m, fname(it)); f != nil && len(f.FuncAttrs) == 1 {
					if def, ok := f.FuncAttrs[0].(*ir.AttrGroupDef); ok {
						return anys(def.FuncAttrs)
					}
				}
				return nil
			},
		},
		{name: "globalgroup", // attribute group of a global variable
			build: func(m *ir.Module, it item, a interface{}) {
				def := &ir.AttrGroupDef{ID: int64(it.ord), FuncAttrs: []ir.FuncAttribute{a.(ir.FuncAttribute)}}
				m.AttrGroupDefs = append(m.AttrGroupDefs, def)
				g := m.NewGlobalDef(fmt.Sprintf("v%d", it.idx), i32(it.idx))
				g.FuncAttrs = append(g.FuncAttrs, def)
			},
			wrap: func(attr string, it item) string {
				return fmt.Sprintf("@v%d = global i32 %d #%d\nattributes #%d = { %s }\n", it.idx, it.idx, it.ord, it.ord, attr)
			},
			locate: func(text string, it item) (string, bool) {
				rest, ok := afterPrefix(text, fmt.Sprintf("@v%d = global i32 %d ", it.idx, it.idx))
				if !ok || !strings.HasPrefix(rest, "#") {
					return "", false
				}
				return viaGroup(text, rest)
			},
			attrs: func(m *ir.Module, it item) []interface{} {
				if g := findGlobal(m, fmt.Sprintf("v%d", it.idx)); g != nil && len(g.FuncAttrs) == 1 {
					if def, ok := g.FuncAttrs[0].(*ir.AttrGroupDef); ok {
						return anys(def.FuncAttrs)
					}
				}
				return nil
			},
		},
	}
}

// attrPositions crosses the sites with the three forms of a string attribute:
// the key of a pair, the value of a pair, a string attribute on its own.
func attrPositions() []*position {
	var ps []*position
	for _, site := range attrSites() {
		for _, form := range []string{"key", "val", "str"} {
			site, form := site, form
			mk := func(b string) interface{} {
				switch form {
				case "key":
					return ir.AttrPair{Key: b, Value: "v"}
				case "val":
					return ir.AttrPair{Key: "k", Value: b}
				}
				return ir.AttrString(b)
			}
			attrText := func(tok string) string {
				switch form {
				case "key":
					return tok + `="v"`
				case "val":
					return `"k"=` + tok
				}
				return tok
			}
			ps = append(ps, &position{
				name: "attr" + form + "@" + site.name, site: "string attribute@" + site.name, enc: "enc.Quote", kind: "string",
				// llvm-dis prints the key of a string attribute (and a string attribute on its own)
				// without escaping (Attribute::getAsString): only llvm-as's acceptance is observable
				asOnly: form != "val",
				build: func(m *ir.Module, its []item) {
					for _, it := range its {
						site.build(m, it, mk(it.b))
					}
				},
				text: func(toks []string, its []item) string {
					var sb strings.Builder
					for k, it := range its {
						sb.WriteString(site.wrap(attrText(toks[k]), it))
					}
					return sb.String()
				},
				find: func(text string, it item) (string, bool) {
					rest, ok := site.locate(text, it)
					if !ok {
						return "", false
					}
					if form == "val" {
						if !strings.HasPrefix(rest, `"k"=`) {
							return "", false
						}
						rest = rest[4:]
					}
					return scanTok(rest, false), true
				},
				back: func(m *ir.Module, it item) (string, bool, bool) {
					for _, a := range site.attrs(m, it) {
						switch a := a.(type) {
						case ir.AttrPair:
							if form == "key" {
								return a.Key, false, true
							}
							if form == "val" {
								return a.Value, false, true
							}
						case ir.AttrString:
							if form == "str" {
								return string(a), false, true
							}
						}
					}
					return "", false, false
				},
			})
		}
	}
	return ps
}

// ---------------------------------------------------------------------------
// further quoted strings

func morePositions() []*position {
	fname := func(it item) string { return fmt.Sprintf("f%d", it.idx) }
	return []*position{
		// llvm-dis prints the target triple without escaping
		{name: "triple", enc: "enc.Quote", kind: "string", single: true, asOnly: true,
			build: func(m *ir.Module, its []item) { m.TargetTriple = its[0].b },
			text:  func(toks []string, its []item) string { return "target triple = " + toks[0] + "\n" },
			find: func(text string, it item) (string, bool) {
				rest, ok := afterPrefix(text, "target triple = ")
				return scanTok(rest, false), ok
			},
			back: func(m *ir.Module, it item) (string, bool, bool) { return m.TargetTriple, false, true },
		},
		// LLVM validates the data layout string: only the library's own round trip is observable
		{name: "datalayout", enc: "enc.Quote", kind: "string", single: true, asOnly: true, noLLVM: true,
			build: func(m *ir.Module, its []item) { m.DataLayout = its[0].b },
			text:  func(toks []string, its []item) string { return "target datalayout = " + toks[0] + "\n" },
			find: func(text string, it item) (string, bool) {
				rest, ok := afterPrefix(text, "target datalayout = ")
				return scanTok(rest, false), ok
			},
			back: func(m *ir.Module, it item) (string, bool, bool) { return m.DataLayout, false, true },
		},
		{name: "syncscope", enc: "enc.Quote", kind: "string",
			build: func(m *ir.Module, its []item) {
				for _, it := range its {
					f := m.NewFunc(fname(it), types.Void)
					b := f.NewBlock("")
					fence := b.NewFence(enum.AtomicOrderingSequentiallyConsistent)
					fence.SyncScope = it.b
					b.NewRet(nil)
				}
			},
			text: func(toks []string, its []item) string {
				var sb strings.Builder
				for k, it := range its {
					fmt.Fprintf(&sb, "define void @f%d() {\n  fence syncscope(%s) seq_cst\n  ret void\n}\n", it.idx, toks[k])
				}
				return sb.String()
			},
			find: func(text string, it item) (string, bool) {
				ls := lines(text)
				head := fmt.Sprintf("define void @f%d()", it.idx)
				for k := 0; k < len(ls); k++ {
					if !strings.HasPrefix(ls[k], head) {
						continue
					}
					for j := k + 1; j < len(ls) && ls[j] != "}"; j++ {
						if p := strings.Index(ls[j], "fence syncscope("); p >= 0 {
							return scanTok(ls[j][p+len("fence syncscope("):], false), true
						}
					}
				}
				return "", false
			},
			back: func(m *ir.Module, it item) (string, bool, bool) {
				if fence, ok := firstInst(m, fname(it)).(*ir.InstFence); ok {
					return fence.SyncScope, false, true
				}
				return "", false, false
			},
		},
		{name: "bundletag", enc: "enc.Quote", kind: "string",
			build: func(m *ir.Module, its []item) {
				for _, it := range its {
					h := m.NewFunc(fmt.Sprintf("h%d", it.idx), types.Void)
					f := m.NewFunc(fname(it), types.Void)
					b := f.NewBlock("")
					call := b.NewCall(h)
					call.OperandBundles = append(call.OperandBundles, ir.NewOperandBundle(it.b, []value.Value{}...))
					b.NewRet(nil)
				}
			},
			text: func(toks []string, its []item) string {
				var sb strings.Builder
				for k, it := range its {
					fmt.Fprintf(&sb, "declare void @h%d()\ndefine void @f%d() {\n  call void @h%d() [ %s() ]\n  ret void\n}\n", it.idx, it.idx, it.idx, toks[k])
				}
				return sb.String()
			},
			find: func(text string, it item) (string, bool) {
				rest, ok := afterInfix(text, fmt.Sprintf("call void @h%d() [ ", it.idx))
				return scanTok(rest, false), ok
			},
			back: func(m *ir.Module, it item) (string, bool, bool) {
				if c, ok := firstInst(m, fname(it)).(*ir.InstCall); ok && len(c.OperandBundles) == 1 {
					return c.OperandBundles[0].Tag, false, true
				}
				return "", false, false
			},
		},
		{name: "funcsection", enc: "enc.Quote", kind: "string",
			build: func(m *ir.Module, its []item) {
				for _, it := range its {
					f := m.NewFunc(fname(it), types.Void)
					f.Section = it.b
				}
			},
			text: func(toks []string, its []item) string {
				var sb strings.Builder
				for k, it := range its {
					fmt.Fprintf(&sb, "declare void @f%d() section %s\n", it.idx, toks[k])
				}
				return sb.String()
			},
			find: func(text string, it item) (string, bool) {
				rest, ok := afterInfix(text, fmt.Sprintf("@f%d() section ", it.idx))
				return scanTok(rest, false), ok
			},
			back: func(m *ir.Module, it item) (string, bool, bool) {
				if f := findFunc(m, fname(it)); f != nil {
					return f.Section, false, true
				}
				return "", false, false
			},
		},
		// LLVM validates inline-asm constraint strings: only the library's own round trip is observable
		{name: "asmconstraint", enc: "enc.Quote", kind: "string", asOnly: true, noLLVM: true,
			build: func(m *ir.Module, its []item) {
				for _, it := range its {
					f := m.NewFunc(fname(it), types.Void)
					b := f.NewBlock("")
					ia := ir.NewInlineAsm(types.NewPointer(types.NewFunc(types.Void)), "nop", it.b)
					b.NewCall(ia)
					b.NewRet(nil)
				}
			},
			text: func(toks []string, its []item) string {
				var sb strings.Builder
				for k, it := range its {
					fmt.Fprintf(&sb, "define void @f%d() {\n  call void asm \"nop\", %s()\n  ret void\n}\n", it.idx, toks[k])
				}
				return sb.String()
			},
			find: func(text string, it item) (string, bool) {
				ls := lines(text)
				head := fmt.Sprintf("define void @f%d()", it.idx)
				for k := 0; k < len(ls); k++ {
					if !strings.HasPrefix(ls[k], head) {
						continue
					}
					for j := k + 1; j < len(ls) && ls[j] != "}"; j++ {
						if p := strings.Index(ls[j], `asm "nop", `); p >= 0 {
							return scanTok(ls[j][p+len(`asm "nop", `):], false), true
						}
					}
				}
				return "", false
			},
			back: func(m *ir.Module, it item) (string, bool, bool) {
				if c, ok := firstInst(m, fname(it)).(*ir.InstCall); ok {
					if ia, ok := c.Callee.(*ir.InlineAsm); ok {
						return ia.Constraint, false, true
					}
				}
				return "", false, false
			},
		},
	}
}

// ---------------------------------------------------------------------------
// string fields of the specialized metadata nodes, by reflection

// diNodes lists a fresh node of every specialized metadata type.
func diNodes() []func() metadata.Definition {
	return []func() metadata.Definition{
		func() metadata.Definition { return &metadata.DIBasicType{MetadataID: -1} },
		func() metadata.Definition { return &metadata.DICommonBlock{MetadataID: -1} },
		func() metadata.Definition { return &metadata.DICompileUnit{MetadataID: -1} },
		func() metadata.Definition { return &metadata.DICompositeType{MetadataID: -1} },
		func() metadata.Definition { return &metadata.DIDerivedType{MetadataID: -1} },
		func() metadata.Definition { return &metadata.DIEnumerator{MetadataID: -1} },
		func() metadata.Definition { return &metadata.DIFile{MetadataID: -1} },
		func() metadata.Definition { return &metadata.DIGlobalVariable{MetadataID: -1} },
		func() metadata.Definition { return &metadata.DIImportedEntity{MetadataID: -1} },
		func() metadata.Definition { return &metadata.DILabel{MetadataID: -1} },
		func() metadata.Definition { return &metadata.DILocalVariable{MetadataID: -1} },
		func() metadata.Definition { return &metadata.DIMacro{MetadataID: -1} },
		func() metadata.Definition { return &metadata.DIModule{MetadataID: -1} },
		func() metadata.Definition { return &metadata.DINamespace{MetadataID: -1} },
		func() metadata.Definition { return &metadata.DIObjCProperty{MetadataID: -1} },
		func() metadata.Definition { return &metadata.DIStringType{MetadataID: -1} },
		func() metadata.Definition { return &metadata.DISubprogram{MetadataID: -1} },
		func() metadata.Definition { return &metadata.DITemplateTypeParameter{MetadataID: -1} },
		func() metadata.Definition { return &metadata.DITemplateValueParameter{MetadataID: -1} },
		func() metadata.Definition { return &metadata.GenericDINode{MetadataID: -1} },
	}
}

const diMarker = "ZQZmarkerZQZ"

// fillRequired gives the other fields of a fresh node values the printer and the parser accept:
// nil metadata operands become null, zero enumerators of package enum become their first member.
func fillRequired(node metadata.Definition) (extra []metadata.Definition) {
	v := reflect.ValueOf(node).Elem()
	fileType := reflect.TypeOf(&metadata.DIFile{})
	null := reflect.ValueOf(&metadata.NullLit{})
	for i := 0; i < v.NumField(); i++ {
		f := v.Field(i)
		if !v.Type().Field(i).IsExported() || !f.CanSet() {
			continue
		}
		switch {
		case f.Kind() == reflect.Interface && f.IsNil() && null.Type().Implements(f.Type()):
			f.Set(null)
		case f.Type() == fileType && f.IsNil() && v.Type() != fileType.Elem():
			file := &metadata.DIFile{MetadataID: -1, Filename: "file", Directory: "dir"}
			f.Set(reflect.ValueOf(file))
			extra = append(extra, file)
		case strings.HasSuffix(f.Type().PkgPath(), "/ir/enum") &&
			(strings.HasPrefix(f.Type().Name(), "DwarfLang") || strings.HasPrefix(f.Type().Name(), "DwarfMacinfo")):
			if f.CanUint() && f.Uint() == 0 {
				f.SetUint(1)
			} else if f.CanInt() && f.Int() == 0 {
				f.SetInt(1)
			}
		}
	}
	return extra
}

// diPositions returns one position per exported string field of a specialized
// metadata node whose baseline (the field set to a plain marker, everything
// else zero) survives print and parse in the library.  The names of the fields
// that do not are returned as skipped.  LLVM is not consulted (most nodes need
// further fields to be valid debug info); the DIFile position of its own is.
func diPositions() (ps []*position, skipped []string) {
	for _, mk := range diNodes() {
		typ := reflect.TypeOf(mk()).Elem()
		for fi := 0; fi < typ.NumField(); fi++ {
			fld := typ.Field(fi)
			if fld.Type.Kind() != reflect.String || !fld.IsExported() {
				continue
			}
			mk, fi := mk, fi
			name := "di:" + typ.Name() + "." + fld.Name
			printWith := func(b string) (text string, ok bool) {
				defer func() {
					if recover() != nil {
						ok = false
					}
				}()
				node := mk()
				extra := fillRequired(node)
				reflect.ValueOf(node).Elem().Field(fi).SetString(b)
				m := ir.NewModule()
				m.MetadataDefs = append(append(m.MetadataDefs, extra...), node)
				m.NamedMetadataDefs["keep"] = &metadata.NamedDef{Name: "keep", Nodes: []metadata.Node{node}}
				return m.String(), true
			}
			readBack := func(m *ir.Module) (string, bool) {
				want := reflect.TypeOf(mk())
				for _, d := range m.MetadataDefs {
					if reflect.TypeOf(d) == want {
						return reflect.ValueOf(d).Elem().Field(fi).String(), true
					}
				}
				return "", false
			}
			base, ok := printWith(diMarker)
			quoted := `"` + diMarker + `"`
			if !ok || strings.Count(base, quoted) != 1 {
				skipped = append(skipped, name+" (not printed as a quoted string)")
				continue
			}
			if m, err := asm.ParseString("di.ll", base); err != nil {
				skipped = append(skipped, name+" (baseline not parsed: zero values of other fields)")
				continue
			} else if got, ok := readBack(m); !ok || got != diMarker {
				skipped = append(skipped, name+" (baseline not read back)")
				continue
			}
			at := strings.Index(base, quoted)
			lineStart := strings.LastIndexByte(base[:at], '\n') + 1
			prefix := base[lineStart:at]
			ps = append(ps, &position{name: name, enc: "enc.Quote", kind: "string", single: true, asOnly: true, noLLVM: true,
				build: func(m *ir.Module, its []item) {
					node := mk()
					extra := fillRequired(node)
					reflect.ValueOf(node).Elem().Field(fi).SetString(its[0].b)
					m.MetadataDefs = append(append(m.MetadataDefs, extra...), node)
					m.NamedMetadataDefs["keep"] = &metadata.NamedDef{Name: "keep", Nodes: []metadata.Node{node}}
				},
				text: func(toks []string, its []item) string { return strings.Replace(base, quoted, toks[0], 1) },
				find: func(text string, it item) (string, bool) {
					rest, ok := afterPrefix(text, prefix)
					return scanTok(rest, false), ok
				},
				back: func(m *ir.Module, it item) (string, bool, bool) {
					got, ok := readBack(m)
					return got, false, ok
				},
			})
		}
	}
	return ps, skipped
}

// difilePosition is the one debug-info string position LLVM reads on its own.
func difilePosition() *position {
	return &position{name: "difile", enc: "enc.Quote", kind: "string", nul: false,
		build: func(m *ir.Module, its []item) {
			var nodes []metadata.Node
			for _, it := range its {
				node := &metadata.DIFile{MetadataID: -1, Filename: it.b, Directory: fmt.Sprintf("d%d", it.idx)}
				m.MetadataDefs = append(m.MetadataDefs, node)
				nodes = append(nodes, node)
			}
			m.NamedMetadataDefs["keep"] = &metadata.NamedDef{Name: "keep", Nodes: nodes}
		},
		text: func(toks []string, its []item) string {
			var sb strings.Builder
			sb.WriteString("!keep = !{")
			for k, it := range its {
				if k > 0 {
					sb.WriteString(", ")
				}
				fmt.Fprintf(&sb, "!%d", it.ord)
			}
			sb.WriteString("}\n")
			for k, it := range its {
				fmt.Fprintf(&sb, "!%d = !DIFile(filename: %s, directory: \"d%d\")\n", it.ord, toks[k], it.idx)
			}
			return sb.String()
		},
		find: func(text string, it item) (string, bool) {
			suffix := fmt.Sprintf(", directory: \"d%d\")", it.idx)
			for _, l := range lines(text) {
				if strings.HasSuffix(l, suffix) {
					if p := strings.Index(l, "!DIFile(filename: "); p >= 0 {
						return scanTok(l[p+len("!DIFile(filename: "):], false), true
					}
				}
			}
			return "", false
		},
		back: func(m *ir.Module, it item) (string, bool, bool) {
			want := fmt.Sprintf("d%d", it.idx)
			for _, d := range m.MetadataDefs {
				if f, ok := d.(*metadata.DIFile); ok && f.Directory == want {
					return f.Filename, false, true
				}
			}
			return "", false, false
		},
	}
}
