package c11

import (
	"encoding/hex"
	"encoding/json"
	"fmt"
	"reflect"
	"regexp"
	"strings"

	"github.com/llir/llvm/asm"
	"github.com/llir/llvm/ir"
	"github.com/llir/llvm/ir/metadata"
	"github.com/llir/llvm/ir/types"
	"github.com/llir/llvm/verifshim"

	"verif/harness/mbt"
)

// Histories of encoder calls whose results are held (spec/LiteralsNameHist.tla).
//
// (a) every history is replayed into the real encoders of internal/enc in the
// order given; the returned strings are kept WITHOUT copying and read only after
// the last call of the history: a result that shares memory with a later result
// is then seen as the caller of two encoders sees it.
// (b) every history of two string calls is replayed into the printers that
// format two quoted literals in one statement: key and value of a string
// attribute at six attribute sites, template and constraints of an inline asm;
// Module.String, locate both tokens, parse back.  Also the other way round: the
// two reference tokens in a module text, parsed.
// All tokens are judged by LiteralsNameTrace (DecodeToken(kind, tok) = bytes).

type histCall struct {
	Kind  string `json:"kind"`
	Bytes []int  `json:"bytes"`
}

type histVec struct {
	Calls []histCall `json:"calls"`
	Ref   [][]int    `json:"ref"`
}

func readHist(out string) []histVec {
	var vs []histVec
	for _, l := range strings.Split(out, "\n") {
		if !strings.HasPrefix(l, `"{`) {
			continue
		}
		var s string
		if err := json.Unmarshal([]byte(l), &s); err != nil {
			mbt.Infra("history line %q: %v", mbt.Truncate(l, 120), err)
		}
		var v histVec
		if err := json.Unmarshal([]byte(s), &v); err != nil {
			mbt.Infra("history %q: %v", mbt.Truncate(s, 120), err)
		}
		vs = append(vs, v)
	}
	return vs
}

func encoderOf(kind string) (string, func(string) string) {
	switch kind {
	case "global":
		return "enc.GlobalName", verifshim.GlobalName
	case "local":
		return "enc.LocalName", verifshim.LocalName
	case "label":
		return "enc.LabelName", verifshim.LabelName
	case "type":
		return "enc.TypeName", verifshim.TypeName
	case "comdat":
		return "enc.ComdatName", verifshim.ComdatName
	case "mdname":
		return "enc.MetadataName", verifshim.MetadataName
	case "string":
		return "enc.Quote", func(s string) string { return verifshim.Quote([]byte(s)) }
	}
	mbt.Infra("LiteralsNameHist: unknown token kind %q", kind)
	return "", nil
}

func histCase(v histVec) map[string]interface{} {
	var cs []map[string]interface{}
	for _, c := range v.Calls {
		cs = append(cs, map[string]interface{}{"kind": c.Kind, "bytes": hex.EncodeToString([]byte(str(c.Bytes)))})
	}
	return map[string]interface{}{"dir": "hist", "calls": cs}
}

func histFromCase(c map[string]interface{}) (histVec, bool) {
	var v histVec
	cs, ok := c["calls"].([]interface{})
	if !ok {
		return v, false
	}
	for _, x := range cs {
		m, ok := x.(map[string]interface{})
		if !ok {
			return v, false
		}
		k, _ := m["kind"].(string)
		hx, _ := m["bytes"].(string)
		raw, err := hex.DecodeString(hx)
		if err != nil {
			return v, false
		}
		v.Calls = append(v.Calls, histCall{Kind: k, Bytes: ints(string(raw))})
	}
	return v, len(v.Calls) > 0
}

// heldHistories is part (a).
func (c *checker) heldHistories(vs []histVec) {
	type ref struct {
		v, i  int
		clone bool
	}
	var rows []row
	var refs []ref
	seen := map[string]int{} // kind|bytes|tok -> row index
	add := func(kind, b, tok string, r ref) int {
		key := kind + "\x00" + b + "\x00" + tok
		if i, ok := seen[key]; ok {
			return i
		}
		seen[key] = len(rows)
		rows = append(rows, row{K: "tok", Kind: kind, Bytes: ints(b), Tok: ints(tok), Src: "held"})
		refs = append(refs, r)
		return len(rows) - 1
	}
	type pend struct {
		v, i        int
		held, clone int // row indexes
	}
	var pends []pend
	for vi, v := range vs {
		n := len(v.Calls)
		held := make([]string, n)
		clone := make([]string, n)
		okc := make([]bool, n)
		c.rep.Count("hist|"+fmt.Sprint(v.Calls), true)
		for i, cl := range v.Calls {
			name, f := encoderOf(cl.Kind)
			b := str(cl.Bytes)
			if msg, pan := mbt.Guard(func() { held[i] = f(b) }); pan {
				c.rep.Fail(mbt.Failure{Signature: "C11|" + name + "|panic in a history of calls|" + shape(b),
					What: fmt.Sprintf("%s(%q) panics as call %d of a history: %s", name, b, i+1, mbt.Truncate(msg, 200)), Case: histCase(v)})
				continue
			}
			okc[i] = true
			clone[i] = string(append([]byte(nil), held[i]...)) // what the result was when it was returned
		}
		// only now, after the last call, the held results are read
		for i, cl := range v.Calls {
			if !okc[i] {
				continue
			}
			b := str(cl.Bytes)
			now := string(append([]byte(nil), held[i]...))
			p := pend{v: vi, i: i}
			p.held = add(cl.Kind, b, now, ref{vi, i, false})
			p.clone = add(cl.Kind, b, clone[i], ref{vi, i, true})
			if now != clone[i] {
				pends = append(pends, p)
			}
		}
	}
	bad := c.judge(rows, "held results")
	// a held result that no longer equals what was returned and no longer decodes to its bytes,
	// although it did when it was returned
	for _, p := range pends {
		cl := vs[p.v].Calls[p.i]
		name, _ := encoderOf(cl.Kind)
		b := str(cl.Bytes)
		if bad[p.held] == "" || bad[p.clone] != "" {
			continue
		}
		sig := "C11|" + name + "|result held across later encoder calls: " + bad[p.held] + "|" + shape(b)
		c.rep.Fail(mbt.Failure{Signature: sig,
			What: fmt.Sprintf("%s(%q) returned %s; after %d later encoder call(s) the caller's string reads %s, which LLVM's lexer rules (TLC) decode as %s: the result shares memory with later results",
				name, b, str(rows[p.clone].Tok), len(vs[p.v].Calls)-p.i-1, str(rows[p.held].Tok), bad[p.held]),
			Case: histCase(vs[p.v])})
	}
	// (a result that is wrong from the moment it is returned is the business of encoders())
	c.rep.Extra["hist_histories_replayed"] = len(vs)
	c.rep.Extra["hist_distinct_held_tokens_judged"] = len(rows)
}

// pairSite is a printer that formats two quoted literals in one statement.
type pairSite struct {
	name   string
	llvm   bool // llvm-as can be asked whether it accepts the printed module
	build  func(m *ir.Module, a, b string)
	text   func(ta, tb string) string
	locate func(text string) (string, bool) // the text starting at the first literal
	sep    string                           // between the two literals
	back   func(m *ir.Module) (string, string, bool)
}

func pairSites() []*pairSite {
	var ps []*pairSite
	it := item{idx: 7, ord: 0}
	for _, s := range attrSites() {
		if s.name == "ret" || s.name == "callret" { // string return attributes: the grammar has none (known finding)
			continue
		}
		s := s
		ps = append(ps, &pairSite{name: "string attribute pair@" + s.name, llvm: true, sep: "=",
			build:  func(m *ir.Module, a, b string) { s.build(m, it, ir.AttrPair{Key: a, Value: b}) },
			text:   func(ta, tb string) string { return s.wrap(ta+"="+tb, it) },
			locate: func(text string) (string, bool) { return s.locate(text, it) },
			back: func(m *ir.Module) (string, string, bool) {
				for _, a := range s.attrs(m, it) {
					if p, ok := a.(ir.AttrPair); ok {
						return p.Key, p.Value, true
					}
				}
				return "", "", false
			}})
	}
	ps = append(ps, &pairSite{name: "inline asm template and constraints", sep: ", ",
		build: func(m *ir.Module, a, b string) {
			f := m.NewFunc("f7", types.Void)
			bl := f.NewBlock("")
			bl.NewCall(ir.NewInlineAsm(types.NewPointer(types.NewFunc(types.Void)), a, b))
			bl.NewRet(nil)
		},
		text: func(ta, tb string) string {
			return "define void @f7() {\n  call void asm " + ta + ", " + tb + "()\n  ret void\n}\n"
		},
		locate: func(text string) (string, bool) { return afterInfix(text, "call void asm ") },
		back: func(m *ir.Module) (string, string, bool) {
			if c, ok := firstInst(m, "f7").(*ir.InstCall); ok {
				if ia, ok := c.Callee.(*ir.InlineAsm); ok {
					return ia.Asm, ia.Constraint, true
				}
			}
			return "", "", false
		}})
	return ps
}

// pairHistories is part (b).
func (c *checker) pairHistories(vs []histVec) {
	type rec struct {
		s      *pairSite
		v      histVec
		a, b   string
		text   string
		ta, tb string
		ra, rb int // row indexes
	}
	var recs []*rec
	var rows []row
	sites := pairSites()
	for _, v := range vs {
		if len(v.Calls) != 2 || v.Calls[0].Kind != "string" || v.Calls[1].Kind != "string" {
			continue
		}
		a, b := str(v.Calls[0].Bytes), str(v.Calls[1].Bytes)
		if a == "" || b == "" || strings.IndexByte(a+b, 0) >= 0 {
			continue
		}
		for _, s := range sites {
			kase := histCase(v)
			kase["site"] = s.name
			c.rep.Count("pair|"+s.name+"|"+a+"\x00"+b, true)
			// spec -> code: the two reference tokens in a module text
			if len(v.Ref) == 2 {
				text := s.text(str(v.Ref[0]), str(v.Ref[1]))
				okLLVM := true
				if s.llvm {
					_, okLLVM, _ = canon(nil, text, true)
				}
				if !okLLVM {
					c.discard("pair %s: LLVM rejects the reference spelling of (%q, %q)", s.name, a, b)
				} else {
					var m2 *ir.Module
					var err error
					msg, pan := mbt.Guard(func() { m2, err = asm.ParseString("pair.ll", text) })
					ga, gb, found := "", "", false
					if !pan && err == nil {
						ga, gb, found = s.back(m2)
					}
					switch {
					case pan:
						c.rep.Fail(mbt.Failure{Signature: "C11|parser|" + s.name + "|panic|" + shape(a+b), What: "asm.ParseString panics: " + mbt.Truncate(msg, 200) + "\n" + text, Case: kase})
					case err != nil:
						c.rep.Fail(mbt.Failure{Signature: "C11|parser|" + s.name + "|rejected|" + shape(a+b), What: "asm.ParseString rejects a text LLVM accepts: " + mbt.Truncate(err.Error(), 200) + "\n" + text, Case: kase})
					case !found || ga != a || gb != b:
						c.rep.Fail(mbt.Failure{Signature: "C11|parser|" + s.name + "|other-bytes|" + shape(a+b), What: fmt.Sprintf("(%q, %q) written %s comes back as (%q, %q)", a, b, text, ga, gb), Case: kase})
					}
				}
			}
			// code -> spec
			m := ir.NewModule()
			r := &rec{s: s, v: v, a: a, b: b, ra: -1, rb: -1}
			if msg, pan := mbt.Guard(func() { s.build(m, a, b); r.text = m.String() }); pan {
				c.rep.Fail(mbt.Failure{Signature: "C11|printer of two strings in one statement, " + s.name + "|panic|" + shape(a+b), What: mbt.Truncate(msg, 300), Case: kase})
				continue
			}
			recs = append(recs, r)
			rest, ok := s.locate(r.text)
			if ok {
				r.ta = scanTok(rest, false)
				if strings.HasPrefix(rest[len(r.ta):], s.sep) {
					r.tb = scanTok(rest[len(r.ta)+len(s.sep):], false)
				}
			}
			if r.ta != "" && r.tb != "" {
				r.ra = len(rows)
				rows = append(rows, row{K: "tok", Kind: "string", Bytes: ints(a), Tok: ints(r.ta), Pos: s.name, Src: "printed"})
				r.rb = len(rows)
				rows = append(rows, row{K: "tok", Kind: "string", Bytes: ints(b), Tok: ints(r.tb), Pos: s.name, Src: "printed"})
			}
		}
	}
	bad := c.judge(rows, "two strings in one statement")
	for _, r := range recs {
		kase := histCase(r.v)
		kase["site"] = r.s.name
		// the library's own reading of what it printed
		var m2 *ir.Module
		var err error
		_, pan := mbt.Guard(func() { m2, err = asm.ParseString("pair.ll", r.text) })
		ga, gb, found := "", "", false
		if !pan && err == nil {
			ga, gb, found = r.s.back(m2)
		}
		backOK := found && ga == r.a && gb == r.b
		class, which := "", r.a
		switch {
		case r.ra < 0:
			class = "position lost"
		case bad[r.ra] != "":
			class = bad[r.ra]
		case bad[r.rb] != "":
			class, which = bad[r.rb], r.b
		}
		if class != "" {
			llvmOK := false
			if r.s.llvm {
				_, llvmOK, _ = canon(nil, r.text, true)
			}
			if backOK && (llvmOK || !r.s.llvm) && r.ra >= 0 {
				c.discard("pair %s: the spec says %s for (%q, %q) printed %s but the module is read back", r.s.name, class, r.a, r.b, r.ta+r.s.sep+r.tb)
				continue
			}
			c.rep.Fail(mbt.Failure{Signature: "C11|printer of two strings in one statement, " + r.s.name + "|" + class + "|" + shape(which),
				What: fmt.Sprintf("(%q, %q) is printed %s%s%s; LLVM's lexer rules (TLC): %s; the library reads its output back as (%q, %q) (found %v, err %v)\n%s",
					r.a, r.b, r.ta, r.s.sep, r.tb, class, ga, gb, found, err, r.text), Case: kase})
			continue
		}
		if !backOK {
			cl := "other-bytes"
			if pan {
				cl = "panic"
			} else if err != nil {
				cl = "rejected"
			}
			c.rep.Fail(mbt.Failure{Signature: "C11|parser on the library's own output|" + r.s.name + "|" + cl + "|" + shape(r.a+r.b),
				What: fmt.Sprintf("(%q, %q) is printed correctly (%s%s%s) but read back as (%q, %q) (found %v, err %v)", r.a, r.b, r.ta, r.s.sep, r.tb, ga, gb, found, err), Case: kase})
		}
	}
	c.rep.Extra["hist_pair_records"] = len(recs)
}

var reQuotedTok = regexp.MustCompile(`"[^"]*"`)

// nodeHistories is part (c): every history of three string calls is replayed into every
// specialised metadata node kind with ALL its string fields set at once (field k gets string
// k mod 3 of the history plus a letter that tells the fields apart): a node printer obtains the
// literals of all its fields before it writes any.  The node is printed through Module.String,
// the quoted tokens of its line are judged by TLC (when there is one per field), and the module
// is parsed back: every field must hold its bytes.  Fields whose single-field position
// (positions2.go, diPositions) is not evaluated are left empty.
func (c *checker) nodeHistories(vs []histVec) {
	usable := map[string]bool{}
	for _, p := range positions() {
		if strings.HasPrefix(p.name, "di:") {
			usable[strings.TrimPrefix(p.name, "di:")] = true
		}
	}
	type rec struct {
		kind   string
		v      histVec
		fields []int
		want   []string
		got    []string
		err    string
		rows   []int
		text   string
	}
	var recs []*rec
	var rows []row
	seen := map[string]int{}
	n := 0
	for _, v := range vs {
		if len(v.Calls) != 3 {
			continue
		}
		all := true
		for _, cl := range v.Calls {
			all = all && cl.Kind == "string" && len(cl.Bytes) > 0 && strings.IndexByte(str(cl.Bytes), 0) < 0
		}
		if !all {
			continue
		}
		for _, mk := range diNodes() {
			typ := reflect.TypeOf(mk()).Elem()
			r := &rec{kind: typ.Name(), v: v}
			for fi := 0; fi < typ.NumField(); fi++ {
				if typ.Field(fi).Type.Kind() == reflect.String && typ.Field(fi).IsExported() && usable[typ.Name()+"."+typ.Field(fi).Name] {
					r.fields = append(r.fields, fi)
				}
			}
			if len(r.fields) < 2 {
				continue
			}
			n++
			c.rep.Count("node|"+r.kind+"|"+fmt.Sprint(v.Calls), true)
			node := mk()
			extra := fillRequired(node)
			for k, fi := range r.fields {
				w := str(v.Calls[k%3].Bytes) + string(rune('a'+k))
				r.want = append(r.want, w)
				reflect.ValueOf(node).Elem().Field(fi).SetString(w)
			}
			m := ir.NewModule()
			m.MetadataDefs = append(append(m.MetadataDefs, extra...), node)
			m.NamedMetadataDefs["keep"] = &metadata.NamedDef{Name: "keep", Nodes: []metadata.Node{node}}
			if msg, pan := mbt.Guard(func() { r.text = m.String() }); pan {
				r.err = "printer panics: " + mbt.Truncate(msg, 200)
				recs = append(recs, r)
				continue
			}
			for _, l := range lines(r.text) {
				if strings.Contains(l, "!"+r.kind+"(") && strings.HasPrefix(l, "!") && !strings.HasPrefix(l, "!keep") {
					if toks := reQuotedTok.FindAllString(l, -1); len(toks) == len(r.fields) {
						for k, t := range toks {
							key := r.want[k] + "\x00" + t
							i, ok := seen[key]
							if !ok {
								i = len(rows)
								seen[key] = i
								rows = append(rows, row{K: "tok", Kind: "string", Bytes: ints(r.want[k]), Tok: ints(t), Pos: "di:" + r.kind, Src: "printed"})
							}
							r.rows = append(r.rows, i)
						}
					}
					break
				}
			}
			var m2 *ir.Module
			var err error
			if msg, pan := mbt.Guard(func() { m2, err = asm.ParseString("node.ll", r.text) }); pan {
				r.err = "parser panics on the library's own output: " + mbt.Truncate(msg, 200)
			} else if err != nil {
				r.err = "parser rejects the library's own output: " + mbt.Truncate(err.Error(), 200)
			} else {
				found := false
				for _, d := range m2.MetadataDefs {
					if reflect.TypeOf(d) == reflect.TypeOf(node) {
						found = true
						for _, fi := range r.fields {
							r.got = append(r.got, reflect.ValueOf(d).Elem().Field(fi).String())
						}
						break
					}
				}
				if !found {
					r.err = "the node is not among the parsed definitions"
				}
			}
			recs = append(recs, r)
		}
	}
	bad := c.judge(rows, "all string fields of one node")
	for _, r := range recs {
		kase := histCase(r.v)
		kase["node"] = r.kind
		class, which := "", ""
		for k, i := range r.rows {
			if bad[i] != "" && class == "" {
				class, which = bad[i], r.want[k]
			}
		}
		backOK := r.err == "" && len(r.got) == len(r.want)
		for k := range r.got {
			if backOK && r.got[k] != r.want[k] {
				backOK = false
				if which == "" {
					which = r.want[k]
				}
			}
		}
		if which == "" && len(r.want) > 0 {
			which = r.want[0]
		}
		switch {
		case class != "" && backOK:
			c.discard("node %s: the spec says %s for a token of %q but the module is read back", r.kind, class, r.want)
		case class != "":
			c.rep.Fail(mbt.Failure{Signature: "C11|printer of all string fields of one node, " + r.kind + "|" + class + "|" + shape(which),
				What: fmt.Sprintf("string fields %q: LLVM's lexer rules (TLC): %s; read back as %q %s\n%s", r.want, class, r.got, r.err, r.text), Case: kase})
		case !backOK:
			c.rep.Fail(mbt.Failure{Signature: "C11|parser on the library's own output|all string fields of " + r.kind + "|other-bytes|" + shape(which),
				What: fmt.Sprintf("string fields %q are read back as %q %s\n%s", r.want, r.got, r.err, r.text), Case: kase})
		}
	}
	c.rep.Extra["hist_node_records"] = n
}

// histories runs the design-level checks of LiteralsNameHist.tla and replays its vectors.
func (c *checker) histories(only []histVec) {
	if only != nil {
		c.heldHistories(only)
		c.pairHistories(only)
		c.nodeHistories(only)
		return
	}
	t := mbt.MustTLC(mbt.TLCOpts{Spec: "LiteralsNameHist", Cfg: "LiteralsNameHistPooled.cfg", Workers: 2, Continue: true})
	guard := false
	for _, v := range t.Violated {
		guard = guard || v == "HeldStable"
	}
	t.Cleanup()
	if !guard {
		mbt.Infra("LiteralsNameHistPooled.cfg: the pooling encoder must violate HeldStable, got %v", t.Violated)
	}
	c.rep.Extra["hist_pooled_model_violates"] = t.Violated
	t = mbt.MustTLC(mbt.TLCOpts{Spec: "LiteralsNameHist", Cfg: "LiteralsNameHist.cfg", Workers: 2})
	if len(t.Violated) > 0 {
		mbt.Infra("LiteralsNameHist.cfg: the reference coder violates %v: specification error\n%s", t.Violated, tail(t.Output))
	}
	c.rep.AddTLC(t)
	vs := readHist(t.Output)
	t.Cleanup()
	if len(vs) == 0 {
		mbt.Infra("LiteralsNameHist emitted no histories")
	}
	c.heldHistories(vs)
	c.pairHistories(vs)
	c.nodeHistories(vs)
}
