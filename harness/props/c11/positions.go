package c11

import (
	"fmt"
	"math/big"
	"strconv"
	"strings"
	"sync"

	"github.com/llir/llvm/ir"
	"github.com/llir/llvm/ir/constant"
	"github.com/llir/llvm/ir/enum"
	"github.com/llir/llvm/ir/metadata"
	"github.com/llir/llvm/ir/types"
)

// item is one byte string placed at a grammar position. idx identifies the
// item inside a module (it appears as an integer in the surrounding text);
// ord is its ordinal among the items of the module.
type item struct {
	idx int
	ord int
	b   string
}

// position describes one identifier or string position of the grammar.
type position struct {
	name   string // "global", "param", ...
	kind   string // token kind of Literals.tla Part 2
	enc    string // the encoder of internal/enc that spells this position (site of printer-side findings)
	strip  string // sigil in front of the quoted string that is not part of the "string" token (! or c)
	nul    bool   // NUL bytes are permitted here
	single bool   // one item per module
	noLF   bool   // LLVM splits the string at line feeds when printing (module asm)
	asOnly bool   // llvm-dis prints this position without escaping (gc): only llvm-as's acceptance is observable
	noLLVM bool   // LLVM validates the string itself (data layout, asm constraints, debug-info nodes that
	// need further fields): LLVM is not consulted, the spec's decoding and the library's round trip decide
	site  string // name used in the signature when the parser rejects every string here (default: name)
	light bool   // quick tier: short strings only (the position shares its printer with fully enumerated ones)
	// build puts the items into m through the public ir API.
	build func(m *ir.Module, its []item)
	// text renders a module with the given tokens at the position (spec -> code direction).
	text func(toks []string, its []item) string
	// find locates the token of an item in a printed module (the library's or LLVM's output).
	find func(text string, it item) (string, bool)
	// back reads the bytes at the position from a parsed module.
	back func(m *ir.Module, it item) (b string, isID bool, ok bool)
}

// hidden reports whether LLVM's reading of the bytes at this position cannot be observed through
// llvm-dis: it crashes when it prints a metadata name with a byte >= 0x80 (isalpha on a negative
// char).  Only llvm-as's acceptance is used for such records.
func (p *position) hidden(b string) bool {
	if p.name != "mdname" {
		return false
	}
	for i := 0; i < len(b); i++ {
		if b[i] >= 0x80 {
			return true
		}
	}
	return false
}

func i32(n int) *constant.Int { return constant.NewInt(types.I32, int64(n)) }

func isInt(c interface{}, n int) bool {
	k, ok := c.(*constant.Int)
	return ok && k.X.Cmp(big.NewInt(int64(n))) == 0
}

// scanTok returns the token at the start of s: an optional sigil, then a
// quoted string up to the next quote or a run of bytes up to a delimiter.
// With label set, a ':' directly after a quoted string belongs to the token.
func scanTok(s string, label bool) string {
	i := 0
	if i < len(s) && (strings.IndexByte("@%$!", s[i]) >= 0 || (s[i] == 'c' && i+1 < len(s) && s[i+1] == '"')) {
		i++
	}
	if i < len(s) && s[i] == '"' {
		j := strings.IndexByte(s[i+1:], '"')
		if j < 0 {
			return s
		}
		i += j + 2
		if label && i < len(s) && s[i] == ':' {
			i++
		}
		return s[:i]
	}
	for i < len(s) && strings.IndexByte(" \t\n,()={}", s[i]) < 0 {
		i++
	}
	return s[:i]
}

func lines(text string) []string { return strings.Split(text, "\n") }

// afterPrefix finds the first line starting with prefix and returns the rest of it.
func afterPrefix(text, prefix string) (string, bool) {
	for _, l := range lines(text) {
		if strings.HasPrefix(l, prefix) {
			return l[len(prefix):], true
		}
	}
	return "", false
}

// afterInfix finds the first line containing infix and returns what follows it.
func afterInfix(text, infix string) (string, bool) {
	for _, l := range lines(text) {
		if k := strings.Index(l, infix); k >= 0 {
			return l[k+len(infix):], true
		}
	}
	return "", false
}

// beforeSuffix finds the first line ending with suffix and returns what precedes it (trimmed of indentation).
func beforeSuffix(text, suffix string) (string, bool) {
	for _, l := range lines(text) {
		if strings.HasSuffix(l, suffix) {
			return strings.TrimLeft(l[:len(l)-len(suffix)], " \t"), true
		}
	}
	return "", false
}

func findFunc(m *ir.Module, name string) *ir.Func {
	for _, f := range m.Funcs {
		if f.GlobalName == name {
			return f
		}
	}
	return nil
}

func findGlobal(m *ir.Module, name string) *ir.Global {
	for _, g := range m.Globals {
		if g.GlobalName == name {
			return g
		}
	}
	return nil
}

// globalString is the shape shared by the string fields of a global variable.
func globalString(name, field, keyword string, set func(g *ir.Global, s string), get func(g *ir.Global) string) *position {
	return &position{name: name, enc: "enc.Quote", kind: "string",
		build: func(m *ir.Module, its []item) {
			for _, it := range its {
				g := m.NewGlobalDef(fmt.Sprintf("%s%d", field, it.idx), i32(it.idx))
				set(g, it.b)
			}
		},
		text: func(toks []string, its []item) string {
			var sb strings.Builder
			for k, it := range its {
				fmt.Fprintf(&sb, "@%s%d = global i32 %d, %s %s\n", field, it.idx, it.idx, keyword, toks[k])
			}
			return sb.String()
		},
		find: func(text string, it item) (string, bool) {
			rest, ok := afterPrefix(text, fmt.Sprintf("@%s%d = global i32 %d, %s ", field, it.idx, it.idx, keyword))
			return scanTok(rest, false), ok
		},
		back: func(m *ir.Module, it item) (string, bool, bool) {
			g := findGlobal(m, fmt.Sprintf("%s%d", field, it.idx))
			if g == nil {
				return "", false, false
			}
			return get(g), false, true
		},
	}
}

var (
	allPositions     []*position
	skippedPositions []string
	positionsOnce    sync.Once
)

// positions lists the identifier and string positions exercised: the basic ones below, every
// printing site of string attributes, further quoted strings and the debug-info string fields
// (positions2.go).
func positions() []*position {
	positionsOnce.Do(func() {
		allPositions = append(allPositions, basePositions()...)
		attrs := attrPositions()
		for _, p := range attrs {
			// fully enumerated in the quick tier: the function header and the attribute group definition
			p.light = !strings.HasSuffix(p.name, "@fn") && !strings.HasSuffix(p.name, "@group")
		}
		allPositions = append(allPositions, attrs...)
		more := morePositions()
		for _, p := range more {
			p.light = true
		}
		allPositions = append(allPositions, more...)
		df := difilePosition()
		df.light = true
		allPositions = append(allPositions, df)
		di, skipped := diPositions()
		for _, p := range di {
			p.light = true
		}
		allPositions = append(allPositions, di...)
		skippedPositions = skipped
	})
	return allPositions
}

func basePositions() []*position {
	ps := []*position{
		{name: "global", enc: "enc.GlobalName", kind: "global",
			build: func(m *ir.Module, its []item) {
				for _, it := range its {
					m.NewGlobalDef(it.b, i32(it.idx))
				}
			},
			text: func(toks []string, its []item) string {
				var sb strings.Builder
				for k, it := range its {
					fmt.Fprintf(&sb, "%s = global i32 %d\n", toks[k], it.idx)
				}
				return sb.String()
			},
			find: func(text string, it item) (string, bool) {
				return beforeSuffix(text, fmt.Sprintf(" = global i32 %d", it.idx))
			},
			back: func(m *ir.Module, it item) (string, bool, bool) {
				for _, g := range m.Globals {
					if isInt(g.Init, it.idx) {
						if g.IsUnnamed() {
							return strconv.FormatInt(g.GlobalID, 10), true, true
						}
						return g.GlobalName, false, true
					}
				}
				return "", false, false
			},
		},
		{name: "param", enc: "enc.LocalName", kind: "local",
			build: func(m *ir.Module, its []item) {
				for _, it := range its {
					f := m.NewFunc(fmt.Sprintf("f%d", it.idx), types.Void, ir.NewParam(it.b, types.I32))
					f.NewBlock("").NewRet(nil)
				}
			},
			text: func(toks []string, its []item) string {
				var sb strings.Builder
				for k, it := range its {
					fmt.Fprintf(&sb, "define void @f%d(i32 %s) {\n  ret void\n}\n", it.idx, toks[k])
				}
				return sb.String()
			},
			find: func(text string, it item) (string, bool) {
				rest, ok := afterInfix(text, fmt.Sprintf("@f%d(i32 ", it.idx))
				return scanTok(rest, false), ok
			},
			back: func(m *ir.Module, it item) (string, bool, bool) {
				f := findFunc(m, fmt.Sprintf("f%d", it.idx))
				if f == nil || len(f.Params) != 1 {
					return "", false, false
				}
				p := f.Params[0]
				if p.IsUnnamed() {
					return strconv.FormatInt(p.LocalID, 10), true, true
				}
				return p.LocalName, false, true
			},
		},
		{name: "inst", enc: "enc.LocalName", kind: "local",
			build: func(m *ir.Module, its []item) {
				for _, it := range its {
					f := m.NewFunc(fmt.Sprintf("f%d", it.idx), types.I32, ir.NewParam("", types.I32))
					b := f.NewBlock("")
					add := b.NewAdd(f.Params[0], i32(it.idx))
					add.SetName(it.b)
					b.NewRet(add)
				}
			},
			text: func(toks []string, its []item) string {
				var sb strings.Builder
				for k, it := range its {
					fmt.Fprintf(&sb, "define i32 @f%d(i32 %%0) {\n  %s = add i32 %%0, %d\n  ret i32 %s\n}\n", it.idx, toks[k], it.idx, toks[k])
				}
				return sb.String()
			},
			find: func(text string, it item) (string, bool) {
				return beforeSuffix(text, fmt.Sprintf(" = add i32 %%0, %d", it.idx))
			},
			back: func(m *ir.Module, it item) (string, bool, bool) {
				f := findFunc(m, fmt.Sprintf("f%d", it.idx))
				if f == nil || len(f.Blocks) != 1 || len(f.Blocks[0].Insts) != 1 {
					return "", false, false
				}
				add, ok := f.Blocks[0].Insts[0].(*ir.InstAdd)
				if !ok {
					return "", false, false
				}
				// the use in ret must be the defining instruction
				if ret, ok := f.Blocks[0].Term.(*ir.TermRet); !ok || ret.X != add {
					return "", false, false
				}
				if add.IsUnnamed() {
					return strconv.FormatInt(add.LocalID, 10), true, true
				}
				return add.LocalName, false, true
			},
		},
		{name: "label", enc: "enc.LabelName", kind: "label",
			build: func(m *ir.Module, its []item) {
				for _, it := range its {
					f := m.NewFunc(fmt.Sprintf("f%d", it.idx), types.I32)
					f.NewBlock(it.b).NewRet(i32(it.idx))
				}
			},
			text: func(toks []string, its []item) string {
				var sb strings.Builder
				for k, it := range its {
					fmt.Fprintf(&sb, "define i32 @f%d() {\n%s\n  ret i32 %d\n}\n", it.idx, toks[k], it.idx)
				}
				return sb.String()
			},
			find: func(text string, it item) (string, bool) {
				ls := lines(text)
				want := fmt.Sprintf("ret i32 %d", it.idx)
				for k := 1; k < len(ls); k++ {
					if strings.TrimSpace(ls[k]) == want {
						return scanTok(ls[k-1], true), true
					}
				}
				return "", false
			},
			back: func(m *ir.Module, it item) (string, bool, bool) {
				f := findFunc(m, fmt.Sprintf("f%d", it.idx))
				if f == nil || len(f.Blocks) != 1 {
					return "", false, false
				}
				b := f.Blocks[0]
				if b.IsUnnamed() {
					return strconv.FormatInt(b.LocalID, 10), true, true
				}
				return b.LocalName, false, true
			},
		},
		{name: "type", enc: "enc.TypeName", kind: "type",
			build: func(m *ir.Module, its []item) {
				for _, it := range its {
					st := types.NewStruct(types.NewInt(32), types.NewArray(uint64(it.idx), types.NewInt(8)))
					m.NewTypeDef(it.b, st)
					m.NewGlobalDef(fmt.Sprintf("t%d", it.idx), constant.NewZeroInitializer(st))
				}
			},
			text: func(toks []string, its []item) string {
				var sb strings.Builder
				for k, it := range its {
					fmt.Fprintf(&sb, "%s = type { i32, [%d x i8] }\n", toks[k], it.idx)
				}
				for k, it := range its {
					fmt.Fprintf(&sb, "@t%d = global %s zeroinitializer\n", it.idx, toks[k])
				}
				return sb.String()
			},
			find: func(text string, it item) (string, bool) {
				return beforeSuffix(text, fmt.Sprintf(" = type { i32, [%d x i8] }", it.idx))
			},
			back: func(m *ir.Module, it item) (string, bool, bool) {
				g := findGlobal(m, fmt.Sprintf("t%d", it.idx))
				if g == nil {
					return "", false, false
				}
				st, ok := g.ContentType.(*types.StructType)
				if !ok || len(st.Fields) != 2 {
					return "", false, false
				}
				return st.TypeName, false, true
			},
		},
		{name: "comdat", enc: "enc.ComdatName", kind: "comdat",
			build: func(m *ir.Module, its []item) {
				for _, it := range its {
					cd := &ir.ComdatDef{Name: it.b, Kind: enum.SelectionKindAny}
					m.ComdatDefs = append(m.ComdatDefs, cd)
					g := m.NewGlobalDef(fmt.Sprintf("c%d", it.idx), i32(it.idx))
					g.Comdat = cd
				}
			},
			text: func(toks []string, its []item) string {
				var sb strings.Builder
				for k := range its {
					fmt.Fprintf(&sb, "%s = comdat any\n", toks[k])
				}
				for k, it := range its {
					fmt.Fprintf(&sb, "@c%d = global i32 %d, comdat(%s)\n", it.idx, it.idx, toks[k])
				}
				return sb.String()
			},
			find: func(text string, it item) (string, bool) {
				rest, ok := afterPrefix(text, fmt.Sprintf("@c%d = global i32 %d, comdat(", it.idx, it.idx))
				return scanTok(rest, false), ok
			},
			back: func(m *ir.Module, it item) (string, bool, bool) {
				g := findGlobal(m, fmt.Sprintf("c%d", it.idx))
				if g == nil || g.Comdat == nil {
					return "", false, false
				}
				return g.Comdat.Name, false, true
			},
		},
		{name: "mdname", enc: "enc.MetadataName", kind: "mdname",
			build: func(m *ir.Module, its []item) {
				for _, it := range its {
					node := &metadata.Tuple{MetadataID: -1, Fields: []metadata.Field{i32(it.idx)}}
					m.MetadataDefs = append(m.MetadataDefs, node)
					m.NamedMetadataDefs[it.b] = &metadata.NamedDef{Name: it.b, Nodes: []metadata.Node{node}}
				}
			},
			text: func(toks []string, its []item) string {
				var sb strings.Builder
				for k, it := range its {
					fmt.Fprintf(&sb, "%s = !{!%d}\n", toks[k], it.ord)
				}
				for _, it := range its {
					fmt.Fprintf(&sb, "!%d = !{i32 %d}\n", it.ord, it.idx)
				}
				return sb.String()
			},
			find: func(text string, it item) (string, bool) {
				id, ok := beforeSuffix(text, fmt.Sprintf(" = !{i32 %d}", it.idx))
				if !ok {
					return "", false
				}
				return beforeSuffix(text, " = !{"+id+"}")
			},
			back: func(m *ir.Module, it item) (string, bool, bool) {
				for key, def := range m.NamedMetadataDefs {
					if len(def.Nodes) != 1 {
						continue
					}
					if tu, ok := def.Nodes[0].(*metadata.Tuple); ok && len(tu.Fields) == 1 && isInt(tu.Fields[0], it.idx) {
						if key != def.Name {
							return key + "\x00(map key differs from Name)\x00" + def.Name, false, true
						}
						return def.Name, false, true
					}
				}
				return "", false, false
			},
		},
		globalString("section", "s", "section", func(g *ir.Global, s string) { g.Section = s }, func(g *ir.Global) string { return g.Section }),
		globalString("partition", "p", "partition", func(g *ir.Global, s string) { g.Partition = s }, func(g *ir.Global) string { return g.Partition }),
		{name: "gc", enc: "enc.Quote", kind: "string", asOnly: true,
			build: func(m *ir.Module, its []item) {
				for _, it := range its {
					f := m.NewFunc(fmt.Sprintf("f%d", it.idx), types.Void)
					f.GC = it.b
					f.NewBlock("").NewRet(nil)
				}
			},
			text: func(toks []string, its []item) string {
				var sb strings.Builder
				for k, it := range its {
					fmt.Fprintf(&sb, "define void @f%d() gc %s {\n  ret void\n}\n", it.idx, toks[k])
				}
				return sb.String()
			},
			find: func(text string, it item) (string, bool) {
				rest, ok := afterInfix(text, fmt.Sprintf("@f%d() gc ", it.idx))
				return scanTok(rest, false), ok
			},
			back: func(m *ir.Module, it item) (string, bool, bool) {
				f := findFunc(m, fmt.Sprintf("f%d", it.idx))
				if f == nil {
					return "", false, false
				}
				return f.GC, false, true
			},
		},
		{name: "asm", enc: "enc.Quote", kind: "string",
			build: func(m *ir.Module, its []item) {
				for _, it := range its {
					f := m.NewFunc(fmt.Sprintf("f%d", it.idx), types.Void)
					b := f.NewBlock("")
					ia := ir.NewInlineAsm(types.NewPointer(types.NewFunc(types.Void)), it.b, "")
					ia.SideEffect = true
					b.NewCall(ia)
					b.NewRet(nil)
				}
			},
			text: func(toks []string, its []item) string {
				var sb strings.Builder
				for k, it := range its {
					fmt.Fprintf(&sb, "define void @f%d() {\n  call void asm sideeffect %s, \"\"()\n  ret void\n}\n", it.idx, toks[k])
				}
				return sb.String()
			},
			find: func(text string, it item) (string, bool) {
				ls := lines(text)
				head := fmt.Sprintf("define void @f%d()", it.idx)
				for k := 0; k < len(ls); k++ {
					if !strings.HasPrefix(ls[k], head) {
						continue
					}
					for j := k + 1; j < len(ls) && ls[j] != "}"; j++ {
						if p := strings.Index(ls[j], "asm sideeffect "); p >= 0 {
							return scanTok(ls[j][p+len("asm sideeffect "):], false), true
						}
					}
				}
				return "", false
			},
			back: func(m *ir.Module, it item) (string, bool, bool) {
				f := findFunc(m, fmt.Sprintf("f%d", it.idx))
				if f == nil || len(f.Blocks) != 1 || len(f.Blocks[0].Insts) != 1 {
					return "", false, false
				}
				call, ok := f.Blocks[0].Insts[0].(*ir.InstCall)
				if !ok {
					return "", false, false
				}
				ia, ok := call.Callee.(*ir.InlineAsm)
				if !ok {
					return "", false, false
				}
				return ia.Asm, false, true
			},
		},
		{name: "mdstring", enc: "enc.Quote", kind: "string", strip: "!", nul: true,
			build: func(m *ir.Module, its []item) {
				var nodes []metadata.Node
				for _, it := range its {
					node := &metadata.Tuple{MetadataID: -1, Fields: []metadata.Field{&metadata.String{Value: it.b}, i32(it.idx)}}
					m.MetadataDefs = append(m.MetadataDefs, node)
					nodes = append(nodes, node)
				}
				m.NamedMetadataDefs["keep"] = &metadata.NamedDef{Name: "keep", Nodes: nodes}
			},
			text: func(toks []string, its []item) string {
				var sb strings.Builder
				sb.WriteString("!keep = !{")
				for k, it := range its {
					if k > 0 {
						sb.WriteString(", ")
					}
					fmt.Fprintf(&sb, "!%d", it.ord)
				}
				sb.WriteString("}\n")
				for k, it := range its {
					fmt.Fprintf(&sb, "!%d = !{%s, i32 %d}\n", it.ord, toks[k], it.idx)
				}
				return sb.String()
			},
			find: func(text string, it item) (string, bool) {
				suffix := fmt.Sprintf(", i32 %d}", it.idx)
				for _, l := range lines(text) {
					if strings.HasSuffix(l, suffix) {
						if p := strings.Index(l, " = !{"); p >= 0 {
							return scanTok(l[p+len(" = !{"):], false), true
						}
					}
				}
				return "", false
			},
			back: func(m *ir.Module, it item) (string, bool, bool) {
				for _, d := range m.MetadataDefs {
					if tu, ok := d.(*metadata.Tuple); ok && len(tu.Fields) == 2 && isInt(tu.Fields[1], it.idx) {
						if s, ok := tu.Fields[0].(*metadata.String); ok {
							return s.Value, false, true
						}
					}
				}
				return "", false, false
			},
		},
		{name: "chararray", enc: "enc.Quote", kind: "string", strip: "c", nul: true,
			build: func(m *ir.Module, its []item) {
				for _, it := range its {
					m.NewGlobalDef(fmt.Sprintf("a%d", it.idx), constant.NewCharArray([]byte(it.b)))
				}
			},
			text: func(toks []string, its []item) string {
				var sb strings.Builder
				for k, it := range its {
					fmt.Fprintf(&sb, "@a%d = global [%d x i8] %s\n", it.idx, len(it.b), toks[k])
				}
				return sb.String()
			},
			find: func(text string, it item) (string, bool) {
				rest, ok := afterPrefix(text, fmt.Sprintf("@a%d = global [%d x i8] ", it.idx, len(it.b)))
				if strings.HasPrefix(rest, "zeroinitializer") && strings.Count(it.b, "\x00") == len(it.b) {
					// LLVM folds an all-zero array; its spelling of the bytes is then
					return `c"` + strings.Repeat(`\00`, len(it.b)) + `"`, ok
				}
				return scanTok(rest, false), ok
			},
			back: func(m *ir.Module, it item) (string, bool, bool) {
				g := findGlobal(m, fmt.Sprintf("a%d", it.idx))
				if g == nil {
					return "", false, false
				}
				ca, ok := g.Init.(*constant.CharArray)
				if !ok {
					return "", false, false
				}
				return string(ca.X), false, true
			},
		},
		{name: "source_filename", enc: "enc.Quote", kind: "string", single: true,
			build: func(m *ir.Module, its []item) { m.SourceFilename = its[0].b },
			text: func(toks []string, its []item) string {
				return "source_filename = " + toks[0] + "\n"
			},
			find: func(text string, it item) (string, bool) {
				rest, ok := afterPrefix(text, "source_filename = ")
				return scanTok(rest, false), ok
			},
			back: func(m *ir.Module, it item) (string, bool, bool) { return m.SourceFilename, false, true },
		},
		{name: "moduleasm", enc: "enc.Quote", kind: "string", noLF: true,
			build: func(m *ir.Module, its []item) {
				for _, it := range its {
					m.ModuleAsms = append(m.ModuleAsms, it.b)
				}
			},
			text: func(toks []string, its []item) string {
				var sb strings.Builder
				for k := range its {
					fmt.Fprintf(&sb, "module asm %s\n", toks[k])
				}
				return sb.String()
			},
			find: func(text string, it item) (string, bool) {
				n := 0
				for _, l := range lines(text) {
					if strings.HasPrefix(l, "module asm ") {
						if n == it.ord {
							return scanTok(l[len("module asm "):], false), true
						}
						n++
					}
				}
				return "", false
			},
			back: func(m *ir.Module, it item) (string, bool, bool) {
				if it.ord >= len(m.ModuleAsms) {
					return "", false, false
				}
				return m.ModuleAsms[it.ord], false, true
			},
		},
	}
	return ps
}
