// Package c11 checks property C11: names and strings are escaped losslessly
// and unambiguously.
//
// (S) spec/LiteralsName.tla: LLVM's lexer rules (Literals!DecodeToken) against
// LLVM's printer rules (Literals!RefEncode) on all byte strings up to a bound;
// with AsImplemented = TRUE the model of internal/enc shows the known defects.
// (G) spec -> code: TLC emits (kind, bytes, reference token); the token is put
// into a module text at every grammar position of that kind; llvm-as |
// llvm-dis must spell it the same way (validates the spec's model of LLVM), and
// the real parser (asm.ParseString) must deliver exactly the bytes, as a name.
// (T) code -> spec: the bytes are put into a module through the public ir API,
// the module is printed; the printed token is judged by TLC
// (spec/LiteralsNameTrace.tla: DecodeToken(kind, token) = bytes), read by
// llvm-as | llvm-dis (whose canonical spelling is again decoded by TLC), and
// parsed back by asm.ParseString.  The encoders of internal/enc are recorded
// directly as well (package verifshim).
package c11

import (
	"encoding/hex"
	"encoding/json"
	"fmt"
	"math/rand"
	"os"
	"regexp"
	"sort"
	"strconv"
	"strings"
	"sync"
	"time"

	"github.com/llir/llvm/asm"
	"github.com/llir/llvm/ir"
	"github.com/llir/llvm/verifshim"

	"verif/harness/llvmoracle"
	"verif/harness/mbt"
	"verif/harness/props/reg"
)

func init() { reg.Register("C11", Run) }

// row is one observation handed to LiteralsNameTrace.tla.
type row struct {
	K     string `json:"k"` // "tok", "id", "unescape"
	Kind  string `json:"kind"`
	Bytes []int  `json:"bytes"`
	Tok   []int  `json:"tok"`
	Pos   string `json:"pos"`
	Src   string `json:"src"`
}

func ints(s string) []int {
	out := make([]int, len(s))
	for i := 0; i < len(s); i++ {
		out[i] = int(s[i])
	}
	return out
}

func str(bs []int) string {
	b := make([]byte, len(bs))
	for i, v := range bs {
		b[i] = byte(v)
	}
	return string(b)
}

// diNodeNames are the names whose !-token the grammar reserves for specialised metadata nodes.
var diNodeNames = func() map[string]bool {
	m := map[string]bool{}
	for _, n := range []string{"DIArgList", "DIBasicType", "DICommonBlock", "DICompileUnit", "DICompositeType", "DIDerivedType", "DIEnumerator",
		"DIExpression", "DIFile", "DIGlobalVariable", "DIGlobalVariableExpression", "DIImportedEntity", "DILabel", "DILexicalBlock",
		"DILexicalBlockFile", "DILocalVariable", "DILocation", "DIMacro", "DIMacroFile", "DIModule", "DINamespace", "DIObjCProperty",
		"DIStringType", "DISubprogram", "DISubrange", "DISubroutineType", "DITemplateTypeParameter", "DITemplateValueParameter",
		"GenericDINode", "DIGenericSubrange"} {
		m[n] = true
	}
	return m
}()

// shape abstracts a byte string for failure signatures.
func shape(b string) string {
	if b == "" {
		return "empty"
	}
	digits := true
	for i := 0; i < len(b); i++ {
		if b[i] < '0' || b[i] > '9' {
			digits = false
		}
	}
	if digits {
		if _, err := strconv.ParseUint(b, 10, 64); err == nil {
			return "all digits"
		}
		return "all digits beyond uint64"
	}
	if diNodeNames[b] {
		return "specialised metadata node name"
	}
	if len(b) > 1 && (b[0] == '-' || b[0] == '+') {
		num := true
		for i := 1; i < len(b); i++ {
			if b[i] < '0' || b[i] > '9' {
				num = false
			}
		}
		if num {
			return "signed number"
		}
	}
	var cl []string
	has := map[string]bool{}
	add := func(c string) {
		if !has[c] {
			has[c] = true
			cl = append(cl, c)
		}
	}
	if b[0] >= '0' && b[0] <= '9' {
		add("leading digit")
	}
	for i := 0; i < len(b); i++ {
		c := b[i]
		switch {
		case c == 0:
			add("NUL")
		case c == '"':
			add("quote")
		case c == '\\':
			add("backslash")
		case c < 0x20 || c == 0x7F:
			add("control")
		case c >= 0x80:
			add("high")
		case c >= '0' && c <= '9', c >= 'a' && c <= 'z', c >= 'A' && c <= 'Z', c == '$', c == '-', c == '.', c == '_':
		default:
			add("punct")
		}
	}
	if len(cl) == 0 {
		return "bare"
	}
	sort.Strings(cl)
	return strings.Join(cl, "+")
}

// obs is what the check learnt about one (position, bytes) pair in the code -> spec direction.
type obs struct {
	pos      *position
	it       item
	text     string // printed single-item module
	tok      string // printed token
	printed  bool
	specBad  string // class reported by TLC for the printed token ("" = decodes to the bytes)
	llvmOK   bool   // llvm-as accepted the printed module
	llvmDiag string
	llvmTok  string
	llvmBad  string // class reported by TLC for LLVM's spelling
}

type checker struct {
	rep       *mbt.Report
	tier      string
	discards  int
	disCrash  int
	discardBy map[string]int
	plain     map[*position]bool // position -> the parser rejects it even for the plain string "a"
	judged    int
	mu        sync.Mutex
	uniq      map[string]string // position|token -> bytes (printed alike check)
}

func (c *checker) kase(dir string, p *position, b string) map[string]interface{} {
	return map[string]interface{}{"dir": dir, "pos": p.name, "bytes": hex.EncodeToString([]byte(b)), "text": b}
}

// unobservable counts records where llvm-as accepted the module but llvm-dis could not print it.
func (c *checker) unobservable() {
	c.mu.Lock()
	c.disCrash++
	c.mu.Unlock()
}

func (c *checker) discard(format string, a ...interface{}) {
	c.mu.Lock()
	defer c.mu.Unlock()
	c.discards++
	key := strings.SplitN(fmt.Sprintf(format, a...), ",", 2)[0]
	key = strings.SplitN(key, ":", 2)[0]
	c.discardBy[key]++
	if c.discardBy[key] <= 2 {
		c.rep.Note("spec/LLVM disagreement (record discarded, never a verdict): "+format, a...)
	}
}

var reBad = regexp.MustCompile(`<<"BADROW", "([^"]+)", (\d+)>>`)

// judge lets TLC evaluate LiteralsNameTrace on the rows; the result maps row index -> failure class.
func (c *checker) judge(rows []row, label string) map[int]string {
	out := map[int]string{}
	if len(rows) == 0 {
		return out
	}
	chunks := 64
	if len(rows) < chunks {
		chunks = len(rows)
	}
	t := mbt.MustTLC(mbt.TLCOpts{Spec: "LiteralsNameTrace", Cfg: "LiteralsNameTrace.cfg", Workers: 4, Continue: true,
		Consts: map[string]string{"Chunks": strconv.Itoa(chunks)},
		Data:   map[string][]byte{"c11_rec.ndjson": mbt.NDJSONBytes(rows)}, Timeout: 20 * time.Minute})
	defer t.Cleanup()
	c.rep.AddTLC(t)
	if t.Distinct != int64(chunks)+1 {
		mbt.Infra("LiteralsNameTrace (%s) visited %d of %d row groups:\n%s", label, t.Distinct-1, chunks, tail(t.Output))
	}
	for _, v := range t.Violated {
		if v != "RowsOK" {
			mbt.Infra("LiteralsNameTrace: unexpected violation %s", v)
		}
	}
	for _, m := range reBad.FindAllStringSubmatch(t.Output, -1) {
		i, _ := strconv.Atoi(m[2])
		if m[1] == "unknown-row" {
			mbt.Infra("LiteralsNameTrace: malformed row %d", i)
		}
		out[i-1] = m[1]
	}
	if len(t.Violated) > 0 && len(out) == 0 {
		mbt.Infra("LiteralsNameTrace: RowsOK violated but no BADROW line:\n%s", tail(t.Output))
	}
	c.judged += len(rows)
	c.rep.TracesValidated += len(rows)
	return out
}

func tail(s string) string {
	if len(s) > 2500 {
		return s[len(s)-2500:]
	}
	return s
}

// canon is llvm-as | llvm-dis like llvmoracle.Canon, but keeps the source_filename line (a
// position of this property) and reports a crash of llvm-dis as "LLVM does not read this"
// instead of aborting the check (llvm-dis 14 crashes on some GC names it does not know).
func canon(p *position, text string, asOnly bool) (string, bool, string) {
	if p != nil && p.noLLVM {
		return disCrashed, true, ""
	}
	bc, se, code, err := mbt.Tool([]byte(text), 60*time.Second, "llvm-as", "-o", "-", "-")
	if err != nil {
		mbt.Infra("llvm-as: %v", err)
	}
	if code == 124 {
		mbt.Infra("llvm-as timed out")
	}
	if code != 0 {
		return "", false, strings.TrimSpace(string(se))
	}
	if asOnly || (p != nil && p.asOnly) {
		return disCrashed, true, ""
	}
	so, se, code, err := mbt.Tool(bc, 60*time.Second, "llvm-dis", "-o", "-", "-")
	if err != nil {
		mbt.Infra("llvm-dis: %v", err)
	}
	if code != 0 {
		// llvm-dis 14 crashes when it prints a metadata name with a byte >= 0x80 (isalpha on a
		// negative char): the module was read, but LLVM's reading cannot be observed
		return disCrashed, true, ""
	}
	return string(so), true, ""
}

// disCrashed is returned by canon as output when llvm-as accepted the module and llvm-dis failed.
const disCrashed = "\x00llvm-dis failed\x00"

func permitted(p *position, b string) bool {
	if b == "" {
		return false
	}
	if !p.nul && strings.IndexByte(b, 0) >= 0 {
		return false
	}
	if p.noLF && strings.IndexByte(b, '\n') >= 0 {
		return false
	}
	return true
}

const batchSize = 150

// ---------------------------------------------------------------------------
// code -> spec

// printOne builds the single-item module through the API and prints it.
func (c *checker) printOne(p *position, b string) *obs {
	o := &obs{pos: p, it: item{idx: 7, ord: 0, b: b}}
	if msg, pan := mbt.Guard(func() {
		m := ir.NewModule()
		p.build(m, []item{o.it})
		o.text = m.String()
	}); pan {
		c.rep.Fail(mbt.Failure{Signature: "C11|" + p.enc + "|panic|" + shape(b),
			What: fmt.Sprintf("printing a module with %q at position %s panics: %s", b, p.name, mbt.Truncate(msg, 200)), Case: c.kase("T", p, b)})
		return o
	}
	tok, ok := p.find(o.text, o.it)
	if !ok {
		c.rep.Fail(mbt.Failure{Signature: "C11|" + p.enc + "|position " + p.name + " not found in output|" + shape(b),
			What: fmt.Sprintf("the printed module does not show position %s for %q:\n%s", p.name, b, mbt.Truncate(o.text, 300)), Case: c.kase("T", p, b)})
		return o
	}
	o.tok, o.printed = tok, true
	return o
}

// tokenOf removes the sigil that is not part of the string token.
func tokenOf(p *position, tok string) string {
	if p.strip != "" && strings.HasPrefix(tok, p.strip) {
		return tok[len(p.strip):]
	}
	if p.strip != "" {
		return "\x00missing sigil\x00" + tok
	}
	return tok
}

// codeToSpec runs the code -> spec direction for the given positions and byte strings:
// print through the API, TLC decodes the printed tokens (one run), LLVM reads the output,
// TLC decodes LLVM's spelling (one run), verdicts, parse back.
func (c *checker) codeToSpec(ps []*position, strs func(p *position) []string) {
	var all []*obs
	for _, p := range ps {
		for _, b := range strs(p) {
			if !permitted(p, b) {
				continue
			}
			c.rep.Count("T|"+p.name+"|"+b, true)
			o := c.printOne(p, b)
			if o.printed {
				all = append(all, o)
			}
		}
	}
	if len(all) == 0 {
		return
	}
	// 1. TLC decodes the printed tokens with LLVM's lexer rules.
	rows := make([]row, len(all))
	for i, o := range all {
		rows[i] = row{K: "tok", Kind: o.pos.kind, Bytes: ints(o.it.b), Tok: ints(tokenOf(o.pos, o.tok)), Pos: o.pos.name, Src: "printed"}
	}
	for i, cl := range c.judge(rows, "printed") {
		all[i].specBad = cl
	}
	// (c) two different byte strings must not print alike
	for _, o := range all {
		p := o.pos
		key := p.name + "|" + o.tok
		if prev, ok := c.uniq[key]; ok && prev != o.it.b {
			c.rep.Fail(mbt.Failure{Signature: "C11|" + printerSite(p, o.it.b, o.tok) + "|two names print alike|" + shape(o.it.b),
				What: fmt.Sprintf("position %s: %q and %q are both printed as %s", p.name, prev, o.it.b, o.tok), Case: c.kase("T", p, o.it.b)})
		}
		c.uniq[key] = o.it.b
	}
	// 2. LLVM reads the library's output: tokens the spec accepts in batches per position, the others one by one.
	good := map[*position][]*obs{}
	var single []*obs
	for _, o := range all {
		if o.specBad == "" && !o.pos.single && !o.pos.hidden(o.it.b) {
			good[o.pos] = append(good[o.pos], o)
		} else {
			single = append(single, o)
		}
	}
	type batchT struct {
		p  *position
		os []*obs
	}
	var batches []batchT
	for _, p := range ps {
		g := good[p]
		for i := 0; i < len(g); i += batchSize {
			j := i + batchSize
			if j > len(g) {
				j = len(g)
			}
			batches = append(batches, batchT{p, g[i:j]})
		}
	}
	var mu sync.Mutex
	llvmoracle.Parallel(len(batches), func(k int) {
		p, batch := batches[k].p, batches[k].os
		its := make([]item, len(batch))
		for i, o := range batch {
			its[i] = item{idx: 10 + i, ord: i, b: o.it.b}
		}
		var text string
		_, pan := mbt.Guard(func() {
			m := ir.NewModule()
			p.build(m, its)
			text = m.String()
		})
		var out string
		ok := false
		if !pan {
			out, ok, _ = canon(p, text, false)
		}
		if !ok || out == disCrashed {
			mu.Lock()
			single = append(single, batch...)
			mu.Unlock()
			return
		}
		for i, o := range batch {
			tok, found := p.find(out, its[i])
			o.llvmOK = true
			if p.asOnly {
				o.llvmTok = o.tok
			} else if found {
				o.llvmTok = tok
			} else {
				o.llvmTok = "\x00not found\x00"
			}
		}
	})
	llvmoracle.Parallel(len(single), func(k int) {
		o := single[k]
		p := o.pos
		out, ok, diag := canon(p, o.text, p.hidden(o.it.b))
		o.llvmOK, o.llvmDiag = ok, diag
		if ok {
			tok, found := p.find(out, o.it)
			if p.asOnly || out == disCrashed {
				o.llvmTok = o.tok
				if !p.asOnly {
					c.unobservable()
				}
			} else if found {
				o.llvmTok = tok
			} else {
				o.llvmTok = "\x00not found\x00"
			}
		}
	})
	// 3. TLC decodes LLVM's canonical spelling.
	var lrows []row
	var lidx []int
	for i, o := range all {
		if o.llvmOK {
			lrows = append(lrows, row{K: "tok", Kind: o.pos.kind, Bytes: ints(o.it.b), Tok: ints(tokenOf(o.pos, o.llvmTok)), Pos: o.pos.name, Src: "llvm"})
			lidx = append(lidx, i)
		}
	}
	for i, cl := range c.judge(lrows, "llvm") {
		all[lidx[i]].llvmBad = cl
	}
	// 4. verdicts
	for _, o := range all {
		b, p := o.it.b, o.pos
		llvmReadsBytes := o.llvmOK && o.llvmBad == ""
		switch {
		case o.specBad == "" && llvmReadsBytes:
			// the property holds on this record
		case o.specBad != "" && !llvmReadsBytes:
			what := fmt.Sprintf("position %s: %q is printed as %s; LLVM's lexer rules (TLC): %s; ", p.name, b, o.tok, o.specBad)
			if o.llvmOK {
				what += fmt.Sprintf("llvm-as | llvm-dis reads it as %s (%s)", o.llvmTok, o.llvmBad)
			} else {
				what += "llvm-as: " + mbt.Truncate(firstLine(o.llvmDiag), 160)
			}
			c.rep.Fail(mbt.Failure{Signature: "C11|" + printerSite(p, b, o.tok) + "|" + o.specBad + "|" + shape(b), What: what, Case: c.kase("T", p, b)})
		case o.specBad != "":
			c.discard("position %s, %q printed as %s: the spec says %s but LLVM reads the bytes", p.name, b, o.tok, o.specBad)
		default:
			if o.llvmOK {
				c.discard("position %s, %q printed as %s: the spec decodes it to the bytes but LLVM's spelling %s decodes differently (%s)", p.name, b, o.tok, o.llvmTok, o.llvmBad)
			} else {
				c.discard("position %s, %q printed as %s: the spec decodes it to the bytes but llvm-as rejects the module: %s", p.name, b, o.tok, mbt.Truncate(firstLine(o.llvmDiag), 160))
			}
		}
	}
	// 5. the library's own parser reads its output back (a token already reported as wrong is the
	// printer's defect; what the parser makes of it is a consequence, not a second finding)
	for _, o := range all {
		if o.specBad != "" && !(o.llvmOK && o.llvmBad == "") {
			continue
		}
		c.parseBack("T", o.pos, o.it, o.text, o.tok)
	}
}

// printerSite names the culprit of a wrong printed token: the encoder of internal/enc if it
// returns this very token for the bytes, otherwise the printing code of the position itself.
func printerSite(p *position, b, tok string) string {
	var want string
	if _, pan := mbt.Guard(func() {
		switch p.enc {
		case "enc.GlobalName":
			want = verifshim.GlobalName(b)
		case "enc.LocalName":
			want = verifshim.LocalName(b)
		case "enc.LabelName":
			want = verifshim.LabelName(b)
		case "enc.TypeName":
			want = verifshim.TypeName(b)
		case "enc.ComdatName":
			want = verifshim.ComdatName(b)
		case "enc.MetadataName":
			want = verifshim.MetadataName(b)
		default:
			want = p.strip + verifshim.Quote([]byte(b))
		}
	}); pan || want != tok {
		return "printer of position " + p.name
	}
	return p.enc
}

func firstLine(s string) string {
	if i := strings.IndexByte(s, '\n'); i >= 0 {
		return s[:i]
	}
	return s
}

// rejectsPlain reports whether asm.ParseString rejects the position even with the plain name "a".
func (c *checker) rejectsPlain(p *position) bool {
	if v, ok := c.plain[p]; ok {
		return v
	}
	tok := map[string]string{"global": "@a", "local": "%a", "type": "%a", "label": "a:", "comdat": "$a", "mdname": "!a", "string": `"a"`}[p.kind]
	it := item{idx: 7, ord: 0, b: "a"}
	rejected := false
	if _, pan := mbt.Guard(func() {
		_, err := asm.ParseString("c11.ll", p.text([]string{p.strip + tok}, []item{it}))
		rejected = err != nil
	}); pan {
		rejected = false
	}
	c.plain[p] = rejected
	return rejected
}

// parseBack parses text with the library and compares the bytes at the position.
func (c *checker) parseBack(dir string, p *position, it item, text, tok string) bool {
	b := it.b
	// the direction is part of the signature: the library failing to read ITS OWN output (code -> spec)
	// is a different finding from the parser failing on a spelling LLVM would write (spec -> code) --
	// an open entry of the second kind must not hide a printer that starts to emit that spelling
	site := "parser"
	if dir == "T" {
		site = "parser on the library's own output"
	}
	var m *ir.Module
	var err error
	if msg, pan := mbt.Guard(func() { m, err = asm.ParseString("c11.ll", text) }); pan {
		c.rep.Fail(mbt.Failure{Signature: "C11|" + site + "|" + p.name + "|panic|" + shape(b),
			What: fmt.Sprintf("position %s, %q spelled %s: asm.ParseString panics: %s", p.name, b, tok, mbt.Truncate(msg, 200)), Case: c.kase(dir, p, b)})
		return false
	}
	if err != nil && c.rejectsPlain(p) {
		// not a matter of escaping: the parser does not accept this position at all
		sn := p.site
		if sn == "" {
			sn = p.name
		}
		c.rep.Fail(mbt.Failure{Signature: "C11|" + site + "|" + sn + "|rejected|every string",
			What: fmt.Sprintf("position %s: the parser rejects what the printer prints here, even for the plain string \"a\" (%q spelled %s): %s", p.name, b, tok, mbt.Truncate(firstLine(err.Error()), 200)), Case: c.kase(dir, p, b)})
		return false
	}
	if err != nil {
		c.rep.Fail(mbt.Failure{Signature: "C11|" + site + "|" + p.name + "|rejected|" + shape(b),
			What: fmt.Sprintf("position %s, %q spelled %s: asm.ParseString fails: %s", p.name, b, tok, mbt.Truncate(firstLine(err.Error()), 200)), Case: c.kase(dir, p, b)})
		return false
	}
	var got string
	var isID, ok bool
	if msg, pan := mbt.Guard(func() { got, isID, ok = p.back(m, it) }); pan {
		mbt.Infra("reading position %s back panics: %s", p.name, msg)
	}
	switch {
	case !ok:
		c.rep.Fail(mbt.Failure{Signature: "C11|" + site + "|" + p.name + "|position lost|" + shape(b),
			What: fmt.Sprintf("position %s, %q spelled %s: the parsed module does not have the entity", p.name, b, tok), Case: c.kase(dir, p, b)})
	case isID:
		c.rep.Fail(mbt.Failure{Signature: "C11|" + site + "|" + p.name + "|read-as-id|" + shape(b),
			What: fmt.Sprintf("position %s, %q spelled %s: parsed back as the unnamed ID %s", p.name, b, tok, got), Case: c.kase(dir, p, b)})
	case got != b:
		c.rep.Fail(mbt.Failure{Signature: "C11|" + site + "|" + p.name + "|other-bytes|" + shape(b),
			What: fmt.Sprintf("position %s, %q spelled %s: parsed back as %q", p.name, b, tok, got), Case: c.kase(dir, p, b)})
	default:
		return true
	}
	return false
}

// ---------------------------------------------------------------------------
// spec -> code

type vector struct {
	Kind  string `json:"kind"`
	Bytes []int  `json:"bytes"`
	Tag   string `json:"tag"` // "reference" or the name of an alternative spelling
	Ref   []int  `json:"ref"` // LLVM's canonical spelling
	Tok   []int  `json:"tok"` // the spelling fed to the parser
}

func readVectors(out string) []vector {
	var vs []vector
	for _, l := range strings.Split(out, "\n") {
		if !strings.HasPrefix(l, `"{`) {
			continue
		}
		var s string
		if err := json.Unmarshal([]byte(l), &s); err != nil {
			mbt.Infra("vector line %q: %v", mbt.Truncate(l, 120), err)
		}
		var v vector
		if err := json.Unmarshal([]byte(s), &v); err != nil {
			mbt.Infra("vector %q: %v", mbt.Truncate(s, 120), err)
		}
		vs = append(vs, v)
	}
	return vs
}

type gcase struct {
	b, tok, ref, tag string
}

func (c *checker) specToCode(p *position, cases []gcase) {
	// the spellings of one byte string name the same entity: one module per kind of spelling
	byTag := map[string][]gcase{}
	var tags []string
	for _, g := range cases {
		if permitted(p, g.b) {
			if _, ok := byTag[g.tag]; !ok {
				tags = append(tags, g.tag)
			}
			byTag[g.tag] = append(byTag[g.tag], g)
		}
	}
	sort.Strings(tags)
	for _, tag := range tags {
		c.specToCodeTag(p, byTag[tag])
	}
}

func (c *checker) specToCodeTag(p *position, use []gcase) {
	full := func(g gcase) string { return p.strip + g.tok }
	fullRef := func(g gcase) string { return p.strip + g.ref }
	// LLVM must read the reference spelling as the spec says: its canonical spelling is the same token.
	valid := make([]bool, len(use))
	type job struct{ lo, hi int }
	var jobs []job
	step := batchSize
	if p.single {
		step = 1
	}
	// items whose reading LLVM cannot show go last, one per module
	sort.SliceStable(use, func(a, b int) bool { return !p.hidden(use[a].b) && p.hidden(use[b].b) })
	nvis := 0
	for nvis < len(use) && !p.hidden(use[nvis].b) {
		nvis++
	}
	for i := 0; i < nvis; i += step {
		j := i + step
		if j > nvis {
			j = nvis
		}
		jobs = append(jobs, job{i, j})
	}
	for i := nvis; i < len(use); i++ {
		jobs = append(jobs, job{i, i + 1})
	}
	check := func(lo, hi int) bool {
		its := make([]item, hi-lo)
		toks := make([]string, hi-lo)
		for i := lo; i < hi; i++ {
			its[i-lo] = item{idx: 10 + i - lo, ord: i - lo, b: use[i].b}
			toks[i-lo] = full(use[i])
		}
		out, ok, diag := canon(p, p.text(toks, its), hi-lo == 1 && p.hidden(use[lo].b))
		if ok && out == disCrashed && !p.asOnly {
			if hi-lo > 1 {
				return false
			}
			c.unobservable()
			valid[lo] = true
			return true
		}
		if !ok {
			if hi-lo == 1 {
				c.discard("position %s: llvm-as rejects the reference spelling %s of %q: %s", p.name, toks[0], use[lo].b, mbt.Truncate(firstLine(diag), 160))
			}
			return false
		}
		for i := lo; i < hi; i++ {
			tok, found := p.find(out, its[i-lo])
			if p.asOnly || (found && tok == fullRef(use[i])) {
				valid[i] = true
			} else {
				c.discard("position %s: %q spelled %s: LLVM's canonical spelling is %s, the reference encoder's %s", p.name, use[i].b, toks[i-lo], tok, fullRef(use[i]))
			}
		}
		return true
	}
	llvmoracle.Parallel(len(jobs), func(k int) {
		if !check(jobs[k].lo, jobs[k].hi) && jobs[k].hi-jobs[k].lo > 1 {
			for i := jobs[k].lo; i < jobs[k].hi; i++ {
				check(i, i+1)
			}
		}
	})
	// the real parser must deliver the bytes
	for i, g := range use {
		if !valid[i] {
			continue
		}
		c.rep.Count("G|"+p.name+"|"+g.tag+"|"+g.b, true)
		it := item{idx: 7, ord: 0, b: g.b}
		c.parseBack("G", p, it, p.text([]string{full(g)}, []item{it}), full(g))
	}
}

// ---------------------------------------------------------------------------
// the encoders of internal/enc, recorded directly

func (c *checker) encoders(bs []string) {
	type enc struct {
		name, kind, pos string
		f               func(string) string
	}
	encs := []enc{
		{"enc.GlobalName", "global", "global", verifshim.GlobalName},
		{"enc.LocalName", "local", "param", verifshim.LocalName},
		{"enc.LabelName", "label", "label", verifshim.LabelName},
		{"enc.TypeName", "type", "type", verifshim.TypeName},
		{"enc.ComdatName", "comdat", "comdat", verifshim.ComdatName},
		{"enc.MetadataName", "mdname", "mdname", verifshim.MetadataName},
		{"enc.Quote", "string", "section", func(s string) string { return verifshim.Quote([]byte(s)) }},
		{"enc.Quote", "string", "section", func(s string) string { return `"` + verifshim.EscapeString([]byte(s)) + `"` }},
	}
	var rows []row
	type meta struct {
		e enc
		b string
	}
	var metas []meta
	for _, e := range encs {
		for _, b := range bs {
			if e.kind != "string" && strings.IndexByte(b, 0) >= 0 {
				continue
			}
			if b == "" && e.name != "enc.MetadataName" && e.kind != "string" {
				continue
			}
			c.rep.Count("enc|"+e.name+"|"+b, true)
			var tok string
			if msg, pan := mbt.Guard(func() { tok = e.f(b) }); pan {
				c.rep.Fail(mbt.Failure{Signature: "C11|" + e.name + "|panic|" + shape(b),
					What: fmt.Sprintf("%s(%q) panics: %s", e.name, b, mbt.Truncate(msg, 200)),
					Case: map[string]interface{}{"dir": "enc", "enc": e.name, "bytes": hex.EncodeToString([]byte(b))}})
				continue
			}
			if b == "" {
				continue
			}
			rows = append(rows, row{K: "tok", Kind: e.kind, Bytes: ints(b), Tok: ints(tok), Pos: e.pos, Src: e.name})
			metas = append(metas, meta{e, b})
		}
	}
	// IDs
	for _, n := range []int64{0, 1, 42, 999999999} {
		ds := strconv.FormatInt(n, 10)
		for _, e := range []struct{ kind, tok string }{
			{"global", verifshim.GlobalID(n)}, {"local", verifshim.LocalID(n)}, {"label", verifshim.LabelID(n)}, {"mdname", verifshim.MetadataID(n)},
		} {
			rows = append(rows, row{K: "id", Kind: e.kind, Bytes: ints(ds), Tok: ints(e.tok), Src: "enc id"})
			metas = append(metas, meta{enc{name: "enc ID of " + e.kind, kind: e.kind}, ds})
			c.rep.Count("enc|id|"+e.kind+"|"+ds, true)
		}
	}
	// Unescape and Unquote against the lexer's rule
	for _, b := range bs {
		if strings.IndexByte(b, '"') >= 0 {
			continue
		}
		var out, out2 string
		if msg, pan := mbt.Guard(func() {
			out = string(verifshim.Unescape(b))
			out2 = string(verifshim.Unquote(`"` + b + `"`))
		}); pan {
			c.rep.Fail(mbt.Failure{Signature: "C11|enc.Unescape|panic|" + shape(b), What: fmt.Sprintf("enc.Unescape/Unquote(%q) panics: %s", b, msg),
				Case: map[string]interface{}{"dir": "enc", "enc": "enc.Unescape", "bytes": hex.EncodeToString([]byte(b))}})
			continue
		}
		c.rep.Count("enc|unescape|"+b, true)
		rows = append(rows, row{K: "unescape", Bytes: ints(b), Tok: ints(out), Src: "enc.Unescape"})
		metas = append(metas, meta{enc{name: "enc.Unescape"}, b})
		if out2 != out {
			rows = append(rows, row{K: "unescape", Bytes: ints(b), Tok: ints(out2), Src: "enc.Unquote"})
			metas = append(metas, meta{enc{name: "enc.Unquote"}, b})
		}
	}
	bad := c.judge(rows, "encoders")
	// a token the spec rejects is confirmed by LLVM in a module text before it becomes a verdict
	byPos := map[string]*position{}
	for _, p := range positions() {
		byPos[p.name] = p
	}
	var idxs []int
	for i := range bad {
		idxs = append(idxs, i)
	}
	sort.Ints(idxs)
	type res struct {
		ok   bool
		diag string
		tok  string
	}
	results := make([]res, len(idxs))
	llvmoracle.Parallel(len(idxs), func(k int) {
		i := idxs[k]
		r, mt := rows[i], metas[i]
		if r.K != "tok" {
			return
		}
		p := byPos[mt.e.pos]
		it := item{idx: 7, ord: 0, b: mt.b}
		out, ok, diag := canon(p, p.text([]string{str(r.Tok)}, []item{it}), p.hidden(mt.b))
		results[k] = res{ok: ok, diag: diag}
		if ok {
			results[k].tok, _ = p.find(out, it)
			if p.asOnly || out == disCrashed {
				results[k].tok = str(r.Tok)
			}
		}
	})
	var confirm []row
	var confirmIdx []int
	for k, i := range idxs {
		if rows[i].K == "tok" && results[k].ok {
			confirm = append(confirm, row{K: "tok", Kind: rows[i].Kind, Bytes: rows[i].Bytes, Tok: ints(results[k].tok), Src: "llvm"})
			confirmIdx = append(confirmIdx, k)
		}
	}
	llvmBad := map[int]string{}
	for j, cl := range c.judge(confirm, "encoders/llvm") {
		llvmBad[confirmIdx[j]] = cl
	}
	for k, i := range idxs {
		r, mt := rows[i], metas[i]
		kase := map[string]interface{}{"dir": "enc", "enc": mt.e.name, "bytes": hex.EncodeToString([]byte(mt.b))}
		switch r.K {
		case "tok":
			if results[k].ok && llvmBad[k] == "" {
				c.discard("%s(%q) = %s: the spec says %s but LLVM reads the bytes", mt.e.name, mt.b, str(r.Tok), bad[i])
				continue
			}
			c.rep.Fail(mbt.Failure{Signature: "C11|" + mt.e.name + "|" + bad[i] + "|" + shape(mt.b),
				What: fmt.Sprintf("%s(%q) = %s; LLVM's lexer rules (TLC): %s; llvm-as on a module with this token: %s", mt.e.name, mt.b, str(r.Tok), bad[i], llvmSays(results[k].ok, results[k].diag, results[k].tok)), Case: kase})
		case "id":
			c.rep.Fail(mbt.Failure{Signature: "C11|" + mt.e.name + "|" + bad[i], What: fmt.Sprintf("%s: ID %s is spelled %s, which is not read as that ID", mt.e.name, mt.b, str(r.Tok)), Case: kase})
		case "unescape":
			c.rep.Fail(mbt.Failure{Signature: "C11|" + mt.e.name + "|differs from the lexer's unescaping|" + shape(mt.b),
				What: fmt.Sprintf("%s(%q) = %q differs from LLVM's UnEscapeLexed", mt.e.name, mt.b, str(r.Tok)), Case: kase})
		}
	}
}

func llvmSays(ok bool, diag, tok string) string {
	if !ok {
		return "rejected: " + mbt.Truncate(firstLine(diag), 160)
	}
	return "read as " + tok
}

// ---------------------------------------------------------------------------
// unnamed IDs stay IDs

func (c *checker) idsStayIDs() {
	m := ir.NewModule()
	m.NewGlobalDef("", i32(1))
	f := m.NewFunc("", i32(0).Typ, ir.NewParam("", i32(0).Typ))
	b := f.NewBlock("")
	add := b.NewAdd(f.Params[0], i32(2))
	b.NewRet(add)
	var text string
	if msg, pan := mbt.Guard(func() { text = m.String() }); pan {
		c.rep.Fail(mbt.Failure{Signature: "C11|ids|printer|panic", What: "printing a module of unnamed entities panics: " + msg, Case: map[string]interface{}{"dir": "ids"}})
		return
	}
	c.rep.Count("ids", true)
	fail := func(what string) {
		c.rep.Fail(mbt.Failure{Signature: "C11|ids|unnamed entity not read back as an ID", What: what + ":\n" + text, Case: map[string]interface{}{"dir": "ids"}})
	}
	if _, ok, diag := canon(nil, text, false); !ok {
		fail("llvm-as rejects the printed module of unnamed entities: " + diag)
		return
	}
	m2, err := asm.ParseString("ids.ll", text)
	if err != nil {
		fail("asm.ParseString rejects the printed module of unnamed entities: " + err.Error())
		return
	}
	if len(m2.Globals) != 1 || !m2.Globals[0].IsUnnamed() || m2.Globals[0].GlobalID != 0 {
		fail("the unnamed global @0 is not read back as ID 0")
	}
	if len(m2.Funcs) != 1 || !m2.Funcs[0].IsUnnamed() || m2.Funcs[0].GlobalID != 1 {
		fail("the unnamed function @1 is not read back as ID 1")
		return
	}
	f2 := m2.Funcs[0]
	if !f2.Params[0].IsUnnamed() || !f2.Blocks[0].IsUnnamed() {
		fail("unnamed parameter or block not read back as IDs")
	}
	if v, ok := f2.Blocks[0].Insts[0].(*ir.InstAdd); !ok || !v.IsUnnamed() || v.LocalID != 2 {
		fail("the unnamed instruction %2 is not read back as ID 2")
	}
}

// ---------------------------------------------------------------------------
// byte strings

var classReps = []byte{'a', 'C', 'z', '0', '5', '2', '$', '-', '.', '_', ' ', '%', '"', '\\', 0x01, 0x7F, 0x80, 0xFF, 0x00}

func stringsOfLen(alphabet []byte, n int) []string {
	var out []string
	for _, s := range stringsUpTo(alphabet, n) {
		if len(s) == n {
			out = append(out, s)
		}
	}
	return out
}

func stringsUpTo(alphabet []byte, n int) []string {
	out := []string{}
	prev := []string{""}
	for l := 1; l <= n; l++ {
		var cur []string
		for _, p := range prev {
			for _, ch := range alphabet {
				cur = append(cur, p+string([]byte{ch}))
			}
		}
		out = append(out, cur...)
		prev = cur
	}
	return out
}

var extras = []string{
	`\5C`, `\\`, `\2`, `\zz`, `\5z`, `\4_`, `x\5zz`, `\4\4z`, `\\\5z`, `\22`, `a\41b`, `\5c5C`, `\\5C`, `a\`, `\0`, `\00`, `"\22"`, `a"b`, `\"`,
	// names that read as zero or as a number with a sign
	"-0", "-00", "+0", "-0a", "0-", "-5", "+5", "-18446744073709551616",
	// keywords and tokens of the surrounding grammar used as names
	"null", "true", "false", "void", "x", "c", "to", "label", "undef", "poison", "zeroinitializer", "none", "type", "opaque",
	"global", "constant", "define", "declare", "any", "comdat", "float", "double", "ptr", "i1", "i8", "metadata", "distinct", "asm", "attributes", "target",
	"DIBasicType", "DICommonBlock", "DICompileUnit", "DICompositeType", "DIDerivedType", "DIEnumerator", "DIExpression", "DIFile",
	"DIGlobalVariable", "DIGlobalVariableExpression", "DIImportedEntity", "DILabel", "DILexicalBlock", "DILexicalBlockFile",
	"DILocalVariable", "DILocation", "DIMacro", "DIMacroFile", "DIModule", "DINamespace", "DIObjCProperty", "DIStringType",
	"DISubprogram", "DISubrange", "DISubroutineType", "DITemplateTypeParameter", "DITemplateValueParameter", "GenericDINode",
	"DIArgList", "DIGenericSubrange", "DILocationX", "dilocation",
	"%", "%%", "%s", "%d", "%v", "%!", "a%", "100%", "%!s(MISSING)", "%%%", "%5C", "a%20b", "%\\",
	"0", "1", "42", "007", "00", "1a", "2b", "1_", "9.5", "1e5", "0x1F", "-1", "-", "a.b", "struct.foo", "a-b$c_d",
	"4294967295", "4294967296", "9223372036854775807", "9223372036854775808", "18446744073709551615", "18446744073709551616", "99999999999999999999",
	// names that look like integer, hexadecimal and floating-point literals or like type / constant keywords
	"u0x1F", "s0x1F", "0xK3FFF8000000000000000", "0xH3C00", "0xL00", "0xM00", "0xR00", "1.0e+5", "-1.5", "+1.5e-3", "1.", ".5", "1e", "inf", "nan",
	"i0", "i8388608", "iN", "x86_fp80", "x86_mmx", "addrspace", "vscale", "splat", "cc", "ccc", "cc10", "blockaddress", "dso_local_equivalent", "no_cfi",
	"getelementptr", "inbounds", "entry", "unnamed_addr", "section", "align", "!dbg", "dbg", "...", "*", "<4 x i32>", "[1 x i8]",
	"世界", "\xE4\xB8", "a b", " a", "a ", "\t", "\r", "a\nb", "ret", "i32", "c", "x", "true", "null", "%a", "@a", "!a", "$a", "a:", "a=b", "a,b", "(a)", "{a}", "#0", ";a", "a;b",
	strings.Repeat("a", 300), strings.Repeat("\\", 7), strings.Repeat("\"", 3),
}

func randomStrings(rng *rand.Rand, n int) []string {
	pieces := []string{"a", "Z", "0", "9", "5C", "\\", "\\\\", "\"", " ", "$", "-", ".", "_", "\x01", "\x7f", "\x80", "\xff", "\xc3\xa9", "\\4", "\\41", "\\zz", ":", "%", "@", "!", "#", "=", ",", "(", "{", ";", "\t", "\r"}
	seen := map[string]bool{}
	var out []string
	for len(out) < n {
		var sb strings.Builder
		k := 1 + rng.Intn(6)
		if rng.Intn(10) == 0 {
			k = 10 + rng.Intn(30)
		}
		for i := 0; i < k; i++ {
			if rng.Intn(5) == 0 {
				sb.WriteByte(byte(1 + rng.Intn(255)))
			} else {
				sb.WriteString(pieces[rng.Intn(len(pieces))])
			}
		}
		s := sb.String()
		if !seen[s] {
			seen[s] = true
			out = append(out, s)
		}
	}
	return out
}

// ---------------------------------------------------------------------------

// Run is the C11 check.
func Run(tier, replay string) {
	rep := mbt.NewReport("C11", tier, "model_checking")
	rep.Rule = "distinct (position, byte string) pairs whose printed token was decoded by TLC with LLVM's lexer rules, read by llvm-as | llvm-dis and parsed back by asm; plus (position, byte string) pairs whose reference spelling was confirmed by LLVM and fed to the real parser; plus direct recordings of the internal/enc encoders"
	llvmoracle.Require()
	c := &checker{rep: rep, tier: tier, uniq: map[string]string{}, discardBy: map[string]int{}, plain: map[*position]bool{}}
	if replay != "" {
		runReplay(c, replay)
		rep.Finish()
	}
	rng := rand.New(rand.NewSource(mbt.Seed()))

	// (S) design level: LLVM's printer inverts LLVM's lexer; the model of internal/enc does not.
	t := mbt.MustTLC(mbt.TLCOpts{Spec: "LiteralsName", Cfg: "LiteralsNameAsImpl.cfg", Workers: 4, Continue: true})
	hasRT, hasCrash := false, false
	for _, v := range t.Violated {
		hasRT = hasRT || v == "RoundTrip"
		hasCrash = hasCrash || v == "NoCrash"
	}
	if !hasRT || !hasCrash {
		mbt.Infra("LiteralsNameAsImpl.cfg: expected RoundTrip and NoCrash to be violated by the as-implemented encoders, got %v", t.Violated)
	}
	rep.Extra["as_implemented_model_violates"] = t.Violated
	t.Cleanup()

	maxLen := 2
	consts := map[string]string{}
	if tier == "thorough" {
		maxLen = 3
		consts["MaxLen"] = "3"
		consts["PairLen"] = "2"
	}
	t = mbt.MustTLC(mbt.TLCOpts{Spec: "LiteralsName", Cfg: "LiteralsName.cfg", Consts: consts, Workers: 4, Timeout: 20 * time.Minute})
	if len(t.Violated) > 0 {
		mbt.Infra("reference coder of Literals.tla violates %v: specification error\n%s", t.Violated, tail(t.Output))
	}
	rep.AddTLC(t)
	rep.Extra["wall_s_tlc_reference_coder"] = t.Wall.Seconds()
	vectors := readVectors(t.Output)
	t.Cleanup()
	if len(vectors) == 0 {
		mbt.Infra("LiteralsName emitted no vectors")
	}
	rep.Extra["vectors_from_tlc"] = len(vectors)
	byKind := map[string][]gcase{}
	for _, v := range vectors {
		byKind[v.Kind] = append(byKind[v.Kind], gcase{b: str(v.Bytes), tok: str(v.Tok), ref: str(v.Ref), tag: v.Tag})
	}

	// every byte value alone and in first / middle / last position (LiteralsName!EveryBytePositions):
	// the reference coder is checked on them, the strings go to the encoders of internal/enc and to the
	// positions with an encoder of their own; thorough: the spellings are fed to the parser as well
	t = mbt.MustTLC(mbt.TLCOpts{Spec: "LiteralsName", Cfg: "LiteralsNameBytes.cfg", Workers: 4, Timeout: 10 * time.Minute})
	if len(t.Violated) > 0 {
		mbt.Infra("reference coder of Literals.tla violates %v on LiteralsNameBytes.cfg: specification error\n%s", t.Violated, tail(t.Output))
	}
	rep.AddTLC(t)
	byteVectors := readVectors(t.Output)
	t.Cleanup()
	everyByte := map[string][]string{} // kind -> byte strings
	everyByteCases := map[string][]gcase{}
	var everyByteAll []string
	{
		seenK := map[string]bool{}
		seenB := map[string]bool{}
		for _, v := range byteVectors {
			b := str(v.Bytes)
			everyByteCases[v.Kind] = append(everyByteCases[v.Kind], gcase{b: b, tok: str(v.Tok), ref: str(v.Ref), tag: v.Tag})
			if !seenK[v.Kind+"\x00"+b] {
				seenK[v.Kind+"\x00"+b] = true
				everyByte[v.Kind] = append(everyByte[v.Kind], b)
			}
			if !seenB[b] {
				seenB[b] = true
				everyByteAll = append(everyByteAll, b)
			}
		}
	}
	if len(everyByteAll) < 1000 {
		mbt.Infra("LiteralsNameBytes.cfg emitted %d byte strings", len(everyByteAll))
	}
	rep.Extra["every_byte_strings"] = len(everyByteAll)
	ownEncoder := map[string]bool{"global": true, "label": true, "comdat": true, "mdname": true, "section": true, "chararray": true}
	if tier == "thorough" {
		ownEncoder["param"], ownEncoder["type"], ownEncoder["inst"], ownEncoder["mdstring"] = true, true, true, true
	}

	// byte strings for the code -> spec direction
	bs := stringsUpTo(classReps, maxLen)
	seenExh := map[string]bool{}
	for _, b := range bs {
		seenExh[b] = true
	}
	bs = append(bs, extras...)
	nrand := 150
	if tier == "thorough" {
		nrand = 1500
	}
	bs = append(bs, randomStrings(rng, nrand)...)
	seen := map[string]bool{}
	var uniq []string
	for _, b := range bs {
		if !seen[b] {
			seen[b] = true
			uniq = append(uniq, b)
		}
	}
	rep.Extra["byte_strings"] = len(uniq)

	t0 := time.Now()
	only := os.Getenv("VERIF_C11_POS") // development aid: restrict to one position
	var ps []*position
	for _, p := range positions() {
		if only == "" || p.name == only {
			ps = append(ps, p)
		}
	}
	// a position that takes one module per string gets the short strings only in the quick tier
	// (its printer, enc.Quote, is shared with the other string positions)
	var short []string
	for _, b := range uniq {
		if len(b) <= 1 || !seenExh[b] {
			short = append(short, b)
		}
	}
	// quick: all strings of length 3 as well in the three positions with an encoder of their own
	// and many users (global, parameter, label)
	var long []string
	if tier == "quick" {
		long = append(append(long, uniq...), stringsOfLen(classReps[:len(classReps)-1], 3)...)
	}
	// thorough: the light positions (they share their printer with fully enumerated ones) get the
	// strings of length <= 2, the extras and the random strings
	var medium []string
	for _, b := range uniq {
		if len(b) <= 2 || !seenExh[b] {
			medium = append(medium, b)
		}
	}
	withBytes := func(p *position, l []string) []string {
		if !ownEncoder[p.name] {
			return l
		}
		out := append([]string{}, l...)
		for _, b := range everyByte[p.kind] {
			if !seen[b] {
				out = append(out, b)
			}
		}
		return out
	}
	c.codeToSpec(ps, func(p *position) []string {
		if tier == "quick" {
			if p.single || p.light {
				return short
			}
			if p.name == "global" || p.name == "param" || p.name == "label" {
				return withBytes(p, long)
			}
		} else if p.light {
			return medium
		}
		return withBytes(p, uniq)
	})
	rep.Extra["wall_s_code_to_spec"] = time.Since(t0).Seconds()
	t0 = time.Now()
	for _, p := range ps {
		t1 := time.Now()
		cases := byKind[p.kind]
		if (p.single || p.light) && tier == "quick" {
			cases = nil
			for _, g := range byKind[p.kind] {
				if len(g.b) <= 1 || !seenExh[g.b] {
					cases = append(cases, g)
				}
			}
		} else if p.light {
			cases = nil
			for _, g := range byKind[p.kind] {
				if len(g.b) <= 2 || !seenExh[g.b] {
					cases = append(cases, g)
				}
			}
		}
		if tier == "thorough" && ownEncoder[p.name] {
			for _, g := range everyByteCases[p.kind] {
				if !seen[g.b] {
					cases = append(cases, g)
				}
			}
		}
		c.specToCode(p, cases)
		rep.Extra["wall_s_spec_to_code_"+p.name] = time.Since(t1).Seconds()
	}
	rep.Extra["wall_s_spec_to_code"] = time.Since(t0).Seconds()
	encStrings := append([]string{""}, uniq...)
	for _, b := range everyByteAll {
		if !seen[b] {
			encStrings = append(encStrings, b)
		}
	}
	c.encoders(encStrings)
	c.idsStayIDs()
	t0 = time.Now()
	c.histories(nil)
	rep.Extra["wall_s_histories"] = time.Since(t0).Seconds()

	total := rep.Evaluations
	rep.Extra["positions"] = len(positions())
	rep.Extra["positions_debug_info_fields_skipped"] = skippedPositions
	rep.Extra["records_discarded_spec_llvm_disagreement"] = c.discards
	rep.Extra["records_discarded_by_position"] = c.discardBy
	rep.Extra["records_llvm_as_accepted_but_llvm_dis_crashed"] = c.disCrash
	if total > 0 && c.discards*50 > total {
		mbt.Infra("%d of %d records discarded because the spec and LLVM disagree (> 2%%): the specification is wrong (%v)", c.discards, total, c.discardBy)
	}
	rep.Sample(map[string]interface{}{"dir": "code->spec", "position": "global", "bytes": "a b", "printed": verifshim.GlobalName("a b")})
	rep.Sample(map[string]interface{}{"dir": "code->spec", "position": "mdname", "bytes": "1 a", "printed": verifshim.MetadataName("1 a")})
	if len(vectors) > 3 {
		for _, v := range vectors[:2] {
			rep.Sample(map[string]interface{}{"dir": "spec->code", "kind": v.Kind, "bytes": str(v.Bytes), "spelling": v.Tag, "token": str(v.Tok)})
		}
	}
	rep.Exhaustive = false
	rep.Explanation = fmt.Sprintf("all byte strings of length <= %d over %d class representatives in every position, plus escape-like, numeric and random strings", maxLen, len(classReps))
	rep.Assumptions = []string{
		"Literals!DecodeToken transcribes LLVM 14's LLLexer; every record on which llvm-as | llvm-dis disagrees with it is discarded and counted (exit 2 above 2 %)",
		"tokens are located in the printed text by the surrounding fixed text of each position (harness/props/c11/positions.go)",
		"NUL bytes only in character arrays and metadata strings; empty names and strings are not enumerated (LLVM treats them as absent), except enc.MetadataName(\"\") which must not crash",
	}
	rep.Finish()
}

func runReplay(c *checker, path string) {
	type rf struct {
		Failures []struct {
			Case map[string]interface{} `json:"case"`
		} `json:"failures"`
	}
	var one rf
	if e := mbt.ReadJSON(path, &one); e != nil {
		mbt.Infra("replay %s: %v", path, e)
	}
	byPos := map[string]*position{}
	for _, p := range positions() {
		byPos[p.name] = p
	}
	want := map[*position][]string{}
	var ps []*position
	var encs []string
	ids := false
	var hists []histVec
	for _, f := range one.Failures {
		hx, _ := f.Case["bytes"].(string)
		raw, _ := hex.DecodeString(hx)
		b := string(raw)
		switch f.Case["dir"] {
		case "T", "G":
			pn, _ := f.Case["pos"].(string)
			p := byPos[pn]
			if p == nil {
				continue
			}
			if _, ok := want[p]; !ok {
				ps = append(ps, p)
			}
			want[p] = append(want[p], b)
		case "enc":
			encs = append(encs, b)
		case "hist":
			if v, ok := histFromCase(f.Case); ok {
				hists = append(hists, v)
			}
		case "ids":
			ids = true
		}
	}
	if len(ps) > 0 {
		// code -> spec
		c.codeToSpec(ps, func(p *position) []string { return want[p] })
		// spec -> code: the spellings of the replayed strings come from the generator cfg of the quick tier
		t := mbt.MustTLC(mbt.TLCOpts{Spec: "LiteralsName", Cfg: "LiteralsName.cfg", Workers: 4, Consts: map[string]string{"PairLen": "0"}})
		vs := readVectors(t.Output)
		t.Cleanup()
		for _, p := range ps {
			in := map[string]bool{}
			for _, b := range want[p] {
				in[b] = true
			}
			var cases []gcase
			for _, v := range vs {
				if v.Kind == p.kind && in[str(v.Bytes)] {
					cases = append(cases, gcase{b: str(v.Bytes), tok: str(v.Tok), ref: str(v.Ref), tag: v.Tag})
				}
			}
			c.specToCode(p, cases)
		}
	}
	if len(encs) > 0 {
		c.encoders(encs)
	}
	if ids {
		c.idsStayIDs()
	}
	if len(hists) > 0 {
		// the reference tokens of the spec -> code half are not part of a case: the code -> spec half is replayed
		c.histories(hists)
	}
}
