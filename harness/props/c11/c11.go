// Package c11 checks property C11 (not built yet).
package c11

import (
	"verif/harness/mbt"
	"verif/harness/props/reg"
)

func init() { reg.Register("C11", Run) }

// Run is the C11 check.
func Run(tier, replay string) { mbt.Infra("check C11 is not built yet") }
