// Package c17 checks property C17: metadata IDs are unique (explicit IDs kept,
// unassigned definitions receive the smallest unused numbers, references print
// the ID of the node they point to) and, in a parsed module, every reference to
// !N is the node object of definition !N, distinctness and inline-versus-
// numbered placement are preserved and repeated named metadata are merged in
// textual order.
//
// (S) spec/Metadata.tla (ID assignment laws) and spec/MetadataGraph.tla (graph
// patterns and what the parser must make of them) are checked by TLC; (G) both
// emit vectors that are replayed into the ir API and into asm.ParseString;
// (T) what the real code did is recorded and judged by spec/MetadataTrace.tla.
// LLVM 14 (llvm-as, llvm-dis) arbitrates validity and meaning.
package c17

import (
	"encoding/json"
	"fmt"
	"math/rand"
	"os"
	"regexp"
	"sort"
	"strconv"
	"strings"
	"sync"
	"time"

	"github.com/llir/llvm/ir"
	"github.com/llir/llvm/ir/metadata"

	"verif/harness/llvmoracle"
	"verif/harness/mbt"
	"verif/harness/props/reg"
)

func init() { reg.Register("C17", Run) }

// --- IR side ---------------------------------------------------------------------

type irWant struct {
	OK     bool      `json:"ok"`
	IDs    []int64   `json:"ids"`
	Tokens [][]int64 `json:"tokens"`
}

type irVector struct {
	IDs   []int64 `json:"ids"`
	Shape int     `json:"shape"`
	Refs  [][]int `json:"refs"`
	Want  irWant  `json:"want"`
	// history vectors (MetadataHist.tla): insert position, operands and outcome of the second print
	Ins   *int    `json:"ins,omitempty"`
	Del   int     `json:"del,omitempty"` // > 0: that definition (from 1) is removed after the first print
	Refs2 [][]int `json:"refs2,omitempty"`
	Want2 *irWant `json:"want2,omitempty"`
	// vectors of MetadataWide.tla: IDs are model IDs, Wide is the table of the wide ones (scale.go)
	Wide []wideEntry `json:"wide,omitempty"`
}

type irRow struct {
	IDs   []int64 `json:"ids"`
	Refs  [][]int `json:"refs"`
	Got   irWant  `json:"got"`
	Ins   *int    `json:"ins,omitempty"`
	Del   int     `json:"del,omitempty"`
	Refs2 [][]int `json:"refs2,omitempty"`
	Got2  *irWant `json:"got2,omitempty"`
	raw   irWant  // what was printed, concrete IDs (for messages)
}

var reDefLine = regexp.MustCompile(`(?m)^!(\d+) = (distinct )?(.*)$`)
var reRefTok = regexp.MustCompile(`!(\d+)`)
var reQuoted = regexp.MustCompile(`"(?:[^"\\]|\\.)*"`)

// defTokens reads the definition lines of a printed module: per line the
// definition ID followed by every !N reference token, left to right.
func defTokens(text string) (ids []int64, tokens [][]int64, distinct []bool) {
	tokens = [][]int64{}
	ids = []int64{}
	for _, m := range reDefLine.FindAllStringSubmatch(text, -1) {
		id, _ := strconv.ParseInt(m[1], 10, 64)
		row := []int64{id}
		rest := reQuoted.ReplaceAllString(m[3], `""`)
		for _, r := range reRefTok.FindAllStringSubmatch(rest, -1) {
			v, _ := strconv.ParseInt(r[1], 10, 64)
			row = append(row, v)
		}
		ids = append(ids, id)
		tokens = append(tokens, row)
		distinct = append(distinct, m[2] != "")
	}
	return
}

// buildIR builds the module of a vector through the ir API.
// Definitions without operands at an odd position are specialised nodes of
// several kinds, the others tuples: AssignMetadataIDs must treat all kinds alike.
func buildIR(ids []int64, refs [][]int) (*ir.Module, []metadata.Definition) {
	m := ir.NewModule()
	ts := make([]metadata.Definition, len(ids))
	for i := range ids {
		if len(refs[i]) == 0 && i%2 == 1 {
			// leaf definitions referenced from tuple fields: a different specialised kind per shape
			switch (i + len(ids)) % 4 {
			case 0:
				ts[i] = &metadata.DIBasicType{Name: "t"}
			case 1:
				ts[i] = &metadata.DIExpression{}
			case 2:
				ts[i] = &metadata.DIFile{Filename: "a.c", Directory: "/d"}
			default:
				ts[i] = &metadata.DIEnumerator{Name: "e", Value: 1}
			}
		} else {
			ts[i] = &metadata.Tuple{}
		}
		ts[i].SetID(ids[i])
	}
	for i := range ids {
		if t, ok := ts[i].(*metadata.Tuple); ok {
			for _, j := range refs[i] {
				t.Fields = append(t.Fields, ts[j-1])
			}
		}
		m.MetadataDefs = append(m.MetadataDefs, ts[i])
	}
	return m, ts
}

// evalIR runs the vectors in child processes and returns the recorded rows, the printed
// texts and, per vector, a description of anything wrong that the laws do not cover.
func evalIR(vectors []irVector) (rows []irRow, texts []string, extras []string, crashed []*jobResult) {
	jobs := make([]job, len(vectors))
	for i, v := range vectors {
		jobs[i] = job{Kind: "ir", IDs: concreteAll(v.IDs), Refs: v.Refs, Ins: -1}
		if v.Ins != nil {
			jobs[i].Ins = *v.Ins
			jobs[i].Del = v.Del
		}
	}
	res := runJobs(jobs)
	rows = make([]irRow, len(vectors))
	texts = make([]string, len(vectors))
	extras = make([]string, len(vectors))
	crashed = make([]*jobResult, len(vectors))
	for i, v := range vectors {
		r := res[i]
		rows[i] = irRow{IDs: v.IDs, Refs: normRefs(v.Refs, len(v.IDs)), Got: modelWant(r.Got), raw: r.Got}
		texts[i] = r.Text
		extras[i] = r.Extra
		if v.Ins != nil {
			rows[i].Ins = v.Ins
			rows[i].Del = v.Del
			n2 := len(v.IDs) + 1
			if v.Del > 0 {
				n2--
			}
			rows[i].Refs2 = normRefs(v.Refs2, n2)
			g2 := modelWant(r.Got2)
			rows[i].Got2 = &g2
			if r.Extra == "" && r.Extra2 != "" {
				extras[i] = "after " + delWords(v) + "inserting an unnumbered definition and printing again: " + r.Extra2
			}
			if r.Text2 != "" {
				texts[i] = r.Text2
			}
		}
		if r.Crashed != "" {
			rr := r
			crashed[i] = &rr
		}
	}
	return
}

// --- parser side -------------------------------------------------------------------

// op is an operand in the shape of spec/MetadataGraph.tla.
type op map[string]interface{}

type patText struct {
	Defs []struct {
		ID       int64 `json:"id"`
		Distinct bool  `json:"distinct"`
		Ops      []op  `json:"ops"`
	} `json:"defs"`
	Named []struct {
		Name  string `json:"name"`
		Nodes []op   `json:"nodes"`
		Pos   string `json:"pos"`
	} `json:"named"`
	Sites obsSites `json:"sites"`
}

type pattern struct {
	Pat  map[string]interface{} `json:"pat"`
	Text patText                `json:"text"`
	Want map[string]interface{} `json:"want"`
}

type obsDef struct {
	ID       int64  `json:"id"`
	Distinct bool   `json:"distinct"`
	Ops      []op   `json:"ops"`
	Kind     string `json:"kind"`
}
type obsNamed struct {
	Name  string `json:"name"`
	Nodes []op   `json:"nodes"`
}

// att is one attachment: its name and its node.
type att struct {
	Name string `json:"name"`
	Node op     `json:"node"`
}

// obsSites: per attachment position the attachments in order (global = first global, decl =
// first declaration that is not an intrinsic, func = first definition, inst = its first
// instruction, term = the terminator of its last block), and the metadata call arguments.
type obsSites struct {
	Global []att `json:"global"`
	Decl   []att `json:"decl"`
	Func   []att `json:"func"`
	Inst   []att `json:"inst"`
	Term   []att `json:"term"`
	Args   []op  `json:"args"`
}
type observation struct {
	Defs  []obsDef   `json:"defs"`
	Named []obsNamed `json:"named"`
	Sites obsSites   `json:"sites"`
}

type printed struct {
	IDs    []int64   `json:"ids"`
	Tokens [][]int64 `json:"tokens"`
}

type parseRow struct {
	Src     string                 `json:"src"`
	Pat     map[string]interface{} `json:"pat,omitempty"`
	Want    interface{}            `json:"want"`
	Obs     observation            `json:"obs"`
	Obs2    observation            `json:"obs2"` // the printed module parsed again
	Printed printed                `json:"printed"`
	// the fields of the node under test may be written in any order (Modules.tla rows): want and obs list the
	// operands of a specialised node sorted by field, and the printed token order is not prescribed
	Unordered bool `json:"unordered,omitempty"`
	// not part of the judged record
	rawPrinted printed // concrete IDs, for messages
	freeSites  bool    // the attachment sites of this text are not prescribed: only identity is judged there
	text       string
	name       string
	kind       map[int64]string
}

// renderOp renders an operand; zr is the run of leading zeros references are spelled with.
func renderOp(o op, zr string) string {
	switch o["k"] {
	case "ref":
		return fmt.Sprintf("!%s%d", zr, concrete(int64(o["id"].(float64))))
	case "null":
		return "null"
	case "str":
		return `!"` + o["s"].(string) + `"`
	case "tuple":
		var parts []string
		if ops, ok := o["ops"].([]interface{}); ok {
			for _, x := range ops {
				parts = append(parts, renderOp(op(x.(map[string]interface{})), zr))
			}
		}
		return "!{" + strings.Join(parts, ", ") + "}"
	}
	return "?"
}

// render turns the abstract text of a pattern into LLVM assembly. sp is the
// spelling mode of MetadataGraph.tla: an ID is its decimal value however many
// leading zeros it is written with (1: definitions !0N; 2: references !00N;
// 3: definitions !00N, references !0N).
func render(t patText, sp int) string {
	zd, zr := "", ""
	switch sp {
	case 1:
		zd = "0"
	case 2:
		zr = "00"
	case 3:
		zd, zr = "00", "0"
	}
	var sb strings.Builder
	atts := func(as []att, sep string) string {
		var x strings.Builder
		for _, a := range as {
			fmt.Fprintf(&x, "%s!%s %s", sep, a.Name, renderOp(a.Node, zr))
		}
		return x.String()
	}
	fmt.Fprintf(&sb, "@g = global i32 0%s\n\n", atts(t.Sites.Global, ", "))
	fmt.Fprintf(&sb, "declare%s void @d()\n\n", atts(t.Sites.Decl, " "))
	sb.WriteString("declare i1 @llvm.type.test(i8*, metadata)\n\n")
	fmt.Fprintf(&sb, "define void @f()%s {\n", atts(t.Sites.Func, " "))
	fmt.Fprintf(&sb, "  %%1 = add i32 1, 2%s\n", atts(t.Sites.Inst, ", "))
	for i, a := range t.Sites.Args {
		fmt.Fprintf(&sb, "  %%%d = call i1 @llvm.type.test(i8* null, metadata %s)\n", i+2, renderOp(a, zr))
	}
	fmt.Fprintf(&sb, "  ret void%s\n}\n\n", atts(t.Sites.Term, ", "))
	named := func(pos string) {
		for _, n := range t.Named {
			if n.Pos != pos {
				continue
			}
			var parts []string
			for _, x := range n.Nodes {
				parts = append(parts, renderOp(x, zr))
			}
			fmt.Fprintf(&sb, "!%s = !{%s}\n", n.Name, strings.Join(parts, ", "))
		}
	}
	named("pre")
	for _, d := range t.Defs {
		var parts []string
		for _, x := range d.Ops {
			parts = append(parts, renderOp(x, zr))
		}
		dist := ""
		if d.Distinct {
			dist = "distinct "
		}
		fmt.Fprintf(&sb, "!%s%d = %s!{%s}\n", zd, concrete(d.ID), dist, strings.Join(parts, ", "))
	}
	named("post")
	return sb.String()
}

// Run is the C17 check.
func Run(tier, replay string) {
	if os.Getenv(childEnv) != "" {
		childMain()
	}
	rep := mbt.NewReport("C17", tier, "model_checking")
	rep.Rule = "definition lists (IDs in {-1,0..MaxId}, x graph shape) built through the ir API and printed; module texts (TLC-generated metadata graph patterns and the 28 specialised node kinds with subsets of fields) parsed, walked by reflection and printed; every record judged by MetadataTrace"
	rep.Assumptions = []string{
		"llvm-as/llvm-dis 14 decide validity and meaning of every text used for a verdict",
		"pointer identity is observed through reflection over the exported fields of the parsed module",
	}
	llvmoracle.Require()
	rng := rand.New(rand.NewSource(mbt.Seed()))
	if replay != "" {
		runReplay(rep, replay)
		rep.Finish()
	}

	phases := map[string]float64{}
	tPhase := time.Now()
	lap := func(name string) { phases[name] = time.Since(tPhase).Seconds(); tPhase = time.Now() }
	// the two slow generators run beside the others
	denseLens, denseExplicit := "{1100}", "{0, 1024}"
	maxN, bigPows := "3", "{7, 8, 10, 12, 15, 16, 20, 24, 30, 31, 32}"
	if tier == "thorough" {
		denseLens, denseExplicit = "{1100, 2100}", "{0, 256, 1024, 2048}"
		var ks []string
		for k := 7; k <= 32; k++ {
			ks = append(ks, strconv.Itoa(k))
		}
		maxN, bigPows = "4", "{"+strings.Join(ks, ", ")+"}"
	}
	wideCh, graphCh := make(chan *mbt.TLCResult, 1), make(chan *mbt.TLCResult, 1)
	go func() {
		wideCh <- mbt.MustTLC(mbt.TLCOpts{Spec: "MetadataWide", Cfg: "MetadataWide.cfg", Workers: 1, Timeout: 10 * time.Minute,
			Consts: map[string]string{"Emit": "TRUE", "DenseLens": denseLens, "DenseExplicit": denseExplicit}})
	}()
	go func() {
		graphCh <- mbt.MustTLC(mbt.TLCOpts{Spec: "MetadataGraph", Cfg: "MetadataGraph.cfg", Workers: 1, Timeout: 15 * time.Minute,
			Consts: map[string]string{"Emit": "TRUE", "MaxN": maxN, "BigPows": bigPows}})
	}()
	// (S) the laws hold for the ID assignment as written; the wrong variants are rejected
	maxDefs, maxID := "4", "4"
	if tier == "thorough" {
		maxDefs = "5"
	}
	t := mbt.MustTLC(mbt.TLCOpts{Spec: "Metadata", Cfg: "Metadata.cfg", Workers: 1, Timeout: 10 * time.Minute,
		Consts: map[string]string{"Emit": "TRUE", "MaxDefs": maxDefs, "MaxId": maxID}})
	if len(t.Violated) > 0 {
		mbt.Infra("Metadata.tla: the ID assignment as written violates %v: specification error", t.Violated)
	}
	rep.AddTLC(t)
	vectors, err := mbt.ReadNDJSON[irVector](t.Dir + "/md_vectors.ndjson")
	if err != nil || len(vectors) == 0 {
		mbt.Infra("no vectors from Metadata.tla: %v", err)
	}
	t.Cleanup()
	for _, variant := range []string{`"from-zero"`, `"count-up"`, `"no-dup-check"`} {
		tv := mbt.MustTLC(mbt.TLCOpts{Spec: "Metadata", Cfg: "MetadataVacuity.cfg", Workers: 4, Consts: map[string]string{"Variant": variant}})
		if len(tv.Violated) == 0 {
			mbt.Infra("vacuity guard: the laws of Metadata.tla accept the wrong variant %s", variant)
		}
		tv.Cleanup()
	}
	// histories: print, insert an unnumbered definition in front / in the middle / at the end, print again
	histDefs, histID := "3", "3"
	if tier == "thorough" {
		histDefs, histID = "4", "3"
	}
	th := mbt.MustTLC(mbt.TLCOpts{Spec: "MetadataHist", Cfg: "MetadataHist.cfg", Workers: 1, Timeout: 10 * time.Minute,
		Consts: map[string]string{"Emit": "TRUE", "MaxDefs": histDefs, "MaxId": histID}})
	if len(th.Violated) > 0 {
		mbt.Infra("MetadataHist.tla violates %v: specification error", th.Violated)
	}
	rep.AddTLC(th)
	hist, err := mbt.ReadNDJSON[irVector](th.Dir + "/md_hist.ndjson")
	if err != nil || len(hist) == 0 {
		mbt.Infra("no histories from MetadataHist.tla: %v", err)
	}
	th.Cleanup()
	nPlain := len(vectors)
	vectors = append(vectors, hist...)
	// large, boundary and many IDs (MetadataWide.tla; model IDs, the scale comes with the vectors)
	tw := <-wideCh
	if len(tw.Violated) > 0 {
		mbt.Infra("MetadataWide.tla violates %v: specification error", tw.Violated)
	}
	rep.AddTLC(tw)
	wide, err := mbt.ReadNDJSON[irVector](tw.Dir + "/md_vectors.ndjson")
	if err != nil || len(wide) == 0 || len(wide[0].Wide) == 0 {
		mbt.Infra("no vectors / no ID scale from MetadataWide.tla: %v", err)
	}
	tw.Cleanup()
	setScale(wide[0].Wide)
	for i := range wide {
		wide[i].Wide = nil
	}
	nWideFrom := len(vectors)
	vectors = append(vectors, wide...)
	tg := <-graphCh
	if len(tg.Violated) > 0 {
		mbt.Infra("MetadataGraph.tla violates %v: specification error", tg.Violated)
	}
	rep.AddTLC(tg)
	patterns, err := mbt.ReadNDJSON[pattern](tg.Dir + "/md_patterns.ndjson")
	if err != nil || len(patterns) == 0 {
		mbt.Infra("no patterns from MetadataGraph.tla: %v", err)
	}
	tg.Cleanup()

	lap("tlc_generators")
	// (G) IR side: every vector is built and printed in a child process
	irRows, irText, irExtra, irCrashed := evalIR(vectors)
	lap("ir_children")
	llvmEvery := 2
	if tier != "thorough" {
		llvmEvery = 5
	}
	off := rng.Intn(llvmEvery)
	var mu sync.Mutex
	llvmChecked := 0
	llvmoracle.Parallel(len(vectors), func(i int) {
		want := vectors[i].Want.OK && (vectors[i].Want2 == nil || vectors[i].Want2.OK)
		got := irRows[i].Got.OK && (irRows[i].Got2 == nil || irRows[i].Got2.OK)
		// (every vector with large / many IDs goes to LLVM: it decides that such IDs are valid)
		if got && want && irExtra[i] == "" && irCrashed[i] == nil && ((i+off)%llvmEvery == 0 || i >= nWideFrom) {
			ok, diag := llvmoracle.Accepts(irText[i])
			mu.Lock()
			llvmChecked++
			if !ok {
				irExtra[i] = "llvm-as rejects the printed module: " + mbt.Truncate(diag, 200)
			}
			mu.Unlock()
		}
	})
	var keptRows []irRow
	var keptVecs []irVector
	for i, v := range vectors {
		rep.Count(fmt.Sprintf("ir:%s/%d/%v", showIDs(v.IDs), v.Shape, insOf(v)), len(v.IDs) >= 2 || v.IDs[0] >= largeID)
		caseOf := map[string]interface{}{"kind": "ir", "ids": v.IDs, "refs": v.Refs, "shape": v.Shape, "wide": scaleTable}
		if v.Ins != nil {
			caseOf["ins"], caseOf["refs2"] = *v.Ins, v.Refs2
			if v.Del > 0 {
				caseOf["del"] = v.Del
			}
		}
		if c := irCrashed[i]; c != nil {
			if c.Phase != "skipped" {
				rep.Fail(mbt.Failure{Signature: "C17|print|crash|ir|" + idsClass(v.IDs) + histTag(v), What: fmt.Sprintf("ids %s shape %d%s: the process dies while printing the module (%s): a definition that was left unnumbered is printed through its own operands without end", showIDs(concreteAll(v.IDs)), v.Shape, histWords(v), c.Crashed), Case: caseOf})
			}
			continue // nothing was recorded for this vector
		}
		if irExtra[i] != "" {
			rep.Fail(mbt.Failure{Signature: "C17|ir|" + extraClass(irExtra[i]) + "|" + idsClass(v.IDs) + histTag(v), What: fmt.Sprintf("ids %s shape %d%s: %s", showIDs(concreteAll(v.IDs)), v.Shape, histWords(v), irExtra[i]), Case: caseOf})
		}
		keptRows = append(keptRows, irRows[i])
		keptVecs = append(keptVecs, v)
	}
	irRows, vectors = keptRows, keptVecs
	if len(irRows) == 0 {
		mbt.Infra("no definition list could be evaluated")
	}
	rep.Sample(map[string]interface{}{"kind": "ir", "ids": vectors[len(vectors)/3].IDs, "refs": vectors[len(vectors)/3].Refs, "want": vectors[len(vectors)/3].Want, "got": irRows[len(vectors)/3].Got})
	rep.Extra["ir_vectors"] = nPlain
	rep.Extra["ir_history_vectors"] = len(hist)
	rep.Extra["ir_large_id_vectors"] = len(wide)
	rep.Extra["ir_llvm_checked"] = llvmChecked

	lap("ir_llvm")
	// (G) parser side: TLC-generated graph patterns
	rows := make([]*parseRow, 0, len(patterns)+200)
	for _, p := range patterns {
		rows = append(rows, &parseRow{Src: "graph", Pat: p.Pat, Want: p.Want, text: render(p.Text, spOf(p.Pat)), name: patName(p.Pat)})
	}
	// the specialised node kinds
	diRows, diInfo := specialisedRows(tier, rng)
	rows = append(rows, diRows...)
	// the debug-info families of Modules.tla: every field of every node kind alone, the listed pairs, all optional
	// fields at once, in table order, reversed and inline -- the spec's construct table is the list of reference
	// fields (law `field`: each reference sits in the struct field named like its keyword)
	mrows := modulesDIRows(rep)
	rows = append(rows, mrows...)
	rep.Extra["di_modules_tla_rows"] = len(mrows)
	for k, v := range diInfo {
		rep.Extra[k] = v
	}
	// llvm-as validates every text; the llvm-as|llvm-dis comparison of input and printed
	// output (4 more process spawns) is done for a seeded share of them
	canonEvery := 3
	if tier != "thorough" {
		canonEvery = 6
	}
	judged := processParseRows(rep, rows, canonEvery, rng.Intn(canonEvery))
	rep.Sample(map[string]interface{}{"kind": "graph", "pat": patterns[len(patterns)/3].Pat, "text": render(patterns[len(patterns)/3].Text, spOf(patterns[len(patterns)/3].Pat))})

	negatives(rep)
	lap("parse_rows")
	isoRows = isolation(rep, judged)
	lap("isolation")
	// parse -> edit -> observe -> print -> parse histories (MetadataEdit.tla)
	editHistories(rep, tier)
	editAllRows(rep, judged)
	lap("edit_histories")

	// (T) everything recorded is judged by MetadataTrace
	judge(rep, irRows, vectors, judged)
	lap("tlc_trace")
	rep.Extra["phase_wall_s"] = phases
	rep.Exhaustive = false
	rep.Finish()
}

func spOf(p map[string]interface{}) int {
	if f, ok := p["sp"].(float64); ok {
		return int(f)
	}
	return 0
}

func insOf(v irVector) int {
	if v.Ins == nil {
		return -1
	}
	return *v.Ins
}

func histTag(v irVector) string {
	if v.Ins == nil {
		return ""
	}
	if v.Del > 0 {
		return "|print-remove-insert-print"
	}
	return "|print-insert-print"
}

func delWords(v irVector) string {
	if v.Del > 0 {
		return fmt.Sprintf("removing definition %d and ", v.Del-1)
	}
	return ""
}

func histWords(v irVector) string {
	if v.Ins == nil {
		return ""
	}
	if v.Del > 0 {
		return fmt.Sprintf(", printed, definition %d removed, unnumbered definition inserted after position %d, printed again", v.Del-1, *v.Ins)
	}
	return fmt.Sprintf(", printed, unnumbered definition inserted after position %d, printed again", *v.Ins)
}

// isoRow is one row of md_iso_rec.ndjson (see spec/MetadataTrace.tla).
type isoRow struct {
	A            string   `json:"a"`
	B            string   `json:"b"`
	SharedSame   []string `json:"shared_same"`
	SharedDiff   []string `json:"shared_diff"`
	BChanged     bool     `json:"b_changed"`
	FreshDiffers bool     `json:"fresh_differs"`
	Hoisted      int      `json:"hoisted"`
	changed      string
	fresh        string
	textA, textB string
}

func sharedSig(r isoRow) string {
	set := map[string]bool{}
	for _, t := range append(append([]string{}, r.SharedSame...), r.SharedDiff...) {
		set[t] = true
	}
	var ts []string
	for t := range set {
		ts = append(ts, t)
	}
	sort.Strings(ts)
	return strings.Join(ts, ",")
}

// isolation pairs every judged text with its successor: two parses of A, one of B, in one process.
func isolation(rep *mbt.Report, rows []*parseRow) []isoRow {
	if len(rows) < 2 {
		return []isoRow{}
	}
	jobs := make([]job, len(rows))
	for i, r := range rows {
		jobs[i] = job{Kind: "iso", Text: r.text, Text2: rows[(i+1)%len(rows)].text, Ins: -1}
	}
	out := []isoRow{}
	hoisted := 0
	for i, jr := range runJobs(jobs) {
		a, b := rows[i], rows[(i+1)%len(rows)]
		rep.Count("iso:"+a.name+"|"+b.name, true)
		if jr.Crashed != "" {
			if jr.Phase != "skipped" {
				rep.Fail(mbt.Failure{Signature: "C17|isolation|crash|" + a.Src + a.kindTag(), What: fmt.Sprintf("%s + %s: the process dies in phase %s: %s", a.name, b.name, jr.Phase, jr.Crashed),
					Case: map[string]interface{}{"kind": "iso", "a": a.name, "b": b.name, "text": a.text, "text2": b.text}})
			}
			continue
		}
		if jr.IsoSkipped != "" {
			continue
		}
		hoisted += jr.Hoisted
		row := isoRow{A: a.name, B: b.name, SharedSame: jr.SharedSame, SharedDiff: jr.SharedDiff, BChanged: jr.BChanged != "", FreshDiffers: jr.FreshDiffers != "",
			Hoisted: jr.Hoisted, changed: jr.BChanged, fresh: jr.FreshDiffers, textA: a.text, textB: b.text}
		if row.SharedSame == nil {
			row.SharedSame = []string{}
		}
		if row.SharedDiff == nil {
			row.SharedDiff = []string{}
		}
		out = append(out, row)
	}
	rep.Extra["isolation_pairs"] = len(out)
	rep.Extra["isolation_inline_nodes_hoisted"] = hoisted
	return out
}

func patName(p map[string]interface{}) string {
	perm := fmt.Sprint(p["perm"])
	if l, ok := p["perm"].([]interface{}); ok && len(l) > 8 {
		perm = fmt.Sprintf("[%v %v .. %v]", l[0], l[1], l[len(l)-1])
	}
	return fmt.Sprintf("graph(n=%v shape=%v sparse=%v ids-around-2^=%v perm=%v distinct-mode=%v inline-mode=%v named-mode=%v spelling=%v attachments=%v)", p["n"], p["shape"], p["sparse"], p["big"], perm, p["dm"], p["inl"], p["nv"], p["sp"], p["ac"])
}

func idsClass(ids []int64) string {
	has := map[int64]bool{}
	dup, unassigned, explicit := false, false, false
	for _, v := range ids {
		if v == -1 {
			unassigned = true
			continue
		}
		explicit = true
		if has[v] {
			dup = true
		}
		has[v] = true
	}
	var parts []string
	if dup {
		parts = append(parts, "duplicate-explicit")
	} else if explicit {
		parts = append(parts, "explicit")
	}
	if unassigned {
		parts = append(parts, "unassigned")
	}
	// the vectors of MetadataWide.tla: an explicit ID far above the list length / a long list
	for v := range has {
		if v >= largeID && v > int64(len(ids)) {
			parts = append(parts, "large-id")
			break
		}
	}
	if len(ids) >= largeID {
		parts = append(parts, "many-definitions")
	}
	return strings.Join(parts, "+")
}

// showIDs prints an ID list; long lists are abbreviated to their ends and their explicit IDs.
func showIDs(ids []int64) string {
	if len(ids) <= 12 {
		return fmt.Sprint(ids)
	}
	var expl []string
	for i, v := range ids {
		if v != -1 && len(expl) < 6 && (int64(i) != v || i < 2 || i >= len(ids)-2) {
			expl = append(expl, fmt.Sprintf("[%d]=%d", i, v))
		}
	}
	return fmt.Sprintf("(%d definitions: %v ... %v; %s)", len(ids), ids[:3], ids[len(ids)-2:], strings.Join(expl, " "))
}

func showRefs(refs [][]int) string {
	if len(refs) > 12 {
		return ""
	}
	return fmt.Sprintf(" with operands %v", refs)
}

// showWant prints an outcome with concrete IDs; for long lists only the places where the
// definition ID differs from its position are shown (mod: the same outcome in model IDs).
func showWant(w, mod irWant) string {
	if len(w.IDs) <= 12 {
		return fmt.Sprintf("{ok:%v ids:%v tokens:%v}", w.OK, w.IDs, w.Tokens)
	}
	var odd []string
	for i, v := range w.IDs {
		if int64(i) != v && len(odd) < 8 {
			odd = append(odd, fmt.Sprintf("definition %d printed as !%d", i, v))
		}
	}
	return fmt.Sprintf("{ok:%v %d definitions !%d..!%d; %s}", w.OK, len(w.IDs), w.IDs[0], w.IDs[len(w.IDs)-1], strings.Join(odd, ", "))
}

func extraClass(s string) string {
	switch {
	case strings.Contains(s, "llvm-as rejects"):
		return "llvm-rejects-printed"
	case strings.Contains(s, "still unnumbered"):
		return "left-unnumbered"
	case strings.Contains(s, "printing a second time"):
		return "not-idempotent"
	default:
		return "node-id-differs-from-printed"
	}
}

// processParseRows validates each text with llvm-as, parses it with the real
// parser, records the observation and returns the rows that can be judged.
func processParseRows(rep *mbt.Report, rows []*parseRow, canonEvery, off int) []*parseRow {
	type res struct {
		discard string
		fail    *mbt.Failure
		canonIn string
		doCanon bool
	}
	out := make([]res, len(rows))
	caseOf := func(r *parseRow) map[string]interface{} {
		return map[string]interface{}{"kind": "parse", "src": r.Src, "name": r.name, "text": r.text, "want": r.Want, "pat": r.Pat, "wide": scaleTable}
	}
	// 1. LLVM decides which texts are valid (and, for a share, what they mean)
	llvmoracle.Parallel(len(rows), func(i int) {
		r := rows[i]
		ok, diag := false, ""
		// (what LLVM reads in the field VALUES of the Modules.tla rows is C01's question, with its findings; here: references)
		out[i].doCanon = (i+off)%canonEvery == 0 && !rows[i].Unordered
		if out[i].doCanon {
			out[i].canonIn, ok, diag = llvmoracle.Canon(r.text)
		} else {
			ok, diag = llvmoracle.Accepts(r.text)
		}
		if !ok {
			out[i].discard = diag
			if out[i].discard == "" {
				out[i].discard = "rejected"
			}
		}
	})
	// 2. the real parser and printer, in child processes
	var jobs []job
	var jobRow []int
	for i, r := range rows {
		if out[i].discard == "" {
			jobs = append(jobs, job{Kind: "text", Text: r.text, KeepLits: r.Src == "graph", Ins: -1})
			jobRow = append(jobRow, i)
		}
	}
	results := runJobs(jobs)
	printedText := make([]string, len(rows))
	for k, jr := range results {
		i := jobRow[k]
		r := rows[i]
		tag := r.Src + r.kindTag()
		switch {
		case jr.Crashed != "" && jr.Phase == "skipped":
			out[i].discard = "not evaluated"
		case jr.Crashed != "":
			out[i].fail = &mbt.Failure{Signature: "C17|" + jr.Phase + "|crash|" + tag, What: fmt.Sprintf("%s: the process dies in phase %s on a text llvm-as accepts: %s", r.name, jr.Phase, jr.Crashed), Case: caseOf(r)}
		case jr.ParsePanic != "":
			out[i].fail = &mbt.Failure{Signature: "C17|parse|panic|" + tag, What: fmt.Sprintf("%s: the parser panics on a text llvm-as accepts: %s", r.name, mbt.Truncate(jr.ParsePanic, 300)), Case: caseOf(r)}
		case jr.ParseErr != "":
			out[i].fail = &mbt.Failure{Signature: "C17|parse|error|" + tag, What: fmt.Sprintf("%s: the parser rejects a text llvm-as accepts: %s", r.name, mbt.Truncate(jr.ParseErr, 300)), Case: caseOf(r)}
		case jr.PrintPanic != "":
			out[i].fail = &mbt.Failure{Signature: "C17|print|panic|" + tag, What: fmt.Sprintf("%s: printing the parsed module panics: %s", r.name, mbt.Truncate(jr.PrintPanic, 300)), Case: caseOf(r)}
		case jr.ReparseError != "":
			out[i].fail = &mbt.Failure{Signature: "C17|print|reparse-fails|" + tag, What: fmt.Sprintf("%s: the printed module cannot be parsed again: %s", r.name, mbt.Truncate(jr.ReparseError, 300)), Case: caseOf(r)}
		default:
			r.Obs, r.Obs2 = jr.Obs, jr.Obs2
			modelObs(&r.Obs)
			modelObs(&r.Obs2)
			if r.Unordered {
				sortObsByField(&r.Obs)
				sortObsByField(&r.Obs2)
			}
			if w, ok := r.Want.(map[string]interface{}); ok && r.freeSites {
				w["sites"] = r.Obs.Sites
			}
			r.Printed.IDs, r.Printed.Tokens, _ = defTokens(jr.Text)
			if r.Printed.IDs == nil {
				r.Printed.IDs, r.Printed.Tokens = []int64{}, [][]int64{}
			}
			pm := modelWant(irWant{IDs: r.Printed.IDs, Tokens: r.Printed.Tokens})
			r.rawPrinted = r.Printed
			r.Printed.IDs, r.Printed.Tokens = pm.IDs, pm.Tokens
			printedText[i] = jr.Text
		}
	}
	// 3. LLVM reads the printed module as it read the input
	var mu sync.Mutex
	canonChecked := 0
	llvmoracle.Parallel(len(rows), func(i int) {
		r := rows[i]
		if !out[i].doCanon || out[i].discard != "" || out[i].fail != nil {
			return
		}
		canonOut, ok2, diag2 := llvmoracle.Canon(printedText[i])
		mu.Lock()
		canonChecked++
		mu.Unlock()
		if !ok2 {
			out[i].fail = &mbt.Failure{Signature: "C17|print|llvm-rejects-printed|" + r.Src + r.kindTag(), What: fmt.Sprintf("%s: llvm-as rejects the printed module: %s", r.name, mbt.Truncate(diag2, 300)), Case: caseOf(r)}
		} else if out[i].canonIn != canonOut {
			out[i].fail = &mbt.Failure{Signature: "C17|print|llvm-reads-differently|" + r.Src + r.kindTag(), What: fmt.Sprintf("%s: llvm-as|llvm-dis of input and of printed output differ: %s", r.name, firstDiff(out[i].canonIn, canonOut)), Case: caseOf(r)}
		}
	})
	var judged []*parseRow
	discards := 0
	for i, r := range rows {
		rep.Count("parse:"+r.Src+":"+r.name, true)
		if out[i].discard != "" {
			discards++
			if discards <= 3 {
				rep.Note("discarded (llvm-as rejects the generated text): %s: %s", r.name, mbt.Truncate(out[i].discard, 200))
			}
			continue
		}
		if out[i].fail != nil {
			rep.Fail(*out[i].fail)
			if !strings.HasPrefix(out[i].fail.Signature, "C17|print|llvm-") {
				continue // nothing (complete) was recorded
			}
		}
		judged = append(judged, r)
	}
	rep.Extra["parse_texts"] = len(rows)
	rep.Extra["parse_texts_discarded_by_llvm"] = discards
	rep.Extra["canon_compared"] = canonChecked
	if discards*50 > len(rows) {
		mbt.Infra("%d of %d generated texts are rejected by llvm-as (more than 2%%): the generator is wrong", discards, len(rows))
	}
	return judged
}

// negatives: texts whose metadata IDs are not unique or not defined. LLVM must
// reject them (otherwise the case is discarded) and so must the parser -- with
// an error, not with a panic and not by silently picking one definition.
func negatives(rep *mbt.Report) {
	cases := []struct{ name, text string }{
		{"duplicate-id", "!0 = !{}\n!1 = !{!0}\n!0 = !{!1}\n"},
		{"duplicate-id-distinct", "!named = !{!3}\n!3 = distinct !{}\n!3 = distinct !{}\n"},
		{"undefined-ref-in-tuple", "!0 = !{!5}\n"},
		{"undefined-ref-in-named", "!named = !{!7}\n!0 = !{}\n"},
		{"undefined-ref-in-attachment", "@g = global i32 0, !foo !9\n!0 = !{}\n"},
		{"undefined-ref-in-specialised", "!0 = !DIFile(filename: \"a\", directory: \"b\")\n!1 = !DIBasicType(name: \"t\")\n!2 = !DIDerivedType(tag: DW_TAG_pointer_type, baseType: !8)\n"},
	}
	var jobs []job
	var names []string
	for _, c := range cases {
		if ok, _ := llvmoracle.Accepts(c.text); ok {
			rep.Note("negative case %s is accepted by llvm-as: discarded", c.name)
			continue
		}
		jobs = append(jobs, job{Kind: "text", Text: c.text, Ins: -1})
		names = append(names, c.name)
	}
	for k, jr := range runJobs(jobs) {
		name := names[k]
		rep.Count("negative:"+name, true)
		caseOf := map[string]interface{}{"kind": "negative", "name": name, "text": jobs[k].Text}
		switch {
		case jr.Crashed != "":
			rep.Fail(mbt.Failure{Signature: "C17|parse|crash-on-invalid|" + name, What: "the process dies instead of reporting an error: " + jr.Crashed, Case: caseOf})
		case jr.ParsePanic != "":
			rep.Fail(mbt.Failure{Signature: "C17|parse|panic-on-invalid|" + name, What: "the parser panics instead of reporting an error: " + mbt.Truncate(jr.ParsePanic, 300), Case: caseOf})
		case jr.ParseErr == "":
			rep.Fail(mbt.Failure{Signature: "C17|parse|accepts-invalid|" + name, What: "the parser accepts a text whose metadata IDs are not unique / not defined (llvm-as rejects it)", Case: caseOf})
		}
	}
}

func (r *parseRow) kindTag() string {
	if r.Src != "text" {
		// graph patterns with large IDs / many definitions (MetadataGraph.tla: big, Dense)
		if b, ok := r.Pat["big"].(float64); ok && b > 0 {
			return "|large-ids"
		}
		if n, ok := r.Pat["n"].(float64); ok && n >= largeID {
			return "|many-definitions"
		}
		return ""
	}
	return "|" + r.name[:strings.IndexAny(r.name+"#", "#")]
}

func firstDiff(a, b string) string {
	la, lb := strings.Split(a, "\n"), strings.Split(b, "\n")
	for i := 0; i < len(la) && i < len(lb); i++ {
		if la[i] != lb[i] {
			return fmt.Sprintf("line %d: input %q, printed %q", i+1, la[i], lb[i])
		}
	}
	return fmt.Sprintf("input %d lines, printed %d lines", len(la), len(lb))
}

var reBadRow = regexp.MustCompile(`<<"BADROW", "([^"]+)", "([^"]+)", (\d+)>>`)

// judge runs MetadataTrace over the recorded rows and classifies the BADROW list.
// isoRows: the isolation rows of this run (set before judge is called).
var isoRows []isoRow

func judge(rep *mbt.Report, irRows []irRow, vectors []irVector, prs []*parseRow) {
	// The recording is judged in batches (one TLC run each, three at a time): TLC holds the whole
	// deserialised file in memory, and 20 000 parse rows at once made it crawl.
	type batch struct {
		ir     []irRow
		prs    []*parseRow
		iso    []isoRow
		irOff  int
		prsOff int
		isoOff int
		t      *mbt.TLCResult
	}
	var batches []*batch
	const irChunk, prsChunk, isoChunk = 30000, 4000, 10000
	for o := 0; o < len(irRows); o += irChunk {
		e := o + irChunk
		if e > len(irRows) {
			e = len(irRows)
		}
		batches = append(batches, &batch{ir: irRows[o:e], irOff: o})
	}
	for o := 0; o < len(prs); o += prsChunk {
		e := o + prsChunk
		if e > len(prs) {
			e = len(prs)
		}
		batches = append(batches, &batch{prs: prs[o:e], prsOff: o})
	}
	for o := 0; o < len(isoRows); o += isoChunk {
		e := o + isoChunk
		if e > len(isoRows) {
			e = len(isoRows)
		}
		batches = append(batches, &batch{iso: isoRows[o:e], isoOff: o})
	}
	sem := make(chan struct{}, 3)
	var wg sync.WaitGroup
	for _, bt := range batches {
		wg.Add(1)
		go func(bt *batch) {
			defer wg.Done()
			sem <- struct{}{}
			defer func() { <-sem }()
			bt.t = mbt.MustTLC(mbt.TLCOpts{Spec: "MetadataTrace", Cfg: "MetadataTrace.cfg", Workers: 4, Timeout: 20 * time.Minute,
				Data: map[string][]byte{"md_ir_rec.ndjson": mbt.NDJSONBytes(bt.ir), "md_parse_rec.ndjson": mbt.NDJSONBytes(bt.prs), "md_iso_rec.ndjson": mbt.NDJSONBytes(bt.iso)}})
		}(bt)
	}
	wg.Wait()
	rep.TracesValidated += len(irRows) + len(prs) + len(isoRows)
	for _, bt := range batches {
		judgeBatch(rep, bt.t, bt.ir, bt.prs, bt.iso, vectors, bt.irOff)
		bt.t.Cleanup()
	}
}

func judgeBatch(rep *mbt.Report, t *mbt.TLCResult, irRows []irRow, prs []*parseRow, isoRows []isoRow, allVectors []irVector, irOff int) {
	var vectors []irVector
	if allVectors != nil {
		vectors = allVectors[irOff : irOff+len(irRows)]
	}
	if len(t.Violated) > 0 {
		mbt.Infra("MetadataTrace: unexpected violation %v", t.Violated)
	}
	if t.Distinct != int64(len(irRows)+len(prs)+len(isoRows))+1 {
		mbt.Infra("MetadataTrace consumed %d rows of %d", t.Distinct-1, len(irRows)+len(prs)+len(isoRows))
	}
	rep.AddTLC(t)
	for _, m := range reBadRow.FindAllStringSubmatch(t.Output, -1) {
		file, law := m[1], m[2]
		ri, _ := strconv.Atoi(m[3])
		if law == "want-transport" {
			mbt.Infra("MetadataTrace: row %d: the transported `want` differs from WantOf(pat)", ri)
		}
		if file == "ir" {
			row := irRows[ri-1]
			want := "(see the laws)"
			if vectors != nil {
				w := vectors[ri-1].Want
				cw := irWant{OK: w.OK, IDs: concreteAll(w.IDs)}
				for _, t := range w.Tokens {
					cw.Tokens = append(cw.Tokens, concreteAll(t))
				}
				want = showWant(cw, w)
			}
			rep.Fail(mbt.Failure{Signature: "C17|ir|" + law + "|" + idsClass(row.IDs),
				What: fmt.Sprintf("definition list %s%s: law %s fails; the code printed %s, the specification requires %s", showIDs(concreteAll(row.IDs)), showRefs(row.Refs), law, showWant(row.raw, row.Got), want),
				Case: map[string]interface{}{"kind": "ir", "ids": row.IDs, "refs": row.Refs, "wide": scaleTable}})
			continue
		}
		if file == "iso" {
			row := isoRows[ri-1]
			what := ""
			switch {
			case strings.HasPrefix(law, "no-node-shared-by-two-parses"):
				what = fmt.Sprintf("two separate parses of %s share node objects of type %v", row.A, row.SharedSame)
			case strings.HasPrefix(law, "no-node-shared-by-two-modules"):
				what = fmt.Sprintf("the modules parsed from %s and from %s share node objects of type %v", row.A, row.B, row.SharedDiff)
			case strings.HasPrefix(law, "untouched"):
				what = fmt.Sprintf("after the %d inline nodes of %s were hoisted into its MetadataDefs and it was printed, the untouched module %s prints differently: %s", row.Hoisted, row.A, row.B, row.changed)
			default:
				what = fmt.Sprintf("after module %s was changed and printed, a fresh parse of the text of %s prints differently from its first print: %s", row.A, row.B, row.fresh)
			}
			rep.Fail(mbt.Failure{Signature: "C17|isolation|" + law + "|" + sharedSig(row), What: what,
				Case: map[string]interface{}{"kind": "iso", "a": row.A, "b": row.B, "text": row.textA, "text2": row.textB}})
			continue
		}
		r := prs[ri-1]
		rep.Fail(mbt.Failure{Signature: "C17|parse|" + law + "|" + r.Src + r.kindTag(),
			What: fmt.Sprintf("%s: law %s fails on the parsed module: %s", r.name, law, explain(r, law)),
			Case: map[string]interface{}{"kind": "parse", "src": r.Src, "name": r.name, "text": r.text, "want": r.Want, "pat": r.Pat, "wide": scaleTable}})
	}
}

// explain names the first place where the observation differs from what is required.
func explain(r *parseRow, law string) string {
	var w, o map[string]interface{}
	wb, _ := json.Marshal(r.Want)
	ob, _ := json.Marshal(r.Obs)
	if strings.HasSuffix(law, "-after-reprint") {
		ob, _ = json.Marshal(r.Obs2)
	}
	json.Unmarshal(wb, &w)
	json.Unmarshal(ob, &o)
	js := func(v interface{}) string { b, _ := json.Marshal(v); return mbt.Truncate(string(b), 300) }
	wd, _ := w["defs"].([]interface{})
	od, _ := o["defs"].([]interface{})
	if len(wd) != len(od) {
		return fmt.Sprintf("%d definitions required, %d found", len(wd), len(od))
	}
	for i := range wd {
		wm, _ := wd[i].(map[string]interface{})
		om, _ := od[i].(map[string]interface{})
		if _, has := wm["kind"]; !has {
			delete(om, "kind")
		}
		if js(wm) != js(om) {
			return fmt.Sprintf("definition %d: required %s, observed %s", i, js(wm), js(om))
		}
	}
	if js(w["named"]) != js(o["named"]) {
		return fmt.Sprintf("named metadata: required %s, observed %s", js(w["named"]), js(o["named"]))
	}
	if js(w["sites"]) != js(o["sites"]) {
		return fmt.Sprintf("attachment sites: required %s, observed %s", js(w["sites"]), js(o["sites"]))
	}
	var ids []interface{}
	for _, d := range wd {
		ids = append(ids, d.(map[string]interface{})["id"])
	}
	if len(r.rawPrinted.IDs) > 12 {
		for i, d := range wd {
			want := concrete(int64(d.(map[string]interface{})["id"].(float64)))
			if i >= len(r.rawPrinted.IDs) || r.rawPrinted.IDs[i] != want {
				return fmt.Sprintf("%d definitions; the definition that must be printed as !%d is printed as %v", len(wd), want, at(r.rawPrinted.Tokens, i))
			}
			if fmt.Sprint(modelWant(irWant{Tokens: [][]int64{r.rawPrinted.Tokens[i]}}).Tokens[0]) != fmt.Sprint(at(r.Printed.Tokens, i)) {
				break
			}
		}
		return fmt.Sprintf("%d definitions printed, a reference token differs from the ID of its target", len(r.rawPrinted.IDs))
	}
	return fmt.Sprintf("printed definition IDs %v (required model IDs %v), printed tokens %v", r.rawPrinted.IDs, ids, r.rawPrinted.Tokens)
}

func at(t [][]int64, i int) interface{} {
	if i < len(t) {
		return t[i]
	}
	return "nothing"
}

func runReplay(rep *mbt.Report, path string) {
	var rf struct {
		Failures []struct {
			Case map[string]interface{} `json:"case"`
		} `json:"failures"`
	}
	if err := mbt.ReadJSON(path, &rf); err != nil {
		mbt.Infra("replay %s: %v", path, err)
	}
	var irRows []irRow
	var prs []*parseRow
	for _, f := range rf.Failures {
		setScaleFromCase(f.Case)
	}
	for _, f := range rf.Failures {
		c := f.Case
		switch c["kind"] {
		case "ir":
			var v irVector
			for _, x := range c["ids"].([]interface{}) {
				v.IDs = append(v.IDs, int64(x.(float64)))
			}
			if rr, ok := c["refs"].([]interface{}); ok {
				for _, x := range rr {
					var l []int
					if xs, ok := x.([]interface{}); ok {
						for _, y := range xs {
							l = append(l, int(y.(float64)))
						}
					}
					v.Refs = append(v.Refs, l)
				}
			}
			for len(v.Refs) < len(v.IDs) {
				v.Refs = append(v.Refs, []int{})
			}
			if x, ok := c["ins"].(float64); ok {
				n := int(x)
				v.Ins = &n
				v.Refs2 = make([][]int, len(v.IDs)+1) // operands of the second print are not needed to re-run
				if d, ok := c["del"].(float64); ok {
					v.Del = int(d)
				}
			}
			rows, _, extras, crashed := evalIR([]irVector{v})
			rep.Count(fmt.Sprintf("ir:%v", v.IDs), true)
			if crashed[0] != nil {
				rep.Fail(mbt.Failure{Signature: "C17|print|crash|ir|" + idsClass(v.IDs) + histTag(v), What: "the process dies while printing: " + crashed[0].Crashed, Case: c})
				continue
			}
			if extras[0] != "" {
				rep.Fail(mbt.Failure{Signature: "C17|ir|" + extraClass(extras[0]) + "|" + idsClass(v.IDs) + histTag(v), What: extras[0], Case: c})
			}
			rows[0].Ins, rows[0].Refs2, rows[0].Got2 = nil, nil, nil // judged as a plain row on replay
			irRows = append(irRows, rows[0])
		case "iso":
			ta, _ := c["text"].(string)
			tb, _ := c["text2"].(string)
			na, _ := c["a"].(string)
			nb, _ := c["b"].(string)
			isoRows = append(isoRows, isolation(rep, []*parseRow{{Src: "text", name: na, text: ta}, {Src: "text", name: nb, text: tb}})...)
		case "negative":
			negatives(rep)
		case "editall":
			name, _ := c["name"].(string)
			text, _ := c["text"].(string)
			src, _ := c["src"].(string)
			if src != "graph" {
				src = "text"
			}
			editAllRows(rep, []*parseRow{{Src: src, name: name, text: text}})
		case "edit":
			var h editHist
			b, _ := json.Marshal(c)
			json.Unmarshal(b, &h)
			layout, _ := c["layout"].(string)
			runEditHists(rep, []editHist{h}, []string{layout})
		case "parse":
			src, _ := c["src"].(string)
			text, _ := c["text"].(string)
			pat, _ := c["pat"].(map[string]interface{})
			name, _ := c["name"].(string)
			if name == "" {
				name = "replay#"
			}
			r := &parseRow{Src: src, Pat: pat, Want: c["want"], text: text, name: name}
			if src == "text" {
				r.Want = wantFromText(text)
			}
			prs = append(prs, r)
		}
	}
	prs = processParseRows(rep, prs, 1, 0)
	if len(irRows)+len(prs)+len(isoRows) > 0 {
		judge(rep, irRows, nil, prs)
	}
}

var _ = sort.Strings
