// Package c17 checks property C17: metadata IDs are unique (explicit IDs kept,
// unassigned definitions receive the smallest unused numbers, references print
// the ID of the node they point to) and, in a parsed module, every reference to
// !N is the node object of definition !N, distinctness and inline-versus-
// numbered placement are preserved and repeated named metadata are merged in
// textual order.
//
// (S) spec/Metadata.tla (ID assignment laws) and spec/MetadataGraph.tla (graph
// patterns and what the parser must make of them) are checked by TLC; (G) both
// emit vectors that are replayed into the ir API and into asm.ParseString;
// (T) what the real code did is recorded and judged by spec/MetadataTrace.tla.
// LLVM 14 (llvm-as, llvm-dis) arbitrates validity and meaning.
package c17

import (
	"encoding/json"
	"fmt"
	"math/rand"
	"regexp"
	"sort"
	"strconv"
	"strings"
	"sync"
	"time"

	"github.com/llir/llvm/asm"
	"github.com/llir/llvm/ir"
	"github.com/llir/llvm/ir/metadata"

	"verif/harness/llvmoracle"
	"verif/harness/mbt"
	"verif/harness/props/reg"
)

func init() { reg.Register("C17", Run) }

// --- IR side ---------------------------------------------------------------------

type irWant struct {
	OK     bool      `json:"ok"`
	IDs    []int64   `json:"ids"`
	Tokens [][]int64 `json:"tokens"`
}

type irVector struct {
	IDs   []int64 `json:"ids"`
	Shape int     `json:"shape"`
	Refs  [][]int `json:"refs"`
	Want  irWant  `json:"want"`
}

type irRow struct {
	IDs  []int64 `json:"ids"`
	Refs [][]int `json:"refs"`
	Got  irWant  `json:"got"`
}

var reDefLine = regexp.MustCompile(`(?m)^!(\d+) = (distinct )?(.*)$`)
var reRefTok = regexp.MustCompile(`!(\d+)`)
var reQuoted = regexp.MustCompile(`"(?:[^"\\]|\\.)*"`)

// defTokens reads the definition lines of a printed module: per line the
// definition ID followed by every !N reference token, left to right.
func defTokens(text string) (ids []int64, tokens [][]int64, distinct []bool) {
	tokens = [][]int64{}
	ids = []int64{}
	for _, m := range reDefLine.FindAllStringSubmatch(text, -1) {
		id, _ := strconv.ParseInt(m[1], 10, 64)
		row := []int64{id}
		rest := reQuoted.ReplaceAllString(m[3], `""`)
		for _, r := range reRefTok.FindAllStringSubmatch(rest, -1) {
			v, _ := strconv.ParseInt(r[1], 10, 64)
			row = append(row, v)
		}
		ids = append(ids, id)
		tokens = append(tokens, row)
		distinct = append(distinct, m[2] != "")
	}
	return
}

// buildIR builds the module of a vector through the ir API.
// Definitions without operands at an odd position are specialised nodes of
// several kinds, the others tuples: AssignMetadataIDs must treat all kinds alike.
func buildIR(ids []int64, refs [][]int) (*ir.Module, []metadata.Definition) {
	m := ir.NewModule()
	ts := make([]metadata.Definition, len(ids))
	for i := range ids {
		if len(refs[i]) == 0 && i%2 == 1 {
			// leaf definitions referenced from tuple fields: a different specialised kind per shape
			switch (i + len(ids)) % 4 {
			case 0:
				ts[i] = &metadata.DIBasicType{Name: "t"}
			case 1:
				ts[i] = &metadata.DIExpression{}
			case 2:
				ts[i] = &metadata.DIFile{Filename: "a.c", Directory: "/d"}
			default:
				ts[i] = &metadata.DIEnumerator{Name: "e", Value: 1}
			}
		} else {
			ts[i] = &metadata.Tuple{}
		}
		ts[i].SetID(ids[i])
	}
	for i := range ids {
		if t, ok := ts[i].(*metadata.Tuple); ok {
			for _, j := range refs[i] {
				t.Fields = append(t.Fields, ts[j-1])
			}
		}
		m.MetadataDefs = append(m.MetadataDefs, ts[i])
	}
	return m, ts
}

// runIR prints the vector's module with the real code and records the outcome.
func runIR(v irVector) (row irRow, text string, extra string) {
	row = irRow{IDs: v.IDs, Refs: v.Refs, Got: irWant{IDs: []int64{}, Tokens: [][]int64{}}}
	if row.Refs == nil {
		row.Refs = [][]int{}
	}
	for i := range row.Refs {
		if row.Refs[i] == nil {
			row.Refs[i] = []int{}
		}
	}
	m, ts := buildIR(v.IDs, row.Refs)
	_, panicked := mbt.Guard(func() { text = m.String() })
	if panicked {
		return row, "", ""
	}
	row.Got.OK = true
	ids, toks, _ := defTokens(text)
	row.Got.IDs, row.Got.Tokens = ids, toks
	// the IDs stored on the nodes are the IDs printed, and printing again changes nothing
	for i, t := range ts {
		if i < len(ids) && t.ID() != ids[i] {
			extra = fmt.Sprintf("definition %d carries ID %d after printing but was printed as !%d", i, t.ID(), ids[i])
		}
	}
	var again string
	if _, p := mbt.Guard(func() { again = m.String() }); p || again != text {
		extra = "printing a second time gives a different result (ID assignment is not idempotent)"
	}
	return row, text, extra
}

// --- parser side -------------------------------------------------------------------

// op is an operand in the shape of spec/MetadataGraph.tla.
type op map[string]interface{}

type patText struct {
	Defs []struct {
		ID       int64 `json:"id"`
		Distinct bool  `json:"distinct"`
		Ops      []op  `json:"ops"`
	} `json:"defs"`
	Named []struct {
		Name  string `json:"name"`
		Nodes []op   `json:"nodes"`
		Pos   string `json:"pos"`
	} `json:"named"`
	Sites struct {
		Global op   `json:"global"`
		Func   op   `json:"func"`
		Inst   op   `json:"inst"`
		Term   op   `json:"term"`
		Args   []op `json:"args"`
	} `json:"sites"`
}

type pattern struct {
	Pat  map[string]interface{} `json:"pat"`
	Text patText                `json:"text"`
	Want map[string]interface{} `json:"want"`
}

type obsDef struct {
	ID       int64  `json:"id"`
	Distinct bool   `json:"distinct"`
	Ops      []op   `json:"ops"`
	Kind     string `json:"kind"`
}
type obsNamed struct {
	Name  string `json:"name"`
	Nodes []op   `json:"nodes"`
}
type obsSites struct {
	Global op   `json:"global"`
	Func   op   `json:"func"`
	Inst   op   `json:"inst"`
	Term   op   `json:"term"`
	Args   []op `json:"args"`
}
type observation struct {
	Defs  []obsDef   `json:"defs"`
	Named []obsNamed `json:"named"`
	Sites obsSites   `json:"sites"`
}

type printed struct {
	IDs    []int64   `json:"ids"`
	Tokens [][]int64 `json:"tokens"`
}

type parseRow struct {
	Src     string                 `json:"src"`
	Pat     map[string]interface{} `json:"pat,omitempty"`
	Want    interface{}            `json:"want"`
	Obs     observation            `json:"obs"`
	Obs2    observation            `json:"obs2"` // the printed module parsed again
	Printed printed                `json:"printed"`
	// not part of the judged record
	freeSites bool // the attachment sites of this text are not prescribed: only identity is judged there
	text      string
	name      string
	kind      map[int64]string
}

func renderOp(o op) string {
	switch o["k"] {
	case "ref":
		return fmt.Sprintf("!%d", int64(o["id"].(float64)))
	case "null":
		return "null"
	case "str":
		return `!"` + o["s"].(string) + `"`
	case "tuple":
		var parts []string
		if ops, ok := o["ops"].([]interface{}); ok {
			for _, x := range ops {
				parts = append(parts, renderOp(op(x.(map[string]interface{}))))
			}
		}
		return "!{" + strings.Join(parts, ", ") + "}"
	}
	return "?"
}

// render turns the abstract text of a pattern into LLVM assembly.
func render(t patText) string {
	var sb strings.Builder
	fmt.Fprintf(&sb, "@g = global i32 0, !foo %s\n\n", renderOp(t.Sites.Global))
	sb.WriteString("declare i1 @llvm.type.test(i8*, metadata)\n\n")
	fmt.Fprintf(&sb, "define void @f() !bar %s {\n", renderOp(t.Sites.Func))
	fmt.Fprintf(&sb, "  %%1 = add i32 1, 2, !foo %s\n", renderOp(t.Sites.Inst))
	for i, a := range t.Sites.Args {
		fmt.Fprintf(&sb, "  %%%d = call i1 @llvm.type.test(i8* null, metadata %s)\n", i+2, renderOp(a))
	}
	fmt.Fprintf(&sb, "  ret void, !foo %s\n}\n\n", renderOp(t.Sites.Term))
	named := func(pos string) {
		for _, n := range t.Named {
			if n.Pos != pos {
				continue
			}
			var parts []string
			for _, x := range n.Nodes {
				parts = append(parts, renderOp(x))
			}
			fmt.Fprintf(&sb, "!%s = !{%s}\n", n.Name, strings.Join(parts, ", "))
		}
	}
	named("pre")
	for _, d := range t.Defs {
		var parts []string
		for _, x := range d.Ops {
			parts = append(parts, renderOp(x))
		}
		dist := ""
		if d.Distinct {
			dist = "distinct "
		}
		fmt.Fprintf(&sb, "!%d = %s!{%s}\n", d.ID, dist, strings.Join(parts, ", "))
	}
	named("post")
	return sb.String()
}

// Run is the C17 check.
func Run(tier, replay string) {
	rep := mbt.NewReport("C17", tier, "model_checking")
	rep.Rule = "definition lists (IDs in {-1,0..MaxId}, x graph shape) built through the ir API and printed; module texts (TLC-generated metadata graph patterns and the 28 specialised node kinds with subsets of fields) parsed, walked by reflection and printed; every record judged by MetadataTrace"
	rep.Assumptions = []string{
		"llvm-as/llvm-dis 14 decide validity and meaning of every text used for a verdict",
		"pointer identity is observed through reflection over the exported fields of the parsed module",
	}
	llvmoracle.Require()
	rng := rand.New(rand.NewSource(mbt.Seed()))
	if replay != "" {
		runReplay(rep, replay)
		rep.Finish()
	}

	// (S) the laws hold for the ID assignment as written; the wrong variants are rejected
	maxDefs, maxID := "4", "4"
	if tier == "thorough" {
		maxDefs = "5"
	}
	t := mbt.MustTLC(mbt.TLCOpts{Spec: "Metadata", Cfg: "Metadata.cfg", Workers: 1, Timeout: 10 * time.Minute,
		Consts: map[string]string{"Emit": "TRUE", "MaxDefs": maxDefs, "MaxId": maxID}})
	if len(t.Violated) > 0 {
		mbt.Infra("Metadata.tla: the ID assignment as written violates %v: specification error", t.Violated)
	}
	rep.AddTLC(t)
	vectors, err := mbt.ReadNDJSON[irVector](t.Dir + "/md_vectors.ndjson")
	if err != nil || len(vectors) == 0 {
		mbt.Infra("no vectors from Metadata.tla: %v", err)
	}
	t.Cleanup()
	for _, variant := range []string{`"from-zero"`, `"count-up"`, `"no-dup-check"`} {
		tv := mbt.MustTLC(mbt.TLCOpts{Spec: "Metadata", Cfg: "MetadataVacuity.cfg", Workers: 4, Consts: map[string]string{"Variant": variant}})
		if len(tv.Violated) == 0 {
			mbt.Infra("vacuity guard: the laws of Metadata.tla accept the wrong variant %s", variant)
		}
		tv.Cleanup()
	}
	maxN := "3"
	if tier == "thorough" {
		maxN = "4"
	}
	tg := mbt.MustTLC(mbt.TLCOpts{Spec: "MetadataGraph", Cfg: "MetadataGraph.cfg", Workers: 1, Timeout: 15 * time.Minute,
		Consts: map[string]string{"Emit": "TRUE", "MaxN": maxN}})
	if len(tg.Violated) > 0 {
		mbt.Infra("MetadataGraph.tla violates %v: specification error", tg.Violated)
	}
	rep.AddTLC(tg)
	patterns, err := mbt.ReadNDJSON[pattern](tg.Dir + "/md_patterns.ndjson")
	if err != nil || len(patterns) == 0 {
		mbt.Infra("no patterns from MetadataGraph.tla: %v", err)
	}
	tg.Cleanup()

	// (G) IR side
	irRows := make([]irRow, len(vectors))
	irText := make([]string, len(vectors))
	irExtra := make([]string, len(vectors))
	llvmEvery := 1
	if tier != "thorough" {
		llvmEvery = 5
	}
	off := rng.Intn(llvmEvery)
	var mu sync.Mutex
	llvmChecked, llvmRejected := 0, 0
	llvmoracle.Parallel(len(vectors), func(i int) {
		irRows[i], irText[i], irExtra[i] = runIR(vectors[i])
		if irRows[i].Got.OK && vectors[i].Want.OK && (i+off)%llvmEvery == 0 {
			ok, diag := llvmoracle.Accepts(irText[i])
			mu.Lock()
			llvmChecked++
			if !ok {
				llvmRejected++
				irExtra[i] = "llvm-as rejects the printed module: " + mbt.Truncate(diag, 200)
			}
			mu.Unlock()
		}
	})
	for i, v := range vectors {
		rep.Count(fmt.Sprintf("ir:%v/%d", v.IDs, v.Shape), len(v.IDs) >= 2)
		if irExtra[i] != "" {
			rep.Fail(mbt.Failure{Signature: "C17|ir|" + extraClass(irExtra[i]) + "|" + idsClass(v.IDs), What: fmt.Sprintf("ids %v shape %d: %s", v.IDs, v.Shape, irExtra[i]),
				Case: map[string]interface{}{"kind": "ir", "ids": v.IDs, "refs": v.Refs, "shape": v.Shape}})
		}
	}
	rep.Sample(map[string]interface{}{"kind": "ir", "ids": vectors[len(vectors)/2].IDs, "refs": vectors[len(vectors)/2].Refs, "want": vectors[len(vectors)/2].Want, "got": irRows[len(vectors)/2].Got})
	rep.Extra["ir_vectors"] = len(vectors)
	rep.Extra["ir_llvm_checked"] = llvmChecked

	// (G) parser side: TLC-generated graph patterns
	rows := make([]*parseRow, 0, len(patterns)+200)
	for _, p := range patterns {
		rows = append(rows, &parseRow{Src: "graph", Pat: p.Pat, Want: p.Want, text: render(p.Text), name: patName(p.Pat)})
	}
	// the specialised node kinds
	diRows, diInfo := specialisedRows(tier, rng)
	rows = append(rows, diRows...)
	for k, v := range diInfo {
		rep.Extra[k] = v
	}
	// llvm-as validates every text; the llvm-as|llvm-dis comparison of input and printed
	// output (4 more process spawns) is done for a seeded share of them
	canonEvery := 2
	if tier != "thorough" {
		canonEvery = 6
	}
	judged := processParseRows(rep, rows, canonEvery, rng.Intn(canonEvery))
	rep.Sample(map[string]interface{}{"kind": "graph", "pat": patterns[len(patterns)/3].Pat, "text": render(patterns[len(patterns)/3].Text)})

	negatives(rep)

	// (T) everything recorded is judged by MetadataTrace
	judge(rep, irRows, vectors, judged)
	rep.Exhaustive = false
	rep.Finish()
}

func patName(p map[string]interface{}) string {
	return fmt.Sprintf("graph(n=%v shape=%v sparse=%v perm=%v distinct-mode=%v inline-mode=%v named-mode=%v)", p["n"], p["shape"], p["sparse"], p["perm"], p["dm"], p["inl"], p["nv"])
}

func idsClass(ids []int64) string {
	has := map[int64]bool{}
	dup, unassigned, explicit := false, false, false
	for _, v := range ids {
		if v == -1 {
			unassigned = true
			continue
		}
		explicit = true
		if has[v] {
			dup = true
		}
		has[v] = true
	}
	var parts []string
	if dup {
		parts = append(parts, "duplicate-explicit")
	} else if explicit {
		parts = append(parts, "explicit")
	}
	if unassigned {
		parts = append(parts, "unassigned")
	}
	return strings.Join(parts, "+")
}

func extraClass(s string) string {
	switch {
	case strings.HasPrefix(s, "llvm-as rejects"):
		return "llvm-rejects-printed"
	case strings.HasPrefix(s, "printing a second time"):
		return "not-idempotent"
	default:
		return "node-id-differs-from-printed"
	}
}

// processParseRows validates each text with llvm-as, parses it with the real
// parser, records the observation and returns the rows that can be judged.
func processParseRows(rep *mbt.Report, rows []*parseRow, canonEvery, off int) []*parseRow {
	type res struct {
		discard string
		fail    *mbt.Failure
	}
	out := make([]res, len(rows))
	var mu sync.Mutex
	canonChecked := 0
	llvmoracle.Parallel(len(rows), func(i int) {
		r := rows[i]
		caseOf := map[string]interface{}{"kind": "parse", "src": r.Src, "name": r.name, "text": r.text, "want": r.Want, "pat": r.Pat}
		canonIn, ok, diag := "", false, ""
		doCanon := (i+off)%canonEvery == 0
		if doCanon {
			canonIn, ok, diag = llvmoracle.Canon(r.text)
		} else {
			ok, diag = llvmoracle.Accepts(r.text)
		}
		if !ok {
			out[i].discard = diag
			return
		}
		var m *ir.Module
		var perr error
		if msg, p := mbt.Guard(func() { m, perr = asm.ParseString("pattern.ll", r.text) }); p {
			out[i].fail = &mbt.Failure{Signature: "C17|parse|panic|" + r.Src + r.kindTag(), What: fmt.Sprintf("%s: the parser panics on a text llvm-as accepts: %s", r.name, mbt.Truncate(msg, 300)), Case: caseOf}
			return
		}
		if perr != nil {
			out[i].fail = &mbt.Failure{Signature: "C17|parse|error|" + r.Src + r.kindTag(), What: fmt.Sprintf("%s: the parser rejects a text llvm-as accepts: %s", r.name, mbt.Truncate(perr.Error(), 300)), Case: caseOf}
			return
		}
		r.Obs = observe(m, r.Src == "graph")
		if w, ok := r.Want.(map[string]interface{}); ok && r.freeSites {
			w["sites"] = r.Obs.Sites
		}
		var text string
		if msg, p := mbt.Guard(func() { text = m.String() }); p {
			out[i].fail = &mbt.Failure{Signature: "C17|print|panic|" + r.Src + r.kindTag(), What: fmt.Sprintf("%s: printing the parsed module panics: %s", r.name, mbt.Truncate(msg, 300)), Case: caseOf}
			return
		}
		r.Printed.IDs, r.Printed.Tokens, _ = defTokens(text)
		// parse what was printed: every reference must come back as the node of definition !N
		var m2 *ir.Module
		var perr2 error
		if msg, p := mbt.Guard(func() { m2, perr2 = asm.ParseString("printed.ll", text) }); p || perr2 != nil {
			if perr2 != nil {
				msg = perr2.Error()
			}
			out[i].fail = &mbt.Failure{Signature: "C17|print|reparse-fails|" + r.Src + r.kindTag(), What: fmt.Sprintf("%s: the printed module cannot be parsed again: %s", r.name, mbt.Truncate(msg, 300)), Case: caseOf}
			return
		}
		r.Obs2 = observe(m2, r.Src == "graph")
		if doCanon {
			canonOut, ok2, diag2 := llvmoracle.Canon(text)
			mu.Lock()
			canonChecked++
			mu.Unlock()
			if !ok2 {
				out[i].fail = &mbt.Failure{Signature: "C17|print|llvm-rejects-printed|" + r.Src + r.kindTag(), What: fmt.Sprintf("%s: llvm-as rejects the printed module: %s", r.name, mbt.Truncate(diag2, 300)), Case: caseOf}
			} else if canonIn != canonOut {
				out[i].fail = &mbt.Failure{Signature: "C17|print|llvm-reads-differently|" + r.Src + r.kindTag(), What: fmt.Sprintf("%s: llvm-as|llvm-dis of input and of printed output differ: %s", r.name, firstDiff(canonIn, canonOut)), Case: caseOf}
			}
		}
	})
	var judged []*parseRow
	discards := 0
	for i, r := range rows {
		rep.Count("parse:"+r.Src+":"+r.name, true)
		if out[i].discard != "" {
			discards++
			if discards <= 3 {
				rep.Note("discarded (llvm-as rejects the generated text): %s: %s", r.name, mbt.Truncate(out[i].discard, 200))
			}
			continue
		}
		if out[i].fail != nil {
			rep.Fail(*out[i].fail)
			if strings.HasPrefix(out[i].fail.Signature, "C17|parse|") || strings.HasPrefix(out[i].fail.Signature, "C17|print|panic") || strings.HasPrefix(out[i].fail.Signature, "C17|print|reparse") {
				continue
			}
		}
		judged = append(judged, r)
	}
	rep.Extra["parse_texts"] = len(rows)
	rep.Extra["parse_texts_discarded_by_llvm"] = discards
	rep.Extra["canon_compared"] = canonChecked
	if discards*50 > len(rows) {
		mbt.Infra("%d of %d generated texts are rejected by llvm-as (more than 2%%): the generator is wrong", discards, len(rows))
	}
	return judged
}

// negatives: texts whose metadata IDs are not unique or not defined. LLVM must
// reject them (otherwise the case is discarded) and so must the parser -- with
// an error, not with a panic and not by silently picking one definition.
func negatives(rep *mbt.Report) {
	cases := []struct{ name, text string }{
		{"duplicate-id", "!0 = !{}\n!1 = !{!0}\n!0 = !{!1}\n"},
		{"duplicate-id-distinct", "!named = !{!3}\n!3 = distinct !{}\n!3 = distinct !{}\n"},
		{"undefined-ref-in-tuple", "!0 = !{!5}\n"},
		{"undefined-ref-in-named", "!named = !{!7}\n!0 = !{}\n"},
		{"undefined-ref-in-attachment", "@g = global i32 0, !foo !9\n!0 = !{}\n"},
		{"undefined-ref-in-specialised", "!0 = !DIFile(filename: \"a\", directory: \"b\")\n!1 = !DIBasicType(name: \"t\")\n!2 = !DIDerivedType(tag: DW_TAG_pointer_type, baseType: !8)\n"},
	}
	for _, c := range cases {
		if ok, _ := llvmoracle.Accepts(c.text); ok {
			rep.Note("negative case %s is accepted by llvm-as: discarded", c.name)
			continue
		}
		rep.Count("negative:"+c.name, true)
		var err error
		msg, p := mbt.Guard(func() { _, err = asm.ParseString("neg.ll", c.text) })
		caseOf := map[string]interface{}{"kind": "negative", "name": c.name, "text": c.text}
		if p {
			rep.Fail(mbt.Failure{Signature: "C17|parse|panic-on-invalid|" + c.name, What: "the parser panics instead of reporting an error: " + mbt.Truncate(msg, 300), Case: caseOf})
		} else if err == nil {
			rep.Fail(mbt.Failure{Signature: "C17|parse|accepts-invalid|" + c.name, What: "the parser accepts a text whose metadata IDs are not unique / not defined (llvm-as rejects it)", Case: caseOf})
		}
	}
}

func (r *parseRow) kindTag() string {
	if r.Src != "text" {
		return ""
	}
	return "|" + r.name[:strings.IndexAny(r.name+"#", "#")]
}

func firstDiff(a, b string) string {
	la, lb := strings.Split(a, "\n"), strings.Split(b, "\n")
	for i := 0; i < len(la) && i < len(lb); i++ {
		if la[i] != lb[i] {
			return fmt.Sprintf("line %d: input %q, printed %q", i+1, la[i], lb[i])
		}
	}
	return fmt.Sprintf("input %d lines, printed %d lines", len(la), len(lb))
}

var reBadRow = regexp.MustCompile(`<<"BADROW", "([^"]+)", "([^"]+)", (\d+)>>`)

// judge runs MetadataTrace over the recorded rows and classifies the BADROW list.
func judge(rep *mbt.Report, irRows []irRow, vectors []irVector, prs []*parseRow) {
	t := mbt.MustTLC(mbt.TLCOpts{Spec: "MetadataTrace", Cfg: "MetadataTrace.cfg", Workers: 8, Timeout: 20 * time.Minute,
		Data: map[string][]byte{"md_ir_rec.ndjson": mbt.NDJSONBytes(irRows), "md_parse_rec.ndjson": mbt.NDJSONBytes(prs)}})
	defer t.Cleanup()
	if len(t.Violated) > 0 {
		mbt.Infra("MetadataTrace: unexpected violation %v", t.Violated)
	}
	if t.Distinct != int64(len(irRows)+len(prs))+1 {
		mbt.Infra("MetadataTrace consumed %d rows of %d", t.Distinct-1, len(irRows)+len(prs))
	}
	rep.AddTLC(t)
	rep.TracesValidated += len(irRows) + len(prs)
	for _, m := range reBadRow.FindAllStringSubmatch(t.Output, -1) {
		file, law := m[1], m[2]
		ri, _ := strconv.Atoi(m[3])
		if law == "want-transport" {
			mbt.Infra("MetadataTrace: row %d: the transported `want` differs from WantOf(pat)", ri)
		}
		if file == "ir" {
			row := irRows[ri-1]
			var want interface{}
			if vectors != nil {
				want = vectors[ri-1].Want
			}
			rep.Fail(mbt.Failure{Signature: "C17|ir|" + law + "|" + idsClass(row.IDs),
				What: fmt.Sprintf("definition list %v with operands %v: law %s fails; the code printed %+v, the specification requires %+v", row.IDs, row.Refs, law, row.Got, want),
				Case: map[string]interface{}{"kind": "ir", "ids": row.IDs, "refs": row.Refs}})
			continue
		}
		r := prs[ri-1]
		rep.Fail(mbt.Failure{Signature: "C17|parse|" + law + "|" + r.Src + r.kindTag(),
			What: fmt.Sprintf("%s: law %s fails on the parsed module: %s", r.name, law, explain(r, law)),
			Case: map[string]interface{}{"kind": "parse", "src": r.Src, "name": r.name, "text": r.text, "want": r.Want, "pat": r.Pat}})
	}
}

// explain names the first place where the observation differs from what is required.
func explain(r *parseRow, law string) string {
	var w, o map[string]interface{}
	wb, _ := json.Marshal(r.Want)
	ob, _ := json.Marshal(r.Obs)
	if strings.HasSuffix(law, "-after-reprint") {
		ob, _ = json.Marshal(r.Obs2)
	}
	json.Unmarshal(wb, &w)
	json.Unmarshal(ob, &o)
	js := func(v interface{}) string { b, _ := json.Marshal(v); return mbt.Truncate(string(b), 300) }
	wd, _ := w["defs"].([]interface{})
	od, _ := o["defs"].([]interface{})
	if len(wd) != len(od) {
		return fmt.Sprintf("%d definitions required, %d found", len(wd), len(od))
	}
	for i := range wd {
		wm, _ := wd[i].(map[string]interface{})
		om, _ := od[i].(map[string]interface{})
		if _, has := wm["kind"]; !has {
			delete(om, "kind")
		}
		if js(wm) != js(om) {
			return fmt.Sprintf("definition %d: required %s, observed %s", i, js(wm), js(om))
		}
	}
	if js(w["named"]) != js(o["named"]) {
		return fmt.Sprintf("named metadata: required %s, observed %s", js(w["named"]), js(o["named"]))
	}
	if js(w["sites"]) != js(o["sites"]) {
		return fmt.Sprintf("attachment sites: required %s, observed %s", js(w["sites"]), js(o["sites"]))
	}
	var ids []interface{}
	for _, d := range wd {
		ids = append(ids, d.(map[string]interface{})["id"])
	}
	return fmt.Sprintf("printed definition IDs %v (required %v), printed tokens %v", r.Printed.IDs, ids, r.Printed.Tokens)
}

func runReplay(rep *mbt.Report, path string) {
	var rf struct {
		Failures []struct {
			Case map[string]interface{} `json:"case"`
		} `json:"failures"`
	}
	if err := mbt.ReadJSON(path, &rf); err != nil {
		mbt.Infra("replay %s: %v", path, err)
	}
	var irRows []irRow
	var prs []*parseRow
	for _, f := range rf.Failures {
		c := f.Case
		switch c["kind"] {
		case "ir":
			var v irVector
			for _, x := range c["ids"].([]interface{}) {
				v.IDs = append(v.IDs, int64(x.(float64)))
			}
			if rr, ok := c["refs"].([]interface{}); ok {
				for _, x := range rr {
					var l []int
					if xs, ok := x.([]interface{}); ok {
						for _, y := range xs {
							l = append(l, int(y.(float64)))
						}
					}
					v.Refs = append(v.Refs, l)
				}
			}
			for len(v.Refs) < len(v.IDs) {
				v.Refs = append(v.Refs, []int{})
			}
			row, _, extra := runIR(v)
			rep.Count(fmt.Sprintf("ir:%v", v.IDs), true)
			if extra != "" {
				rep.Fail(mbt.Failure{Signature: "C17|ir|" + extraClass(extra) + "|" + idsClass(v.IDs), What: extra, Case: c})
			}
			irRows = append(irRows, row)
		case "negative":
			negatives(rep)
		case "parse":
			src, _ := c["src"].(string)
			text, _ := c["text"].(string)
			pat, _ := c["pat"].(map[string]interface{})
			name, _ := c["name"].(string)
			if name == "" {
				name = "replay#"
			}
			r := &parseRow{Src: src, Pat: pat, Want: c["want"], text: text, name: name}
			if src == "text" {
				r.Want = wantFromText(text)
			}
			prs = append(prs, r)
		}
	}
	prs = processParseRows(rep, prs, 1, 0)
	if len(irRows)+len(prs) > 0 {
		judge(rep, irRows, nil, prs)
	}
}

var _ = sort.Strings
