// Package c17 checks property C17 (not built yet).
package c17

import (
	"verif/harness/mbt"
	"verif/harness/props/reg"
)

func init() { reg.Register("C17", Run) }

// Run is the C17 check.
func Run(tier, replay string) { mbt.Infra("check C17 is not built yet") }
