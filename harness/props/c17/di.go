package c17

import (
	"fmt"
	"math/rand"
	"reflect"
	"regexp"
	"sort"
	"strconv"
	"strings"

	"verif/harness/llvmoracle"
	"verif/harness/mbt"
	"verif/harness/props/modgen"
)

// The specialised metadata nodes: one module that uses all 28 node kinds of
// ir/metadata in a way LLVM 14 verifies, written field by field so that subsets
// of the optional fields can be generated. Which fields LLVM requires is not
// assumed: it is asked of llvm-as at run time (single-field removals).

type diField struct{ Name, Val string }

type diDef struct {
	ID       int
	Distinct bool
	Kind     string // "" = plain tuple
	Fields   []diField
}

func fl(kv ...string) []diField {
	var out []diField
	for i := 0; i+1 < len(kv); i += 2 {
		out = append(out, diField{kv[i], kv[i+1]})
	}
	return out
}

const diHeader = `@g = global i32 0, !dbg !12

declare void @llvm.dbg.value(metadata, metadata, metadata)

define void @f() !dbg !19 {
  call void @llvm.dbg.value(metadata i32 0, metadata !27, metadata !DIExpression()), !dbg !31
  ret void, !dbg !31
}

!keep = !{!33, !35, !36, !37, !38, !39, !40, !30, !41}
!llvm.dbg.cu = !{!0}
!llvm.module.flags = !{!1}

`

// diWantSites is what the scaffold above requires of the attachment sites.
func diWantSites() map[string]interface{} {
	ref := func(id int) op { return op{"k": "ref", "id": id, "same": true} }
	one := func(name string, id int) []att { return []att{{Name: name, Node: ref(id)}} }
	return map[string]interface{}{"global": one("dbg", 12), "decl": []att{}, "func": one("dbg", 19), "inst": one("dbg", 31), "term": one("dbg", 31),
		"args": []op{ref(27), {"k": "tuple", "id": -1, "ops": []op{}}}}
}

func diDefs() []diDef {
	return []diDef{
		{0, true, "DICompileUnit", fl("language", "DW_LANG_C99", "file", "!2", "producer", `"p"`, "isOptimized", "false", "runtimeVersion", "0", "emissionKind", "FullDebug", "enums", "!3", "retainedTypes", "!4", "globals", "!5", "imports", "!6", "macros", "!7")},
		{1, false, "", fl("", "i32 2", "", `!"Debug Info Version"`, "", "i32 3")},
		{2, false, "DIFile", fl("filename", `"a.c"`, "directory", `"/tmp"`)},
		{3, false, "", fl("", "!8")},
		{4, false, "", fl("", "!9")},
		{5, false, "", fl("", "!12")},
		{6, false, "", fl("", "!14")},
		{7, false, "", fl("", "!16")},
		{8, false, "DICompositeType", fl("tag", "DW_TAG_enumeration_type", "name", `"E"`, "file", "!2", "line", "1", "baseType", "!9", "size", "32", "elements", "!10")},
		{9, false, "DIBasicType", fl("name", `"int"`, "size", "32", "encoding", "DW_ATE_signed")},
		{10, false, "", fl("", "!11")},
		{11, false, "DIEnumerator", fl("name", `"A"`, "value", "0")},
		{12, false, "DIGlobalVariableExpression", fl("var", "!13", "expr", "!DIExpression()")},
		{13, true, "DIGlobalVariable", fl("name", `"g"`, "scope", "!0", "file", "!2", "line", "1", "type", "!9", "isLocal", "false", "isDefinition", "true")},
		{14, false, "DIImportedEntity", fl("tag", "DW_TAG_imported_module", "scope", "!0", "entity", "!15", "file", "!2", "line", "1")},
		{15, false, "DINamespace", fl("name", `"ns"`, "scope", "null")},
		{16, false, "DIMacroFile", fl("file", "!2", "nodes", "!17")},
		{17, false, "", fl("", "!18")},
		{18, false, "DIMacro", fl("type", "DW_MACINFO_define", "line", "1", "name", `"M"`, "value", `"1"`)},
		{19, true, "DISubprogram", fl("name", `"f"`, "scope", "!2", "file", "!2", "line", "1", "type", "!20", "scopeLine", "1", "spFlags", "DISPFlagDefinition", "unit", "!0", "templateParams", "!21", "retainedNodes", "!24")},
		{20, false, "DISubroutineType", fl("types", "!22")},
		{21, false, "", fl("", "!25", "", "!26")},
		{22, false, "", fl("", "null", "", "!23")},
		{23, false, "DIDerivedType", fl("tag", "DW_TAG_pointer_type", "baseType", "!9", "size", "64")},
		{24, false, "", fl("", "!27", "", "!28")},
		{25, false, "DITemplateTypeParameter", fl("name", `"T"`, "type", "!9")},
		{26, false, "DITemplateValueParameter", fl("name", `"V"`, "type", "!9", "value", "i32 1")},
		{27, false, "DILocalVariable", fl("name", `"x"`, "scope", "!29", "file", "!2", "line", "2", "type", "!9")},
		{28, false, "DILabel", fl("scope", "!29", "name", `"l"`, "file", "!2", "line", "3")},
		{29, true, "DILexicalBlock", fl("scope", "!19", "file", "!2", "line", "2", "column", "1")},
		{30, false, "DILexicalBlockFile", fl("scope", "!29", "file", "!2", "discriminator", "1")},
		{31, false, "DILocation", fl("line", "2", "column", "1", "scope", "!29")},
		{32, false, "DISubrange", fl("count", "4", "lowerBound", "0")},
		{33, false, "DICompositeType", fl("tag", "DW_TAG_array_type", "baseType", "!9", "size", "128", "elements", "!34")},
		{34, false, "", fl("", "!32")},
		{35, false, "DIModule", fl("scope", "null", "name", `"m"`)},
		{36, false, "DIObjCProperty", fl("name", `"p"`, "file", "!2", "line", "1", "type", "!9")},
		{37, false, "DIStringType", fl("name", `"s"`, "size", "32")},
		{38, false, "DICommonBlock", fl("scope", "!19", "declaration", "!13", "name", `"c"`, "file", "!2", "line", "1")},
		{39, false, "GenericDINode", fl("tag", "DW_TAG_member", "header", `"h"`, "operands", "{!9, null}")},
		{40, false, "DIExpression", fl("", "DW_OP_deref")},
		{41, false, "DILocation", fl("line", "3", "column", "1", "scope", "!29", "inlinedAt", "!31")},
	}
}

// renderDI renders the module; drop[id] is the set of field indexes left out.
// The definitions are written in a rotated order so that forward references,
// backward references and sparse textual positions all occur.
func renderDI(defs []diDef, drop map[int]map[int]bool, rot int) string {
	var sb strings.Builder
	sb.WriteString(diHeader)
	n := len(defs)
	for k := 0; k < n; k++ {
		d := defs[(k+rot)%n]
		var parts []string
		for i, f := range d.Fields {
			if drop[d.ID][i] {
				continue
			}
			if f.Name == "" {
				parts = append(parts, f.Val)
			} else {
				parts = append(parts, f.Name+": "+f.Val)
			}
		}
		dist := ""
		if d.Distinct {
			dist = "distinct "
		}
		if d.Kind == "" {
			fmt.Fprintf(&sb, "!%d = %s!{%s}\n", d.ID, dist, strings.Join(parts, ", "))
		} else {
			fmt.Fprintf(&sb, "!%d = %s!%s(%s)\n", d.ID, dist, d.Kind, strings.Join(parts, ", "))
		}
	}
	return sb.String()
}

// specialisedRows returns the text rows of the specialised node kinds: the full
// module in several textual orders and variants with subsets of the fields LLVM
// does not require.
func specialisedRows(tier string, rng *rand.Rand) ([]*parseRow, map[string]interface{}) {
	defs := diDefs()
	info := map[string]interface{}{}
	base := renderDI(defs, nil, 0)
	if ok, diag := llvmoracle.Accepts(base); !ok {
		mbt.Infra("llvm-as rejects the base module of the specialised nodes: %s", diag)
	}
	// ask LLVM which single fields can be left out
	type fid struct{ def, field int }
	var all []fid
	for _, d := range defs {
		if d.Kind == "" || d.Kind == "DIExpression" {
			continue
		}
		for i := range d.Fields {
			all = append(all, fid{d.ID, i})
		}
	}
	optional := make([]bool, len(all))
	llvmoracle.Parallel(len(all), func(i int) {
		ok, _ := llvmoracle.Accepts(renderDI(defs, map[int]map[int]bool{all[i].def: {all[i].field: true}}, 0))
		optional[i] = ok
	})
	var opt []fid
	req := map[string][]string{}
	for i, f := range all {
		if optional[i] {
			opt = append(opt, f)
		} else {
			d := defs[f.def]
			req[d.Kind] = append(req[d.Kind], d.Fields[f.field].Name)
		}
	}
	info["di_fields_total"] = len(all)
	info["di_fields_llvm_requires"] = req
	kinds := map[string]bool{}
	for _, d := range defs {
		if d.Kind != "" {
			kinds[d.Kind] = true
		}
	}
	info["di_kinds"] = len(kinds)

	var rows []*parseRow
	add := func(name, text string) {
		rows = append(rows, &parseRow{Src: "text", Want: wantFromText(text), text: text, name: name})
	}
	for _, rot := range []int{0, 1, 17, len(defs) - 1} {
		add(fmt.Sprintf("di28#rot%d", rot), renderDI(defs, nil, rot))
	}
	// every optional field left out alone (names the kind in the signature)
	for _, f := range opt {
		d := defs[f.def]
		add(fmt.Sprintf("%s#without-%s", d.Kind, d.Fields[f.field].Name), renderDI(defs, map[int]map[int]bool{f.def: {f.field: true}}, f.def%7))
	}
	// random subsets of the optional fields
	nv := 40
	if tier == "thorough" {
		nv = 400
	}
	for v := 0; v < nv; v++ {
		drop := map[int]map[int]bool{}
		p := []float64{0.15, 0.4, 0.8}[v%3]
		for _, f := range opt {
			if rng.Float64() < p {
				if drop[f.def] == nil {
					drop[f.def] = map[int]bool{}
				}
				drop[f.def][f.field] = true
			}
		}
		add(fmt.Sprintf("di28#subset%d", v), renderDI(defs, drop, rng.Intn(len(defs))))
	}
	// non-canonical spellings of the same IDs (an ID is its decimal value): definitions with a leading
	// zero (!00, !08, !010, !019 ...), references with two, and both
	for _, sp := range [][2]string{{"0", ""}, {"", "00"}, {"00", "0"}} {
		add(fmt.Sprintf("di28#spelled-defs=%q-refs=%q", sp[0], sp[1]), respell(renderDI(defs, nil, 5), sp[0], sp[1]))
	}
	// the same module with every ID moved up to a boundary of the ID scale (a table of small IDs, a 16-bit cast,
	// the end of TLC's integers); the attachment sites are not prescribed for these (only identity is judged there)
	for _, off := range []int64{1000, 65520, 1<<30 - 20} {
		text := reindex(renderDI(defs, nil, 7), off)
		if ok, diag := llvmoracle.Accepts(text); !ok {
			mbt.Infra("llvm-as rejects the specialised-node module with IDs moved up by %d: %s", off, diag)
		}
		rows = append(rows, &parseRow{Src: "text", Want: wantFromText(text), text: text, name: fmt.Sprintf("di28#ids-moved-up-by-%d", off), freeSites: true})
	}
	rows = append(rows, positionRows(defs)...)
	drows, rejected := distinctRows(defs)
	rows = append(rows, drows...)
	info["di_distinct_rows"] = len(drows)
	info["di_distinct_rows_rejected_by_llvm"] = rejected
	// hand-written texts with less usual field shapes (references through generic fields,
	// self-referencing composite, inline specialised nodes inside fields, nested inline tuples)
	for _, e := range extraTexts {
		if ok, diag := llvmoracle.Accepts(e.text); !ok {
			mbt.Infra("llvm-as rejects extra text %s: %s", e.name, diag)
		}
		rows = append(rows, &parseRow{Src: "text", Want: wantFromText(e.text), text: e.text, name: e.name, freeSites: true})
	}
	info["di_texts"] = len(rows)
	return rows, info
}

// --- reading the required structure off a text ---------------------------------------

var reNamedLine = regexp.MustCompile(`(?m)^!([A-Za-z_][\w.]*) = !\{(.*)\}$`)

// parseOps reads the references and inline nodes of a piece of metadata text.
func parseOps(s string) []op {
	out := []op{}
	i := 0
	// keyword of the field an operand is written in (`name: <operand>`), lower-cased; "" for list elements
	kw := func(at int) string {
		j := at
		for j > 0 && s[j-1] == ' ' {
			j--
		}
		if j == 0 || s[j-1] != ':' {
			return ""
		}
		e := j - 1
		b := e
		for b > 0 && (s[b-1] == '_' || s[b-1] >= 'A' && s[b-1] <= 'Z' || s[b-1] >= 'a' && s[b-1] <= 'z' || s[b-1] >= '0' && s[b-1] <= '9') {
			b--
		}
		return strings.ToLower(s[b:e])
	}
	matching := func(open, close byte, from int) int { // index of the bracket matching s[from]
		depth := 0
		for j := from; j < len(s); j++ {
			switch s[j] {
			case '"':
				j++
				for j < len(s) && s[j] != '"' {
					if s[j] == '\\' {
						j++
					}
					j++
				}
			case open:
				depth++
			case close:
				depth--
				if depth == 0 {
					return j
				}
			}
		}
		return len(s) - 1
	}
	for i < len(s) {
		c := s[i]
		switch {
		case c == '"':
			i++
			for i < len(s) && s[i] != '"' {
				if s[i] == '\\' {
					i++
				}
				i++
			}
			i++
		case c == '!' && i+1 < len(s) && s[i+1] >= '0' && s[i+1] <= '9':
			j := i + 1
			for j < len(s) && s[j] >= '0' && s[j] <= '9' {
				j++
			}
			id, _ := strconv.Atoi(s[i+1 : j])
			out = append(out, op{"k": "ref", "id": id, "same": true, "f": kw(i)})
			i = j
		case c == '!' && i+1 < len(s) && s[i+1] == '{':
			e := matching('{', '}', i+1)
			out = append(out, op{"k": "tuple", "id": -1, "ops": parseOps(s[i+2 : e]), "f": kw(i)})
			i = e + 1
		case c == '!' && i+1 < len(s) && (s[i+1] >= 'A' && s[i+1] <= 'Z'):
			j := i + 1
			for j < len(s) && (s[j] == '_' || s[j] >= 'A' && s[j] <= 'Z' || s[j] >= 'a' && s[j] <= 'z' || s[j] >= '0' && s[j] <= '9') {
				j++
			}
			if j < len(s) && s[j] == '(' {
				e := matching('(', ')', j)
				out = append(out, op{"k": "tuple", "id": -1, "ops": parseOps(s[j+1 : e]), "f": kw(i)})
				i = e + 1
			} else {
				i = j
			}
		default:
			i++
		}
	}
	return out
}

// wantFromText reads off a module text what the property requires of its parse.
func wantFromText(text string) map[string]interface{} {
	type def struct {
		ID       int64  `json:"id"`
		Distinct bool   `json:"distinct"`
		Ops      []op   `json:"ops"`
		Kind     string `json:"kind"`
	}
	var defs []def
	for _, m := range reDefLine.FindAllStringSubmatch(text, -1) {
		id, _ := strconv.ParseInt(m[1], 10, 64)
		rhs := m[3]
		kind := "Tuple"
		if strings.HasPrefix(rhs, "!") && !strings.HasPrefix(rhs, "!{") {
			kind = rhs[1:strings.IndexByte(rhs, '(')]
		}
		ops := parseOps(rhs)
		inner := []op{}
		if len(ops) == 1 {
			if x, ok := ops[0]["ops"].([]op); ok {
				inner = x
			}
		}
		defs = append(defs, def{ID: id, Distinct: m[2] != "", Ops: inner, Kind: kind})
	}
	sort.Slice(defs, func(i, j int) bool { return defs[i].ID < defs[j].ID })
	type named struct {
		Name  string `json:"name"`
		Nodes []op   `json:"nodes"`
	}
	merged := map[string]*named{}
	var names []string
	for _, m := range reNamedLine.FindAllStringSubmatch(text, -1) {
		if _, err := strconv.Atoi(m[1]); err == nil {
			continue
		}
		if merged[m[1]] == nil {
			merged[m[1]] = &named{Name: m[1], Nodes: []op{}}
			names = append(names, m[1])
		}
		merged[m[1]].Nodes = append(merged[m[1]].Nodes, parseOps(m[2])...)
	}
	sort.Strings(names)
	nl := []named{}
	for _, n := range names {
		nl = append(nl, *merged[n])
	}
	if defs == nil {
		defs = []def{}
	}
	return map[string]interface{}{"defs": defs, "named": nl, "sites": diWantSites()}
}

var extraTexts = []struct{ name, text string }{
	{"extra#field-shapes", `@g = global i32 0, !dbg !12

declare !foo !1 void @decl()

declare void @llvm.dbg.value(metadata, metadata, metadata)

define void @f(i32 %x) !dbg !19 {
  call void @llvm.dbg.value(metadata !DIArgList(i32 %x), metadata !27, metadata !DIExpression(DW_OP_LLVM_arg, 0)), !dbg !31
  ret void, !dbg !31
}

!keep = !{!33, !42, !43, !44, !45, !46, !47, !48}
!llvm.dbg.cu = !{!0}
!llvm.module.flags = !{!1}

!0 = distinct !DICompileUnit(language: DW_LANG_C99, file: !2, emissionKind: FullDebug, globals: !5)
!1 = !{i32 2, !"Debug Info Version", i32 3}
!2 = !DIFile(filename: "a.c", directory: "/tmp", checksumkind: CSK_MD5, checksum: "00000000000000000000000000000000")
!5 = !{!12}
!9 = !DIBasicType(name: "int", size: 32, encoding: DW_ATE_signed)
!12 = !DIGlobalVariableExpression(var: !13, expr: !DIExpression())
!13 = distinct !DIGlobalVariable(name: "g", scope: !15, file: !2, line: 1, type: !9, isLocal: false, isDefinition: true, declaration: !46)
!15 = !DINamespace(name: "ns", scope: null)
!19 = distinct !DISubprogram(name: "f", scope: !15, file: !2, line: 1, type: !20, scopeLine: 1, spFlags: DISPFlagDefinition, unit: !0, declaration: !42, retainedNodes: !24)
!20 = !DISubroutineType(types: !22)
!22 = !{null, !9}
!24 = !{!27}
!27 = !DILocalVariable(name: "x", arg: 1, scope: !19, file: !2, line: 2, type: !9)
!31 = !DILocation(line: 2, column: 1, scope: !19)
!32 = !DISubrange(count: !27, lowerBound: !DIExpression(DW_OP_constu, 1))
!33 = !DICompositeType(tag: DW_TAG_array_type, baseType: !9, size: 128, elements: !34, dataLocation: !DIExpression(DW_OP_push_object_address))
!34 = !{!32}
!42 = !DISubprogram(name: "f", scope: !15, file: !2, line: 1, type: !20, spFlags: 0)
!43 = !DICompositeType(tag: DW_TAG_structure_type, name: "S", scope: !15, file: !2, line: 1, size: 32, elements: !49, vtableHolder: !43, templateParams: !50, identifier: "_S")
!44 = !{!"a", !{!"b", !{}}, i64 5, double 1.0, i8* null}
!45 = !DIDerivedType(tag: DW_TAG_typedef, name: "T", scope: !19, file: !2, line: 1, baseType: !43)
!46 = !DIDerivedType(tag: DW_TAG_member, name: "m", scope: !43, file: !2, line: 1, baseType: !9, size: 32, flags: DIFlagStaticMember, extraData: i32 7)
!47 = !DIImportedEntity(tag: DW_TAG_imported_declaration, scope: !19, entity: !13, file: !2, line: 1, elements: !51)
!48 = !DIObjCProperty(name: "p", file: !2, line: 1, setter: "s", getter: "g", attributes: 1, type: !9)
!49 = !{!46}
!50 = !{!52}
!51 = !{}
!52 = !DITemplateTypeParameter(type: !9, defaulted: true)
`},
	{"extra#inline-nodes", `define void @f() !dbg !19 {
  ret void, !dbg !DILocation(line: 2, column: 1, scope: !19, inlinedAt: !DILocation(line: 3, scope: !19))
}
!keep = !{!33, !43, !60, !61}
!llvm.dbg.cu = !{!0}
!llvm.module.flags = !{!1}
!0 = distinct !DICompileUnit(language: DW_LANG_C99, file: !DIFile(filename: "a.c", directory: "/tmp"), emissionKind: FullDebug, retainedTypes: !{!9})
!1 = !{i32 2, !"Debug Info Version", i32 3}
!9 = !DIBasicType(name: "int", size: 32, encoding: DW_ATE_signed)
!19 = distinct !DISubprogram(name: "f", scope: !DIFile(filename: "a.c", directory: "/tmp"), file: !DIFile(filename: "a.c", directory: "/tmp"), line: 1, type: !DISubroutineType(types: !{null, !9}), scopeLine: 1, spFlags: DISPFlagDefinition, unit: !0, retainedNodes: !{})
!33 = !DICompositeType(tag: DW_TAG_array_type, baseType: !DIBasicType(name: "char", size: 8, encoding: DW_ATE_signed_char), size: 128, elements: !{!DISubrange(count: 4)})
!43 = !DICompositeType(tag: DW_TAG_structure_type, name: "S", size: 32, elements: !{!DIDerivedType(tag: DW_TAG_member, name: "m", baseType: !9, size: 32)})
!60 = !GenericDINode(tag: DW_TAG_member, operands: {!{!9}, !"x", !GenericDINode(tag: 3)})
!61 = distinct !{!61, !"llvm.loop.name"}
`},
}

// positionRows: for every specialised node kind, a numbered definition of that
// kind referenced from every kind of reference position: a tuple field, a named
// metadata definition, an attachment on a global and on an instruction, a
// `metadata !N` call argument, a field of another specialised node (the generic
// operand list of a GenericDINode for every kind, and the typed fields LLVM
// allows in addition: expr:, count:, dataLocation:, entity:, scope:, ...). The
// laws of MetadataTrace then require, per kind and position, that the parser
// hands out MetadataDefs[N], that the printer writes !N, and that the printed
// text parses back to the same structure.
func positionRows(defs []diDef) []*parseRow {
	repr := map[string]int{} // kind -> a numbered definition of that kind
	var kinds []string
	for _, d := range defs {
		k := d.Kind
		if k == "" {
			k = "Tuple"
		}
		if _, ok := repr[k]; !ok {
			repr[k] = d.ID
			kinds = append(kinds, k)
		}
	}
	sort.Strings(kinds)
	// typed fields of other specialised nodes that may refer to a node of the kind (LLVM 14 accepts these)
	extra := map[string][]string{
		"DIExpression":     {`!DIGlobalVariableExpression(var: !13, expr: !%d)`, `!DISubrange(count: !%d)`, `!DICompositeType(tag: DW_TAG_array_type, baseType: !9, dataLocation: !%d)`},
		"DILocalVariable":  {`!DISubrange(count: !%d)`},
		"DIGlobalVariable": {`!DISubrange(count: !%d)`},
		"DIBasicType":      {`!DIDerivedType(tag: DW_TAG_typedef, name: "T", baseType: !%d)`, `!DIImportedEntity(tag: DW_TAG_imported_declaration, scope: !0, entity: !%d)`},
		"DIFile":           {`!DINamespace(name: "n", scope: !%d)`},
		"DISubprogram":     {`!DIImportedEntity(tag: DW_TAG_imported_declaration, scope: !0, entity: !%d)`, `!DILexicalBlock(scope: !%d, line: 1)`},
		"DINamespace":      {`!DIImportedEntity(tag: DW_TAG_imported_module, scope: !0, entity: !%d)`},
		"DIModule":         {`!DIImportedEntity(tag: DW_TAG_imported_module, scope: !0, entity: !%d)`},
		"DICompositeType":  {`!DIDerivedType(tag: DW_TAG_member, name: "m", scope: !%d, baseType: !9)`},
		"DILocation":       {`!DILocation(line: 9, scope: !29, inlinedAt: !%d)`},
		"DICompileUnit":    {`!DIImportedEntity(tag: DW_TAG_imported_module, scope: !%d, entity: !15)`},
	}
	var rows []*parseRow
	for _, k := range kinds {
		id := repr[k]
		var sb strings.Builder
		fmt.Fprintf(&sb, "@g = global i32 0, !foo !%d\n\n", id)
		sb.WriteString("declare void @llvm.dbg.value(metadata, metadata, metadata)\n\ndeclare i1 @llvm.type.test(i8*, metadata)\n\n")
		sb.WriteString("define void @f() !dbg !19 {\n")
		fmt.Fprintf(&sb, "  %%1 = call i1 @llvm.type.test(i8* null, metadata !%d), !foo !%d\n", id, id)
		sb.WriteString("  call void @llvm.dbg.value(metadata i32 0, metadata !27, metadata !DIExpression()), !dbg !31\n  ret void, !dbg !31\n}\n\n")
		fmt.Fprintf(&sb, "!keep = !{!33, !35, !36, !37, !38, !39, !40, !30, !41, !100, !101")
		for i := range extra[k] {
			fmt.Fprintf(&sb, ", !%d", 102+i)
		}
		sb.WriteString("}\n!llvm.dbg.cu = !{!0}\n!llvm.module.flags = !{!1}\n")
		fmt.Fprintf(&sb, "!refs = !{!%d, !%d}\n\n", id, id)
		body := renderDI(defs, nil, id%len(defs))
		sb.WriteString(body[len(diHeader):])
		fmt.Fprintf(&sb, "!100 = !{!%d, null, !%d}\n", id, id)
		fmt.Fprintf(&sb, "!101 = !GenericDINode(tag: DW_TAG_member, operands: {!%d, null})\n", id)
		for i, f := range extra[k] {
			fmt.Fprintf(&sb, "!%d = %s\n", 102+i, fmt.Sprintf(f, id))
		}
		text := sb.String()
		w := wantFromText(text)
		ref := func(n int) op { return op{"k": "ref", "id": n, "same": true} }
		one := func(name string, n int) []att { return []att{{Name: name, Node: ref(n)}} }
		w["sites"] = map[string]interface{}{"global": one("foo", id), "decl": []att{}, "func": one("dbg", 19), "inst": one("foo", id), "term": one("dbg", 31),
			"args": []op{ref(id), ref(27), {"k": "tuple", "id": -1, "ops": []op{}}}}
		rows = append(rows, &parseRow{Src: "text", Want: w, text: text, name: k + "@every-position#"})
	}
	return rows
}

// distinctRows: the `distinct` dimension of the numbered definitions. For every node kind K (the 28
// specialised kinds and plain tuples) the base module with every numbered definition of kind K written
// `distinct` (K@distinct) and with none of them distinct (K@uniqued), plus the module with every definition
// distinct and with none. What the property requires (the flag of each definition, law `distinct` of
// MetadataTrace.tla, on the parsed module and on the re-parsed print) is read off the text. LLVM decides
// which of these texts are valid (a compile unit must be distinct, ...): a rejected text is not a row;
// the names of the rejected ones are reported in the evidence.
func distinctRows(defs []diDef) (rows []*parseRow, rejected []string) {
	var kinds []string
	seen := map[string]bool{}
	kindOf := func(d diDef) string {
		if d.Kind == "" {
			return "Tuple"
		}
		return d.Kind
	}
	for _, d := range defs {
		if k := kindOf(d); !seen[k] {
			seen[k] = true
			kinds = append(kinds, k)
		}
	}
	sort.Strings(kinds)
	type cand struct{ name, text string }
	var cands []cand
	variant := func(name string, rot int, flag func(d diDef) bool) {
		cp := append([]diDef{}, defs...)
		changed := false
		for i := range cp {
			if v := flag(cp[i]); v != cp[i].Distinct {
				cp[i].Distinct = v
				changed = true
			}
		}
		if changed {
			cands = append(cands, cand{name, renderDI(cp, nil, rot%len(defs))})
		}
	}
	for i, k := range kinds {
		k := k
		variant(k+"@distinct#", i, func(d diDef) bool { return d.Distinct || kindOf(d) == k })
		variant(k+"@uniqued#", i+3, func(d diDef) bool { return d.Distinct && kindOf(d) != k })
	}
	variant("all-kinds@distinct#", 2, func(d diDef) bool { return true })
	variant("all-kinds@uniqued#", 9, func(d diDef) bool { return false })
	// every kind distinct except those LLVM refuses alone
	ok := make([]bool, len(cands))
	llvmoracle.Parallel(len(cands), func(i int) { ok[i], _ = llvmoracle.Accepts(cands[i].text) })
	refused := map[string]bool{}
	rejected = []string{}
	for i, c := range cands {
		if !ok[i] {
			rejected = append(rejected, strings.TrimSuffix(c.name, "#"))
			if strings.HasSuffix(c.name, "@distinct#") {
				refused[strings.TrimSuffix(c.name, "@distinct#")] = true
			}
			continue
		}
		rows = append(rows, &parseRow{Src: "text", Want: wantFromText(c.text), text: c.text, name: c.name})
	}
	if !ok[len(cands)-2] {
		cp := append([]diDef{}, defs...)
		for i := range cp {
			cp[i].Distinct = cp[i].Distinct || !refused[kindOf(cp[i])]
		}
		text := renderDI(cp, nil, 2)
		if a, _ := llvmoracle.Accepts(text); a {
			rows = append(rows, &parseRow{Src: "text", Want: wantFromText(text), text: text, name: "all-kinds-llvm-allows@distinct#"})
		} else {
			rejected = append(rejected, "all-kinds-llvm-allows@distinct")
		}
	}
	return rows, rejected
}

var reDefID = regexp.MustCompile(`(?m)^!(\d+) = `)
var reRefID = regexp.MustCompile(`([ ({,])!(\d+)`)

// respell writes the numeric metadata IDs of a text with leading zeros: zd in
// front of the IDs of definitions, zr in front of the IDs of references.
func respell(text, zd, zr string) string {
	text = reRefID.ReplaceAllString(text, "${1}!"+zr+"${2}")
	return reDefID.ReplaceAllString(text, "!"+zd+"${1} = ")
}

// --- rows from the debug-info families of spec/Modules.tla ----------------------------------

// modulesDIRows turns every debug-info configuration TLC enumerates from Modules.tla (each alternative of each
// field alone, the listed pairs, all optional fields at once; fields in table order, reversed, and the node
// written inline) into a text row. The required structure is read off the text; since the fields of a
// specialised node may be written in any order, operands are compared sorted by field keyword.
func modulesDIRows(rep *mbt.Report) []*parseRow {
	var rows []*parseRow
	seen := map[string]bool{}
	for _, v := range modgen.Generate(rep, "DI*") {
		if !v.DI || !v.Repr {
			continue
		}
		text := v.Text()
		if seen[text] {
			continue
		}
		seen[text] = true
		w := wantFromText(text)
		sortWantByField(w)
		form := v.Form
		if form == "" {
			form = "fwd"
		}
		rows = append(rows, &parseRow{Src: "text", Want: w, text: text, name: v.Fam + "#modules.tla@" + form + "#", freeSites: true, Unordered: true})
	}
	return rows
}

func opsOf(x interface{}) []op {
	switch v := x.(type) {
	case []op:
		return v
	case []interface{}:
		out := make([]op, 0, len(v))
		for _, e := range v {
			switch m := e.(type) {
			case map[string]interface{}:
				out = append(out, op(m))
			case op:
				out = append(out, m)
			}
		}
		return out
	}
	return nil
}

// sortOps orders the operands by the field they sit in (stable: list elements, which carry no field, keep
// their order), recursively.
func sortOps(ops []op) []op {
	out := append([]op{}, ops...)
	sort.SliceStable(out, func(i, j int) bool { fi, _ := out[i]["f"].(string); fj, _ := out[j]["f"].(string); return fi < fj })
	for _, o := range out {
		if inner, ok := o["ops"]; ok {
			o["ops"] = sortOps(opsOf(inner))
		}
	}
	return out
}

func sortWantByField(w map[string]interface{}) {
	rv := reflect.ValueOf(w["defs"])
	for i := 0; i < rv.Len(); i++ {
		f := rv.Index(i).FieldByName("Ops")
		f.Set(reflect.ValueOf(sortOps(f.Interface().([]op))))
	}
}

func sortObsByField(o *observation) {
	for i := range o.Defs {
		o.Defs[i].Ops = sortOps(o.Defs[i].Ops)
	}
}
