package c17

import (
	"reflect"
	"sort"
	"strings"

	"github.com/llir/llvm/asm"
	"github.com/llir/llvm/ir"
	"github.com/llir/llvm/ir/metadata"

	"verif/harness/mbt"
)

// Cross-module isolation. Modules parsed separately live in one process; the
// property speaks of "the node object of definition !N" of *a* module, which
// only makes sense if the modules share no mutable metadata node: an inline
// `!{}` or `!DIExpression()` that is one object for all modules can be
// numbered through one module and then shows up numbered in all the others.

// metaNodes returns every object of package ir/metadata reachable from m
// (through exported and unexported fields), keyed by address; the shared null
// literal metadata.Null is the one intended singleton and is left out.
func metaNodes(m *ir.Module) map[uintptr]string {
	out := map[uintptr]string{}
	seen := map[uintptr]bool{}
	null := reflect.ValueOf(metadata.Null).Pointer()
	var walk func(v reflect.Value, depth int)
	walk = func(v reflect.Value, depth int) {
		if depth > 600 {
			return
		}
		switch v.Kind() {
		case reflect.Ptr:
			if v.IsNil() || seen[v.Pointer()] {
				return
			}
			seen[v.Pointer()] = true
			if t := v.Type().Elem(); t.Kind() == reflect.Struct && strings.HasSuffix(t.PkgPath(), "ir/metadata") && v.Pointer() != null {
				out[v.Pointer()] = t.String()
			}
			walk(v.Elem(), depth+1)
		case reflect.Interface:
			if !v.IsNil() {
				walk(v.Elem(), depth+1)
			}
		case reflect.Struct:
			if v.Type().PkgPath() == "sync" {
				return
			}
			for i := 0; i < v.NumField(); i++ {
				walk(v.Field(i), depth+1)
			}
		case reflect.Slice, reflect.Array:
			for i := 0; i < v.Len(); i++ {
				walk(v.Index(i), depth+1)
			}
		case reflect.Map:
			for _, k := range v.MapKeys() {
				walk(v.MapIndex(k), depth+1)
			}
		}
	}
	walk(reflect.ValueOf(m), 0)
	return out
}

// inlineDefs returns the metadata definitions reachable from m that carry no ID
// (inline tuples, inline specialised nodes) and are not in m.MetadataDefs.
func inlineDefs(m *ir.Module) []metadata.Definition {
	var out []metadata.Definition
	inDefs := map[metadata.Definition]bool{}
	for _, d := range m.MetadataDefs {
		inDefs[d] = true
	}
	seen := map[uintptr]bool{}
	var walk func(v reflect.Value, depth int)
	walk = func(v reflect.Value, depth int) {
		if depth > 600 {
			return
		}
		switch v.Kind() {
		case reflect.Ptr:
			if v.IsNil() || seen[v.Pointer()] {
				return
			}
			seen[v.Pointer()] = true
			if v.CanInterface() {
				if d, ok := v.Interface().(metadata.Definition); ok && d.ID() == -1 && !inDefs[d] {
					out = append(out, d)
				}
			}
			walk(v.Elem(), depth+1)
		case reflect.Interface:
			if !v.IsNil() {
				walk(v.Elem(), depth+1)
			}
		case reflect.Struct:
			t := v.Type()
			for i := 0; i < v.NumField(); i++ {
				if t.Field(i).PkgPath == "" { // exported only: the nodes have to be handed to the API
					walk(v.Field(i), depth+1)
				}
			}
		case reflect.Slice, reflect.Array:
			for i := 0; i < v.Len(); i++ {
				walk(v.Index(i), depth+1)
			}
		case reflect.Map:
			for _, k := range v.MapKeys() {
				walk(v.MapIndex(k), depth+1)
			}
		}
	}
	walk(reflect.ValueOf(m), 0)
	return out
}

func sharedTypes(a, b map[uintptr]string) []string {
	set := map[string]bool{}
	for p, t := range a {
		if _, ok := b[p]; ok {
			set[t] = true
		}
	}
	out := []string{}
	for t := range set {
		out = append(out, t)
	}
	sort.Strings(out)
	return out
}

// evalIso: parse A twice and B once; no metadata node may be shared. Then the
// history: print B; hoist every inline node of A into A.MetadataDefs and print A
// (which numbers them); B must print as before, and a fresh parse of B's text too.
func evalIso(j job, r *jobResult, phase func(string)) {
	r.SharedSame, r.SharedDiff = []string{}, []string{}
	phase("parse")
	var a1, a2, b *ir.Module
	var e1, e2, e3 error
	if _, p := mbt.Guard(func() {
		a1, e1 = asm.ParseString("a.ll", j.Text)
		a2, e2 = asm.ParseString("a.ll", j.Text)
		b, e3 = asm.ParseString("b.ll", j.Text2)
	}); p || e1 != nil || e2 != nil || e3 != nil {
		r.IsoSkipped = "a text does not parse (reported by the text rows)"
		return
	}
	na := metaNodes(a1)
	r.SharedSame = sharedTypes(na, metaNodes(a2))
	r.SharedDiff = sharedTypes(na, metaNodes(b))
	phase("print")
	var before, after, fresh string
	if _, p := mbt.Guard(func() { before = b.String() }); p {
		r.IsoSkipped = "module B cannot be printed (reported by the text rows)"
		return
	}
	inl := inlineDefs(a1)
	r.Hoisted = len(inl)
	a1.MetadataDefs = append(a1.MetadataDefs, inl...)
	mbt.Guard(func() { _ = a1.String() })
	if _, p := mbt.Guard(func() { after = b.String() }); p {
		after = "(printing panics)"
	}
	if after != before {
		r.BChanged = firstDiff(before, after)
	}
	phase("parse")
	if _, p := mbt.Guard(func() {
		c, err := asm.ParseString("b.ll", j.Text2)
		if err != nil {
			fresh = "(does not parse: " + err.Error() + ")"
			return
		}
		fresh = c.String()
	}); p {
		fresh = "(panics)"
	}
	if fresh != before {
		r.FreshDiffers = firstDiff(before, fresh)
	}
}
