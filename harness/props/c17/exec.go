package c17

import (
	"bufio"
	"bytes"
	"encoding/json"
	"fmt"
	"os"
	"os/exec"
	"path/filepath"
	"runtime"
	"runtime/debug"
	"strconv"
	"strings"
	"sync"

	"github.com/llir/llvm/asm"
	"github.com/llir/llvm/ir"
	"github.com/llir/llvm/ir/metadata"

	"verif/harness/mbt"
)

// Every call into the library under test (build + print of a definition list,
// parse + walk + print + re-parse of a text) runs in a child process: this
// binary re-executed with VERIF_C17_CHILD set. A fault that Go cannot recover
// from -- unbounded recursion while printing a cyclic node that was left
// unnumbered ends in "fatal error: stack overflow" -- then kills the child, not
// the check: the job that was running is recorded as crashed (a violation of
// the property, C17|<phase>|crash|<source>), and a new child continues with the
// next job.

const (
	childEnv      = "VERIF_C17_CHILD" // path of the job file
	childStartEnv = "VERIF_C17_START"
	childOutEnv   = "VERIF_C17_OUT"
)

// job is one unit of work for a child.
type job struct {
	Kind string `json:"kind"` // "ir" | "text"
	// ir: a definition list with operands; Ins >= 0: after the first print an unnumbered
	// definition is inserted after position Ins and the module is printed again
	IDs  []int64 `json:"ids,omitempty"`
	Refs [][]int `json:"refs,omitempty"`
	Ins  int     `json:"ins"`
	Del  int     `json:"del,omitempty"` // > 0: definition Del (from 1) is removed before the insertion
	// text
	Text     string `json:"text,omitempty"`
	KeepLits bool   `json:"keep_lits,omitempty"`
	// iso: Text is module A, Text2 module B (see isolation.go)
	Text2 string `json:"text2,omitempty"`
	// edit: Text is parsed, then the edits of a MetadataEdit.tla history are replayed (see edit.go)
	Layout string     `json:"layout,omitempty"`
	N      int        `json:"n,omitempty"`
	Edits  []editStep `json:"edits,omitempty"`
}

// jobResult is what the real code did.
type jobResult struct {
	Index int `json:"index"`
	// ir
	Got    irWant `json:"got"`
	Text   string `json:"text,omitempty"` // printed module (ir: first print; text: print of the parsed module)
	Extra  string `json:"extra,omitempty"`
	Got2   irWant `json:"got2"`
	Text2  string `json:"text2,omitempty"`
	Extra2 string `json:"extra2,omitempty"`
	// text
	ParsePanic   string      `json:"parse_panic,omitempty"`
	ParseErr     string      `json:"parse_err,omitempty"`
	PrintPanic   string      `json:"print_panic,omitempty"`
	ReparseError string      `json:"reparse_error,omitempty"`
	Obs          observation `json:"obs"`
	Obs2         observation `json:"obs2"`
	// iso
	SharedSame   []string `json:"shared_same,omitempty"`
	SharedDiff   []string `json:"shared_diff,omitempty"`
	BChanged     string   `json:"b_changed,omitempty"`
	FreshDiffers string   `json:"fresh_differs,omitempty"`
	Hoisted      int      `json:"hoisted,omitempty"`
	IsoSkipped   string   `json:"iso_skipped,omitempty"`
	// edit
	EditOps   [][]int64 `json:"edit_ops,omitempty"`
	EditOps2  [][]int64 `json:"edit_ops2,omitempty"`
	EditFrame string    `json:"edit_frame,omitempty"`
	EditPanic string    `json:"edit_panic,omitempty"`
	Layout    string    `json:"edit_slot,omitempty"` // editall: Type.Field of the edited operand list
	// set by the parent when the child died while running this job
	Crashed string `json:"crashed,omitempty"`
	Phase   string `json:"phase,omitempty"`
}

// unnumberedLeft: a definition that is still at -1 after Module.String, or a printed
// definition line that does not start with !N, means the numbering pass was skipped.
func unnumberedLeft(ts []metadata.Definition) string {
	for i, t := range ts {
		if t.ID() == -1 {
			return fmt.Sprintf("definition %d is still unnumbered (ID -1) after printing", i)
		}
	}
	return ""
}

func printIR(m *ir.Module, ts []metadata.Definition) (got irWant, text, extra string) {
	got = irWant{IDs: []int64{}, Tokens: [][]int64{}}
	_, panicked := mbt.Guard(func() { text = m.String() })
	if panicked {
		return got, "", ""
	}
	got.OK = true
	got.IDs, got.Tokens, _ = defTokens(text)
	if got.IDs == nil {
		got.IDs = []int64{}
	}
	if s := unnumberedLeft(ts); s != "" {
		extra = s
	}
	// the IDs stored on the nodes are the IDs printed, and printing again changes nothing
	for i, t := range ts {
		if extra == "" && i < len(got.IDs) && t.ID() != got.IDs[i] {
			extra = fmt.Sprintf("definition %d carries ID %d after printing but was printed as !%d", i, t.ID(), got.IDs[i])
		}
	}
	var again string
	if _, p := mbt.Guard(func() { again = m.String() }); (p || again != text) && extra == "" {
		extra = "printing a second time gives a different result (ID assignment is not idempotent)"
	}
	return got, text, extra
}

func normRefs(refs [][]int, n int) [][]int {
	out := make([][]int, n)
	for i := range out {
		out[i] = []int{}
		if i < len(refs) && refs[i] != nil {
			out[i] = refs[i]
		}
	}
	return out
}

// evalJob runs one job against the real code. phase reports what is about to run.
func evalJob(j job, phase func(string)) jobResult {
	var r jobResult
	r.Got = irWant{IDs: []int64{}, Tokens: [][]int64{}}
	r.Got2 = r.Got
	switch j.Kind {
	case "ir":
		refs := normRefs(j.Refs, len(j.IDs))
		m, ts := buildIR(j.IDs, refs)
		phase("print")
		r.Got, r.Text, r.Extra = printIR(m, ts)
		if j.Ins >= 0 && r.Got.OK {
			// print -> insert an unnumbered, operand-free definition after position Ins -> print
			nd := &metadata.Tuple{}
			nd.SetID(-1)
			if j.Del > 0 && j.Del <= len(ts) {
				// (no other definition refers to it: MetadataHist!Deletable)
				m.MetadataDefs = append(append([]metadata.Definition{}, m.MetadataDefs[:j.Del-1]...), m.MetadataDefs[j.Del:]...)
				ts = append(append([]metadata.Definition{}, ts[:j.Del-1]...), ts[j.Del:]...)
			}
			defs := append([]metadata.Definition{}, m.MetadataDefs[:j.Ins]...)
			defs = append(defs, nd)
			defs = append(defs, m.MetadataDefs[j.Ins:]...)
			m.MetadataDefs = defs
			ts2 := append([]metadata.Definition{}, ts[:j.Ins]...)
			ts2 = append(ts2, nd)
			ts2 = append(ts2, ts[j.Ins:]...)
			phase("print")
			r.Got2, r.Text2, r.Extra2 = printIR(m, ts2)
		}
	case "iso":
		evalIso(j, &r, phase)
	case "edit":
		evalEdit(j, &r, phase)
	case "editall":
		evalEditAll(j, &r, phase)
	case "text":
		var m *ir.Module
		var perr error
		phase("parse")
		if msg, p := mbt.Guard(func() { m, perr = asm.ParseString("pattern.ll", j.Text) }); p {
			r.ParsePanic = "panic: " + msg
			return r
		}
		if perr != nil {
			r.ParseErr = perr.Error()
			return r
		}
		r.Obs = observe(m, j.KeepLits)
		phase("print")
		if msg, p := mbt.Guard(func() { r.Text = m.String() }); p {
			r.PrintPanic = "panic: " + msg
			return r
		}
		phase("parse")
		var m2 *ir.Module
		var perr2 error
		if msg, p := mbt.Guard(func() { m2, perr2 = asm.ParseString("printed.ll", r.Text) }); p || perr2 != nil {
			if perr2 != nil {
				msg = perr2.Error()
			}
			r.ReparseError = msg
			if r.ReparseError == "" {
				r.ReparseError = "error"
			}
			return r
		}
		r.Obs2 = observe(m2, j.KeepLits)
	}
	return r
}

// childMain evaluates the jobs from index start on; one result line per job,
// written unbuffered, and a progress file naming the running job and phase.
func childMain() {
	debug.SetMaxStack(192 << 20) // unbounded recursion ends quickly
	var jobs []job
	b, err := os.ReadFile(os.Getenv(childEnv))
	if err != nil || json.Unmarshal(b, &jobs) != nil {
		fmt.Println("c17 child: bad job file")
		os.Exit(3)
	}
	start, _ := strconv.Atoi(os.Getenv(childStartEnv))
	outPath := os.Getenv(childOutEnv)
	out, err := os.OpenFile(outPath, os.O_APPEND|os.O_WRONLY|os.O_CREATE, 0o644)
	if err != nil {
		fmt.Println("c17 child:", err)
		os.Exit(3)
	}
	for i := start; i < len(jobs); i++ {
		phase := func(p string) { os.WriteFile(outPath+".progress", []byte(fmt.Sprintf("%d %s", i, p)), 0o644) }
		phase("start")
		r := evalJob(jobs[i], phase)
		r.Index = i
		line, _ := json.Marshal(r)
		out.Write(append(line, '\n'))
	}
	out.Close()
	os.Exit(0)
}

// runJobs evaluates the jobs in child processes (several shards in parallel)
// and returns one result per job; a job during which the child died carries
// Crashed (the tail of the child's output) and Phase.
func runJobs(jobs []job) []jobResult {
	res := make([]jobResult, len(jobs))
	if len(jobs) == 0 {
		return res
	}
	dir, err := os.MkdirTemp("", "verif-c17-")
	if err != nil {
		mbt.Infra("%v", err)
	}
	defer os.RemoveAll(dir)
	shards := runtime.NumCPU() / 2
	if shards < 1 {
		shards = 1
	}
	if shards > 8 {
		shards = 8
	}
	if shards > len(jobs) {
		shards = len(jobs)
	}
	var wg sync.WaitGroup
	var infraMu sync.Mutex
	infra := ""
	for s := 0; s < shards; s++ {
		lo, hi := s*len(jobs)/shards, (s+1)*len(jobs)/shards
		wg.Add(1)
		go func(s, lo, hi int) {
			defer wg.Done()
			part := jobs[lo:hi]
			jf := filepath.Join(dir, fmt.Sprintf("jobs%d.json", s))
			of := filepath.Join(dir, fmt.Sprintf("out%d.ndjson", s))
			jb, _ := json.Marshal(part)
			if err := os.WriteFile(jf, jb, 0o644); err != nil {
				infraMu.Lock()
				infra = err.Error()
				infraMu.Unlock()
				return
			}
			next, crashes := 0, 0
			for next < len(part) {
				cmd := exec.Command("timeout", "900", os.Args[0], "quick")
				cmd.Env = append(os.Environ(), childEnv+"="+jf, childStartEnv+"="+strconv.Itoa(next), childOutEnv+"="+of)
				co, cerr := cmd.CombinedOutput()
				if ee, ok := cerr.(*exec.ExitError); ok && ee.ExitCode() == 3 {
					infraMu.Lock()
					infra = "child could not start: " + mbt.Truncate(string(co), 400)
					infraMu.Unlock()
					return
				}
				done := readResults(of, res[lo:hi])
				if done >= len(part) {
					break
				}
				if done < next { // the child did not even reach its first job
					infraMu.Lock()
					infra = "child made no progress: " + mbt.Truncate(string(co), 800)
					infraMu.Unlock()
					return
				}
				// the child died while running job `done`
				ph := "print"
				if pb, err := os.ReadFile(of + ".progress"); err == nil {
					f := strings.Fields(string(pb))
					if len(f) == 2 && f[0] == strconv.Itoa(done) && f[1] != "start" {
						ph = f[1]
					}
				}
				res[lo+done] = jobResult{Index: done, Crashed: crashSummary(string(co)), Phase: ph,
					Got: irWant{IDs: []int64{}, Tokens: [][]int64{}}, Got2: irWant{IDs: []int64{}, Tokens: [][]int64{}}}
				// keep the result file aligned: one line per job
				line, _ := json.Marshal(res[lo+done])
				f, _ := os.OpenFile(of, os.O_APPEND|os.O_WRONLY|os.O_CREATE, 0o644)
				f.Write(append(line, '\n'))
				f.Close()
				next = done + 1
				crashes++
				if crashes >= 12 {
					// enough evidence; the rest of the shard is marked as not evaluated
					for k := next; k < len(part); k++ {
						res[lo+k] = jobResult{Index: k, Crashed: "not evaluated: the child process crashed 12 times in this shard", Phase: "skipped",
							Got: irWant{IDs: []int64{}, Tokens: [][]int64{}}, Got2: irWant{IDs: []int64{}, Tokens: [][]int64{}}}
					}
					return
				}
			}
		}(s, lo, hi)
	}
	wg.Wait()
	if infra != "" {
		mbt.Infra("C17 child: %s", infra)
	}
	return res
}

// readResults fills res from the result file and returns the number of complete lines.
func readResults(path string, res []jobResult) int {
	f, err := os.Open(path)
	if err != nil {
		return 0
	}
	defer f.Close()
	n := 0
	r := bufio.NewReaderSize(f, 1<<20)
	for {
		line, err := r.ReadBytes('\n')
		if err != nil || !bytes.HasSuffix(line, []byte("\n")) {
			break
		}
		var jr jobResult
		if json.Unmarshal(line, &jr) != nil {
			break
		}
		if n < len(res) {
			res[n] = jr
		}
		n++
	}
	return n
}

func crashSummary(out string) string {
	for _, l := range strings.Split(out, "\n") {
		if strings.HasPrefix(l, "fatal error:") || strings.HasPrefix(l, "runtime: goroutine stack exceeds") || strings.HasPrefix(l, "panic:") || strings.Contains(l, "signal ") {
			return strings.TrimSpace(l)
		}
	}
	return mbt.Truncate(strings.TrimSpace(out), 200)
}
