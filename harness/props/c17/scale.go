package c17

import (
	"fmt"
	"strconv"
)

// The ID scale of spec/Metadata.tla (PART 3): the specification works with
// MODEL IDs -- TLC's integers end at 2^31 - 1 --, a model ID below the base of
// the wide table is the concrete ID itself, the model IDs from the base on stand
// for the concrete IDs listed in the table (around 2^31 and 2^32). The table is
// not transcribed here: MetadataWide.tla emits it with every vector ("wide").
// Modules and texts are built with concrete IDs; whatever is read back from the
// real code is mapped to model IDs before MetadataTrace judges it.

type wideEntry struct {
	M   int64  `json:"m"`
	Txt string `json:"txt"`
}

var (
	scaleTable []wideEntry
	scaleUp    = map[int64]int64{} // model -> concrete
	scaleDown  = map[int64]int64{} // concrete -> model
	scaleBase  = int64(1) << 62
)

const unmappedID = -9 // Metadata!Unmapped

func setScale(tab []wideEntry) {
	if len(tab) == 0 || len(scaleTable) > 0 {
		return
	}
	scaleTable = tab
	for _, e := range tab {
		c, err := strconv.ParseInt(e.Txt, 10, 64)
		if err != nil {
			panic(fmt.Sprintf("ID scale: %q is not a number", e.Txt))
		}
		scaleUp[e.M] = c
		scaleDown[c] = e.M
		if e.M < scaleBase {
			scaleBase = e.M
		}
	}
}

// setScaleFromCase restores the table from a replayed case.
func setScaleFromCase(c map[string]interface{}) {
	w, ok := c["wide"].([]interface{})
	if !ok {
		return
	}
	var tab []wideEntry
	for _, x := range w {
		if m, ok := x.(map[string]interface{}); ok {
			mm, _ := m["m"].(float64)
			txt, _ := m["txt"].(string)
			tab = append(tab, wideEntry{M: int64(mm), Txt: txt})
		}
	}
	setScale(tab)
}

// concrete is the ID that is written for model ID m.
func concrete(m int64) int64 {
	if c, ok := scaleUp[m]; ok {
		return c
	}
	return m
}

// model is the model ID that stands for the concrete ID c (unmappedID if none does).
func model(c int64) int64 {
	if m, ok := scaleDown[c]; ok {
		return m
	}
	if c >= scaleBase {
		return unmappedID
	}
	return c
}

func concreteAll(ms []int64) []int64 {
	out := make([]int64, len(ms))
	for i, m := range ms {
		out[i] = concrete(m)
	}
	return out
}

func modelWant(w irWant) irWant {
	out := irWant{OK: w.OK, IDs: make([]int64, len(w.IDs)), Tokens: make([][]int64, len(w.Tokens))}
	for i, c := range w.IDs {
		out.IDs[i] = model(c)
	}
	for i, row := range w.Tokens {
		out.Tokens[i] = make([]int64, len(row))
		for k, c := range row {
			out.Tokens[i][k] = model(c)
		}
	}
	return out
}

// modelOps maps the IDs of an operand list (decoded JSON or built in this process) in place.
func modelOps(v interface{}) {
	switch x := v.(type) {
	case []op:
		for _, o := range x {
			modelOps(map[string]interface{}(o))
		}
	case []interface{}:
		for _, o := range x {
			modelOps(o)
		}
	case op:
		modelOps(map[string]interface{}(x))
	case map[string]interface{}:
		switch id := x["id"].(type) {
		case float64:
			x["id"] = model(int64(id))
		case int64:
			x["id"] = model(id)
		case int:
			x["id"] = model(int64(id))
		}
		if sub, ok := x["ops"]; ok {
			modelOps(sub)
		}
	}
}

func modelAtts(as []att) {
	for _, a := range as {
		modelOps(a.Node)
	}
}

func modelObs(o *observation) {
	for i := range o.Defs {
		o.Defs[i].ID = model(o.Defs[i].ID)
		modelOps(o.Defs[i].Ops)
	}
	for i := range o.Named {
		modelOps(o.Named[i].Nodes)
	}
	modelAtts(o.Sites.Global)
	modelAtts(o.Sites.Decl)
	modelAtts(o.Sites.Func)
	modelAtts(o.Sites.Inst)
	modelAtts(o.Sites.Term)
	modelOps(o.Sites.Args)
}

// largeID: from here on an explicit ID counts as "large" in signatures (the generators of
// Metadata.tla / MetadataGraph.tla proper stay far below).
const largeID = 100

// reindex adds off to every numeric metadata ID of a text (definitions and references).
func reindex(text string, off int64) string {
	text = reRefID.ReplaceAllStringFunc(text, func(s string) string {
		m := reRefID.FindStringSubmatch(s)
		n, _ := strconv.ParseInt(m[2], 10, 64)
		return m[1] + "!" + strconv.FormatInt(n+off, 10)
	})
	return reDefID.ReplaceAllStringFunc(text, func(s string) string {
		m := reDefID.FindStringSubmatch(s)
		n, _ := strconv.ParseInt(m[1], 10, 64)
		return "!" + strconv.FormatInt(n+off, 10) + " = "
	})
}
