package c17

import (
	"fmt"
	"reflect"
	"sort"
	"strings"
	"time"

	"github.com/llir/llvm/asm"
	"github.com/llir/llvm/ir"
	"github.com/llir/llvm/ir/metadata"

	"verif/harness/llvmoracle"
	"verif/harness/mbt"
)

// Histories parse -> edit -> observe -> print -> parse again (spec/MetadataEdit.tla).
// TLC checks FrameLaw / EditedLaw on the model and emits every history with the operand
// lists the laws require after it; each history is replayed on a parsed module in several
// layouts (which exported slice holds the operands) and the real operands -- observed by
// object identity --, and the operands of the module parsed from the print, are compared
// with the required ones.

type editStep struct {
	Node int   `json:"node"`
	Pos  int   `json:"pos"`
	X    int64 `json:"x"`
}

type editHist struct {
	Lens []int      `json:"lens"`
	Hist []editStep `json:"hist"`
	Ops  [][]int64  `json:"ops"`
}

// the layouts: which kind of parsed node holds the operand list that is edited
var editLayouts = []string{"Tuple.Fields@numbered", "Tuple.Fields@inline", "GenericDINode.Operands@numbered", "NamedDef.Nodes", "GenericDINode.Operands@inline"}

func refList(ids []int64) string {
	var parts []string
	for _, id := range ids {
		parts = append(parts, fmt.Sprintf("!%d", id))
	}
	return strings.Join(parts, ", ")
}

func genericNode(ops []int64) string {
	if len(ops) == 0 {
		return "!GenericDINode(tag: DW_TAG_member)"
	}
	return "!GenericDINode(tag: DW_TAG_member, operands: {" + refList(ops) + "})"
}

// renderEdit renders the module of a history before the edits: node j (from 1) has the operands
// 10j+1.., leaves !10j+k and the operands to be inserted (!101..!103) are numbered definitions.
func renderEdit(lens []int, layout string) string {
	var sb strings.Builder
	initial := make([][]int64, len(lens))
	for j, l := range lens {
		initial[j] = []int64{}
		for k := 1; k <= l; k++ {
			initial[j] = append(initial[j], int64(10*(j+1)+k))
		}
	}
	var keep []int64
	switch layout {
	case "Tuple.Fields@numbered":
		for j, o := range initial {
			fmt.Fprintf(&sb, "!%d = !{%s}\n", j+1, refList(o))
			keep = append(keep, int64(j+1))
		}
	case "GenericDINode.Operands@numbered":
		for j, o := range initial {
			fmt.Fprintf(&sb, "!%d = %s\n", j+1, genericNode(o))
			keep = append(keep, int64(j+1))
		}
	case "Tuple.Fields@inline", "Tuple.Fields@inline-in-named", "GenericDINode.Operands@inline":
		var parts []string
		for _, o := range initial {
			if layout == "GenericDINode.Operands@inline" {
				parts = append(parts, genericNode(o))
			} else {
				parts = append(parts, "!{"+refList(o)+"}")
			}
		}
		if layout == "Tuple.Fields@inline-in-named" {
			fmt.Fprintf(&sb, "!holder = !{%s}\n", strings.Join(parts, ", "))
		} else {
			fmt.Fprintf(&sb, "!0 = !{%s}\n", strings.Join(parts, ", "))
			keep = append(keep, 0)
		}
	case "NamedDef.Nodes":
		for j, o := range initial {
			fmt.Fprintf(&sb, "!n%d = !{%s}\n", j+1, refList(o))
		}
	}
	for _, o := range initial {
		for _, id := range o {
			fmt.Fprintf(&sb, "!%d = !{!\"l%d\"}\n", id, id)
		}
	}
	for x := int64(101); x <= 103; x++ {
		fmt.Fprintf(&sb, "!%d = !{!\"new%d\"}\n", x, x)
		keep = append(keep, x)
	}
	fmt.Fprintf(&sb, "!keep = !{%s}\n", refList(keep))
	return sb.String()
}

func insField(s []metadata.Field, p int, x metadata.Field) []metadata.Field {
	if p >= len(s) {
		return append(s, x)
	}
	s = append(s, nil)
	copy(s[p+1:], s[p:])
	s[p] = x
	return s
}

func insNode(s []metadata.Node, p int, x metadata.Node) []metadata.Node {
	if p >= len(s) {
		return append(s, x)
	}
	s = append(s, nil)
	copy(s[p+1:], s[p:])
	s[p] = x
	return s
}

// editNodes locates the n model nodes of a layout in a parsed module; each is returned as a pair of
// functions: read the operands (ID of the object if it is the object of that numbered definition,
// -2 otherwise, -3 for anything that is not a definition) and insert an operand.
type editNode struct {
	get func() []int64
	ins func(p int, x metadata.Definition)
}

func editNodes(m *ir.Module, layout string, n int) ([]editNode, string) {
	byID := map[int64]metadata.Definition{}
	for _, d := range m.MetadataDefs {
		byID[d.ID()] = d
	}
	idOf := func(x interface{}) int64 {
		d, ok := x.(metadata.Definition)
		if !ok || d == nil {
			return -3
		}
		if byID[d.ID()] != d {
			return -2
		}
		return d.ID()
	}
	tupleNode := func(t *metadata.Tuple) editNode {
		return editNode{
			get: func() []int64 {
				out := []int64{}
				for _, f := range t.Fields {
					out = append(out, idOf(f))
				}
				return out
			},
			ins: func(p int, x metadata.Definition) { t.Fields = insField(t.Fields, p, x) },
		}
	}
	genNode := func(g *metadata.GenericDINode) editNode {
		return editNode{
			get: func() []int64 {
				out := []int64{}
				for _, f := range g.Operands {
					out = append(out, idOf(f))
				}
				return out
			},
			ins: func(p int, x metadata.Definition) { g.Operands = insField(g.Operands, p, x) },
		}
	}
	var out []editNode
	fromField := func(f interface{}) bool {
		switch v := f.(type) {
		case *metadata.Tuple:
			out = append(out, tupleNode(v))
		case *metadata.GenericDINode:
			out = append(out, genNode(v))
		default:
			return false
		}
		return true
	}
	switch layout {
	case "Tuple.Fields@numbered", "GenericDINode.Operands@numbered":
		for j := 1; j <= n; j++ {
			if !fromField(byID[int64(j)]) {
				return nil, fmt.Sprintf("definition !%d is a %T", j, byID[int64(j)])
			}
		}
	case "Tuple.Fields@inline", "GenericDINode.Operands@inline":
		holder, ok := byID[0].(*metadata.Tuple)
		if !ok || len(holder.Fields) != n {
			return nil, "definition !0 does not hold the inline nodes"
		}
		for _, f := range holder.Fields {
			if !fromField(f) {
				return nil, fmt.Sprintf("an operand of !0 is a %T", f)
			}
		}
	case "Tuple.Fields@inline-in-named":
		nd := m.NamedMetadataDefs["holder"]
		if nd == nil || len(nd.Nodes) != n {
			return nil, "!holder does not hold the inline tuples"
		}
		for _, f := range nd.Nodes {
			if !fromField(f) {
				return nil, fmt.Sprintf("a node of !holder is a %T", f)
			}
		}
	case "NamedDef.Nodes":
		for j := 1; j <= n; j++ {
			nd := m.NamedMetadataDefs[fmt.Sprintf("n%d", j)]
			if nd == nil {
				return nil, fmt.Sprintf("!n%d is missing", j)
			}
			out = append(out, editNode{
				get: func() []int64 {
					o := []int64{}
					for _, f := range nd.Nodes {
						o = append(o, idOf(f))
					}
					return o
				},
				ins: func(p int, x metadata.Definition) { nd.Nodes = insNode(nd.Nodes, p, x) },
			})
		}
	}
	return out, ""
}

func readEditOps(m *ir.Module, layout string, n int) ([][]int64, string) {
	nodes, msg := editNodes(m, layout, n)
	if msg != "" {
		return nil, msg
	}
	out := make([][]int64, n)
	for j, nd := range nodes {
		out[j] = nd.get()
	}
	return out, ""
}

// evalEdit: parse, replay the edits, observe, print, parse the print, observe.
func evalEdit(j job, r *jobResult, phase func(string)) {
	phase("parse")
	var m *ir.Module
	var perr error
	if msg, p := mbt.Guard(func() { m, perr = asm.ParseString("edit.ll", j.Text) }); p {
		r.ParsePanic = "panic: " + msg
		return
	}
	if perr != nil {
		r.ParseErr = perr.Error()
		return
	}
	phase("edit")
	if msg, p := mbt.Guard(func() {
		nodes, bad := editNodes(m, j.Layout, j.N)
		if bad != "" {
			panic(bad)
		}
		byID := map[int64]metadata.Definition{}
		for _, d := range m.MetadataDefs {
			byID[d.ID()] = d
		}
		// the operands of every node after each edit: the frame is checked step by step
		for _, e := range j.Edits {
			before := make([][]int64, len(nodes))
			for k, nd := range nodes {
				before[k] = nd.get()
			}
			nodes[e.Node-1].ins(e.Pos, byID[e.X])
			for k, nd := range nodes {
				if k != e.Node-1 && fmt.Sprint(nd.get()) != fmt.Sprint(before[k]) && r.EditFrame == "" {
					r.EditFrame = fmt.Sprintf("inserting !%d into node %d at position %d changed the operands of node %d from %v to %v", e.X, e.Node, e.Pos, k+1, before[k], nd.get())
				}
			}
		}
		r.EditOps, _ = readEditOps(m, j.Layout, j.N)
	}); p {
		r.EditPanic = msg
		return
	}
	phase("print")
	if msg, p := mbt.Guard(func() { r.Text = m.String() }); p {
		r.PrintPanic = "panic: " + msg
		return
	}
	phase("parse")
	if msg, p := mbt.Guard(func() {
		m2, err := asm.ParseString("printed.ll", r.Text)
		if err != nil {
			panic(err.Error())
		}
		var bad string
		r.EditOps2, bad = readEditOps(m2, j.Layout, j.N)
		if bad != "" {
			panic(bad)
		}
	}); p {
		r.ReparseError = msg
	}
}

// editHistories runs MetadataEdit.tla and replays its histories.
func editHistories(rep *mbt.Report, tier string) {
	maxNodes := "3"
	if tier == "thorough" {
		maxNodes = "4"
	}
	t := mbt.MustTLC(mbt.TLCOpts{Spec: "MetadataEdit", Cfg: "MetadataEdit.cfg", Workers: 1, Timeout: 10 * time.Minute,
		Consts: map[string]string{"Emit": "TRUE", "MaxNodes": maxNodes}})
	if len(t.Violated) > 0 || strings.Contains(t.Output, "is violated") {
		mbt.Infra("MetadataEdit.tla violates %v: specification error", t.Violated)
	}
	rep.AddTLC(t)
	hists, err := mbt.ReadNDJSON[editHist](t.Dir + "/md_edit.ndjson")
	if err != nil || len(hists) == 0 {
		mbt.Infra("no histories from MetadataEdit.tla: %v", err)
	}
	t.Cleanup()
	runEditHists(rep, hists, editLayouts)
}

func runEditHists(rep *mbt.Report, hists []editHist, editLayouts []string) {
	// LLVM decides that the texts are valid (one text per operand-count list and layout)
	texts := map[string]string{}
	var keys []string
	for _, h := range hists {
		for _, l := range editLayouts {
			k := fmt.Sprint(h.Lens) + l
			if _, ok := texts[k]; !ok {
				texts[k] = renderEdit(h.Lens, l)
				keys = append(keys, k)
			}
		}
	}
	valid := make([]bool, len(keys))
	llvmoracle.Parallel(len(keys), func(i int) { valid[i], _ = llvmoracle.Accepts(texts[keys[i]]) })
	rejected := 0
	for i, k := range keys {
		if !valid[i] {
			rejected++
			if rejected <= 3 {
				rep.Note("discarded (llvm-as rejects the text of an edit history): %s", mbt.Truncate(texts[k], 200))
			}
			delete(texts, k)
		}
	}
	if rejected*50 > len(keys) {
		mbt.Infra("%d of %d texts of the edit histories are rejected by llvm-as", rejected, len(keys))
	}
	var jobs []job
	type ref struct {
		h      *editHist
		layout string
	}
	var refs []ref
	for i := range hists {
		h := &hists[i]
		for _, l := range editLayouts {
			text, ok := texts[fmt.Sprint(h.Lens)+l]
			if !ok {
				continue
			}
			jobs = append(jobs, job{Kind: "edit", Text: text, Layout: l, N: len(h.Lens), Edits: h.Hist, Ins: -1})
			refs = append(refs, ref{h, l})
		}
	}
	for k, jr := range runJobs(jobs) {
		h, layout := refs[k].h, refs[k].layout
		rep.Count(fmt.Sprintf("edit:%s/%v/%v", layout, h.Lens, h.Hist), true)
		rep.TracesValidated++
		caseOf := map[string]interface{}{"kind": "edit", "layout": layout, "lens": h.Lens, "hist": h.Hist, "ops": h.Ops, "text": jobs[k].Text}
		where := fmt.Sprintf("%s, operand counts %v, edits %v", layout, h.Lens, h.Hist)
		fail := func(class, what string) {
			rep.Fail(mbt.Failure{Signature: "C17|edit|" + class + "|" + layout, What: where + ": " + what, Case: caseOf})
		}
		edited := map[int]bool{}
		for _, e := range h.Hist {
			edited[e.Node-1] = true
		}
		switch {
		case jr.Crashed != "" && jr.Phase == "skipped":
		case jr.Crashed != "":
			fail("crash", fmt.Sprintf("the process dies in phase %s: %s", jr.Phase, jr.Crashed))
		case jr.ParsePanic != "" || jr.ParseErr != "":
			fail("parse-fails", mbt.Truncate(jr.ParsePanic+jr.ParseErr, 300))
		case jr.EditPanic != "":
			fail("edit-panics", mbt.Truncate(jr.EditPanic, 300))
		default:
			if jr.EditFrame != "" {
				fail("other-node-changed", jr.EditFrame+" (FrameLaw of MetadataEdit.tla)")
			}
			for j := range h.Ops {
				if j >= len(jr.EditOps) || fmt.Sprint(jr.EditOps[j]) != fmt.Sprint(h.Ops[j]) {
					if edited[j] {
						fail("edited-node-wrong", fmt.Sprintf("node %d must hold the operands %v after the history, it holds %v (-2: not the object of that definition)", j+1, h.Ops[j], at(jr.EditOps, j)))
					} else if jr.EditFrame == "" {
						fail("other-node-changed", fmt.Sprintf("node %d was not edited and must hold %v, it holds %v", j+1, h.Ops[j], at(jr.EditOps, j)))
					}
					break
				}
			}
			switch {
			case jr.PrintPanic != "":
				fail("print-panics", mbt.Truncate(jr.PrintPanic, 300))
			case jr.ReparseError != "":
				fail("reparse-fails", mbt.Truncate(jr.ReparseError, 300))
			case fmt.Sprint(jr.EditOps2) != fmt.Sprint(h.Ops):
				fail("printed-differs", fmt.Sprintf("the printed module parsed again has the operands %v, required %v", jr.EditOps2, h.Ops))
			}
		}
	}
	rep.Extra["edit_histories"] = len(hists)
	rep.Extra["edit_history_replays"] = len(jobs)
	rep.Extra["edit_texts_rejected_by_llvm"] = rejected
}

// --- the frame law on the texts of the other phases ------------------------------------------
//
// editAll applies MetadataEdit's Edit action to EVERY operand list of a parsed module in turn --
// every exported slice field of a node of package ir/metadata (Tuple.Fields, GenericDINode.Operands,
// DIExpression.Fields, DIArgList.Fields, NamedDef.Nodes) and every slice of metadata attachments
// (globals, functions, instructions, terminators) -- at front / middle / end in rotation, and checks
// FrameStep after each edit: every other operand list holds the very same elements as before, the
// edited one the old elements plus the new one at the position asked for.

type editSlot struct {
	name string // Type.Field
	fv   reflect.Value
}

func editSlots(m *ir.Module) []editSlot {
	var out []editSlot
	seen := map[uintptr]bool{}
	isMD := func(t reflect.Type) bool { return strings.HasSuffix(t.PkgPath(), "ir/metadata") }
	var walk func(v reflect.Value, depth int)
	walk = func(v reflect.Value, depth int) {
		if depth > 600 {
			return
		}
		switch v.Kind() {
		case reflect.Ptr:
			if v.IsNil() || seen[v.Pointer()] {
				return
			}
			seen[v.Pointer()] = true
			walk(v.Elem(), depth+1)
		case reflect.Interface:
			if !v.IsNil() {
				walk(v.Elem(), depth+1)
			}
		case reflect.Struct:
			t := v.Type()
			for i := 0; i < v.NumField(); i++ {
				f := t.Field(i)
				if f.PkgPath != "" {
					continue
				}
				fv := v.Field(i)
				if fv.Kind() == reflect.Slice && fv.CanSet() {
					et := f.Type.Elem()
					ek := et.Kind()
					if (ek == reflect.Interface || ek == reflect.Ptr) && (isMD(t) || isMD(et) || (ek == reflect.Ptr && isMD(et.Elem()))) {
						out = append(out, editSlot{t.Name() + "." + f.Name, fv})
					}
				}
				walk(fv, depth+1)
			}
		case reflect.Slice, reflect.Array:
			for i := 0; i < v.Len(); i++ {
				walk(v.Index(i), depth+1)
			}
		case reflect.Map:
			keys := v.MapKeys()
			sort.Slice(keys, func(i, j int) bool { return fmt.Sprint(keys[i]) < fmt.Sprint(keys[j]) })
			for _, k := range keys {
				walk(v.MapIndex(k), depth+1)
			}
		}
	}
	walk(reflect.ValueOf(m), 0)
	return out
}

func slotIdent(fv reflect.Value) []string {
	out := make([]string, fv.Len())
	for i := range out {
		e := fv.Index(i)
		if e.Kind() == reflect.Interface && !e.IsNil() {
			e = e.Elem()
		}
		switch {
		case e.Kind() == reflect.Ptr:
			out[i] = fmt.Sprintf("%s@%x", e.Type(), e.Pointer())
		case e.IsValid() && e.CanInterface():
			out[i] = fmt.Sprintf("%T:%v", e.Interface(), e.Interface())
		default:
			out[i] = "nil"
		}
	}
	return out
}

func evalEditAll(j job, r *jobResult, phase func(string)) {
	phase("parse")
	var m *ir.Module
	var perr error
	if _, p := mbt.Guard(func() { m, perr = asm.ParseString("edit.ll", j.Text) }); p || perr != nil {
		r.IsoSkipped = "the text does not parse (reported by the text rows)"
		return
	}
	phase("edit")
	if msg, p := mbt.Guard(func() {
		slots := editSlots(m)
		for k, s := range slots {
			et := s.fv.Type().Elem()
			// the new operand: the first numbered definition if the slice can hold it, else a second
			// reference to the slice's own first element
			var x reflect.Value
			if len(m.MetadataDefs) > 0 && reflect.TypeOf(m.MetadataDefs[0]).AssignableTo(et) {
				x = reflect.ValueOf(m.MetadataDefs[0])
			} else if s.fv.Len() > 0 {
				x = s.fv.Index(0)
				if x.Kind() == reflect.Interface {
					x = x.Elem()
				}
			} else {
				continue
			}
			before := make([][]string, len(slots))
			for i := range slots {
				before[i] = slotIdent(slots[i].fv)
			}
			n := s.fv.Len()
			pos := []int{n, 0, n / 2}[k%3]
			ns := reflect.Append(s.fv, x) // like append: writes into spare capacity if there is any
			if pos < n {
				reflect.Copy(ns.Slice(pos+1, n+1), ns.Slice(pos, n))
				ns.Index(pos).Set(x)
			}
			s.fv.Set(ns)
			r.Hoisted++
			xi := slotIdent(ns.Slice(pos, pos+1))[0]
			want := append(append(append([]string{}, before[k][:pos]...), xi), before[k][pos:]...)
			if got := slotIdent(s.fv); fmt.Sprint(got) != fmt.Sprint(want) && r.EditFrame == "" {
				r.EditFrame, r.EditPanic, r.Layout = fmt.Sprintf("inserting an operand into %s (operand list %d of the module) at position %d of %d gives %v, required %v", s.name, k, pos, n, got, want), "edited-node-wrong", s.name
			}
			for i := range slots {
				if i != k && r.EditFrame == "" && fmt.Sprint(slotIdent(slots[i].fv)) != fmt.Sprint(before[i]) {
					r.EditFrame, r.EditPanic, r.Layout = fmt.Sprintf("inserting an operand into %s (operand list %d of the module, %d operands) at position %d changed %s (operand list %d) from %v to %v", s.name, k, n, pos, slots[i].name, i, before[i], slotIdent(slots[i].fv)), "other-node-changed", s.name
				}
			}
		}
	}); p {
		r.EditFrame, r.EditPanic, r.Layout = "editing panics: "+msg, "edit-panics", "any"
	}
}

// editAllRows applies the frame law to the texts of the parse phase: every text row (the 28 specialised
// kinds, positions, distinct variants, extras) and every 8th graph pattern.
func editAllRows(rep *mbt.Report, rows []*parseRow) {
	var jobs []job
	var src []*parseRow
	for i, r := range rows {
		if r.Src == "text" || i%8 == 0 {
			jobs = append(jobs, job{Kind: "editall", Text: r.text, Ins: -1})
			src = append(src, r)
		}
	}
	edits := 0
	for k, jr := range runJobs(jobs) {
		r := src[k]
		rep.Count("editall:"+r.name, true)
		caseOf := map[string]interface{}{"kind": "editall", "name": r.name, "src": r.Src, "text": r.text}
		switch {
		case jr.Crashed != "" && jr.Phase == "skipped", jr.IsoSkipped != "":
		case jr.Crashed != "":
			rep.Fail(mbt.Failure{Signature: "C17|edit|crash|parsed-" + r.Src, What: fmt.Sprintf("%s: the process dies in phase %s: %s", r.name, jr.Phase, jr.Crashed), Case: caseOf})
		case jr.EditFrame != "":
			rep.Fail(mbt.Failure{Signature: "C17|edit|" + jr.EditPanic + "|" + jr.Layout + "@parsed-" + r.Src, What: r.name + ": " + mbt.Truncate(jr.EditFrame, 600) + " (FrameStep of MetadataEdit.tla)", Case: caseOf})
		}
		edits += jr.Hoisted
		rep.TracesValidated++
	}
	rep.Extra["edit_all_texts"] = len(jobs)
	rep.Extra["edit_all_edits"] = edits
}
