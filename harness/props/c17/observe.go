package c17

import (
	"reflect"
	"sort"
	"strings"

	"github.com/llir/llvm/ir"
	"github.com/llir/llvm/ir/metadata"
	"github.com/llir/llvm/ir/value"
)

// observe extracts, by reflection over the exported fields of the parsed
// module, the metadata structure in the shape of MetadataGraph!WantOf. A
// reference is "same" iff it is pointer-identical with the entry of
// m.MetadataDefs that carries the ID the referenced object reports.
// keepLits keeps null and string operands (graph rows); text rows compare
// references and inline nodes only.
func observe(m *ir.Module, keepLits bool) observation {
	byID := map[int64]metadata.Definition{}
	for _, d := range m.MetadataDefs {
		if _, dup := byID[d.ID()]; !dup {
			byID[d.ID()] = d
		}
	}
	var opOf func(x interface{}) (op, bool)
	var children func(d interface{}) []op
	opOf = func(x interface{}) (op, bool) {
		switch v := x.(type) {
		case nil:
			return nil, false
		case *metadata.NullLit:
			if keepLits {
				return op{"k": "null", "f": ""}, true
			}
			return nil, false
		case *metadata.String:
			if keepLits {
				return op{"k": "str", "s": v.Value, "f": ""}, true
			}
			return nil, false
		case *metadata.Value:
			return opOf(v.Value)
		case metadata.Definition:
			if reflect.ValueOf(v).IsNil() {
				return nil, false
			}
			id := v.ID()
			if id == -1 {
				return op{"k": "tuple", "id": id, "ops": children(v), "f": ""}, true
			}
			def, ok := byID[id]
			return op{"k": "ref", "id": id, "same": ok && def == v, "f": ""}, true
		}
		return nil, false
	}
	children = func(d interface{}) []op {
		out := []op{}
		rv := reflect.ValueOf(d)
		for rv.Kind() == reflect.Ptr || rv.Kind() == reflect.Interface {
			if rv.IsNil() {
				return out
			}
			rv = rv.Elem()
		}
		if rv.Kind() != reflect.Struct {
			return out
		}
		t := rv.Type()
		for i := 0; i < rv.NumField(); i++ {
			f := t.Field(i)
			if f.PkgPath != "" || f.Anonymous {
				continue
			}
			fv := rv.Field(i)
			switch fv.Kind() {
			case reflect.Ptr, reflect.Interface:
				if fv.IsNil() {
					continue
				}
				if o, ok := opOf(fv.Interface()); ok {
					o["f"] = strings.ToLower(f.Name)
					out = append(out, o)
				}
			case reflect.Slice:
				for k := 0; k < fv.Len(); k++ {
					e := fv.Index(k)
					if (e.Kind() == reflect.Ptr || e.Kind() == reflect.Interface) && e.IsNil() {
						continue
					}
					if !e.CanInterface() {
						continue
					}
					if o, ok := opOf(e.Interface()); ok {
						out = append(out, o)
					}
				}
			}
		}
		return out
	}
	obs := observation{Defs: []obsDef{}, Named: []obsNamed{}}
	for _, d := range m.MetadataDefs {
		dist := false
		if f := reflect.Indirect(reflect.ValueOf(d)).FieldByName("Distinct"); f.IsValid() {
			dist = f.Bool()
		}
		obs.Defs = append(obs.Defs, obsDef{ID: d.ID(), Distinct: dist, Ops: children(d), Kind: reflect.Indirect(reflect.ValueOf(d)).Type().Name()})
	}
	var names []string
	for name := range m.NamedMetadataDefs {
		names = append(names, name)
	}
	sort.Strings(names)
	for _, name := range names {
		nd := m.NamedMetadataDefs[name]
		on := obsNamed{Name: nd.Name, Nodes: []op{}}
		for _, n := range nd.Nodes {
			if o, ok := opOf(n); ok {
				on.Nodes = append(on.Nodes, o)
			}
		}
		obs.Named = append(obs.Named, on)
	}
	list := func(mds []*metadata.Attachment) []att {
		out := []att{}
		for _, md := range mds {
			o, ok := opOf(md.Node)
			if !ok {
				o = op{"k": "none"}
			}
			out = append(out, att{Name: md.Name, Node: o})
		}
		return out
	}
	obs.Sites = obsSites{Global: []att{}, Decl: []att{}, Func: []att{}, Inst: []att{}, Term: []att{}, Args: []op{}}
	if len(m.Globals) > 0 {
		obs.Sites.Global = list(m.Globals[0].Metadata)
	}
	for _, f := range m.Funcs {
		if len(f.Blocks) == 0 && !strings.HasPrefix(f.Name(), "llvm.") {
			obs.Sites.Decl = list(f.Metadata)
			break
		}
	}
	for _, f := range m.Funcs {
		if len(f.Blocks) == 0 {
			continue
		}
		obs.Sites.Func = list(f.Metadata)
		for bi, b := range f.Blocks {
			for ii, inst := range b.Insts {
				if bi == 0 && ii == 0 {
					if md, ok := inst.(interface{ MDAttachments() []*metadata.Attachment }); ok {
						obs.Sites.Inst = list(md.MDAttachments())
					}
				}
				if c, ok := inst.(*ir.InstCall); ok {
					for _, a := range c.Args {
						var v value.Value = a
						if mv, ok := v.(*metadata.Value); ok {
							if o, ok := opOf(mv); ok {
								obs.Sites.Args = append(obs.Sites.Args, o)
							}
						}
					}
				}
			}
			if bi == len(f.Blocks)-1 {
				if md, ok := b.Term.(interface{ MDAttachments() []*metadata.Attachment }); ok {
					obs.Sites.Term = list(md.MDAttachments())
				}
			}
		}
		break
	}
	return obs
}
