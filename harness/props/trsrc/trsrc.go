// Package trsrc renders the abstract sources of spec/TranslateSrc.tla to LLVM
// assembly (one fixed template per entity kind and reference site) and
// decodes the vectors Translate.tla emits.
package trsrc

import (
	"fmt"
	"sort"
	"strings"
)

// Ref is a reference [rk, to, aux].
type Ref struct {
	RK  string `json:"rk"`
	To  string `json:"to"`
	Aux string `json:"aux"`
}

// Local is a parameter, block or instruction of a function definition.
type Local struct {
	N    string `json:"n"`
	LK   string `json:"lk"`
	Refs []Ref  `json:"refs"`
}

// Entity is a top-level entity.
type Entity struct {
	K      string  `json:"k"`
	N      string  `json:"n"`
	Body   string  `json:"body"`
	Refs   []Ref   `json:"refs"`
	Locals []Local `json:"locals"`
}

// Layout is how the entities are laid out as text (Layouts of TranslateSrc.tla).
type Layout struct {
	ID       string `json:"id"`
	EOL      string `json:"eol"`    // "lf" | "crlf"
	Join     string `json:"join"`   // "line" | "pair" | "same"
	Indent   string `json:"indent"` // "none" | "dec" | "alt"
	Comments bool   `json:"comments"`
	Final    bool   `json:"final"`
}

// Plain is the layout of a source without a layout dimension.
var Plain = Layout{ID: "plain", EOL: "lf", Join: "line", Indent: "none", Final: true}

// StrEnt is a string constant of the source with the value it must have in the module.
type StrEnt struct {
	K   string   `json:"k"`
	Key string   `json:"key"`
	Val []string `json:"val"`
}

// Module is the abstract module of an "ok" outcome.
type Module struct {
	// string entities: [string id, line ending of a raw line break in it]
	Asms       [][]string `json:"asms"`
	Srcfile    []string   `json:"srcfile"`
	Triple     []string   `json:"triple"`
	Datalayout []string   `json:"datalayout"`
	Strs       []StrEnt   `json:"strs"`
	// what the real module holds (filled by trcheck.Order, not part of the vectors)
	RealAsms                                []string          `json:"-"`
	RealSrcfile, RealTriple, RealDatalayout string            `json:"-"`
	RealStrs                                map[string]string `json:"-"`

	Types   []string `json:"types"`
	Comdats []string `json:"comdats"`
	Globals []string `json:"globals"`
	Aliases []string `json:"aliases"`
	IFuncs  []string `json:"ifuncs"`
	Funcs   []string `json:"funcs"`
	Attrs   []string `json:"attrs"`
	// AttrBodies[i] lists the bodies of the definitions of Attrs[i] in textual order.
	AttrBodies [][]string `json:"attrBodies"`
	Nmds       []string   `json:"nmds"`
	NmdNodes   [][]string `json:"nmdNodes"`
	Mds        []string   `json:"mds"`
}

// Outcome is [st, mod].
type Outcome struct {
	St  string  `json:"st"`
	Mod *Module `json:"mod,omitempty"`
}

// Vector is one line of vectors.ndjson.
type Vector struct {
	Src   []Entity   `json:"src"`
	Lay   Layout     `json:"lay"`
	Want  Outcome    `json:"want"`
	Got   Outcome    `json:"got"`
	Picks [][]string `json:"picks"`
}

func isGlob(k string) bool { return k == "global" || k == "alias" || k == "ifunc" || k == "func" }

// Keys returns the index key of every entity (unnamed globals are "@k" by textual position).
func Keys(src []Entity) []string {
	keys := make([]string, len(src))
	id := 0
	for i, e := range src {
		if isGlob(e.K) && e.N == "" {
			keys[i] = fmt.Sprintf("@%d", id)
			id++
		} else {
			keys[i] = e.N
		}
	}
	return keys
}

type renderer struct {
	src      []Entity
	keys     []string
	visiting map[*Entity]bool
	cur      *Entity // function being rendered
	lay      Layout
}

// direct reports whether the global's only initialiser reference is rendered as a plain
// pointer to the target (so that the target gets a use of its own: constants are uniqued).
func (r *renderer) direct(e *Entity) bool {
	if len(refsOf(e, "ty.global")) > 0 || len(refsOf(e, "l.baddr")) > 0 || len(refsOf(e, "g.init")) != 1 {
		return false
	}
	if r.visiting[e] {
		return false
	}
	t := r.findGlob(refsOf(e, "g.init")[0].To)
	if t == nil {
		return true
	}
	r.visiting[e] = true
	defer delete(r.visiting, e)
	// the target's type must not depend on e
	return !r.dependsOn(t, e)
}

func (r *renderer) dependsOn(t, e *Entity) bool {
	if t == e {
		return true
	}
	if t.K != "global" || len(refsOf(t, "ty.global")) > 0 || len(refsOf(t, "l.baddr")) > 0 || len(refsOf(t, "g.init")) != 1 {
		return false
	}
	if r.visiting[t] {
		return true
	}
	r.visiting[t] = true
	defer delete(r.visiting, t)
	n := r.findGlob(refsOf(t, "g.init")[0].To)
	return n != nil && r.dependsOn(n, e)
}

func (r *renderer) findGlob(name string) *Entity {
	for i := range r.src {
		if isGlob(r.src[i].K) && r.keys[i] == name {
			return &r.src[i]
		}
	}
	return nil
}

func refsOf(e *Entity, rk string) []Ref {
	var out []Ref
	for _, x := range e.Refs {
		if x.RK == rk {
			out = append(out, x)
		}
	}
	return out
}

// EscName spells the bytes of a real name the way the model names are written: printable ASCII as is, every other
// byte (and the backslash and the quote) as a backslash and two upper-case hex digits (model name `a\00` = a, NUL).
func EscName(n string) string {
	var sb strings.Builder
	for i := 0; i < len(n); i++ {
		if c := n[i]; c < 0x20 || c >= 0x7f || c == '\\' || c == '"' {
			fmt.Fprintf(&sb, "\\%02X", c)
		} else {
			sb.WriteByte(c)
		}
	}
	return sb.String()
}

// ident spells a name: bare where the LLVM lexer allows it, quoted otherwise.
func ident(n string) string {
	bare := n != ""
	for i := 0; i < len(n); i++ {
		c := n[i]
		if !(c >= 'a' && c <= 'z' || c >= 'A' && c <= 'Z' || c >= '0' && c <= '9' || c == '$' || c == '.' || c == '_' || c == '-') {
			bare = false
		}
	}
	if bare {
		return n
	}
	return `"` + n + `"`
}

func tyName(n string) string {
	if n == "qz10" {
		return `%"010"` // a name: not the type %10 / %"10"
	}
	return "%" + ident(n)
}

// comdatName spells a comdat name ($10 does not lex: a name starting with a digit is quoted).
func comdatName(n string) string {
	if n != "" && n[0] >= '0' && n[0] <= '9' {
		return `"` + n + `"`
	}
	return ident(n)
}

// comdatRef renders the comdat clause of a global or function.
func comdatRef(x Ref) string {
	if x.Aux == "implicit" {
		return "comdat"
	}
	return "comdat($" + comdatName(x.To) + ")"
}

// directBA: a global whose only initialiser reference is one blockaddress is that constant itself
// (constants are uniqued: the blockaddress then has one use per such global).
func directBA(e *Entity) bool {
	return len(refsOf(e, "l.baddr")) == 1 && len(refsOf(e, "g.init")) == 0 && len(refsOf(e, "ty.global")) == 0
}

func gname(key string) string {
	if key == "q0" {
		return `@"0"` // the quoted numeral: a name, not the ID @0
	}
	if key == "qe" {
		return `@""` // the empty quoted name: nothing has it
	}
	if strings.HasPrefix(key, "@") {
		return key
	}
	allDigits := key != ""
	for i := 0; i < len(key); i++ {
		if key[i] < '0' || key[i] > '9' {
			allDigits = false
		}
	}
	if allDigits {
		return `@"` + key + `"` // a name made of digits (bare, it would be an ID)
	}
	return "@" + ident(key)
}

// lname renders a local name.
func lname(n string) string {
	if n == "q0" {
		return `%"0"`
	}
	if n == "qe" {
		return `%""`
	}
	if n == "n0" {
		return "%0" // the bare numeral: an ID
	}
	return "%" + ident(n)
}

func mdID(n string) string {
	if n == "zz" {
		return "!99"
	}
	if n == "zw" {
		return "!99999999999999999999"
	}
	return "!" + n
}

func attrID(n string) string {
	if n == "zz" {
		return "#99"
	}
	if n == "zw" {
		return "#99999999999999999999"
	}
	return "#" + n
}

// contentType returns the content type of a global variable entity.
func (r *renderer) contentType(e *Entity) string {
	if t := refsOf(e, "ty.global"); len(t) > 0 {
		return tyName(t[0].To) + "*"
	}
	if len(refsOf(e, "g.cmp")) > 0 {
		return "i1"
	}
	if len(refsOf(e, "ty.const")) > 0 {
		return "i8*"
	}
	if directBA(e) {
		return "i8*"
	}
	if r.direct(e) {
		return r.ptrType(refsOf(e, "g.init")[0].To)
	}
	k := len(refsOf(e, "g.init")) + len(refsOf(e, "l.baddr"))
	if k > 0 {
		return fmt.Sprintf("[%d x i8*]", k)
	}
	return "i8*"
}

func (r *renderer) funcSig(e *Entity) (ret string, params []string) {
	ret = "void"
	if e.Body == "resolver" {
		return "void ()*", nil
	}
	if t := refsOf(e, "ty.sig"); len(t) > 0 {
		ret = tyName(t[0].To) + "*"
		params = append(params, tyName(t[0].To)+"*")
	}
	for _, t := range refsOf(e, "ty.pattr") {
		params = append(params, tyName(t.To)+"*")
	}
	for _, l := range e.Locals {
		if l.LK == "param" {
			params = append(params, "i32")
		}
	}
	return ret, params
}

// ptrType returns the type of the global value named key (pointer to its content).
func (r *renderer) ptrType(key string) string {
	e := r.findGlob(key)
	if e == nil {
		return "i8*"
	}
	switch e.K {
	case "global":
		if e.Body == "as1" {
			return r.contentType(e) + " addrspace(1)*"
		}
		return r.contentType(e) + "*"
	case "alias":
		return "i8*"
	case "ifunc":
		return "void ()*"
	default:
		ret, ps := r.funcSig(e)
		return fmt.Sprintf("%s (%s)*", ret, strings.Join(ps, ", "))
	}
}

func (r *renderer) asI8(key string) string {
	pt := r.ptrType(key)
	if pt == "i8*" {
		return "i8* " + gname(key)
	}
	return fmt.Sprintf("i8* bitcast (%s %s to i8*)", pt, gname(key))
}

func (r *renderer) mdAttach(refs []Ref, sep string) string {
	var sb strings.Builder
	for _, x := range refs {
		if x.RK == "m.attach" {
			sb.WriteString(sep + "!foo " + mdID(x.To))
		}
	}
	return sb.String()
}

// rawBreak stands for a RAW line break inside a string literal of a rendered entity: it becomes the
// line ending of the layout.
const rawBreak = "\x01"

// StrText is the source text (between the quotes) of abstract string id for an entity of kind k.
func StrText(k, id string) string {
	switch id {
	case "ml":
		return "first" + rawBreak + "second"
	case "esc":
		return `a\22b;c\0D\0Ad`
	}
	if k == "datalayout" {
		return "e"
	}
	return "one"
}

// StrValue is the value the string [id, eol] has in the module.
func StrValue(k string, v []string) string {
	if len(v) != 2 || v[0] == "" {
		return ""
	}
	switch v[0] {
	case "ml":
		if v[1] == "crlf" {
			return "first\r\nsecond"
		}
		return "first\nsecond"
	case "esc":
		return "a\"b;c\r\nd"
	}
	if k == "datalayout" {
		return "e"
	}
	return "one"
}

// Render renders the source to LLVM assembly in the plain layout.
func Render(src []Entity) string { return RenderLay(src, Plain) }

// RenderLay renders the source to LLVM assembly laid out as lay says.
func RenderLay(src []Entity, lay Layout) string {
	if lay.ID == "" {
		lay = Plain
	}
	r := &renderer{src: src, keys: Keys(src), visiting: map[*Entity]bool{}, lay: lay}
	n := len(src)
	var sb strings.Builder
	for i := range src {
		var c strings.Builder
		r.entity(&c, i)
		chunk := strings.TrimSuffix(c.String(), "\n")
		if lay.Join == "same" {
			chunk = strings.ReplaceAll(chunk, "\n", " ")
		}
		switch lay.Indent {
		case "dec":
			chunk = strings.Repeat(" ", n-(i+1)) + chunk
		case "alt":
			if (i+1)%2 == 0 {
				chunk = "\t " + chunk
			}
		}
		if lay.Comments && lay.Join == "line" {
			// text that looks like definitions, an unbalanced quote
			fmt.Fprintf(&sb, "; @c%d = global i32 0 \" define void @c%d() {\n", i, i)
			chunk += " ; } \"trailing"
		}
		sb.WriteString(chunk)
		switch {
		case lay.Join == "same" || lay.Join == "pair" && i%2 == 0 && i+1 < n:
			sb.WriteString(" ")
		default:
			sb.WriteString("\n")
		}
	}
	text := sb.String()
	if lay.Join == "same" {
		text = strings.TrimSuffix(text, " ") + "\n"
	}
	if !lay.Final {
		text = strings.TrimSuffix(text, "\n")
	}
	eol := "\n"
	if lay.EOL == "crlf" {
		eol = "\r\n"
	}
	text = strings.ReplaceAll(text, "\n", eol)
	return strings.ReplaceAll(text, rawBreak, eol)
}

// entity renders entity i (plain layout, lines ended by "\n").
func (r *renderer) entity(sbp *strings.Builder, i int) {
	src := r.src
	var sb strings.Builder
	defer func() { sbp.WriteString(sb.String()) }()
	{
		e := &src[i]
		key := r.keys[i]
		switch e.K {
		case "asm":
			fmt.Fprintf(&sb, "module asm \"%s\"\n", StrText(e.K, e.Body))
		case "srcfile":
			fmt.Fprintf(&sb, "source_filename = \"%s\"\n", StrText(e.K, e.Body))
		case "triple":
			fmt.Fprintf(&sb, "target triple = \"%s\"\n", StrText(e.K, e.Body))
		case "datalayout":
			fmt.Fprintf(&sb, "target datalayout = \"%s\"\n", StrText(e.K, e.Body))
		case "type":
			switch e.Body {
			case "opaque":
				fmt.Fprintf(&sb, "%s = type opaque\n", tyName(e.N))
			case "alias":
				fmt.Fprintf(&sb, "%s = type %s\n", tyName(e.N), tyName(e.Refs[0].To))
			default:
				fs := []string{"i32"}
				for _, x := range refsOf(e, "ty.field") {
					fs = append(fs, tyName(x.To)+"*")
				}
				fmt.Fprintf(&sb, "%s = type { %s }\n", tyName(e.N), strings.Join(fs, ", "))
			}
		case "comdat":
			fmt.Fprintf(&sb, "$%s = comdat any\n", comdatName(e.N))
		case "global":
			if e.Body == "cstr" {
				k := 12
				if r.lay.EOL == "crlf" {
					k = 13
				}
				fmt.Fprintf(&sb, "%s = constant [%d x i8] c\"%s\"\n", gname(key), k, StrText("global", "ml"))
				return
			}
			ct := r.contentType(e)
			var init string
			if tc := refsOf(e, "ty.const"); len(tc) > 0 {
				init = fmt.Sprintf("bitcast (%s* null to i8*)", tyName(tc[0].To))
			} else if directBA(e) {
				x := refsOf(e, "l.baddr")[0]
				init = fmt.Sprintf("blockaddress(%s, %s)", gname(x.To), lname(x.Aux))
			} else if c := refsOf(e, "g.cmp"); len(c) > 0 {
				pt := r.ptrType(c[0].To)
				init = fmt.Sprintf("icmp eq (%s %s, %s null)", pt, gname(c[0].To), pt)
			} else if r.direct(e) {
				init = gname(refsOf(e, "g.init")[0].To)
			} else if len(refsOf(e, "ty.global")) > 0 || ct == "i8*" {
				init = "null"
			} else {
				var elems []string
				for _, x := range e.Refs {
					switch x.RK {
					case "g.init":
						elems = append(elems, r.asI8(x.To))
					case "l.baddr":
						elems = append(elems, fmt.Sprintf("i8* blockaddress(%s, %s)", gname(x.To), lname(x.Aux)))
					}
				}
				init = "[" + strings.Join(elems, ", ") + "]"
			}
			as := ""
			if e.Body == "as1" {
				as = "addrspace(1) "
			}
			fmt.Fprintf(&sb, "%s = %sglobal %s %s", gname(key), as, ct, init)
			for _, x := range refsOf(e, "c.global") {
				sb.WriteString(", " + comdatRef(x))
			}
			sb.WriteString(r.mdAttach(e.Refs, ", "))
			sb.WriteString("\n")
		case "alias":
			if t := r.findGlob(e.Refs[0].To); t != nil && t.Body == "as1" {
				fmt.Fprintf(&sb, "%s = alias %s, %s %s\n", gname(key), r.contentType(t), r.ptrType(e.Refs[0].To), gname(e.Refs[0].To))
			} else {
				// aux: the constant expression the aliasee is wrapped in (an alias chain through expressions)
				switch op := r.asI8(e.Refs[0].To); e.Refs[0].Aux {
				case "bitcast":
					fmt.Fprintf(&sb, "%s = alias i8, i8* bitcast (%s to i8*)\n", gname(key), op)
				case "gep":
					fmt.Fprintf(&sb, "%s = alias i8, i8* getelementptr (i8, %s, i64 1)\n", gname(key), op)
				case "asc":
					fmt.Fprintf(&sb, "%s = alias i8, i8 addrspace(1)* addrspacecast (%s to i8 addrspace(1)*)\n", gname(key), op)
				default:
					fmt.Fprintf(&sb, "%s = alias i8, %s\n", gname(key), op)
				}
			}
		case "ifunc":
			fmt.Fprintf(&sb, "%s = ifunc void (), void ()* ()* %s\n", gname(key), gname(e.Refs[0].To))
		case "func":
			r.renderFunc(&sb, e, key)
		case "attr":
			body := e.Body
			if body == "" {
				body = "nounwind"
			}
			fmt.Fprintf(&sb, "attributes %s = { %s }\n", attrID(e.N), body)
		case "nmd":
			var ns []string
			for _, x := range e.Refs {
				ns = append(ns, mdID(x.To))
			}
			fmt.Fprintf(&sb, "!%s = !{%s}\n", e.N, strings.Join(ns, ", "))
		case "md":
			if e.Body == "mdstr" {
				fmt.Fprintf(&sb, "%s = !{!\"%s\"}\n", mdID(e.N), StrText("md", "ml"))
				return
			}
			if e.Body == "diexpr" {
				fmt.Fprintf(&sb, "%s = !DIExpression(DW_OP_deref)\n", mdID(e.N))
				return
			}
			if e.Body == "diarr" {
				fs := []string{"tag: DW_TAG_array_type"}
				names := []string{"dataLocation", "associated", "allocated", "rank"}
				k := 0
				for _, x := range e.Refs {
					if x.RK == "m.difield" && k < len(names) {
						fs = append(fs, names[k]+": "+mdID(x.To))
						k++
					}
				}
				fmt.Fprintf(&sb, "%s = !DICompositeType(%s)\n", mdID(e.N), strings.Join(fs, ", "))
				return
			}
			if e.Body == "di" {
				fs := []string{"tag: DW_TAG_pointer_type"}
				names := []string{"baseType", "scope"}
				k := 0
				for _, x := range e.Refs {
					if x.RK == "m.difield" && k < len(names) {
						fs = append(fs, names[k]+": "+mdID(x.To))
						k++
					}
				}
				if k == 0 {
					fs = append(fs, "baseType: null")
				}
				fmt.Fprintf(&sb, "%s = !DIDerivedType(%s)\n", mdID(e.N), strings.Join(fs, ", "))
				return
			}
			var fs []string
			for _, x := range e.Refs {
				switch x.RK {
				case "m.tuple":
					fs = append(fs, mdID(x.To))
				case "l.baddr":
					fs = append(fs, fmt.Sprintf("i8* blockaddress(%s, %s)", gname(x.To), lname(x.Aux)))
				case "g.mdvalue":
					fs = append(fs, r.ptrType(x.To)+" "+gname(x.To))
				case "l.mdlocal":
					fs = append(fs, "i32 "+lname(x.To))
				}
			}
			fs = append(fs, "i32 7")
			d := ""
			if e.Body == "distinct" {
				d = "distinct "
			}
			fmt.Fprintf(&sb, "%s = %s!{%s}\n", mdID(e.N), d, strings.Join(fs, ", "))
		case "ulo":
			if e.Refs[0].RK == "l.ulolocal" {
				fmt.Fprintf(&sb, "uselistorder i32 %s, { 1, 0 }\n", lname(e.Refs[0].To))
			} else if e.Refs[0].RK == "l.baddr" {
				fmt.Fprintf(&sb, "uselistorder i8* blockaddress(%s, %s), { 1, 0 }\n", gname(e.Refs[0].To), lname(e.Refs[0].Aux))
			} else {
				fmt.Fprintf(&sb, "uselistorder %s %s, { 1, 0 }\n", r.ptrType(e.Refs[0].To), gname(e.Refs[0].To))
			}
		case "ulobb":
			fmt.Fprintf(&sb, "uselistorder_bb %s, %s, { 1, 0 }\n", gname(e.Refs[0].To), lname(e.Refs[0].Aux))
		}
	}
}

func (r *renderer) renderFunc(sb *strings.Builder, e *Entity, key string) {
	r.cur = e
	defer func() { r.cur = nil }()
	ret, _ := r.funcSig(e)
	var params []string
	if t := refsOf(e, "ty.sig"); len(t) > 0 {
		if e.Body == "decl" {
			params = append(params, tyName(t[0].To)+"*")
		} else {
			params = append(params, tyName(t[0].To)+"* %sigarg")
		}
	}
	for k, t := range refsOf(e, "ty.pattr") {
		p := tyName(t.To) + "* byval(" + tyName(t.To) + ")"
		if e.Body != "decl" {
			p += fmt.Sprintf(" %%byvalarg%d", k)
		}
		params = append(params, p)
	}
	for _, l := range e.Locals {
		if l.LK == "param" {
			if l.N == "" {
				params = append(params, "i32")
			} else {
				params = append(params, "i32 %"+l.N)
			}
		}
	}
	var tail strings.Builder
	for _, x := range refsOf(e, "ty.fattr") {
		tail.WriteString(" preallocated(" + tyName(x.To) + ")")
	}
	for _, x := range refsOf(e, "a.func") {
		tail.WriteString(" " + attrID(x.To))
	}
	for _, x := range refsOf(e, "c.func") {
		tail.WriteString(" " + comdatRef(x))
	}
	for _, x := range refsOf(e, "g.personality") {
		fmt.Fprintf(&tail, " personality %s", r.asI8(x.To))
	}
	md := r.mdAttach(e.Refs, " ")
	if e.Body == "decl" {
		fmt.Fprintf(sb, "declare%s %s %s(%s)%s\n", md, ret, gname(key), strings.Join(params, ", "), tail.String())
		return
	}
	fmt.Fprintf(sb, "define %s %s(%s)%s%s {\n", ret, gname(key), strings.Join(params, ", "), tail.String(), md)
	if e.Body == "resolver" {
		sb.WriteString("  ret void ()* null\n}\n")
		return
	}
	retInst := "ret void"
	if ret != "void" {
		retInst = "ret " + ret + " null"
	}
	// blocks
	var curTerm string
	open := false
	flush := func() {
		if open {
			sb.WriteString("  " + curTerm + "\n")
		}
	}
	for _, l := range e.Locals {
		switch l.LK {
		case "param":
		case "block":
			flush()
			open = true
			if l.N != "" {
				fmt.Fprintf(sb, "%s:\n", ident(l.N))
			}
			var ts []string
			for _, x := range l.Refs {
				if x.RK == "l.target" {
					ts = append(ts, x.To)
				}
			}
			switch len(ts) {
			case 0:
				curTerm = retInst
			case 1:
				curTerm = "br label " + lname(ts[0])
			default:
				curTerm = fmt.Sprintf("br i1 true, label %s, label %s", lname(ts[0]), lname(ts[1]))
			}
			curTerm += r.mdAttach(l.Refs, ", ")
		case "invoke":
			// a value-producing terminator: %n = invoke <ret> @callee(args) to label %T unwind label %U
			if !open {
				open = true
			}
			callee, ts := "zz", []string{}
			for _, x := range l.Refs {
				switch x.RK {
				case "g.callee":
					callee = x.To
				case "l.target":
					ts = append(ts, x.To)
				}
			}
			for len(ts) < 2 {
				ts = append(ts, "zz")
			}
			cret, cargs := "void", ""
			if ce := r.findGlob(callee); ce != nil {
				var ps []string
				cret, ps = r.funcSig(ce)
				for i, p := range ps {
					if i > 0 {
						cargs += ", "
					}
					cargs += p + " null"
				}
			}
			lhs := ""
			if l.N != "" && cret != "void" {
				lhs = lname(l.N) + " = "
			}
			fmt.Fprintf(sb, "  %sinvoke %s %s(%s)\n          to label %s unwind label %s%s\n", lhs, cret, gname(callee), cargs, lname(ts[0]), lname(ts[1]), r.mdAttach(l.Refs, " "))
			open = false
		case "catchswitch", "catchret", "cleanupret":
			// funclet terminators: they end the open block
			within, unwind, ts := "none", "to caller", []string{}
			for _, x := range l.Refs {
				switch x.RK {
				case "l.within":
					within = lname(x.To)
				case "l.unwind":
					unwind = "label " + lname(x.To)
				case "l.target":
					ts = append(ts, "label "+lname(x.To))
				}
			}
			md := r.mdAttach(l.Refs, ", ")
			switch l.LK {
			case "catchswitch":
				lhs := ""
				if l.N != "" {
					lhs = lname(l.N) + " = "
				}
				fmt.Fprintf(sb, "  %scatchswitch within %s [%s] unwind %s%s\n", lhs, within, strings.Join(ts, ", "), unwind, md)
			case "catchret":
				for len(ts) < 1 {
					ts = append(ts, "label "+lname("zz"))
				}
				fmt.Fprintf(sb, "  catchret from %s to %s%s\n", within, ts[0], md)
			case "cleanupret":
				fmt.Fprintf(sb, "  cleanupret from %s unwind %s%s\n", within, unwind, md)
			}
			open = false
		case "catchpad", "cleanuppad":
			if !open {
				open = true
				curTerm = retInst
			}
			within := "none"
			for _, x := range l.Refs {
				if x.RK == "l.within" {
					within = lname(x.To)
				}
			}
			lhs := ""
			if l.N != "" {
				lhs = lname(l.N) + " = "
			}
			fmt.Fprintf(sb, "  %s%s within %s []%s\n", lhs, l.LK, within, r.mdAttach(l.Refs, ", "))
		case "lpad":
			if !open {
				open = true
				curTerm = retInst
			}
			lhs := ""
			if l.N != "" {
				lhs = lname(l.N) + " = "
			}
			fmt.Fprintf(sb, "  %slandingpad { i8*, i32 }\n          cleanup\n", lhs)
		case "inst", "void":
			if !open {
				open = true
				curTerm = retInst
			}
			sb.WriteString("  " + r.renderInst(&l) + "\n")
		case "ulo":
			// a function-level use-list order directive: after the last block; the indexes reverse the use list
			flush()
			open = false
			v := "zz"
			for _, x := range l.Refs {
				if x.RK == "l.fulo" {
					v = x.To
				}
			}
			uses := 0
			for _, o := range e.Locals {
				for _, x := range o.Refs {
					if RefClass(x.RK) == "local" && x.RK != "l.fulo" && (x.To == v || x.Aux == v) {
						uses++
					}
				}
			}
			if uses < 2 {
				uses = 2
			}
			var idx []string
			for k := uses - 1; k >= 0; k-- {
				idx = append(idx, fmt.Sprint(k))
			}
			fmt.Fprintf(sb, "  uselistorder %s %s, { %s }\n", r.localType(v), lname(v), strings.Join(idx, ", "))
		}
	}
	flush()
	sb.WriteString("}\n")
}

// localType returns the type of a local value of the function being rendered.
func (r *renderer) localType(name string) string {
	if r.cur == nil {
		return "i32"
	}
	for _, l := range r.cur.Locals {
		if l.N == name && l.LK == "invoke" {
			for _, x := range l.Refs {
				if x.RK == "g.callee" {
					if ce := r.findGlob(x.To); ce != nil {
						ret, _ := r.funcSig(ce)
						return ret
					}
				}
			}
		}
	}
	return "i32"
}

func (r *renderer) renderInst(l *Local) string {
	lhs := ""
	if l.N != "" {
		lhs = lname(l.N) + " = "
	}
	md := r.mdAttach(l.Refs, ", ")
	var phis, ops []string
	for _, x := range l.Refs {
		switch x.RK {
		case "l.phipred":
			v := "0"
			if x.Aux != "" {
				v = lname(x.Aux)
			}
			phis = append(phis, fmt.Sprintf("[ %s, %s ]", v, lname(x.To)))
		case "l.operand":
			ops = append(ops, lname(x.To))
		}
	}
	for _, x := range l.Refs {
		switch x.RK {
		case "g.callee":
			attrs := ""
			for _, y := range l.Refs {
				if y.RK == "a.call" {
					attrs += " " + attrID(y.To)
				}
			}
			return fmt.Sprintf("call void %s()%s%s", gname(x.To), attrs, md)
		case "g.operand":
			return fmt.Sprintf("%sptrtoint %s %s to i32%s", lhs, r.ptrType(x.To), gname(x.To), md)
		case "ty.inst":
			return fmt.Sprintf("%salloca %s*%s", lhs, tyName(x.To), md)
		case "l.baddr":
			return fmt.Sprintf("%sptrtoint i8* blockaddress(%s, %s) to i32%s", lhs, gname(x.To), lname(x.Aux), md)
		}
	}
	if len(phis) > 0 {
		return fmt.Sprintf("%sphi i32 %s%s", lhs, strings.Join(phis, ", "), md)
	}
	if len(ops) == 1 {
		if t := r.localType(strings.TrimPrefix(ops[0], "%")); t != "i32" && t != "void" {
			return fmt.Sprintf("%sptrtoint %s %s to i32%s", lhs, t, ops[0], md)
		}
	}
	switch len(ops) {
	case 0:
		return fmt.Sprintf("%sadd i32 0, 1%s", lhs, md)
	case 1:
		return fmt.Sprintf("%sadd i32 %s, 1%s", lhs, ops[0], md)
	default:
		return fmt.Sprintf("%sadd i32 %s, %s%s", lhs, ops[0], ops[1], md)
	}
}

// RefClass names the index a reference site is looked up in (RefClass of TranslateSrc.tla).
func RefClass(rk string) string {
	switch rk {
	case "ty.alias", "ty.field", "ty.global", "ty.sig", "ty.inst", "ty.const", "ty.fattr", "ty.pattr":
		return "type"
	case "g.init", "g.aliasee", "g.resolver", "g.operand", "g.callee", "g.personality", "g.mdvalue", "g.ulo", "g.cmp":
		return "glob"
	case "c.global", "c.func":
		return "comdat"
	case "a.func", "a.call":
		return "attr"
	case "m.attach", "m.tuple", "m.named", "m.difield":
		return "md"
	case "l.operand", "l.target", "l.phipred", "l.unwind", "l.within", "l.fulo", "l.mdlocal", "l.ulolocal":
		return "local"
	case "l.baddr", "l.ulobb":
		return "block"
	}
	return ""
}

// SrcKey is a canonical string for a source (used to de-duplicate vectors).
func SrcKey(src []Entity) string { return Render(src) }

// VecKey is a canonical string for a vector's input (source and layout).
func VecKey(v Vector) string { return RenderLay(v.Src, v.Lay) }

// FaultSites lists "rk" values of references whose target is the undefined name.
func FaultSites(src []Entity) []string {
	var out []string
	add := func(x Ref) {
		if x.RK == "l.mdlocal" || x.RK == "l.ulolocal" {
			out = append(out, x.RK+"@local-at-module-level")
			return
		}
		if x.To == "zz" {
			out = append(out, x.RK)
		}
		if x.To == "q0" {
			out = append(out, x.RK+`@quoted-numeral`)
		}
		if x.Aux == "zz" {
			out = append(out, x.RK+".aux")
		}
		if x.To == "n0" {
			out = append(out, x.RK+"@bare-numeral")
		}
		if x.To == "qe" {
			out = append(out, x.RK+"@empty-quoted")
		}
		if x.To == "zw" {
			out = append(out, x.RK+"@id-wider-than-64-bits")
		}
		if x.To == "qz10" {
			out = append(out, x.RK+"@zero-padded-quoted-numeral")
		}

		if x.Aux == "qe" {
			out = append(out, x.RK+".aux@empty-quoted")
		}
		if x.Aux == "n0" {
			out = append(out, x.RK+".aux@bare-numeral")
		}
	}
	for _, e := range src {
		for _, x := range e.Refs {
			add(x)
		}
		for _, l := range e.Locals {
			for _, x := range l.Refs {
				add(x)
			}
		}
	}
	sort.Strings(out)
	return out
}

// DanglingSites lists "rk" of references whose target has no definition in src although the
// reference was not redirected to an undefined name: the definition was deleted.
func DanglingSites(src []Entity) []string {
	keys := Keys(src)
	def := map[string]bool{}
	for i, e := range src {
		switch {
		case isGlob(e.K):
			def["glob\x00"+keys[i]] = true
		case e.K == "type" || e.K == "comdat" || e.K == "md":
			def[e.K+"\x00"+e.N] = true
		}
	}
	var out []string
	add := func(x Ref) {
		if x.To == "zz" || x.To == "q0" || x.To == "qe" || x.To == "zw" || x.To == "qz10" {
			return
		}
		c := RefClass(x.RK)
		if c == "block" {
			c = "glob"
		}
		if c != "glob" && c != "type" && c != "comdat" && c != "md" {
			return
		}
		if !def[c+"\x00"+x.To] {
			s := x.RK
			if x.Aux == "implicit" {
				s += "(implicit)"
			}
			out = append(out, s)
		}
	}
	for _, e := range src {
		for _, x := range e.Refs {
			add(x)
		}
		for _, l := range e.Locals {
			for _, x := range l.Refs {
				add(x)
			}
		}
	}
	sort.Strings(out)
	if len(out) > 3 {
		out = out[:3]
	}
	return out
}

// ForeignSites lists "rk" of references to a local / block that the function in question does not
// define although another function does (scope faults).
func ForeignSites(src []Entity) []string {
	keys := Keys(src)
	localsOf := map[string]map[string]bool{}
	blocksOf := map[string]map[string]bool{}
	for i, e := range src {
		if e.K != "func" {
			continue
		}
		ls, bs := map[string]bool{}, map[string]bool{}
		for _, l := range e.Locals {
			if l.N != "" {
				ls[l.N] = true
				if l.LK == "block" {
					bs[l.N] = true
				}
			}
		}
		localsOf[keys[i]], blocksOf[keys[i]] = ls, bs
	}
	elsewhere := func(m map[string]map[string]bool, self, name string) bool {
		for k, s := range m {
			if k != self && s[name] {
				return true
			}
		}
		return false
	}
	var out []string
	chk := func(fn string, x Ref) {
		switch RefClass(x.RK) {
		case "local":
			if x.RK == "l.mdlocal" || x.RK == "l.ulolocal" {
				return // named by FaultSites
			}
			for _, n := range []string{x.To, x.Aux} {
				if n != "" && !localsOf[fn][n] && elsewhere(localsOf, fn, n) {
					out = append(out, x.RK)
				}
			}
		case "block":
			if bs, ok := blocksOf[x.To]; ok && !bs[x.Aux] && elsewhere(blocksOf, x.To, x.Aux) {
				out = append(out, x.RK+".aux")
			}
		}
	}
	for i, e := range src {
		for _, x := range e.Refs {
			chk("", x)
		}
		for _, l := range e.Locals {
			for _, x := range l.Refs {
				chk(keys[i], x)
			}
		}
	}
	sort.Strings(out)
	return out
}

// DupSites lists "kind" of entities / locals defined twice.
func DupSites(src []Entity) []string {
	var out []string
	seen := map[string]bool{}
	keys := Keys(src)
	for i, e := range src {
		cls := e.K
		if isGlob(e.K) {
			cls = "glob"
		}
		if cls == "attr" || cls == "nmd" || cls == "ulo" || cls == "ulobb" || cls == "asm" || cls == "srcfile" || cls == "triple" || cls == "datalayout" {
			continue
		}
		k := cls + "\x00" + keys[i]
		if seen[k] {
			out = append(out, e.K+":"+e.Body)
		}
		seen[k] = true
		ls := map[string]bool{}
		unnamedValue := false
		for _, l := range e.Locals {
			if l.N == "" {
				if l.LK == "param" || l.LK == "inst" {
					unnamedValue = true
				}
				continue
			}
			if l.N == "n0" && unnamedValue {
				out = append(out, "local:%0-numbered-twice")
			}
			if ls[l.N] {
				out = append(out, "local:"+l.LK)
			}
			ls[l.N] = true
		}
	}
	sort.Strings(out)
	return out
}
