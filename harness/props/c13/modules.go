package c13

import (
	"os"
	"path/filepath"
	"sort"
	"strings"

	"github.com/llir/llvm/asm"
	"github.com/llir/llvm/ir"
	"github.com/llir/llvm/ir/constant"
	"github.com/llir/llvm/ir/enum"
	"github.com/llir/llvm/ir/metadata"
	"github.com/llir/llvm/ir/types"

	"verif/harness/mbt"
)

// A modSource yields fresh, never-printed copies of one module.
type modSource struct {
	Name    string
	Parsed  bool // produced by asm (IDs pre-assigned in textual order) or by the ir constructors (IDs unassigned)
	Build   func() *ir.Module
	Unnamed bool // has unnamed globals, locals and metadata definitions
	// How the module was built, for signatures: "" (parser or constructors only),
	// "late-fields" (exported fields set after the constructors), "literal"
	// (struct literals, lazily cached fields left nil where the documentation allows it).
	Construction string
	// ModulePrintersOnly: run with the "module" mix only. The property these
	// sources probe is that *module printers among themselves* stay race-free when
	// lazily cached fields are nil or stale; what lock-free readers do next to a
	// first print is the known residual and is measured on the other sources.
	ModulePrintersOnly bool
}

// parsedMix has unnamed globals, unnamed functions used as callees, unnamed
// parameters, blocks and instructions, void calls (which take no number),
// explicit, sparse and distinct metadata, attachments and named metadata.
const parsedMix = `
@0 = global i32 1
@1 = global i32 2, !foo !7
@named = global i32* @1
@2 = private constant [2 x i32] [i32 3, i32 4]

declare void @3(i32)

define i32 @4(i32 %0, i32 %x) !bar !2 {
  %2 = add i32 %0, %x
  %3 = load i32, i32* @1
  call void @3(i32 %3)
  %4 = icmp eq i32 %2, %3
  br i1 %4, label %5, label %exit

5:
  %6 = call i32 @4(i32 %3, i32 %2), !foo !0
  %7 = getelementptr [2 x i32], [2 x i32]* @2, i32 0, i32 1
  %8 = load i32, i32* %7
  %9 = add i32 %6, %8
  br label %exit

exit:
  %r = phi i32 [ %2, %1 ], [ %9, %5 ]
  ret i32 %r, !foo !7
}

define void @5() {
  call void @3(i32 0), !foo !{!0, !2}
  %1 = call i32 @4(i32 1, i32 2)
  %2 = alloca i32
  store i32 %1, i32* %2
  ret void
}

!named = !{!0, !2}
!named = !{!7}

!0 = !{!2, !"s", i32 1}
!2 = distinct !{!0, null}
!7 = !{}
`

func parseSource(name, text string) modSource {
	return modSource{Name: name, Parsed: true, Unnamed: true, Build: func() *ir.Module {
		m, err := asm.ParseString(name, text)
		if err != nil {
			mbt.Infra("C13: module %s does not parse: %v", name, err)
		}
		return m
	}}
}

// builtMix builds, through the ir constructors only, a module of the same
// shape as parsedMix; every ID is unassigned (0, metadata -1) until a print.
func builtMix() *ir.Module {
	m := ir.NewModule()
	md0 := &metadata.Tuple{MetadataID: -1}
	md1 := &metadata.Tuple{MetadataID: -1, Distinct: true}
	md2 := &metadata.Tuple{MetadataID: 1} // explicit: the unassigned ones receive 0, 2, 3
	md3 := &metadata.Tuple{MetadataID: -1}
	md0.Fields = []metadata.Field{md1, &metadata.String{Value: "s"}}
	// no cycle here: an unnumbered cyclic tuple cannot be printed at all (Ident recurses for ever)
	md1.Fields = []metadata.Field{md2, metadata.Null}
	md3.Fields = []metadata.Field{md2, md0}
	m.MetadataDefs = append(m.MetadataDefs, md0, md1, md2, md3)
	m.NamedMetadataDefs["named"] = &metadata.NamedDef{Name: "named", Nodes: []metadata.Node{md0, md3}}

	g0 := m.NewGlobalDef("", constant.NewInt(types.I32, 1))
	g1 := m.NewGlobalDef("", constant.NewInt(types.I32, 2))
	g1.Metadata = append(g1.Metadata, &metadata.Attachment{Name: "foo", Node: md3})
	m.NewGlobalDef("named", g1)
	// constants whose printers have helper code: large integers (decimal or u0x notation), floats, strings
	m.NewGlobalDef("big", constant.NewInt(types.I64, 1099511627776))
	m.NewGlobalDef("", constant.NewStruct(types.NewStruct(types.I32, types.Double, types.NewArray(3, types.I8)),
		constant.NewInt(types.I32, 65536), constant.NewFloat(types.Double, 3.25e100), constant.NewCharArrayFromString("a\"\n")))
	arr := m.NewGlobalDef("", constant.NewArray(types.NewArray(2, types.I32), constant.NewInt(types.I32, 305419896), constant.NewInt(types.I32, 4096)))
	arr.Immutable = true
	_ = g0

	callee := m.NewFunc("", types.Void, ir.NewParam("", types.I32))
	f := m.NewFunc("", types.I32, ir.NewParam("", types.I32), ir.NewParam("x", types.I32))
	f.Metadata = append(f.Metadata, &metadata.Attachment{Name: "bar", Node: md1})
	entry := f.NewBlock("")
	then := f.NewBlock("")
	exit := f.NewBlock("exit")
	a := entry.NewAdd(f.Params[0], f.Params[1])
	l := entry.NewLoad(types.I32, g1)
	entry.NewCall(callee, l) // void: takes no number
	cmp := entry.NewICmp(enum.IPredEQ, a, l)
	entry.NewCondBr(cmp, then, exit)
	c := then.NewCall(f, l, a)
	c.Metadata = append(c.Metadata, &metadata.Attachment{Name: "foo", Node: md0})
	gep := then.NewGetElementPtr(types.NewArray(2, types.I32), arr, constant.NewInt(types.I32, 0), constant.NewInt(types.I32, 1))
	l2 := then.NewLoad(types.I32, gep)
	s := then.NewAdd(c, l2)
	then.NewBr(exit)
	phi := exit.NewPhi(ir.NewIncoming(a, entry), ir.NewIncoming(s, then))
	phi.SetName("r")
	ret := exit.NewRet(phi)
	ret.Metadata = append(ret.Metadata, &metadata.Attachment{Name: "foo", Node: md3})

	h := m.NewFunc("", types.Void)
	hb := h.NewBlock("")
	vc := hb.NewCall(callee, constant.NewInt(types.I32, 0))
	vc.Metadata = append(vc.Metadata, &metadata.Attachment{Name: "foo", Node: &metadata.Tuple{MetadataID: -1, Fields: []metadata.Field{md0, md1}}})
	r := hb.NewCall(f, constant.NewInt(types.I32, 1), constant.NewInt(types.I32, 2))
	al := hb.NewAlloca(types.I32)
	hb.NewStore(r, al)
	hb.NewRet(nil)
	return m
}

// builtWide is a constructed module with many unnamed functions and locals, so
// that the first prints of several goroutines overlap for a long time.
func builtWide() *ir.Module {
	m := ir.NewModule()
	var gs []*ir.Global
	for i := 0; i < 6; i++ {
		gs = append(gs, m.NewGlobalDef("", constant.NewInt(types.I64, int64(i)<<20+65536)))
	}
	var mds []*metadata.Tuple
	for i := 0; i < 6; i++ {
		t := &metadata.Tuple{MetadataID: -1, Distinct: i%2 == 0}
		if i == 3 {
			t.MetadataID = 2
		}
		if i > 0 {
			t.Fields = []metadata.Field{mds[i-1]}
		}
		mds = append(mds, t)
		m.MetadataDefs = append(m.MetadataDefs, t)
	}
	var prev *ir.Func
	for i := 0; i < 8; i++ {
		f := m.NewFunc("", types.I64, ir.NewParam("", types.I64))
		b := f.NewBlock("")
		x := b.NewLoad(types.I64, gs[i%len(gs)])
		y := b.NewAdd(x, f.Params[0])
		nb := f.NewBlock("")
		b.NewBr(nb)
		z := nb.NewMul(y, x)
		z.Metadata = append(z.Metadata, &metadata.Attachment{Name: "foo", Node: mds[i%len(mds)]})
		if prev != nil {
			c := nb.NewCall(prev, z)
			nb.NewRet(c)
		} else {
			nb.NewRet(z)
		}
		prev = f
	}
	return m
}

// builtLateFields uses the constructors and then sets exported fields, which is
// as legal as passing everything to a constructor: address spaces (the pointer
// type cached by the constructor is then stale), content type, alignment,
// linkage. The objects are referenced only through constructors that do not ask
// for their type (NewLoad, NewRet, NewPtrToInt, metadata), so nothing refreshes a
// cache before the first print.
func builtLateFields() *ir.Module {
	m := ir.NewModule()
	var gs []*ir.Global
	for i := 0; i < 4; i++ {
		g := m.NewGlobalDef("", constant.NewInt(types.I32, int64(i)))
		g.AddrSpace = types.AddrSpace(i) // 0 for the first: not stale
		g.Align = 4
		if i == 3 {
			g.ContentType = types.I64
			g.Init = constant.NewInt(types.I64, 7)
			g.Immutable = true
		}
		gs = append(gs, g)
	}
	ng := m.NewGlobal("ext", types.I8)
	ng.AddrSpace = 3
	ng.Linkage = enum.LinkageExternal
	md := &metadata.Tuple{MetadataID: -1}
	m.MetadataDefs = append(m.MetadataDefs, md)
	var prev *ir.Func
	for i := 0; i < 3; i++ {
		f := m.NewFunc("", types.I64, ir.NewParam("", types.I64))
		// a table entry that holds the function's address, made before the address space is chosen
		tab := m.NewGlobalDef("", f)
		tab.Immutable = true
		f.AddrSpace = types.AddrSpace(2 * (i + 1))
		tab.ContentType = types.NewPointer(f.Sig)
		tab.ContentType.(*types.PointerType).AddrSpace = f.AddrSpace
		f.Align = 16
		b := f.NewBlock("")
		if prev != nil {
			b.NewPtrToInt(prev, types.I64) // a function as operand
		}
		prev = f
		a := b.NewAlloca(types.I32)
		a.AddrSpace = types.AddrSpace(5 * i)
		a.Align = 8
		x := b.NewLoad(types.I32, gs[i+1])
		x.Metadata = append(x.Metadata, &metadata.Attachment{Name: "foo", Node: md})
		y := b.NewLoad(types.I8, ng)
		_ = y
		z := b.NewLoad(types.I32, a)
		_ = z
		p := b.NewPtrToInt(gs[(i+2)%4], types.I64)
		q := b.NewPtrToInt(x, types.I64)
		_ = q
		b.NewRet(p)
	}
	return m
}

// builtLiterals builds the objects whose documentation allows it as struct
// literals: "If Typ is nil, the first invocation of Type stores a pointer type"
// (ir.Global, ir.Func); instructions are given as literals with their lazily
// cached Typ left nil as well (InstAlloca, InstAdd, InstLoad need none).
func builtLiterals() *ir.Module {
	m := ir.NewModule()
	var gs []*ir.Global
	for i := 0; i < 3; i++ {
		g := &ir.Global{ContentType: types.I32, Init: constant.NewInt(types.I32, int64(i)), AddrSpace: types.AddrSpace(i)}
		m.Globals = append(m.Globals, g)
		gs = append(gs, g)
	}
	callee := &ir.Func{Sig: types.NewFunc(types.I64), Parent: m}
	callee.SetName("ext")
	m.Funcs = append(m.Funcs, callee)
	// a global initialised with the address of the literal function
	fp := &ir.Global{ContentType: types.NewPointer(callee.Sig), Init: callee}
	fp.SetName("fp")
	m.Globals = append(m.Globals, fp)
	for i := 0; i < 3; i++ {
		f := &ir.Func{Sig: types.NewFunc(types.I64, types.I64), Params: []*ir.Param{ir.NewParam("", types.I64)}, Parent: m}
		m.Funcs = append(m.Funcs, f)
		b := &ir.Block{Parent: f}
		f.Blocks = append(f.Blocks, b)
		a := &ir.InstAlloca{ElemType: types.I32, AddrSpace: types.AddrSpace(i)}
		x := ir.NewLoad(types.I32, gs[i])
		s := &ir.InstAdd{X: x, Y: constant.NewInt(types.I32, 1)}
		z := ir.NewLoad(types.I32, a)
		p := ir.NewPtrToInt(gs[(i+1)%3], types.I64)
		q := ir.NewPtrToInt(callee, types.I64)
		b.Insts = append(b.Insts, a, x, s, z, p, q)
		b.Term = ir.NewRet(p)
	}
	return m
}

// builtByHand attaches everything the way the exported slices allow: functions
// made with ir.NewFunc or as a literal and appended to m.Funcs (their Parent is
// nil: only Module.NewFunc and the parser set it), blocks made with ir.NewBlock
// and appended to f.Blocks (Parent nil), instructions and terminators made with
// the ir.New* constructors and put into b.Insts / b.Term, globals made with
// ir.NewGlobalDef and appended to m.Globals. One function comes from m.NewFunc
// so that attached and unattached functions are printed side by side.
func builtByHand() *ir.Module {
	m := ir.NewModule()
	var gs []*ir.Global
	for i := 0; i < 3; i++ {
		g := ir.NewGlobalDef("", constant.NewInt(types.I32, int64(70000+i)))
		m.Globals = append(m.Globals, g)
		gs = append(gs, g)
	}
	md := &metadata.Tuple{MetadataID: -1}
	m.MetadataDefs = append(m.MetadataDefs, md)
	var prev *ir.Func
	for i := 0; i < 4; i++ {
		var f *ir.Func
		switch i {
		case 0: // struct literal
			f = &ir.Func{Sig: types.NewFunc(types.I32, types.I32, types.I32), Params: []*ir.Param{ir.NewParam("", types.I32), ir.NewParam("", types.I32)}}
			m.Funcs = append(m.Funcs, f)
		case 3: // the attached way
			f = m.NewFunc("", types.I32, ir.NewParam("", types.I32), ir.NewParam("", types.I32))
		default:
			f = ir.NewFunc("", types.I32, ir.NewParam("", types.I32), ir.NewParam("", types.I32))
			m.Funcs = append(m.Funcs, f)
		}
		entry := ir.NewBlock("")
		body := ir.NewBlock("")
		exit := ir.NewBlock("")
		f.Blocks = append(f.Blocks, entry, body, exit)
		x := ir.NewLoad(types.I32, gs[i%3])
		a := ir.NewAdd(x, f.Params[0])
		c := ir.NewICmp(enum.IPredSLT, a, f.Params[1])
		entry.Insts = append(entry.Insts, x, a, c)
		entry.Term = ir.NewCondBr(c, body, exit)
		mu := ir.NewMul(a, a)
		mu.Metadata = append(mu.Metadata, &metadata.Attachment{Name: "foo", Node: md})
		body.Insts = append(body.Insts, mu)
		if prev != nil {
			call := ir.NewCall(prev, mu, a)
			body.Insts = append(body.Insts, call)
		}
		body.Term = ir.NewBr(exit)
		phi := ir.NewPhi(ir.NewIncoming(a, entry), ir.NewIncoming(mu, body))
		exit.Insts = append(exit.Insts, phi)
		exit.Term = ir.NewRet(phi)
		prev = f
	}
	return m
}

// editModule changes a printed module so that the cached IDs are stale: an
// unnamed instruction in front of every function body, an unnamed global in
// front of the globals, an unnumbered metadata definition in front of the
// definitions. The next print has to renumber.
func editModule(m *ir.Module) {
	for _, f := range m.Funcs {
		if len(f.Blocks) == 0 {
			continue
		}
		b := f.Blocks[0]
		ins := ir.NewAdd(constant.NewInt(types.I32, 1), constant.NewInt(types.I32, 2))
		b.Insts = append([]ir.Instruction{ins}, b.Insts...)
	}
	g := ir.NewGlobalDef("", constant.NewInt(types.I16, 4097))
	m.Globals = append([]*ir.Global{g}, m.Globals...)
	m.MetadataDefs = append([]metadata.Definition{&metadata.Tuple{MetadataID: -1}}, m.MetadataDefs...)
}

// bringToStart puts a fresh module into the start state of a scenario.
func bringToStart(m *ir.Module, start string) {
	switch start {
	case "already-printed":
		_ = m.String()
	case "printed-then-edited":
		_ = m.String()
		editModule(m)
	}
}

// sources returns the module sources of a tier.
func sources(tier string) []modSource {
	out := []modSource{
		parseSource("parsed:mix", parsedMix),
		{Name: "built:mix", Build: builtMix, Unnamed: true},
		{Name: "built:wide", Build: builtWide, Unnamed: true},
		{Name: "built:late-fields", Build: builtLateFields, Unnamed: true, Construction: "late-fields", ModulePrintersOnly: true},
		{Name: "built:by-hand", Build: builtByHand, Unnamed: true, Construction: "by-hand", ModulePrintersOnly: true},
		{Name: "built:literals", Build: builtLiterals, Unnamed: true, Construction: "literal", ModulePrintersOnly: true},
	}
	files, _ := filepath.Glob(filepath.Join(mbt.Repo, "asm", "testdata", "*.ll"))
	sort.Strings(files)
	n := 0
	for _, p := range files {
		b, err := os.ReadFile(p)
		if err != nil {
			continue
		}
		if _, err := asm.ParseString(p, string(b)); err != nil {
			continue // not every test file is meant to parse
		}
		txt := string(b)
		// only files with unnamed locals are interesting here
		if !strings.Contains(txt, "%0") && !strings.Contains(txt, "%1") {
			continue
		}
		n++
		if tier != "thorough" && n > 2 {
			break
		}
		out = append(out, parseSource("parsed:"+filepath.Base(p), txt))
	}
	return out
}
