package c13

import (
	"bytes"
	"encoding/json"
	"fmt"
	"os"
	"runtime"
	"sort"
	"strconv"
	"strings"
	"sync"
	"time"

	"github.com/llir/llvm/ir"

	"github.com/llir/llvm/ir/value"
	"verif/harness/mbt"
)

// scenario describes one child run: one module source, one start state, one
// mix of entry points, N goroutines released together, Rounds repetitions
// (each on a fresh copy of the module), K calls per goroutine and round.
type scenario struct {
	Name   string `json:"name"`
	Source string `json:"source"`
	Tier   string `json:"tier"`
	Start  string `json:"start"` // "never-printed" | "already-printed"
	Mix    string `json:"mix"`   // "module" | "mixed" | "func+block"
	N      int    `json:"n"`
	K      int    `json:"k"`
	Rounds int    `json:"rounds"`
	// Traced rounds: hook events of the first TraceRounds rounds are kept.
	TraceRounds int    `json:"trace_rounds"`
	Out         string `json:"out"`
	// FreshWrites is filled in by the parent from the child's result: the number of SetID calls a
	// sequential print of a fresh copy performs (0 = every ID already has its final value)
	FreshWrites int  `json:"fresh_writes"`
	FreshKnown  bool `json:"fresh_known"`
	// Texts: corpus mode -- path of a JSON list of module texts printed concurrently (see rich.go)
	Texts string `json:"texts,omitempty"`
	// Cold: before any sequential print has happened in the process (reference texts included), the N
	// goroutines print the freshly parsed modules at once; the texts are compared with the sequential
	// references afterwards.  Package-level state that the first print of a process initialises lazily
	// (keyword tables, caches) is then initialised under concurrency -- a harness that prints its references
	// first warms every such table and hides the race for the rest of the process.
	Cold bool `json:"cold,omitempty"`
}

// traceRow is one row of printconc_trace.ndjson (see spec/PrintConcTrace.tla).
type traceRow struct {
	Sc       string     `json:"sc"`
	Mu       string     `json:"mu"`
	Numbered bool       `json:"numbered"`
	Evs      [][5]int64 `json:"evs"` // g, ev, old, new, seq
}

type mismatch struct {
	Entry  string `json:"entry"` // module | func | block | ident
	Module string `json:"module,omitempty"`
	Want   string `json:"want"`
	Got    string `json:"got"`
}

type childResult struct {
	FreshWrites int        `json:"fresh_writes"`      // SetID calls of a sequential print of a fresh copy
	Skipped     int        `json:"skipped,omitempty"` // corpus mode: texts the library does not parse / print sequentially
	Modules     int        `json:"modules,omitempty"`
	Calls       int        `json:"calls"`
	Mismatches  []mismatch `json:"mismatches"`
	Panics      []string   `json:"panics"`
	Rows        []traceRow `json:"rows"`
	SetIDs      int        `json:"setids"`
	// Deadlock is set when the printers of a round stopped making progress and every one that had not
	// returned was parked in a mutex acquisition at two samples five seconds apart: no goroutine that could
	// release a lock is runnable, so no call will ever return ("every call returns" is part of C13).
	Deadlock string `json:"deadlock,omitempty"`
}

// --- entry points -------------------------------------------------------------

func printModule(m *ir.Module, viaWriteTo bool) string {
	if viaWriteTo {
		var buf bytes.Buffer
		if _, err := m.WriteTo(&buf); err != nil {
			return "ERROR " + err.Error()
		}
		return buf.String()
	}
	return m.String()
}

func printFuncs(m *ir.Module) string {
	var sb strings.Builder
	for _, f := range m.Funcs {
		sb.WriteString(f.LLString())
		sb.WriteString("\n")
	}
	return sb.String()
}

func printBlocks(m *ir.Module) string {
	var sb strings.Builder
	for _, f := range m.Funcs {
		for _, b := range f.Blocks {
			sb.WriteString(b.LLString())
			sb.WriteString("\n")
		}
	}
	return sb.String()
}

// printIdents performs the identifier and type queries printing performs, on
// every global, function, parameter, block, instruction and terminator.
func printIdents(m *ir.Module) string {
	var sb strings.Builder
	q := func(v value.Value) {
		sb.WriteString(v.Type().String())
		sb.WriteString(" ")
		sb.WriteString(v.Ident())
		sb.WriteString("; ")
		sb.WriteString(v.String())
		sb.WriteString("\n")
	}
	for _, g := range m.Globals {
		q(g)
	}
	for _, a := range m.Aliases {
		q(a)
	}
	for _, f := range m.Funcs {
		q(f)
		for _, p := range f.Params {
			q(p)
		}
		for _, b := range f.Blocks {
			q(b)
			for _, inst := range b.Insts {
				if v, ok := inst.(value.Value); ok {
					q(v)
				}
			}
			if v, ok := b.Term.(value.Value); ok {
				q(v)
			}
		}
	}
	for _, md := range m.MetadataDefs {
		sb.WriteString(md.Ident())
		sb.WriteString("\n")
	}
	return sb.String()
}

// entryOf returns the entry point kind of goroutine i in the given mix.
func entryOf(mix string, i int) string {
	switch mix {
	case "module":
		if i%2 == 0 {
			return "module"
		}
		return "module-writeto"
	case "func+block":
		return []string{"func", "block", "ident"}[i%3]
	default: // mixed
		return []string{"module", "func", "block", "ident", "module-writeto", "func", "block", "ident"}[i%8]
	}
}

func call(entry string, m *ir.Module) string {
	switch entry {
	case "module":
		return printModule(m, false)
	case "module-writeto":
		return printModule(m, true)
	case "func":
		return printFuncs(m)
	case "block":
		return printBlocks(m)
	default:
		return printIdents(m)
	}
}

// --- hook ---------------------------------------------------------------------

// The hook must not synchronise: any lock or atomic in it would add
// happens-before edges between critical sections of different mutexes and hide
// races from the detector. Per-goroutine buffers (the map is read-only while
// the goroutines run) and per-mutex counters that are touched only while that
// mutex is held need none.
type gbuf struct {
	g   int64
	cur *muInfo // mutex this goroutine holds according to its own events
	evs []hookEv
}

type hookEv struct {
	mu  *muInfo
	ev  int64
	old int64
	new int64
	seq int64
}

type muInfo struct {
	name string
	seq  int64 // next sequence number; accessed only inside the critical section
}

type hookState struct {
	bufs map[uint64]*gbuf        // goroutine id -> buffer (read-only during a round)
	mus  map[interface{}]*muInfo // *ir.Module / *ir.Func -> counter (read-only during a round)
}

var hs *hookState

func goid() uint64 {
	var b [64]byte
	n := runtime.Stack(b[:], false)
	// "goroutine 123 [running]:"
	f := bytes.Fields(b[:n])
	id, _ := strconv.ParseUint(string(f[1]), 10, 64)
	return id
}

// countSetIDs, when non-nil, counts setid events (sequential phases only).
var countSetIDs *int

func hook(ev string, obj interface{}, old, new int64) {
	h := hs
	if h == nil {
		if c := countSetIDs; c != nil && ev == "setid" {
			*c++
		}
		return
	}
	b := h.bufs[goid()]
	if b == nil {
		return
	}
	switch ev {
	case "lock":
		mi := h.mus[obj]
		if mi == nil {
			return
		}
		b.cur = mi
		b.evs = append(b.evs, hookEv{mi, 0, old, new, mi.seq})
		mi.seq++
	case "unlock":
		mi := h.mus[obj]
		if mi == nil {
			return
		}
		b.evs = append(b.evs, hookEv{mi, 2, old, new, mi.seq})
		mi.seq++
		b.cur = nil
	case "setid":
		mi := b.cur
		if mi == nil {
			b.evs = append(b.evs, hookEv{nil, 1, old, new, -1})
			return
		}
		b.evs = append(b.evs, hookEv{mi, 1, old, new, mi.seq})
		mi.seq++
	}
}

// --- child main ---------------------------------------------------------------

func childMain(path string) {
	var sc scenario
	b, err := os.ReadFile(path)
	if err != nil || json.Unmarshal(b, &sc) != nil {
		fmt.Println("child: bad scenario file")
		os.Exit(3)
	}
	if sc.Texts != "" {
		childCorpus(sc)
	}
	var src *modSource
	for _, s := range sources(sc.Tier) {
		if s.Name == sc.Source {
			s := s
			src = &s
		}
	}
	if src == nil {
		fmt.Println("child: unknown source", sc.Source)
		os.Exit(3)
	}
	res := childResult{}
	ir.VerifHook = hook
	entries := map[string]bool{}
	for i := 0; i < sc.N; i++ {
		entries[entryOf(sc.Mix, i)] = true
	}
	// reference texts of lone sequential calls
	ref := map[string]string{}
	for e := range entries {
		m := src.Build()
		bringToStart(m, sc.Start)
		ref[e] = call(e, m)
	}
	// does a fresh copy still need IDs? (constructed modules do; parsed modules usually do not, but the
	// parser leaves the unnamed parameters of declarations unnumbered)
	// (FreshWrites: measured in the start state of the scenario; after an edit the IDs are stale again)
	{
		fm := src.Build()
		bringToStart(fm, sc.Start)
		cnt := 0
		countSetIDs = &cnt
		mbt.Guard(func() { _ = fm.String() })
		countSetIDs = nil
		res.FreshWrites = cnt
	}
	numbered := res.FreshWrites == 0
	var mu sync.Mutex // guards res.Mismatches / res.Panics only, after the printing calls
	for r := 0; r < sc.Rounds; r++ {
		m := src.Build()
		st := &hookState{bufs: map[uint64]*gbuf{}, mus: map[interface{}]*muInfo{}}
		st.mus[m] = &muInfo{name: "m"}
		for i, f := range m.Funcs {
			st.mus[f] = &muInfo{name: "f" + strconv.Itoa(i)}
		}
		main := &gbuf{g: 0}
		st.bufs[goid()] = main
		hs = st
		if sc.Start != "never-printed" {
			bringToStart(m, sc.Start)
			// the first print is not part of the recording
			main.evs, main.cur = nil, nil
			for _, mi := range st.mus {
				mi.seq = 0
			}
		}
		start := make(chan struct{})
		ready := make(chan uint64, sc.N)
		var wg sync.WaitGroup
		bufs := make([]*gbuf, sc.N)
		for i := 0; i < sc.N; i++ {
			bufs[i] = &gbuf{g: int64(i + 1)}
		}
		for i := 0; i < sc.N; i++ {
			wg.Add(1)
			go func(i int) {
				defer wg.Done()
				ready <- goid()
				<-start
				e := entryOf(sc.Mix, i)
				kk := sc.K
				if r < sc.TraceRounds && kk > 2 {
					kk = 2 // recorded rounds stay short: one row per mutex is replayed by TLC
				}
				for k := 0; k < kk; k++ {
					var got string
					func() {
						defer func() {
							if x := recover(); x != nil {
								mu.Lock()
								res.Panics = append(res.Panics, fmt.Sprintf("%s: %v", e, x))
								mu.Unlock()
								got = ref[e]
							}
						}()
						got = call(e, m)
					}()
					if got != ref[e] {
						mu.Lock()
						if len(res.Mismatches) < 20 {
							res.Mismatches = append(res.Mismatches, mismatch{Entry: e, Want: ref[e], Got: got})
						} else {
							res.Mismatches = append(res.Mismatches, mismatch{Entry: e})
						}
						mu.Unlock()
					}
				}
			}(i)
		}
		// The goroutines park on `start` in creation order of their ready
		// messages; map their ids to buffers before any of them runs a printer.
		ids := make([]uint64, 0, sc.N)
		for i := 0; i < sc.N; i++ {
			ids = append(ids, <-ready)
		}
		// ids arrive in arbitrary order; the goroutine number is only a label
		for i, id := range ids {
			st.bufs[id] = bufs[i]
		}
		close(start) // the barrier: happens-before edge from the setup to every worker
		if dl := waitOrDeadlock(&wg, sc.N); dl != "" {
			res.Deadlock = fmt.Sprintf("round %d: %s", r, dl)
			out, _ := json.Marshal(res)
			if err := os.WriteFile(sc.Out, out, 0o644); err != nil {
				fmt.Println("child: cannot write result:", err)
				os.Exit(3)
			}
			os.Exit(0) // the parked goroutines die with the process
		}
		hs = nil
		res.Calls += sc.N * sc.K
		if r < sc.TraceRounds {
			rows := map[string]*traceRow{}
			order := []string{}
			add := func(name string, g int64, e hookEv) {
				row := rows[name]
				if row == nil {
					row = &traceRow{Sc: fmt.Sprintf("%s#%d", sc.Name, r), Mu: name, Numbered: numbered}
					rows[name] = row
					order = append(order, name)
				}
				row.Evs = append(row.Evs, [5]int64{g, e.ev, e.old, e.new, e.seq})
			}
			for _, gb := range append([]*gbuf{main}, bufs...) {
				for _, e := range gb.evs {
					if e.ev == 1 {
						res.SetIDs++
					}
					if e.mu == nil {
						add("none", gb.g, e)
					} else {
						add(e.mu.name, gb.g, e)
					}
				}
			}
			for _, name := range order {
				row := rows[name]
				if name != "none" {
					sortBySeq(row.Evs)
				}
				res.Rows = append(res.Rows, *row)
			}
			// lock-order pairs: mutex h was held by a goroutine when it acquired mutex a (program order of each
			// goroutine's own events; 0 = module mutex, i+1 = mutex of function i).  PrintConcTrace requires the
			// relation to be acyclic (PrintLocks.tla: a cycle in the lock order is a reachable deadlock).
			orderRow := traceRow{Sc: fmt.Sprintf("%s#%d", sc.Name, r), Mu: "order", Numbered: numbered}
			muIdx := func(name string) int64 {
				if name == "m" {
					return 0
				}
				n, _ := strconv.Atoi(name[1:])
				return int64(n + 1)
			}
			seenPair := map[[2]int64]bool{}
			for _, gb := range append([]*gbuf{main}, bufs...) {
				var held []*muInfo
				for _, e := range gb.evs {
					if e.mu == nil {
						continue
					}
					switch e.ev {
					case 0:
						for _, h := range held {
							pr := [2]int64{muIdx(h.name), muIdx(e.mu.name)}
							if !seenPair[pr] {
								seenPair[pr] = true
								orderRow.Evs = append(orderRow.Evs, [5]int64{gb.g, pr[0], pr[1], 0, 0})
							}
						}
						held = append(held, e.mu)
					case 2:
						for i := len(held) - 1; i >= 0; i-- {
							if held[i] == e.mu {
								held = append(held[:i], held[i+1:]...)
								break
							}
						}
					}
				}
			}
			if len(orderRow.Evs) > 0 {
				res.Rows = append(res.Rows, orderRow)
			}
		}
	}
	out, _ := json.Marshal(res)
	if err := os.WriteFile(sc.Out, out, 0o644); err != nil {
		fmt.Println("child: cannot write result:", err)
		os.Exit(3)
	}
	os.Exit(0)
}

// waitOrDeadlock waits for the workers of one round.  It returns "" when they all returned, and a
// description when they provably never will: at two consecutive samples, five seconds apart, the same
// set of worker goroutines is unfinished and EVERY one of them is parked in a mutex acquisition
// (goroutine state sync.Mutex.Lock / sync.RWMutex.* / semacquire).  A goroutine that holds a lock and
// could still release it would be runnable, running, or parked elsewhere, so a slow machine cannot
// produce this picture; only the printers touch these mutexes.
func waitOrDeadlock(wg *sync.WaitGroup, n int) string {
	done := make(chan struct{})
	go func() { wg.Wait(); close(done) }()
	prev := ""
	for {
		select {
		case <-done:
			return ""
		case <-time.After(5 * time.Second):
		}
		buf := make([]byte, 1<<22)
		buf = buf[:runtime.Stack(buf, true)]
		var parked, other []string
		for _, g := range strings.Split(string(buf), "\n\n") {
			if !(strings.Contains(g, "c13.childMain.func") || strings.Contains(g, "c13.childCorpus.func")) || strings.Contains(g, "waitOrDeadlock") {
				continue // not a worker of the round
			}
			head := g
			if i := strings.IndexByte(g, '\n'); i >= 0 {
				head = g[:i]
			}
			if strings.Contains(head, "sync.Mutex.Lock") || strings.Contains(head, "sync.RWMutex") || strings.Contains(head, "semacquire") {
				parked = append(parked, head[:strings.IndexByte(head, '[')])
			} else {
				other = append(other, head)
			}
		}
		sort.Strings(parked)
		cur := strings.Join(parked, ",")
		if len(other) == 0 && len(parked) >= 2 && cur == prev {
			return fmt.Sprintf("%d of %d printers never return: each is parked in a mutex acquisition and none is runnable (lock cycle); stacks:\n%s", len(parked), n, mbtTrunc(string(buf), 6000))
		}
		if len(other) == 0 {
			prev = cur
		} else {
			prev = ""
		}
	}
}

func mbtTrunc(s string, n int) string {
	if len(s) > n {
		return s[:n] + "…"
	}
	return s
}

func sortBySeq(evs [][5]int64) {
	// equal numbers (a broken lock discipline) keep buffer order
	sort.SliceStable(evs, func(i, j int) bool { return evs[i][4] < evs[j][4] })
}
