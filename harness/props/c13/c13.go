// Package c13 checks property C13: any number of goroutines may print the same
// module, function or block concurrently, free of data races, and every call
// returns the text a lone sequential call returns.
//
// (S) spec/PrintConc.tla is checked by TLC as implemented and as required, from
// both start states. The racy workload itself runs in child processes (this
// binary re-executed, built with -race) so that the detector's reports are
// captured, classified in the vocabulary of the model and matched against the
// known findings instead of killing the check. (T) the hook events of the real
// ID assignment are judged by spec/PrintConcTrace.tla.
package c13

import (
	"encoding/json"
	"fmt"
	"os"
	"os/exec"
	"path/filepath"
	"reflect"
	"regexp"
	"sort"
	"strconv"
	"strings"
	"sync"
	"time"

	"github.com/llir/llvm/asm"
	"github.com/llir/llvm/ir"

	"verif/harness/mbt"
	"verif/harness/props/reg"
)

func init() { reg.Register("C13", Run) }

const childEnv = "VERIF_C13_CHILD"

// --- (S) design level -----------------------------------------------------------

type tlcJob struct {
	label   string
	cfg     string
	consts  map[string]string
	expect  []string // invariants expected to be violated (nil: none)
	collect bool     // log cfg: collect RACE / TEXT classes
	res     *mbt.TLCResult
}

var reRaceLine = regexp.MustCompile(`<<"RACE", "([^"]+)", "([^"]+)", "([^"]+)">>`)
var reTextLine = regexp.MustCompile(`<<"TEXT", "([^"]+)">>`)

func mix(m, f, b string) map[string]string {
	return map[string]string{"ModulePrinters": m, "FuncPrinters": f, "BlockPrinters": b}
}

func with(base map[string]string, kv ...string) map[string]string {
	out := map[string]string{}
	for k, v := range base {
		out[k] = v
	}
	for i := 0; i+1 < len(kv); i += 2 {
		out[kv[i]] = kv[i+1]
	}
	return out
}

// design runs the PrintConc configurations and returns the race classes the
// model predicts as implemented and with the repair (WriteOnlyIfChanged).
// gcacheClasses: classes predicted when the cached types of globals are nil or stale at print time.
var gcacheClasses map[string]bool

// pkgClasses: classes predicted when a printing helper shares package-level state (cell "pkg" of the
// model; in a race report the cell is named other:<llir function that writes>).
var pkgClasses map[string]bool

func design(rep *mbt.Report, tier string) (asImpl, repaired map[string]bool) {
	two := mix("{1, 2}", "{}", "{}")
	mixed := mix("{1}", "{2}", "{3}")
	three := mix("{1, 2, 3}", "{}", "{}")
	jobs := []*tlcJob{
		// as implemented: TLC must report the race from both start states
		{label: "as-implemented, 2 module printers, already printed", cfg: "PrintConc.cfg", consts: with(two, "WriteOnlyIfChanged", "FALSE"), expect: []string{"NoRace"}},
		{label: "as-implemented, 2 module printers, never printed", cfg: "PrintConc.cfg", consts: with(two, "WriteOnlyIfChanged", "FALSE", "StartPrinted", "FALSE"), expect: []string{"NoRace"}},
		// as implemented: which classes of races exist (vocabulary of the signatures)
		{label: "as-implemented classes, 2 module printers, printed", cfg: "PrintConcLog.cfg", consts: with(two, "WriteOnlyIfChanged", "FALSE"), collect: true},
		{label: "as-implemented classes, 2 module printers, fresh", cfg: "PrintConcLog.cfg", consts: with(two, "WriteOnlyIfChanged", "FALSE", "StartPrinted", "FALSE"), collect: true},
		{label: "as-implemented classes, module+func+block, printed", cfg: "PrintConcLog.cfg", consts: with(mixed, "WriteOnlyIfChanged", "FALSE"), collect: true},
		{label: "as-implemented classes, module+func+block, fresh", cfg: "PrintConcLog.cfg", consts: with(mixed, "WriteOnlyIfChanged", "FALSE", "StartPrinted", "FALSE"), collect: true},
		// required behaviour (write only if changed): race-free wherever every reader is
		// numbered or takes the lock itself
		{label: "repaired, 2 module printers, printed", cfg: "PrintConc.cfg", consts: two},
		{label: "repaired, 2 module printers, fresh", cfg: "PrintConc.cfg", consts: with(two, "StartPrinted", "FALSE")},
		{label: "repaired, module+func+block, printed", cfg: "PrintConc.cfg", consts: mixed},
		{label: "repaired classes, module+func+block, fresh (residual)", cfg: "PrintConcLog.cfg", consts: with(mixed, "StartPrinted", "FALSE"), collect: true},
		// lazily cached pointer types of globals/functions nil or stale at print time (struct literal with
		// Typ nil, which the documentation allows, or a Type() that re-derives a stale cache): operand
		// printing writes them without any mutex, so even module printers race on a first print
		{label: "unfilled global caches, 2 module printers, fresh", cfg: "PrintConc.cfg", consts: with(two, "StartPrinted", "FALSE", "GCachePrefilled", "FALSE", "FillGlobalCachesUnderLock", "FALSE"), expect: []string{"NoRace"}},
		{label: "unfilled global caches classes, 2 module printers, fresh", cfg: "PrintConcLog.cfg", consts: with(two, "StartPrinted", "FALSE", "GCachePrefilled", "FALSE", "FillGlobalCachesUnderLock", "FALSE"), collect: true},
		{label: "repaired, unfilled global caches, already printed", cfg: "PrintConc.cfg", consts: with(two, "GCachePrefilled", "FALSE")},
		// as the code is since a8ce732: AssignGlobalIDs computes the types while it holds Module.mu; what is left
		// for lock-free readers next to a first print is collected by the second job
		{label: "repaired, unfilled global caches filled under Module.mu, fresh", cfg: "PrintConc.cfg", consts: with(two, "StartPrinted", "FALSE", "GCachePrefilled", "FALSE", "FillGlobalCachesUnderLock", "TRUE")},
		{label: "repaired classes, stale global caches, module+func+block, fresh", cfg: "PrintConcLog.cfg", consts: with(mixed, "StartPrinted", "FALSE", "GCachePrefilled", "FALSE"), collect: true},
		// a printing helper that keeps scratch state in a package-level variable: racy and wrong text from
		// the already-printed state too (and between printers of different modules: the cell belongs to no module)
		{label: "sensitivity: package-level scratch state, already printed", cfg: "PrintConc.cfg", consts: with(two, "SharedScratch", "TRUE"), expect: []string{"NoRace", "TextEqual"}},
		{label: "pkgstate classes, 2 module printers, printed", cfg: "PrintConcLog.cfg", consts: with(two, "SharedScratch", "TRUE"), collect: true},
		// printed-then-edited (stale local IDs) and functions attached by hand (Parent nil): the code locks the
		// function's own mutex however the function was attached
		{label: "repaired, stale local IDs, orphan function, 2 module printers", cfg: "PrintConc.cfg", consts: with(two, "StaleLocals", "TRUE", "Orphans", "{1}")},
		{label: "repaired, stale local IDs, module+func+block", cfg: "PrintConcLog.cfg", consts: with(mixed, "StaleLocals", "TRUE"), collect: true},
		{label: "sensitivity: AssignIDs locks the parent module's mutex, none for an orphan, fresh", cfg: "PrintConc.cfg", consts: with(two, "StartPrinted", "FALSE", "Orphans", "{1}", "LockViaParent", "TRUE"), expect: []string{"NoRace", "Mutex"}},
		{label: "sensitivity: AssignIDs locks the parent module's mutex, none for an orphan, stale", cfg: "PrintConc.cfg", consts: with(two, "StaleLocals", "TRUE", "Orphans", "{1}", "LockViaParent", "TRUE"), expect: []string{"NoRace", "Mutex"}},
		// no deadlock between the two mutexes: every printer terminates
		{label: "repaired, termination", cfg: "PrintConcLive.cfg", consts: with(two, "StartPrinted", "FALSE")},
		// sensitivity: with a Lock removed the model must fail
		{label: "sensitivity: Module lock removed", cfg: "PrintConc.cfg", consts: with(two, "LockGlobals", "FALSE", "StartPrinted", "FALSE"), expect: []string{"NoRace", "Mutex"}},
		{label: "sensitivity: Func lock removed", cfg: "PrintConc.cfg", consts: with(two, "LockLocals", "FALSE", "StartPrinted", "FALSE"), expect: []string{"NoRace", "Mutex"}},
		{label: "sensitivity: lazily cached types not pre-computed", cfg: "PrintConcLog.cfg", consts: with(mixed, "StartPrinted", "FALSE", "CachePrefilled", "FALSE"), collect: true},
	}
	if tier == "thorough" {
		jobs = append(jobs,
			&tlcJob{label: "repaired, 3 module printers, printed", cfg: "PrintConc.cfg", consts: three},
			&tlcJob{label: "repaired, 3 module printers, fresh", cfg: "PrintConc.cfg", consts: with(three, "StartPrinted", "FALSE")},
			&tlcJob{label: "repaired, 2 functions, module+func+block, printed", cfg: "PrintConc.cfg", consts: with(mixed, "NF", "2")},
			&tlcJob{label: "repaired, 2 module + 1 func printer, fresh, 2 functions", cfg: "PrintConc.cfg", consts: with(mix("{1, 2}", "{3}", "{}"), "NF", "2", "NL", "1", "StartPrinted", "FALSE"), expect: []string{"NoRace", "TextEqual"}},
		)
	}
	// three TLC runs at a time, four workers each
	sem := make(chan struct{}, 3)
	var wg sync.WaitGroup
	for _, j := range jobs {
		wg.Add(1)
		go func(j *tlcJob) {
			defer wg.Done()
			sem <- struct{}{}
			defer func() { <-sem }()
			j.res = mbt.MustTLC(mbt.TLCOpts{Spec: "PrintConc", Cfg: j.cfg, Consts: j.consts, Workers: 4, Timeout: 15 * time.Minute})
		}(j)
	}
	wg.Wait()
	// lock order of the entry points (PrintLocks.tla): acyclic nestings cannot deadlock, the cyclic one must be refuted
	for _, nest := range []string{"none", "module", "func", "both"} {
		t := mbt.MustTLCAllowDeadlock(mbt.TLCOpts{Spec: "PrintLocks", Cfg: "PrintLocks_" + nest + ".cfg", Workers: 2, Timeout: 5 * time.Minute})
		refuted := len(t.Violated) > 0 || strings.Contains(t.Output, "Deadlock reached")
		if refuted != (nest == "both") {
			mbt.Infra("PrintLocks.tla with Nest=%s: refuted=%v (the specification or its header is out of date): %v", nest, refuted, t.Violated)
		}
		rep.AddTLC(t)
		rep.Count("tlc:PrintLocks/"+nest, true)
		t.Cleanup()
	}
	asImpl, repaired = map[string]bool{}, map[string]bool{}
	gcacheClasses = map[string]bool{}
	pkgClasses = map[string]bool{}
	var results []map[string]interface{}
	for _, j := range jobs {
		t := j.res
		rep.AddTLC(t)
		rep.Count("tlc:"+j.label, true)
		results = append(results, map[string]interface{}{"config": j.label, "distinct": t.Distinct, "generated": t.Generated, "violated": t.Violated, "wall_s": t.Wall.Seconds()})
		// expectations are about the *model*: a mismatch means the specification or its
		// documentation is out of date, never that the code is wrong
		if len(j.expect) > 0 { // TLC stops at the first violated invariant: any of the expected ones will do
			found := false
			for _, e := range j.expect {
				for _, v := range t.Violated {
					found = found || v == e
				}
			}
			if !found {
				mbt.Infra("PrintConc (%s): expected one of %v to be violated, TLC reports %v", j.label, j.expect, t.Violated)
			}
		}
		if len(j.expect) == 0 && len(t.Violated) > 0 {
			mbt.Infra("PrintConc (%s): TLC reports %v violated; the required design is expected to hold here", j.label, t.Violated)
		}
		if j.collect {
			for _, m := range reRaceLine.FindAllStringSubmatch(t.Output, -1) {
				k := m[1] + "|" + m[2] + "|" + m[3]
				if strings.HasPrefix(j.label, "as-implemented") {
					asImpl[k] = true
				} else if strings.HasPrefix(j.label, "repaired") {
					repaired[k] = true
				} else if strings.HasPrefix(j.label, "unfilled") {
					gcacheClasses[k] = true
				} else if strings.HasPrefix(j.label, "pkgstate") {
					pkgClasses[k] = true
				}
			}
			if strings.HasPrefix(j.label, "sensitivity") && !strings.Contains(t.Output, `"typ"`) {
				mbt.Infra("PrintConc (%s): no race on a typ cell predicted", j.label)
			}
		}
		t.Cleanup()
	}
	rep.Extra["tlc_runs"] = results
	rep.Extra["model_race_classes_as_implemented"] = keys(asImpl)
	rep.Extra["model_race_classes_repaired_residual"] = keys(repaired)
	rep.Extra["model_race_classes_unfilled_global_caches"] = keys(gcacheClasses)
	rep.Extra["model_race_classes_package_level_state"] = keys(pkgClasses)
	if len(pkgClasses) == 0 {
		mbt.Infra("PrintConc: the model with package-level scratch state predicts no race class")
	}
	if len(gcacheClasses) == 0 {
		mbt.Infra("PrintConc: the model with unfilled global caches predicts no race class")
	}
	if len(asImpl) == 0 {
		mbt.Infra("PrintConc: the as-implemented model predicts no race class")
	}
	return asImpl, repaired
}

func keys(m map[string]bool) []string {
	var ks []string
	for k := range m {
		ks = append(ks, k)
	}
	sort.Strings(ks)
	return ks
}

// --- static pre-check: lazily cached fields that a print would write -------------

// A cacheCell is the state of one lazily cached Typ field: which object holds
// it, the identity of the cached type and what it says.
type cacheCell struct {
	owner string  // struct type, e.g. ir.Global
	ptr   uintptr // 0 = nil
	text  string
}

// snapshotCaches records every lazily cached Typ field reachable from m (fields
// named Typ of structs that have a Type method), keyed by the address of the
// object that holds it.
func snapshotCaches(m *ir.Module) map[uintptr]cacheCell {
	out := map[uintptr]cacheCell{}
	seen := map[uintptr]bool{}
	var walk func(v reflect.Value, depth int)
	walk = func(v reflect.Value, depth int) {
		if depth > 400 {
			return
		}
		switch v.Kind() {
		case reflect.Ptr:
			if v.IsNil() || seen[v.Pointer()] {
				return
			}
			seen[v.Pointer()] = true
			walk(v.Elem(), depth+1)
		case reflect.Interface:
			if !v.IsNil() {
				walk(v.Elem(), depth+1)
			}
		case reflect.Struct:
			t := v.Type()
			_, hasType := reflect.PointerTo(t).MethodByName("Type")
			for i := 0; i < v.NumField(); i++ {
				f := t.Field(i)
				if f.PkgPath != "" {
					continue
				}
				fv := v.Field(i)
				if f.Name == "Typ" && hasType && v.CanAddr() && (fv.Kind() == reflect.Ptr || fv.Kind() == reflect.Interface) {
					c := cacheCell{owner: t.String()}
					if !fv.IsNil() {
						e := fv
						if e.Kind() == reflect.Interface {
							e = e.Elem()
						}
						if e.Kind() == reflect.Ptr {
							c.ptr = e.Pointer()
						} else {
							c.ptr = 1
						}
						if st, ok := fv.Interface().(fmt.Stringer); ok {
							mbt.Guard(func() { c.text = st.String() })
						}
					}
					out[v.Addr().Pointer()] = c
				}
				walk(fv, depth+1)
			}
		case reflect.Slice, reflect.Array:
			for i := 0; i < v.Len(); i++ {
				walk(v.Index(i), depth+1)
			}
		case reflect.Map:
			for _, k := range v.MapKeys() {
				walk(v.MapIndex(k), depth+1)
			}
		}
	}
	walk(reflect.ValueOf(m), 0)
	return out
}

// deepState flattens everything reachable from root -- exported and unexported
// fields, through pointers, interfaces, slices and maps -- into path -> value,
// with the owning struct type and field of every leaf. Pointer identities are
// part of the state (a replaced object is a change). Mutexes are left out.
func deepState(root interface{}) (state, owner map[string]string) {
	state, owner = map[string]string{}, map[string]string{}
	seen := map[uintptr]bool{}
	var walk func(v reflect.Value, path, own string, depth int)
	walk = func(v reflect.Value, path, own string, depth int) {
		if depth > 600 {
			return
		}
		switch v.Kind() {
		case reflect.Ptr:
			if v.IsNil() {
				state[path], owner[path] = "nil", own
				return
			}
			state[path+"@"], owner[path+"@"] = fmt.Sprintf("%#x", v.Pointer()), own
			if seen[v.Pointer()] {
				return
			}
			seen[v.Pointer()] = true
			walk(v.Elem(), path, own, depth+1)
		case reflect.Interface:
			if v.IsNil() {
				state[path], owner[path] = "nil", own
				return
			}
			walk(v.Elem(), path, own, depth+1)
		case reflect.Struct:
			t := v.Type()
			if t.PkgPath() == "sync" {
				return
			}
			for i := 0; i < v.NumField(); i++ {
				walk(v.Field(i), path+"."+t.Field(i).Name, t.String()+"."+t.Field(i).Name, depth+1)
			}
		case reflect.Slice, reflect.Array:
			if v.Kind() == reflect.Slice {
				state[path+"#len"], owner[path+"#len"] = fmt.Sprint(v.Len()), own
			}
			for i := 0; i < v.Len(); i++ {
				walk(v.Index(i), fmt.Sprintf("%s[%d]", path, i), own, depth+1)
			}
		case reflect.Map:
			keys := v.MapKeys()
			sort.Slice(keys, func(i, j int) bool { return fmt.Sprint(keys[i]) < fmt.Sprint(keys[j]) })
			state[path+"#len"], owner[path+"#len"] = fmt.Sprint(len(keys)), own
			for _, k := range keys {
				walk(v.MapIndex(k), fmt.Sprintf("%s[%v]", path, k), own, depth+1)
			}
		case reflect.Bool:
			state[path], owner[path] = fmt.Sprint(v.Bool()), own
		case reflect.Int, reflect.Int8, reflect.Int16, reflect.Int32, reflect.Int64:
			state[path], owner[path] = fmt.Sprint(v.Int()), own
		case reflect.Uint, reflect.Uint8, reflect.Uint16, reflect.Uint32, reflect.Uint64, reflect.Uintptr:
			state[path], owner[path] = fmt.Sprint(v.Uint()), own
		case reflect.Float32, reflect.Float64:
			state[path], owner[path] = fmt.Sprint(v.Float()), own
		case reflect.String:
			state[path], owner[path] = v.String(), own
		}
	}
	walk(reflect.ValueOf(root), "m", "", 0)
	return
}

// changedState lists, per owning struct field, how many leaves differ between two deep states.
func changedState(before, after, owner map[string]string) map[string]int {
	out := map[string]int{}
	for k, a := range after {
		if b, ok := before[k]; !ok || a != b {
			out[owner[k]]++
		}
	}
	for k := range before {
		if _, ok := after[k]; !ok {
			out["(removed) "+k]++
		}
	}
	return out
}

// changedCaches lists, per owner type, the cells whose cached type was filled,
// replaced or altered between two snapshots.
func changedCaches(before, after map[uintptr]cacheCell) map[string]int {
	out := map[string]int{}
	for k, a := range after {
		if b, ok := before[k]; ok && (a.ptr != b.ptr || a.text != b.text) {
			out[a.owner+".Typ"]++
		}
	}
	return out
}

// notACache: optional type of a parameter attribute, not a lazily computed cache.
func notACache(k string) bool {
	switch k {
	case "ir.Byval.Typ", "ir.InAlloca.Typ", "ir.Preallocated.Typ", "ir.SRet.Typ", "ir.ByRef.Typ", "ir.ElementType.Typ":
		return true
	}
	return false
}

// staticCaches is the static pre-check of one module source, on a fresh copy,
// sequentially: S0 = as built; S1 = after the ID assignment functions, i.e.
// everything a printer does while it holds Module.mu / Func.mu; S2 = after a
// complete Module.String. A cache that differs between S1 and S2 was written by
// the unlocked part of printing: two first prints race on it, whether or not the
// race detector happens to see it in this run. A cache that differs between S0
// and S1 was written under the mutex: safe among printers that take the lock.
func staticCaches(src modSource) (fail map[string]string, underLock map[string]int, total int) {
	fail = map[string]string{}
	kind := "constructed"
	if src.Parsed {
		kind = "parsed"
	} else if src.Construction != "" {
		kind = src.Construction
	}
	m := src.Build()
	s0 := snapshotCaches(m)
	total = len(s0)
	if src.Construction != "literal" { // the parser and the constructors pre-compute every cached type
		nf := map[string]int{}
		for _, c := range s0 {
			if c.ptr == 0 && !notACache(c.owner+".Typ") {
				nf[c.owner+".Typ"]++
			}
		}
		for k, n := range nf {
			fail["C13|static|nil-cache|"+k+"|"+kind] = fmt.Sprintf("%s: %d %s fields are nil after %s: Type() writes them during the first print", src.Name, n, k, kind)
		}
	}
	if msg, p := mbt.Guard(func() {
		_ = m.AssignGlobalIDs()
		_ = m.AssignMetadataIDs()
		for _, f := range m.Funcs {
			_ = f.AssignIDs()
		}
	}); p {
		fail["C13|static|panic|"+kind] = src.Name + ": ID assignment panics: " + mbt.Truncate(msg, 200)
		return
	}
	s1 := snapshotCaches(m)
	d1, _ := deepState(m)
	if msg, p := mbt.Guard(func() { _ = m.String() }); p {
		fail["C13|static|panic|"+kind] = src.Name + ": Module.String panics sequentially: " + mbt.Truncate(msg, 200)
		return
	}
	s2 := snapshotCaches(m)
	// anything else that a sequential print changed after the ID assignment -- in the module, its
	// constants, types or metadata, exported or not -- was written with no mutex held
	d2, own2 := deepState(m)
	for k, n := range changedState(d1, d2, own2) {
		if strings.HasSuffix(k, ".Typ") {
			continue // reported below with the cache wording
		}
		fail["C13|static|state-written-by-unlocked-print|"+k+"|"+kind] = fmt.Sprintf("%s: a sequential Module.String changed %d values of field %s after the ID assignment: printing writes there while holding no mutex, so two concurrent printers race on it", src.Name, n, k)
	}
	underLock = changedCaches(s0, s1)
	for k, n := range changedCaches(s1, s2) {
		if notACache(k) {
			continue
		}
		fail["C13|static|cache-written-by-unlocked-print|"+k+"|"+kind] = fmt.Sprintf("%s: a sequential Module.String filled or replaced %d cached %s fields after the ID assignment, i.e. in the part of printing that holds no mutex: the first prints of two goroutines race on them", src.Name, n, k)
	}
	return
}

// --- children -------------------------------------------------------------------

type childOutcome struct {
	sc      scenario
	res     childResult
	races   []raceReport
	crashed string
}

func runChild(dir string, sc scenario, idx int) childOutcome {
	out := childOutcome{sc: sc}
	scPath := filepath.Join(dir, fmt.Sprintf("sc%d.json", idx))
	sc.Out = filepath.Join(dir, fmt.Sprintf("res%d.json", idx))
	out.sc = sc
	b, _ := json.Marshal(sc)
	if err := os.WriteFile(scPath, b, 0o644); err != nil {
		mbt.Infra("%v", err)
	}
	logBase := filepath.Join(dir, fmt.Sprintf("race%d", idx))
	cmd := exec.Command("timeout", "300", os.Args[0], "quick")
	cmd.Env = append(os.Environ(), childEnv+"="+scPath,
		"GORACE=halt_on_error=0 exitcode=0 atexit_sleep_ms=0 history_size=5 log_path="+logBase)
	co, err := cmd.CombinedOutput()
	if err != nil {
		out.crashed = fmt.Sprintf("%v: %s", err, mbt.Truncate(string(co), 2000))
	}
	logs, _ := filepath.Glob(logBase + ".*")
	for _, l := range logs {
		if lb, err := os.ReadFile(l); err == nil {
			out.races = append(out.races, parseRaceLog(string(lb))...)
		}
	}
	if out.crashed == "" {
		if err := mbt.ReadJSON(sc.Out, &out.res); err != nil {
			out.crashed = "no result file: " + err.Error() + " " + mbt.Truncate(string(co), 1000)
		}
	}
	return out
}

func scenarios(tier string, seed int64) []scenario {
	var out []scenario
	ns := []int{2, 4, 8}
	for _, src := range sources(tier) {
		for _, start := range []string{"never-printed", "already-printed", "printed-then-edited"} {
			for _, mixName := range []string{"module", "mixed", "func+block"} {
				if src.ModulePrintersOnly && mixName != "module" {
					continue
				}
				if start == "printed-then-edited" {
					// stale IDs after an edit: module printers on every built source and on the parsed mix,
					// all entry points on built:mix
					if !(strings.HasPrefix(src.Name, "built:") || src.Name == "parsed:mix") {
						continue
					}
					if mixName == "func+block" || (mixName == "mixed" && src.Name != "built:mix") {
						continue
					}
				}
				for _, n := range ns {
					if !src.Unnamed && n != 4 {
						continue
					}
					if strings.HasPrefix(src.Name, "parsed:") && src.Name != "parsed:mix" && (n != 4 || mixName == "func+block") {
						continue // corpus files: one N per start state and mix
					}
					sc := scenario{Source: src.Name, Tier: tier, Start: start, Mix: mixName, N: n}
					if start != "already-printed" {
						// a module is fresh once: many rounds, few calls per round
						sc.Rounds, sc.K = 60, 2
					} else {
						sc.Rounds, sc.K = 6, 20
					}
					if tier == "thorough" {
						sc.Rounds *= 5
					}
					sc.TraceRounds = 2
					sc.Name = fmt.Sprintf("%s/%s/%s/N=%d", src.Name, start, mixName, n)
					out = append(out, sc)
				}
			}
		}
	}
	_ = seed // goroutine schedules are the runtime's; the seed only labels the run
	return out
}

const richSource = "parsed:rich"

var richStatic []namedText

// richScenarios: the rich texts printed by module printers from the never-printed
// (freshly parsed) state with N = 2, 4, 8, and by module printers and the mix of
// all entry points from the already-printed state.
func richScenarios(tier string) []scenario {
	var out []scenario
	add := func(start, mix string, n int) {
		out = append(out, scenario{Name: fmt.Sprintf("%s/%s/%s/N=%d", richSource, start, mix, n), Source: richSource, Tier: tier, Start: start, Mix: mix, N: n, K: 3, Rounds: 1})
	}
	for _, n := range []int{2, 4, 8} {
		add("never-printed", "module", n)
	}
	add("already-printed", "module", 4)
	add("already-printed", "mixed", 8)
	// cold start: the first prints of a fresh process are concurrent (PrintConc.tla: the `pkg` cell is
	// unwritten in the start state, SharedScratch / lazily built tables are written by whoever prints first)
	for _, n := range []int{4, 8} {
		out = append(out, scenario{Name: fmt.Sprintf("%s/cold-start/never-printed/module/N=%d", richSource, n), Source: richSource, Tier: tier, Start: "never-printed", Mix: "module", N: n, K: 3, Rounds: 1, Cold: true})
	}
	for _, n := range []int{2, 8} {
		out = append(out, scenario{Name: fmt.Sprintf("%s/rich-constants-only/already-printed/module/N=%d", richSource, n), Source: richSource, Tier: tier, Start: "already-printed", Mix: "module", N: n, K: 3, Rounds: 150})
	}
	if tier == "thorough" {
		add("never-printed", "mixed", 8)
		add("already-printed", "func+block", 6)
		add("already-printed", "module", 8)
	}
	return out
}

// numberedStart: every ID has its final value when the goroutines are released: the module was
// printed before, or a sequential print of a fresh copy performs no SetID at all (measured in the
// child: parsed modules usually, but not those with declarations that have several unnamed parameters).
func numberedStart(sc scenario) bool {
	if sc.Start == "already-printed" {
		return true
	}
	if sc.FreshKnown {
		return sc.FreshWrites == 0
	}
	if sc.Start == "printed-then-edited" {
		return false
	}
	return strings.HasPrefix(sc.Source, "parsed:")
}

// startLabel: races on state that has nothing to do with IDs (cell other:<function>) do not
// depend on whether the IDs were assigned before.
func startLabel(class string, sc scenario) string {
	if strings.HasPrefix(class, "other:") {
		return "any-start"
	}
	return idsLabel(sc)
}

func idsLabel(sc scenario) string {
	l := "ids=unassigned"
	if numberedStart(sc) {
		l = "ids=assigned"
	}
	// modules built "the other legal way" carry how they were built
	switch sc.Source {
	case "built:late-fields":
		l += "|built=late-fields"
	case "built:literals":
		l += "|built=literal"
	case "built:by-hand":
		l += "|built=by-hand"
	}
	return l
}

var reBadEv = regexp.MustCompile(`<<"BADEV", "([^"]+)", (\d+), (\d+), (\d+)>>`)

// Run is the C13 check.
func Run(tier, replay string) {
	if p := os.Getenv(childEnv); p != "" {
		childMain(p)
		os.Exit(0)
	}
	rep := mbt.NewReport("C13", tier, "model_checking")
	rep.Rule = "scenarios (module source x start state x mix of entry points x N goroutines, each repeated over many rounds under the Go race detector) plus critical-section histories judged by PrintConcTrace and PrintConc configurations explored by TLC"
	rep.Assumptions = []string{
		"the Go race detector reports a race only if the two accesses were actually unordered in the observed schedule: absence of a report in this run is not a proof; the design-level proof is TLC's on spec/PrintConc.tla",
		"the recording hook adds no synchronisation (per-goroutine buffers, per-mutex counters touched inside the critical section only)",
		"ir.VerifHook events are emitted inside the critical sections as committed in /repo (tag verif)",
	}

	var scs []scenario
	if replay != "" {
		scs = replayScenarios(replay)
	} else {
		scs = scenarios(tier, mbt.Seed())
	}

	dir, err := os.MkdirTemp("", "verif-c13-")
	if err != nil {
		mbt.Infra("%v", err)
	}
	// rich module texts for the corpus scenarios (uses rep: before the design goroutine starts)
	needRich := replay == ""
	for i := range scs {
		needRich = needRich || scs[i].Source == richSource
	}
	if needRich {
		rich := richInputs(rep, tier)
		// the hand-written, test-data and clang texts also go through the static write-during-print check
		for _, it := range rich {
			if !strings.HasPrefix(it.Name, "modules/") {
				richStatic = append(richStatic, it)
			}
		}
		richPath := filepath.Join(dir, "rich.json")
		rb, _ := json.Marshal(rich)
		if err := os.WriteFile(richPath, rb, 0o644); err != nil {
			mbt.Infra("%v", err)
		}
		rep.Extra["rich_texts"] = len(rich)
		if replay == "" {
			scs = append(scs, richScenarios(tier)...)
		}
		// the hand-written module alone, printed very often by every goroutine (same module, heavy overlap)
		onePath := filepath.Join(dir, "rich1.json")
		ob, _ := json.Marshal(rich[:1])
		if err := os.WriteFile(onePath, ob, 0o644); err != nil {
			mbt.Infra("%v", err)
		}
		for i := range scs {
			if scs[i].Source == richSource {
				scs[i].Texts = richPath
				if scs[i].Rounds > 1 {
					scs[i].Texts = onePath
				}
			}
		}
	}

	// (S) TLC on the design, concurrently with the start of the workload
	var asImpl, residual map[string]bool
	designDone := make(chan struct{})
	t0 := time.Now()
	phases := map[string]float64{}
	go func() {
		if replay == "" { // a replay re-runs the recorded scenarios only
			asImpl, residual = design(rep, tier)
		}
		phases["tlc_design"] = time.Since(t0).Seconds()
		close(designDone)
	}()

	// children, a few at a time (each uses up to 8 threads)
	outs := make([]childOutcome, len(scs))
	sem := make(chan struct{}, 3)
	var wg sync.WaitGroup
	for i, sc := range scs {
		wg.Add(1)
		go func(i int, sc scenario) {
			defer wg.Done()
			sem <- struct{}{}
			defer func() { <-sem }()
			for try := 0; try < 3; try++ {
				outs[i] = runChild(dir, sc, i+try*10000)
				// a report whose stacks the detector could not restore cannot be attributed: run again
				if !onlyUnclassified(outs[i]) {
					break
				}
			}
		}(i, sc)
	}
	wg.Wait()
	childWall := time.Since(t0).Seconds()
	<-designDone
	phases["children"] = childWall

	// static pre-check
	staticFail := map[string]string{}
	underLockAll := map[string]int{}
	for _, src := range sources(tier) {
		fail, underLock, total := staticCaches(src)
		rep.Count("static:"+src.Name, total > 0)
		for k, v := range fail {
			staticFail[k] = v
		}
		for k, n := range underLock {
			if !notACache(k) {
				underLockAll[src.Name+":"+k] += n
			}
		}
	}
	if richStatic != nil {
		for _, it := range richStatic {
			it := it
			if _, err := asm.ParseString(it.Name, it.Text); err != nil {
				continue
			}
			fail, _, total := staticCaches(modSource{Name: "text:" + it.Name, Parsed: true, Build: func() *ir.Module {
				m, _ := asm.ParseString(it.Name, it.Text)
				return m
			}})
			rep.Count("static:text:"+it.Name, total > 0)
			for k, v := range fail {
				staticFail[k] = v
			}
		}
	}
	rep.Extra["caches_written_under_the_lock"] = underLockAll
	if len(underLockAll) > 0 {
		rep.Note("lazily cached types written by the ID assignment while it holds the mutex (safe among printers that take the lock; a lock-free reader next to a first print would race on them): %v", underLockAll)
	}
	for sig, what := range staticFail {
		rep.Fail(mbt.Failure{Signature: sig, What: what, Case: map[string]string{"kind": "static"}})
	}

	observed := map[string]int{}
	unclassified := 0
	var rows []traceRow
	rowScenario := []scenario{}
	calls, setids := 0, 0
	for _, o := range outs {
		sc := o.sc
		sc.FreshWrites, sc.FreshKnown = o.res.FreshWrites, o.crashed == ""
		if o.crashed != "" {
			os.RemoveAll(dir)
			mbt.Infra("child %s failed: %s", sc.Name, o.crashed)
		}
		rep.Count("scenario:"+sc.Name, sc.N >= 2)
		if o.res.Deadlock != "" {
			// PrintConc.tla: Terminates (PrintConcLive.cfg) -- every printer reaches Done; LockOrder: a printer that
			// holds a function mutex never waits for the module mutex
			rep.Fail(mbt.Failure{Signature: "C13|does-not-return|deadlock|mix=" + sc.Mix + "|" + idsLabel(sc),
				What: fmt.Sprintf("%s: concurrent printers block each other forever: %s", sc.Name, mbt.Truncate(o.res.Deadlock, 1500)),
				Case: map[string]interface{}{"scenario": sc, "deadlock": o.res.Deadlock}})
			continue
		}
		if sc.Source == richSource {
			if o.res.Modules == 0 {
				os.RemoveAll(dir)
				mbt.Infra("scenario %s printed no module (%d texts skipped)", sc.Name, o.res.Skipped)
			}
			rep.Extra["rich_modules_printed_concurrently"] = o.res.Modules
			rep.Extra["rich_texts_not_parsed_or_printed_sequentially"] = o.res.Skipped
		}
		calls += o.res.Calls
		setids += o.res.SetIDs
		caseOf := func(extra map[string]interface{}) map[string]interface{} {
			c := map[string]interface{}{"scenario": sc}
			for k, v := range extra {
				c[k] = v
			}
			return c
		}
		perClass := map[string]raceReport{}
		for _, r := range o.races {
			c, ok := classify(r)
			if !ok {
				unclassified++
				continue
			}
			if _, dup := perClass[c.String()]; !dup {
				perClass[c.String()] = r
			}
		}
		if len(perClass) == 0 && len(o.races) > 0 {
			// only reports with a missing stack: not attributable
			rep.Fail(mbt.Failure{Signature: "C13|race|unclassified|" + idsLabel(sc), What: "data race reported but a stack could not be restored: " + mbt.Truncate(o.races[0].Text, 600), Case: caseOf(nil)})
		}
		for k, r := range perClass {
			observed[k+"|"+startLabel(k, sc)]++
			note := ""
			if asImpl == nil {
				note = ""
			} else if gcacheClasses[k] {
				note = " [predicted by the model when the cached type of a global is nil or stale at print time: operand printing writes it while holding no mutex; computing the types in AssignGlobalIDs under Module.mu cures it in the model]"
			} else if i := strings.Index(k, "|"); strings.HasPrefix(k, "other:") && pkgClasses["pkg"+k[i:]] {
				note = " [state outside the ID and cache cells, written while printing with no mutex held: the model's 'pkg' cell (SharedScratch) -- race and possibly wrong text from every start state]"
			} else if !asImpl[k] {
				note = " [a class the model does not predict]"
			} else if residual[k] && !numberedStart(sc) {
				note = " [remains in the model with write-only-if-changed: reader that does not take the lock, next to a first print]"
			} else {
				note = " [class of the write-always defect repaired by 4b95b3d (write only if changed): regression]"
			}
			rep.Fail(mbt.Failure{
				Signature: "C13|race|" + k + "|" + startLabel(k, sc),
				What:      fmt.Sprintf("%s: data race%s: %s", sc.Name, note, summarise(r)),
				Case:      caseOf(map[string]interface{}{"report": mbt.Truncate(r.Text, 4000)}),
			})
		}
		byEntry := map[string]mismatch{}
		for _, mm := range o.res.Mismatches {
			e := strings.TrimSuffix(mm.Entry, "-writeto")
			if _, ok := byEntry[e]; !ok || byEntry[e].Want == "" {
				byEntry[e] = mm
			}
		}
		for e, mm := range byEntry {
			rep.Fail(mbt.Failure{
				Signature: "C13|text|" + e + "|" + idsLabel(sc),
				What:      fmt.Sprintf("%s: a concurrent %s print%s differs from the lone sequential call: %s", sc.Name, e, ofModule(mm.Module), firstDiff(mm.Want, mm.Got)),
				Case:      caseOf(map[string]interface{}{"entry": e, "want": mbt.Truncate(mm.Want, 3000), "got": mbt.Truncate(mm.Got, 3000)}),
			})
		}
		for _, p := range o.res.Panics {
			rep.Fail(mbt.Failure{Signature: "C13|panic|" + idsLabel(sc), What: sc.Name + ": a concurrent printer panicked: " + mbt.Truncate(p, 300), Case: caseOf(nil)})
		}
		for _, r := range o.res.Rows {
			rows = append(rows, r)
			rowScenario = append(rowScenario, sc)
		}
	}
	rep.Extra["race_classes_observed"] = observed
	rep.Extra["race_reports_unclassified"] = unclassified
	rep.Extra["printing_calls"] = calls
	rep.Extra["setid_events_recorded"] = setids
	if calls == 0 {
		mbt.Infra("dead driver: no printing call was made")
	}

	// (T) hook events judged by PrintConcTrace
	if len(rows) > 0 {
		t := mbt.MustTLC(mbt.TLCOpts{Spec: "PrintConcTrace", Cfg: "PrintConcTrace.cfg", Workers: 4, Timeout: 15 * time.Minute,
			Data: map[string][]byte{"printconc_trace.ndjson": mbt.NDJSONBytes(rows)}})
		if len(t.Violated) > 0 {
			mbt.Infra("PrintConcTrace: unexpected violation %v", t.Violated)
		}
		if t.Distinct != int64(len(rows))+1 {
			mbt.Infra("PrintConcTrace consumed %d rows of %d", t.Distinct-1, len(rows))
		}
		rep.AddTLC(t)
		rep.TracesValidated += len(rows)
		type key struct{ law, site, ids string }
		first := map[key]string{}
		cnt := map[key]int{}
		var order []key
		for _, m := range reBadEv.FindAllStringSubmatch(t.Output, -1) {
			ri, _ := strconv.Atoi(m[2])
			ei, _ := strconv.Atoi(m[3])
			row := rows[ri-1]
			site := "Func.AssignIDs"
			if row.Mu == "m" {
				site = "Module.AssignGlobalIDs/AssignMetadataIDs"
			} else if row.Mu == "none" {
				site = "no-mutex"
			} else if row.Mu == "order" {
				site = "nested acquisitions of module and function mutexes"
			}
			k := key{m[1], site, idsLabel(rowScenario[ri-1])}
			n, _ := strconv.Atoi(m[4])
			cnt[k] += n
			if _, ok := first[k]; !ok {
				ev := "(end of row)"
				if ei-1 < len(row.Evs) {
					ev = fmt.Sprint(row.Evs[ei-1])
				}
				first[k] = fmt.Sprintf("%s mutex %s event %d [g ev old new seq]=%s", row.Sc, row.Mu, ei, ev)
				order = append(order, k)
			}
		}
		for _, k := range order {
			what := fmt.Sprintf("hook trace violates %s at %s (%d events), e.g. %s", k.law, k.site, cnt[k], first[k])
			if k.law == "redundant-setid" {
				what += "; every ID already had its value: SetID rewrites it under the lock while other printers read it without the lock (PrintConc.cfg with WriteOnlyIfChanged=FALSE shows the racing interleaving)"
			}
			rep.Fail(mbt.Failure{Signature: "C13|trace|" + k.law + "|" + k.site, What: what, Case: map[string]interface{}{"kind": "trace", "example": first[k]}})
		}
		t.Cleanup()
		phases["tlc_trace"] = t.Wall.Seconds()
	}
	rep.Extra["phase_wall_s"] = phases
	for i, o := range outs {
		if i < 3 {
			rep.Sample(map[string]interface{}{"scenario": o.sc.Name, "calls": o.res.Calls, "race_reports": len(o.races), "text_mismatches": len(o.res.Mismatches), "trace_rows": len(o.res.Rows)})
		}
	}
	rep.Exhaustive = false
	os.RemoveAll(dir) // Finish exits the process: deferred calls do not run
	rep.Finish()
}

func ofModule(name string) string {
	if name == "" {
		return ""
	}
	return " of " + name
}

func onlyUnclassified(o childOutcome) bool {
	if len(o.races) == 0 {
		return false
	}
	for _, r := range o.races {
		if _, ok := classify(r); ok {
			return false
		}
	}
	return true
}

func summarise(r raceReport) string {
	var parts []string
	for _, a := range r.Acc {
		k := "read"
		if a.Write {
			k = "write"
		}
		fr := a.Frames
		if len(fr) > 4 {
			fr = fr[:4]
		}
		parts = append(parts, k+" in "+strings.Join(fr, " < "))
	}
	return strings.Join(parts, "  ||  ")
}

func firstDiff(a, b string) string {
	la, lb := strings.Split(a, "\n"), strings.Split(b, "\n")
	for i := 0; i < len(la) && i < len(lb); i++ {
		if la[i] != lb[i] {
			return fmt.Sprintf("line %d: want %q, got %q", i+1, la[i], lb[i])
		}
	}
	return fmt.Sprintf("want %d lines, got %d", len(la), len(lb))
}

func replayScenarios(path string) []scenario {
	var rf struct {
		Failures []struct {
			Case struct {
				Scenario *scenario `json:"scenario"`
			} `json:"case"`
		} `json:"failures"`
	}
	if err := mbt.ReadJSON(path, &rf); err != nil {
		mbt.Infra("replay %s: %v", path, err)
	}
	seen := map[string]bool{}
	var out []scenario
	for _, f := range rf.Failures {
		if sc := f.Case.Scenario; sc != nil && !seen[sc.Name] {
			seen[sc.Name] = true
			s := *sc
			s.Rounds *= 3 // schedules are not replayable: give the race more chances
			out = append(out, s)
		}
	}
	if len(out) == 0 {
		// static and trace failures reproduce in any full run
		return scenarios("quick", mbt.Seed())
	}
	return out
}
