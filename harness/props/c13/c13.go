// Package c13 checks property C13 (not built yet).
package c13

import (
	"verif/harness/mbt"
	"verif/harness/props/reg"
)

func init() { reg.Register("C13", Run) }

// Run is the C13 check.
func Run(tier, replay string) { mbt.Infra("check C13 is not built yet") }
