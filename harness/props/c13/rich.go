package c13

import (
	"encoding/json"
	"fmt"
	"os"
	"sort"
	"sync"

	"github.com/llir/llvm/asm"
	"github.com/llir/llvm/ir"

	"runtime"
	"sync/atomic"
	"verif/harness/mbt"
	"verif/harness/props/corpus"
	"verif/harness/props/modgen"
)

// Rich inputs: the printers of constants, types, attributes, metadata and
// inline assembly have helper code of their own (notation choice for large
// integers, float formatting, escaping, ...). Any state shared between two
// calls of such a helper is a race between two printers -- of the same module
// or of two different modules -- and can corrupt the text. The concurrent
// workload therefore also runs over a broad set of module texts: a hand-written
// module with every constant kind, the repository's test inputs, clang output
// with debug info, and the whole feature matrix of spec/Modules.tla.

type namedText struct {
	Name string `json:"name"`
	Text string `json:"text"`
}

// richConstants has integers >= 0x1000 of several widths (the printer chooses
// between decimal and u0x notation), every float kind in hexadecimal and decimal,
// character arrays with escapes, struct / packed struct / vector / nested array
// constants, undef / poison / null / zeroinitializer, constant expressions,
// blockaddress, inline asm, attribute strings, quoted names and metadata.
// (Validated with llvm-as 14 when it was written.)
const richConstants = `source_filename = "rich \22quoted\22.c"
target datalayout = "e-m:e-p270:32:32-p271:32:32-p272:64:64-i64:64-f80:128-n8:16:32:64-S128"
target triple = "x86_64-unknown-linux-gnu"

module asm ".globl helper\0A\09.type helper,@function"

%pair = type { i32, [2 x i8] }
%packed = type <{ i8, i64 }>

$cd = comdat any

@i16 = global i16 4096
@i32a = global i32 65536
@i32b = global i32 305419896
@i32c = global i32 -2147483648
@i64a = global i64 1099511627776
@i64b = global i64 4294967295
@i64c = global i64 -81985529216486896
@i128 = global i128 170141183460469231731687303715884105727
@i7 = global i7 63
@h = global half 0xH3C00
@f1 = global float 1.500000e+00
@f2 = global float 0x3FB99999A0000000
@d1 = global double 3.141590e+00
@d2 = global double 0x7FF0000000000000
@d3 = global double 0x7FF8000000000000
@d4 = global double 1.000000e+300
@x80 = global x86_fp80 0xK4000C000000000000000
@q = global fp128 0xL00000000000000004000000000000000
@ppc = global ppc_fp128 0xM40000000000000000000000000000000
@lds = global [3 x x86_fp80] [x86_fp80 0xK3FFF8000000000000000, x86_fp80 0xKBFFEC000000000000000, x86_fp80 0xK4005C800000000000000]
@qs = global [2 x fp128] [fp128 0xL00000000000000003FFF000000000000, fp128 0xL0000000000000000C000800000000000]
@ppcs = global [2 x ppc_fp128] [ppc_fp128 0xM3FF00000000000000000000000000000, ppc_fp128 0xMC0080000000000003C90000000000000]
@str = private unnamed_addr constant [14 x i8] c"hi\0A\22there\22\5C\00\FF\01", align 1, section "sec \22x\22", comdat($cd)
@st = global %pair { i32 70000, [2 x i8] c"ab" }
@pk = global %packed <{ i8 1, i64 4503599627370496 }>
@vec = global <4 x i32> <i32 4096, i32 8192, i32 16384, i32 32768>
@arr = global [2 x [2 x i64]] [[2 x i64] [i64 65536, i64 65537], [2 x i64] zeroinitializer]
@und = global { i32, float } { i32 undef, float poison }
@np = global i8* null
@gep = global i8* getelementptr inbounds ([14 x i8], [14 x i8]* @str, i64 0, i64 4096)
@bc = global i64* bitcast (i64* getelementptr ([2 x [2 x i64]], [2 x [2 x i64]]* @arr, i64 0, i64 1, i64 1) to i64*)
@p2i = global i64 add (i64 ptrtoint (i32* @i32a to i64), i64 1048576)
@i2p = global i32* inttoptr (i64 16777216 to i32*)
@cmp = global i1 icmp ult (i64 ptrtoint (i32* @i32a to i64), i64 68719476736)
@sel = global i32 select (i1 icmp eq (i32* @i32a, i32* @i32b), i32 100000, i32 200000)
@ba = global i8* blockaddress(@f, %big)
@fp = global i32 (i32, i64)* @f
@tl = thread_local(localexec) global i32 8388608, align 65536

declare i32 @ext(i8* nocapture readonly dereferenceable(4096) align 8192, ...) #1

define dso_local i32 @f(i32 %x, i64 %y) #0 comdat($cd) personality i8* bitcast (i32 (i8*, ...)* @ext to i8*) !foo !3 {
entry:
  %a = add nsw i32 %x, 1000000
  %b = mul i64 %y, 6364136223846793005
  %c = fadd double 0x400921FB54442D18, 2.500000e-01
  %d = call i32 asm sideeffect "bswap $0", "=r,0,~{dirflag},~{fpsr},~{flags}"(i32 %a) #2
  %e = insertvalue %pair { i32 131072, [2 x i8] undef }, i32 %d, 0
  %v = insertelement <4 x i32> <i32 4096, i32 undef, i32 0, i32 1>, i32 %a, i32 1
  %g = getelementptr inbounds [14 x i8], [14 x i8]* @str, i64 0, i64 12
  %l = load atomic i32, i32* @tl seq_cst, align 65536
  switch i64 %b, label %big [
    i64 4096, label %big
    i64 1099511627776, label %done
    i64 -4611686018427387904, label %done
  ]

big:
  %r = call i32 (i8*, ...) @ext(i8* nonnull %g, i64 4294967296, double 1.000000e+10), !foo !{i64 65536, !"s", !2}
  br label %done

done:
  %p = phi i32 [ 1048576, %entry ], [ %r, %big ], [ 1048576, %entry ]
  ret i32 %p, !foo !2
}

attributes #0 = { nounwind uwtable "frame-pointer"="all" "min-legal-vector-width"="4096" "target-cpu"="x86-64" "target-features"="+cx8,+fxsr,+mmx,+sse,+sse2,+x87" }
attributes #1 = { "no-trapping-math"="true" cold }
attributes #2 = { nounwind readnone }

!named = !{!0, !1, !2, !3}
!llvm.module.flags = !{!4}

!0 = !{i64 4096, i32 65536, i16 -4096, double 1.000000e+100, float 0x36A0000000000000}
!1 = !DIExpression(DW_OP_constu, 65536, DW_OP_plus_uconst, 4096, DW_OP_LLVM_fragment, 0, 8192)
!2 = distinct !{!2, !"llvm.loop.unroll.count", i32 100000}
!3 = !{!"string with \22quotes\22 and \5C", null, i8* getelementptr inbounds ([14 x i8], [14 x i8]* @str, i64 0, i64 4096)}
!4 = !{i32 1, !"wchar_size", i32 4}
`

// richInputs collects the texts; rep receives the TLC run of Modules.tla.
func richInputs(rep *mbt.Report, tier string) []namedText {
	out := []namedText{{Name: "rich-constants", Text: richConstants}}
	for _, in := range corpus.Testdata() {
		out = append(out, namedText{Name: "testdata/" + in.Name, Text: in.Text})
	}
	opts := []string{"-O1 -g"}
	if tier == "thorough" {
		opts = append(opts, "-O0", "-O2")
	}
	for _, in := range corpus.Clang(opts...) {
		out = append(out, namedText{Name: "clang/" + in.Name, Text: in.Text})
	}
	for _, v := range modgen.Generate(rep, "*") {
		if v.Repr {
			v := v
			out = append(out, namedText{Name: "modules/" + v.Label(), Text: v.Text()})
		}
	}
	return out
}

// childCorpus is the child workload over a list of module texts: every text is
// parsed twice (one copy gives the sequential reference texts, the other is
// shared by the goroutines). The goroutines walk the list three times: in the
// same order (same module printed by several goroutines at once), in rotated
// order and in reverse for every other goroutine (different modules printed at
// the same time: package-level state). Start state never-printed: the shared
// copy sees its first print concurrently; already-printed: it is printed once
// before.
func childCorpus(sc scenario) {
	var items []namedText
	b, err := os.ReadFile(sc.Texts)
	if err != nil || json.Unmarshal(b, &items) != nil {
		fmt.Println("child: bad text list")
		os.Exit(3)
	}
	entries := map[string]bool{}
	for i := 0; i < sc.N; i++ {
		entries[entryOf(sc.Mix, i)] = true
	}
	type mod struct {
		name string
		m    *ir.Module
		ref  map[string]string
	}
	var mods []mod
	res := childResult{}
	// cold round: the process has printed nothing yet (no hook installed: it would count SetIDs in a shared cell)
	coldText := map[int][]string{} // index of the text -> text per goroutine ("" = panicked)
	if sc.Cold {
		var cms []*ir.Module
		var names []int
		// smallest texts first: the first use of a lazily initialised table then falls into a module that the
		// printers, released together, get through within microseconds of each other
		byLen := make([]int, len(items))
		for ii := range items {
			byLen[ii] = ii
		}
		sort.SliceStable(byLen, func(a, b int) bool { return len(items[byLen[a]].Text) < len(items[byLen[b]].Text) })
		for _, ii := range byLen {
			it := items[ii]
			var m *ir.Module
			var e1 error
			if _, p := mbt.Guard(func() { m, e1 = asm.ParseString(it.Name, it.Text) }); p || e1 != nil {
				continue
			}
			cms = append(cms, m)
			names = append(names, ii)
		}
		got := make([][]string, sc.N)
		arrived := make([]int32, len(cms))
		startC := make(chan struct{})
		var wgc sync.WaitGroup
		for i := 0; i < sc.N; i++ {
			got[i] = make([]string, len(cms))
			wgc.Add(1)
			go func(i int) {
				defer wgc.Done()
				<-startC
				for k := range cms {
					// all printers start on module k together: whatever package-level state its printing paths
					// initialise on first use is initialised by N goroutines at once
					atomic.AddInt32(&arrived[k], 1)
					for atomic.LoadInt32(&arrived[k]) < int32(sc.N) {
						runtime.Gosched()
					}
					mbt.Guard(func() { got[i][k] = call(entryOf(sc.Mix, i), cms[k]) })
				}
			}(i)
		}
		close(startC)
		if dl := waitOrDeadlock(&wgc, sc.N); dl != "" {
			res.Deadlock = "first prints of the process: " + dl
			res.Modules = len(cms)
			out, _ := json.Marshal(res)
			if err := os.WriteFile(sc.Out, out, 0o644); err != nil {
				fmt.Println("child: cannot write result:", err)
				os.Exit(3)
			}
			os.Exit(0)
		}
		for k, nm := range names {
			for i := 0; i < sc.N; i++ {
				coldText[nm] = append(coldText[nm], got[i][k])
			}
		}
		res.Calls += sc.N * len(cms)
	}
	ir.VerifHook = hook
	fresh := 0
	countSetIDs = &fresh
	for ii, it := range items {
		var m, refm *ir.Module
		var e1, e2 error
		if _, p := mbt.Guard(func() {
			m, e1 = asm.ParseString(it.Name, it.Text)
			refm, e2 = asm.ParseString(it.Name, it.Text)
		}); p || e1 != nil || e2 != nil {
			res.Skipped++
			continue
		}
		md := mod{name: it.Name, m: m, ref: map[string]string{}}
		ok := true
		if _, p := mbt.Guard(func() {
			if sc.Start == "already-printed" {
				_ = refm.String()
				_ = m.String()
			}
			for e := range entries {
				md.ref[e] = call(e, refm)
			}
			if sc.Start != "already-printed" {
				_ = refm.String() // counts the IDs a fresh copy still needs
			}
		}); p {
			ok = false // a module the library cannot print sequentially is not this property's business
		}
		if !ok {
			res.Skipped++
			continue
		}
		mods = append(mods, md)
		for i, t := range coldText[ii] {
			e := entryOf(sc.Mix, i)
			if t != md.ref[e] { // "" = the cold call panicked although the sequential call prints
				if len(res.Mismatches) < 20 {
					res.Mismatches = append(res.Mismatches, mismatch{Entry: e, Module: it.Name + " (first prints of the process, concurrent)", Want: md.ref[e], Got: t})
				} else {
					res.Mismatches = append(res.Mismatches, mismatch{Entry: e})
				}
			}
		}
	}
	countSetIDs = nil
	if sc.Start != "already-printed" {
		res.FreshWrites = fresh
	}
	var mu sync.Mutex
	start := make(chan struct{})
	var wg sync.WaitGroup
	n := len(mods)
	for i := 0; i < sc.N; i++ {
		wg.Add(1)
		go func(i int) {
			defer wg.Done()
			<-start
			e := entryOf(sc.Mix, i)
			rounds := sc.Rounds
			if rounds < 1 {
				rounds = 1
			}
			for pass := 0; pass < 3*rounds; pass++ {
				for k := 0; k < n; k++ {
					idx := k
					switch pass % 3 {
					case 1:
						idx = (k + i*n/sc.N) % n
					case 2:
						if i%2 == 1 {
							idx = n - 1 - k
						}
					}
					md := mods[idx]
					var got string
					msg, p := mbt.Guard(func() { got = call(e, md.m) })
					if p {
						mu.Lock()
						if len(res.Panics) < 10 {
							res.Panics = append(res.Panics, fmt.Sprintf("%s on %s: %s", e, md.name, msg))
						}
						mu.Unlock()
						continue
					}
					if got != md.ref[e] {
						mu.Lock()
						if len(res.Mismatches) < 20 {
							res.Mismatches = append(res.Mismatches, mismatch{Entry: e, Module: md.name, Want: md.ref[e], Got: got})
						} else {
							res.Mismatches = append(res.Mismatches, mismatch{Entry: e})
						}
						mu.Unlock()
					}
				}
			}
		}(i)
	}
	close(start)
	if dl := waitOrDeadlock(&wg, sc.N); dl != "" {
		res.Deadlock = dl
		res.Modules = n
		out, _ := json.Marshal(res)
		if err := os.WriteFile(sc.Out, out, 0o644); err != nil {
			fmt.Println("child: cannot write result:", err)
			os.Exit(3)
		}
		os.Exit(0)
	}
	res.Calls += sc.N * 3 * n
	if sc.Rounds > 1 {
		res.Calls *= sc.Rounds
	}
	res.Modules = n
	out, _ := json.Marshal(res)
	if err := os.WriteFile(sc.Out, out, 0o644); err != nil {
		fmt.Println("child: cannot write result:", err)
		os.Exit(3)
	}
	os.Exit(0)
}
