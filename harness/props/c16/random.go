package c16

import (
	"math/rand"

	"verif/harness/props/tyutil"
)

// Random type terms beyond the sets TLC enumerates (deeper nestings, odd
// widths, lengths and address spaces), each with a twin that differs in one
// attribute at one position. They only enlarge the recording that
// TypesTrace.tla judges; TLC computes the reference identity for them too.

var (
	rWidths = []int{1, 2, 7, 8, 16, 31, 32, 33, 64, 128, 129, 8388607}
	rSpaces = []int{0, 0, 1, 2, 5, 16777215}
	rLens   = []int{1, 2, 3, 4, 8, 1000}
	rFloats = []string{"half", "float", "double", "fp128", "x86_fp80", "ppc_fp128"}
)

type rgen struct {
	rng   *rand.Rand
	names []string
}

func pick[T any](r *rand.Rand, xs []T) T { return xs[r.Intn(len(xs))] }

// scalar returns an integer, floating-point or pointer type (a legal vector element).
func (g *rgen) scalar(d int) *tyutil.Term {
	switch g.rng.Intn(3) {
	case 0:
		return tyutil.Int(pick(g.rng, rWidths))
	case 1:
		return tyutil.Float(pick(g.rng, rFloats))
	}
	return g.ptr(d)
}

func (g *rgen) ptr(d int) *tyutil.Term {
	var e *tyutil.Term
	if d <= 0 {
		e = tyutil.Int(8)
	} else if g.rng.Intn(4) == 0 {
		e = g.fn(d - 1)
	} else {
		e = g.sized(d-1, true)
	}
	return tyutil.Ptr(e, pick(g.rng, rSpaces))
}

func (g *rgen) fn(d int) *tyutil.Term {
	ft := &tyutil.Term{K: "func", VA: g.rng.Intn(3) == 0}
	switch g.rng.Intn(4) {
	case 0:
		ft.Ret = tyutil.Atom("void")
	default:
		ft.Ret = g.sized(d, true)
	}
	for n := g.rng.Intn(4); n > 0; n-- {
		switch g.rng.Intn(8) {
		case 0:
			ft.PS = append(ft.PS, tyutil.Atom(pick(g.rng, []string{"label", "metadata", "token", "x86_mmx"})))
		default:
			ft.PS = append(ft.PS, g.sized(d, true))
		}
	}
	return ft
}

// sized returns a type that may be an aggregate element (scalableOK: also a scalable vector).
func (g *rgen) sized(d int, scalableOK bool) *tyutil.Term {
	if d <= 0 {
		switch g.rng.Intn(4) {
		case 0:
			return tyutil.Named(pick(g.rng, g.names))
		case 1:
			return tyutil.Float(pick(g.rng, rFloats))
		}
		return tyutil.Int(pick(g.rng, rWidths))
	}
	switch g.rng.Intn(8) {
	case 0:
		return g.scalar(d - 1)
	case 1:
		return g.ptr(d - 1)
	case 2:
		return tyutil.Vec(scalableOK && g.rng.Intn(2) == 0, pick(g.rng, rLens), g.scalar(d-1))
	case 3:
		n := pick(g.rng, rLens)
		if g.rng.Intn(4) == 0 {
			n = 0
		}
		return tyutil.Arr(n, g.sized(d-1, false))
	case 4, 5:
		st := &tyutil.Term{K: "struct", PK: g.rng.Intn(2) == 0}
		for n := g.rng.Intn(4); n > 0; n-- {
			st.FS = append(st.FS, g.sized(d-1, false))
		}
		return st
	case 6:
		return tyutil.Named(pick(g.rng, g.names))
	}
	return tyutil.Ptr(g.fn(d-1), pick(g.rng, rSpaces))
}

func clone(t *tyutil.Term) *tyutil.Term {
	if t == nil {
		return nil
	}
	c := *t
	c.E, c.Ret = clone(t.E), clone(t.Ret)
	c.FS, c.PS = nil, nil
	for _, f := range t.FS {
		c.FS = append(c.FS, clone(f))
	}
	for _, p := range t.PS {
		c.PS = append(c.PS, clone(p))
	}
	return &c
}

// nodes lists all positions of the term.
func nodes(t *tyutil.Term, out *[]*tyutil.Term) {
	if t == nil {
		return
	}
	*out = append(*out, t)
	nodes(t.E, out)
	nodes(t.Ret, out)
	for _, f := range t.FS {
		nodes(f, out)
	}
	for _, p := range t.PS {
		nodes(p, out)
	}
}

// mutate changes one attribute at one random position of a copy of t.
func (g *rgen) mutate(t *tyutil.Term) *tyutil.Term {
	c := clone(t)
	var ns []*tyutil.Term
	nodes(c, &ns)
	n := pick(g.rng, ns)
	switch n.K {
	case "int":
		n.W++
	case "float":
		for {
			k := pick(g.rng, rFloats)
			if k != n.FK {
				n.FK = k
				break
			}
		}
	case "ptr":
		n.AS++
	case "vec":
		if g.rng.Intn(2) == 0 {
			n.SC = !n.SC
		} else {
			n.N++
		}
	case "arr":
		n.N++
	case "struct":
		if g.rng.Intn(2) == 0 || len(n.FS) == 0 {
			n.PK = !n.PK
		} else {
			n.FS = n.FS[:len(n.FS)-1]
		}
	case "named":
		for len(g.names) > 1 {
			k := pick(g.rng, g.names)
			if k != n.NM {
				n.NM = k
				break
			}
		}
	case "func":
		if g.rng.Intn(2) == 0 || len(n.PS) == 0 {
			n.VA = !n.VA
		} else {
			n.PS = n.PS[:len(n.PS)-1]
		}
	}
	return c
}

// randomItems returns up to 2*n random terms (term and one-attribute twin) per universe.
func randomItems(rng *rand.Rand, unis map[string]tyutil.Universe, n int) []item {
	var us []string
	for u := range unis {
		us = append(us, u)
	}
	sortStrings(us)
	var out []item
	for _, u := range us {
		g := &rgen{rng: rng, names: unis[u].Names()}
		for k := 0; k < n; k++ {
			var t *tyutil.Term
			switch rng.Intn(6) {
			case 0:
				t = g.fn(1 + rng.Intn(3))
			default:
				t = g.sized(1+rng.Intn(4), true)
			}
			out = append(out, item{U: u, T: t}, item{U: u, T: g.mutate(t)})
		}
	}
	return out
}
