package c16

import (
	"encoding/json"
	"fmt"
	"path/filepath"
	"strings"
	"time"

	"github.com/llir/llvm/ir/types"

	"verif/harness/mbt"
	"verif/harness/props/tyutil"
)

// Histories of spec/TypesMut.tla: build a type as live Go objects, observe it
// (String, Equal), mutate an object below through the real API, and require
// every node to print and compare like a freshly built copy of what it
// denotes now.

type mutation struct {
	M  string         `json:"m"`
	NM string         `json:"nm"`
	FS []*tyutil.Term `json:"fs"`
	AS int            `json:"as"`
	N  int            `json:"n"`
	C  int            `json:"c"`
	T  *tyutil.Term   `json:"t"`
}

type mutStep struct {
	Path []int
	Mut  mutation
}

func (s *mutStep) UnmarshalJSON(b []byte) error {
	var raw []json.RawMessage
	if err := json.Unmarshal(b, &raw); err != nil || len(raw) != 2 {
		return fmt.Errorf("mutation step: %v", err)
	}
	if err := json.Unmarshal(raw[0], &s.Path); err != nil {
		return err
	}
	return json.Unmarshal(raw[1], &s.Mut)
}

func (s mutStep) MarshalJSON() ([]byte, error) {
	p := s.Path
	if p == nil {
		p = []int{}
	}
	return json.Marshal([]interface{}{p, s.Mut})
}

type chkEntry struct {
	Path  []int
	Canon *tyutil.Term
}

func (c *chkEntry) UnmarshalJSON(b []byte) error {
	var raw []json.RawMessage
	if err := json.Unmarshal(b, &raw); err != nil || len(raw) != 2 {
		return fmt.Errorf("chk entry: %v", err)
	}
	if err := json.Unmarshal(raw[0], &c.Path); err != nil {
		return err
	}
	return json.Unmarshal(raw[1], &c.Canon)
}

func (c chkEntry) MarshalJSON() ([]byte, error) {
	p := c.Path
	if p == nil {
		p = []int{}
	}
	return json.Marshal([]interface{}{p, c.Canon})
}

type history struct {
	Init *tyutil.Term `json:"init"`
	Muts []mutStep    `json:"muts"`
	Chk  [][]chkEntry `json:"chk"`
}

// buildObj builds the live object of a mutable-object term (struct nodes carry their name).
func buildObj(t *tyutil.Term) types.Type {
	switch t.K {
	case "struct":
		st := &types.StructType{TypeName: t.NM, Opaque: t.OP, Packed: t.PK}
		for _, f := range t.FS {
			st.Fields = append(st.Fields, buildObj(f))
		}
		return st
	case "ptr":
		p := types.NewPointer(buildObj(t.E))
		p.AddrSpace = types.AddrSpace(t.AS)
		return p
	case "vec":
		v := types.NewVector(uint64(t.N), buildObj(t.E))
		v.Scalable = t.SC
		return v
	case "arr":
		return types.NewArray(uint64(t.N), buildObj(t.E))
	case "func":
		ft := &types.FuncType{RetType: buildObj(t.Ret), Variadic: t.VA}
		for _, p := range t.PS {
			ft.Params = append(ft.Params, buildObj(p))
		}
		return ft
	}
	return tyutil.NewBuilder(nil, false).Type(t)
}

// childOf follows one selector of a path (0 = element / return type, i = i-th field / parameter).
func childOf(t types.Type, c int) types.Type {
	switch t := t.(type) {
	case *types.PointerType:
		return t.ElemType
	case *types.VectorType:
		return t.ElemType
	case *types.ArrayType:
		return t.ElemType
	case *types.StructType:
		return t.Fields[c-1]
	case *types.FuncType:
		if c == 0 {
			return t.RetType
		}
		return t.Params[c-1]
	}
	panic(fmt.Sprintf("no child %d in %T", c, t))
}

func at(root types.Type, path []int) types.Type {
	for _, c := range path {
		root = childOf(root, c)
	}
	return root
}

// apply performs the mutation on the live object through the library's API.
func apply(node types.Type, mu mutation) {
	switch mu.M {
	case "setname":
		node.SetName(mu.NM)
	case "fields":
		st := node.(*types.StructType)
		st.Fields = nil
		for _, f := range mu.FS {
			st.Fields = append(st.Fields, buildObj(f))
		}
		st.Opaque = false
	case "packed":
		st := node.(*types.StructType)
		st.Packed = !st.Packed
	case "as":
		node.(*types.PointerType).AddrSpace = types.AddrSpace(mu.AS)
	case "scalable":
		v := node.(*types.VectorType)
		v.Scalable = !v.Scalable
	case "len":
		switch n := node.(type) {
		case *types.VectorType:
			n.Len = uint64(mu.N)
		case *types.ArrayType:
			n.Len = uint64(mu.N)
		}
	case "variadic":
		f := node.(*types.FuncType)
		f.Variadic = !f.Variadic
	case "replace":
		x := buildObj(mu.T)
		switch n := node.(type) {
		case *types.PointerType:
			n.ElemType = x
		case *types.VectorType:
			n.ElemType = x
		case *types.ArrayType:
			n.ElemType = x
		case *types.StructType:
			n.Fields[mu.C-1] = x
		case *types.FuncType:
			if mu.C == 0 {
				n.RetType = x
			} else {
				n.Params[mu.C-1] = x
			}
		}
	default:
		panic("mutation " + mu.M)
	}
}

var mutUniverse = tyutil.Universe{"S": {Opaque: true}, "T": {Opaque: true}}

func pathKey(p []int) string { return fmt.Sprint(p) }

// replayHistory runs one history against the real types and reports every node that does not
// print / compare like a fresh copy of what it denotes.
func replayHistory(rep *mbt.Report, h *history) {
	fail := func(step int, e chkEntry, live types.Type, what, detail string) {
		mu := "none yet"
		mk, nk := "-", "-"
		if step > 0 {
			s := h.Muts[step-1]
			mu = fmt.Sprintf("%s at %v", s.Mut.M, s.Path)
			mk = s.Mut.M
			nk = nodeKindAt(h, step-1)
			up := len(s.Path) - len(e.Path)
			detail += fmt.Sprintf(" (observer %d level(s) above the mutated object)", up)
		}
		rep.Fail(mbt.Failure{
			Signature: fmt.Sprintf("C16|mutate-then-observe|%s of a %s|seen from an enclosing %s|%s", mk, nk, e.Canon.K, what),
			What:      fmt.Sprintf("history: build %s; observe; mutations %s; after mutation %d (%s) the node at path %v must denote %s: %s", objText(h.Init), mutsText(h.Muts[:step]), step, mu, e.Path, e.Canon.LL(), detail),
			Case:      map[string]interface{}{"history": h},
		})
	}
	var root types.Type
	if msg, p := mbt.Guard(func() { root = buildObj(h.Init) }); p {
		mbt.Infra("cannot build %s: %s", objText(h.Init), msg)
	}
	prev := map[string]*tyutil.Term{}
	for step := 0; step < len(h.Chk); step++ {
		if step > 0 {
			s := h.Muts[step-1]
			if msg, p := mbt.Guard(func() { apply(at(root, s.Path), s.Mut) }); p {
				rep.Fail(mbt.Failure{Signature: "C16|mutate-then-observe|" + s.Mut.M + "|panic while mutating", What: msg, Case: map[string]interface{}{"history": h}})
				return
			}
		}
		cur := map[string]*tyutil.Term{}
		for _, e := range h.Chk[step] {
			e := e
			cur[pathKey(e.Path)] = e.Canon
			msg, p := mbt.Guard(func() {
				live := at(root, e.Path)
				fresh := tyutil.NewBuilder(mutUniverse, false).Type(e.Canon)
				if ls, fs := live.String(), fresh.String(); ls != fs {
					fail(step, e, live, "String() is stale", fmt.Sprintf("String() = %q, a fresh copy prints %q", ls, fs))
				}
				if !types.Equal(live, fresh) || !types.Equal(fresh, live) {
					fail(step, e, live, "Equal with a fresh copy is false", fmt.Sprintf("Equal(live, fresh) = %v, Equal(fresh, live) = %v", types.Equal(live, fresh), types.Equal(fresh, live)))
				}
				if old := prev[pathKey(e.Path)]; old != nil && !tyutil.Same(old, e.Canon) {
					stale := tyutil.NewBuilder(mutUniverse, false).Type(old)
					if types.Equal(live, stale) || types.Equal(stale, live) {
						fail(step, e, live, "still Equal to what it denoted before", fmt.Sprintf("before the mutation the node denoted %s", old.LL()))
					}
				}
			})
			if p {
				fail(step, e, nil, "panic", msg)
			}
			rep.Count(fmt.Sprintf("hist|%s|%s|%d|%v", objText(h.Init), mutsText(h.Muts), step, e.Path), step > 0)
		}
		prev = cur
	}
}

func nodeKindAt(h *history, k int) string {
	// kind of the object the k-th mutation is applied to, from the previous observation
	for _, e := range h.Chk[k] {
		if pathKey(e.Path) == pathKey(h.Muts[k].Path) {
			if e.Canon.K == "named" {
				return "struct (identified)"
			}
			return e.Canon.K
		}
	}
	return "?"
}

func objText(t *tyutil.Term) string {
	if t == nil {
		return "?"
	}
	if t.K == "struct" {
		c := *t
		var fs []*tyutil.Term
		for _, f := range t.FS {
			fs = append(fs, &tyutil.Term{K: objText(f)})
		}
		c.FS = fs
		body := c.LL()
		if t.OP {
			body = "opaque"
		}
		if t.NM != "" {
			return "%" + t.NM + "=" + body
		}
		return body
	}
	c := *t
	if t.E != nil {
		c.E = &tyutil.Term{K: objText(t.E)}
	}
	if t.Ret != nil {
		c.Ret = &tyutil.Term{K: objText(t.Ret)}
	}
	if len(t.PS) > 0 {
		c.PS = nil
		for _, p := range t.PS {
			c.PS = append(c.PS, &tyutil.Term{K: objText(p)})
		}
	}
	return c.LL()
}

func mutsText(ms []mutStep) string {
	var ss []string
	for _, m := range ms {
		s := fmt.Sprintf("%s@%v", m.Mut.M, m.Path)
		switch m.Mut.M {
		case "setname":
			s += "=" + m.Mut.NM
		case "replace":
			s += "=" + objText(m.Mut.T)
		}
		ss = append(ss, s)
	}
	return "[" + strings.Join(ss, ", ") + "]"
}

// histories runs the mutate-then-observe part of C16.
func histories(rep *mbt.Report, tier string) {
	t := mbt.MustTLC(mbt.TLCOpts{Spec: "TypesMut", Cfg: "TypesMutDeviation.cfg"})
	if len(t.Violated) == 0 {
		mbt.Infra("TypesMutDeviation: memoised pointer strings are not refuted by NoHiddenState; the deviation switch is dead")
	}
	t.Cleanup()
	muts := "2"
	if tier == "thorough" {
		muts = "3"
	}
	t = mbt.MustTLC(mbt.TLCOpts{Spec: "TypesMut", Cfg: "TypesMut.cfg", Workers: 1, Consts: map[string]string{"MaxMuts": muts}, Timeout: 15 * time.Minute})
	defer t.Cleanup()
	if len(t.Violated) > 0 {
		mbt.Infra("TypesMut.tla violates %v: specification error\n%s", t.Violated, mbt.Truncate(t.Output, 3000))
	}
	rep.AddTLC(t)
	hs, err := mbt.ReadNDJSON[history](filepath.Join(t.Dir, "types_hist.ndjson"))
	if err != nil {
		mbt.Infra("%v", err)
	}
	if len(hs) < 100 {
		mbt.Infra("TypesMut generated %d histories", len(hs))
	}
	for k := range hs {
		replayHistory(rep, &hs[k])
	}
	rep.TracesValidated += len(hs)
	rep.Extra["mutation_histories"] = len(hs)
	rep.Sample(map[string]interface{}{"history": "build " + objText(hs[len(hs)/2].Init) + "; observe; " + mutsText(hs[len(hs)/2].Muts) + " with an observation after each mutation"})
}
