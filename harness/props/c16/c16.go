// Package c16 checks property C16 (not built yet).
package c16

import (
	"verif/harness/mbt"
	"verif/harness/props/reg"
)

func init() { reg.Register("C16", Run) }

// Run is the C16 check.
func Run(tier, replay string) { mbt.Infra("check C16 is not built yet") }
