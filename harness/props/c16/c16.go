// Package c16 checks property C16: types.Equal is LLVM type identity (an
// equivalence that identifies identified structs by name and everything else
// by structure, terminates on recursive types and is preserved by print+parse).
//
// (S) spec/TypesEq.tla: TLC checks the laws of the reference identity TypeEq.
// (G) TLC generates type terms over four universes; (T) the real Equal is
// recorded on all ordered pairs (several object-sharing views, and against the
// types obtained by printing and re-parsing) and spec/TypesTrace.tla judges the
// recorded matrices. The real code runs in a child process so that a stack
// overflow or a hang of Equal is observed instead of killing the check.
package c16

import (
	"bufio"
	"bytes"
	"encoding/json"
	"fmt"
	"io"
	"log"
	"math/rand"
	"os"
	"os/exec"
	"path/filepath"
	"regexp"
	"sort"
	"strconv"
	"strings"
	"time"

	"github.com/llir/llvm/asm"
	"github.com/llir/llvm/ir"
	"github.com/llir/llvm/ir/types"

	"verif/harness/llvmoracle"
	"verif/harness/mbt"
	"verif/harness/props/reg"
	"verif/harness/props/tyutil"
)

func init() { reg.Register("C16", Run) }

type genRec struct {
	U    string                  `json:"u"`
	Defs map[string]*tyutil.Body `json:"defs"`
	T    *tyutil.Term            `json:"t"`
}

type item struct {
	U string       `json:"u"`
	T *tyutil.Term `json:"t"`
}

// childIn is the work order of the child process.
type childIn struct {
	Universes  map[string]tyutil.Universe `json:"universes"`
	Items      []item                     `json:"items"`
	From       int                        `json:"from"`        // first row to evaluate (0-based)
	CarefulRow int                        `json:"careful_row"` // row in which every call is announced before it is made (-1: none)
	Skip       map[string][]string        `json:"skip"`        // row -> calls "j:view" known to kill the process
	SkipParse  []int                      `json:"skip_parse"`  // terms whose print+parse kills the process
	SkipU      map[string]bool            `json:"skip_u"`      // universes given up after too many deaths
}

type badCall struct {
	V   string `json:"v"`
	J   int    `json:"j"`
	St  string `json:"st"` // panic | timeout
	Msg string `json:"msg"`
}

// childRow is one row written by the child (all indices 0-based).
type childRow struct {
	Kind     string           `json:"kind"` // "atparse" | "parsed" | "at" | "row"
	I        int              `json:"i"`
	J        int              `json:"j,omitempty"`
	V        string           `json:"v,omitempty"`
	Views    map[string][]int `json:"views,omitempty"`
	Bad      []badCall        `json:"bad,omitempty"`
	ParseErr string           `json:"parse_err,omitempty"`
	Printed  string           `json:"printed,omitempty"`
}

var viewNames = []string{"ss", "sd", "ds", "ps", "sp", "ii", "si", "is"}

// --- child: everything that calls the code under test --------------------------

const callTimeout = 2 * time.Second

// timedEqual evaluates x.Equal(y) in a goroutine with a deadline.
func timedEqual(x, y types.Type, timer *time.Timer) (res bool, st, msg string) {
	type out struct {
		r   bool
		msg string
		p   bool
	}
	ch := make(chan out, 1)
	go func() {
		var o out
		o.msg, o.p = mbt.Guard(func() { o.r = types.Equal(x, y) })
		ch <- o
	}()
	if !timer.Stop() {
		select {
		case <-timer.C:
		default:
		}
	}
	timer.Reset(callTimeout)
	select {
	case o := <-ch:
		if o.p {
			return false, "panic", o.msg
		}
		return o.r, "", ""
	case <-timer.C:
		return false, "timeout", fmt.Sprintf("no result after %v", callTimeout)
	}
}

// printParse prints t inside a minimal module with the library's printer and
// parses it back with the library's parser.
func printParse(u tyutil.Universe, t *tyutil.Term) (parsed types.Type, printed string, err error) {
	b := tyutil.NewBuilder(u, false)
	typ := b.Type(t)
	m := ir.NewModule()
	m.TypeDefs = b.TypeDefs()
	switch t.K {
	case "void":
		m.NewFunc("f", typ)
	case "label", "token", "metadata":
		m.NewFunc("f", types.Void, ir.NewParam("", typ))
	default:
		m.NewFunc("f", types.Void, ir.NewParam("", types.NewPointer(typ)))
	}
	printed = m.String()
	m2, err := asm.ParseString("c16.ll", printed)
	if err != nil {
		return nil, printed, err
	}
	if len(m2.Funcs) != 1 {
		return nil, printed, fmt.Errorf("parsed module has %d functions", len(m2.Funcs))
	}
	f := m2.Funcs[0]
	switch t.K {
	case "void":
		return f.Sig.RetType, printed, nil
	case "label", "token", "metadata":
		if len(f.Sig.Params) != 1 {
			return nil, printed, fmt.Errorf("parsed function has %d parameters", len(f.Sig.Params))
		}
		return f.Sig.Params[0], printed, nil
	}
	if len(f.Sig.Params) != 1 {
		return nil, printed, fmt.Errorf("parsed function has %d parameters", len(f.Sig.Params))
	}
	p, ok := f.Sig.Params[0].(*types.PointerType)
	if !ok {
		return nil, printed, fmt.Errorf("parsed parameter is %T, not a pointer", f.Sig.Params[0])
	}
	return p.ElemType, printed, nil
}

func child(path string) {
	log.SetOutput(io.Discard)
	var in childIn
	if err := mbt.ReadJSON(path, &in); err != nil {
		fmt.Fprintln(os.Stderr, "child:", err)
		os.Exit(3)
	}
	w := bufio.NewWriterSize(os.Stdout, 1<<16)
	emit := func(r childRow) {
		b, _ := json.Marshal(r)
		w.Write(b)
		w.WriteByte('\n')
		w.Flush()
	}
	n := len(in.Items)
	shared := map[string]*tyutil.Builder{}
	for u, uni := range in.Universes {
		shared[u] = tyutil.NewBuilder(uni, false)
	}
	S := make([]types.Type, n) // one object per name, shared by all terms of the universe
	D := make([]types.Type, n) // objects of its own for every term and every top-level occurrence
	P := make([]types.Type, n) // printed and parsed back
	// I: every type of the universe interned -- one Go object per type, the package singletons
	// (types.I32, types.Double, types.I8Ptr, ...) for the leaves, so that different terms share
	// their element / field / parameter objects (S and D allocate every occurrence afresh)
	I := make([]types.Type, n)
	interned := map[string]*tyutil.Builder{}
	for u, uni := range in.Universes {
		interned[u] = tyutil.NewInternBuilder(uni)
	}
	for i, it := range in.Items {
		I[i] = interned[it.U].Type(it.T)
		S[i] = shared[it.U].Type(it.T)
		D[i] = tyutil.NewBuilder(in.Universes[it.U], true).Type(it.T)
	}
	skipParse := map[int]bool{}
	for _, i := range in.SkipParse {
		skipParse[i] = true
	}
	for i, it := range in.Items {
		if skipParse[i] {
			continue
		}
		emit(childRow{Kind: "atparse", I: i})
		var r childRow
		r.Kind, r.I = "parsed", i
		var err error
		msg, p := mbt.Guard(func() { P[i], r.Printed, err = printParse(in.Universes[it.U], it.T) })
		switch {
		case p:
			r.ParseErr = "panic: " + msg
		case err != nil:
			r.ParseErr = "error: " + err.Error()
		}
		if r.ParseErr != "" {
			P[i] = nil
			emit(r)
		}
	}
	emit(childRow{Kind: "parsed", I: -1})
	timer := time.NewTimer(time.Hour)
	for i := in.From; i < n; i++ {
		if in.SkipU[in.Items[i].U] {
			continue
		}
		skip := map[string]bool{}
		for _, jv := range in.Skip[strconv.Itoa(i)] {
			skip[jv] = true
		}
		r := childRow{Kind: "row", I: i, Views: map[string][]int{}}
		for _, v := range viewNames {
			r.Views[v] = []int{}
		}
		for j := 0; j < n; j++ {
			if in.Items[j].U != in.Items[i].U {
				continue
			}
			pairs := map[string][2]types.Type{"ss": {S[i], S[j]}, "sd": {S[i], D[j]}, "ds": {D[i], S[j]}, "ps": {P[i], S[j]}, "sp": {S[i], P[j]},
				"ii": {I[i], I[j]}, "si": {S[i], I[j]}, "is": {I[i], S[j]}}
			for _, v := range viewNames {
				xy := pairs[v]
				if xy[0] == nil || xy[1] == nil || skip[strconv.Itoa(j)+":"+v] {
					continue // print+parse failed for that term / the call kills the process: reported by the parent
				}
				if i == in.CarefulRow {
					emit(childRow{Kind: "at", I: i, J: j, V: v})
				}
				eq, st, msg := timedEqual(xy[0], xy[1], timer)
				if st != "" {
					r.Bad = append(r.Bad, badCall{V: v, J: j, St: st, Msg: msg})
					continue
				}
				if eq {
					r.Views[v] = append(r.Views[v], j)
				}
			}
		}
		emit(r)
	}
	os.Exit(0)
}

// --- parent --------------------------------------------------------------------

// runChild runs the child process on the work order and returns its rows; died
// reports that the process ended abnormally (crash, stack overflow, timeout).
func runChild(in childIn, timeout time.Duration) (rows []childRow, died bool, diag string) {
	f, err := os.CreateTemp("", "verif-c16-*.json")
	if err != nil {
		mbt.Infra("%v", err)
	}
	defer os.Remove(f.Name())
	b, _ := json.Marshal(in)
	f.Write(b)
	f.Close()
	exe, err := os.Executable()
	if err != nil {
		mbt.Infra("%v", err)
	}
	cmd := exec.Command("timeout", strconv.Itoa(int(timeout.Seconds())), exe, "quick")
	cmd.Env = append(os.Environ(), "VERIF_C16_CHILD="+f.Name())
	var so, se bytes.Buffer
	cmd.Stdout, cmd.Stderr = &so, &se
	err = cmd.Run()
	sc := bufio.NewScanner(&so)
	sc.Buffer(make([]byte, 1<<20), 1<<26)
	for sc.Scan() {
		var r childRow
		if json.Unmarshal(sc.Bytes(), &r) == nil && r.Kind != "" {
			rows = append(rows, r)
		}
	}
	if err != nil {
		d := se.String()
		if len(d) > 600 {
			d = d[:600]
		}
		return rows, true, fmt.Sprintf("%v: %s", err, d)
	}
	return rows, false, ""
}

// attrClass lists, for two different terms, the kind.attribute positions in
// which they differ (path-free, so that one defect has one class).
func attrClass(a, b *tyutil.Term) []string {
	set := map[string]bool{}
	var walk func(a, b *tyutil.Term)
	walk = func(a, b *tyutil.Term) {
		if a.K != b.K {
			ks := []string{a.K, b.K}
			sort.Strings(ks)
			set["kind:"+ks[0]+"/"+ks[1]] = true
			return
		}
		add := func(c bool, s string) {
			if c {
				set[a.K+"."+s] = true
			}
		}
		switch a.K {
		case "int":
			add(a.W != b.W, "width")
		case "float":
			add(a.FK != b.FK, "kind")
		case "ptr":
			add(a.AS != b.AS, "addrspace")
			walk(a.E, b.E)
		case "vec":
			add(a.SC != b.SC, "scalable")
			add(a.N != b.N, "len")
			walk(a.E, b.E)
		case "arr":
			add(a.N != b.N, "len")
			walk(a.E, b.E)
		case "struct":
			add(a.PK != b.PK, "packed")
			if len(a.FS) != len(b.FS) {
				add(true, "fieldcount")
				return
			}
			for i := range a.FS {
				walk(a.FS[i], b.FS[i])
			}
		case "named":
			add(a.NM != b.NM, "name")
		case "func":
			add(a.VA != b.VA, "variadic")
			walk(a.Ret, b.Ret)
			if len(a.PS) != len(b.PS) {
				add(true, "paramcount")
				return
			}
			for i := range a.PS {
				walk(a.PS[i], b.PS[i])
			}
		}
	}
	walk(a, b)
	var out []string
	for k := range set {
		out = append(out, k)
	}
	sort.Strings(out)
	return out
}

var viewWhat = map[string]string{
	"ss": "both sides share one object per type name",
	"sd": "right side built with separate objects per type name",
	"ds": "left side built with separate objects per type name",
	"ps": "left side printed and parsed back",
	"sp": "right side printed and parsed back",
	"ii": "both sides interned: one Go object per type, package singletons as leaves, sub-objects shared between terms",
	"si": "right side interned (shared sub-objects, package singletons), left side with fresh objects per occurrence",
	"is": "left side interned (shared sub-objects, package singletons), right side with fresh objects per occurrence",
}

// declText renders a declaration that uses t, for llvm-as (independent renderer).
func declText(i int, t *tyutil.Term) string {
	switch t.K {
	case "void":
		return fmt.Sprintf("declare void @f%d()\n", i)
	case "label":
		return fmt.Sprintf("declare void @f%d(label)\n", i)
	case "token":
		return "declare token @llvm.call.preallocated.setup(i32)\n"
	case "metadata":
		return "declare void @llvm.dbg.declare(metadata, metadata, metadata)\n"
	}
	return fmt.Sprintf("declare void @f%d(%s*)\n", i, t.LL())
}

// validate asks llvm-as whether every term is an LLVM type; rejected terms are dropped.
func validate(rep *mbt.Report, unis map[string]tyutil.Universe, items []item) []item {
	var keep []item
	discards := 0
	byU := map[string][]int{}
	for i, it := range items {
		byU[it.U] = append(byU[it.U], i)
	}
	ok := make([]bool, len(items))
	for u, idx := range byU {
		var b strings.Builder
		b.WriteString(unis[u].Defs())
		seen := map[string]bool{}
		for _, i := range idx {
			d := declText(i, items[i].T)
			if !seen[d] {
				b.WriteString(d)
				seen[d] = true
			}
		}
		if acc, _ := llvmoracle.Accepts(b.String()); acc {
			for _, i := range idx {
				ok[i] = true
			}
			continue
		}
		llvmoracle.Parallel(len(idx), func(k int) {
			i := idx[k]
			acc, _ := llvmoracle.Accepts(unis[u].Defs() + declText(i, items[i].T))
			ok[i] = acc
		})
	}
	for i, it := range items {
		if ok[i] {
			keep = append(keep, it)
		} else {
			discards++
			if discards <= 5 {
				rep.Note("spec/LLVM disagreement: llvm-as rejects generated type %s (discarded)", it.T.LL())
			}
		}
	}
	rep.Extra["llvm_validated_terms"] = len(keep)
	rep.Extra["llvm_discards"] = discards
	if discards*50 > len(items) {
		mbt.Infra("llvm-as rejects %d of %d generated types: WellFormed of Types.tla disagrees with LLVM", discards, len(items))
	}
	return keep
}

// validateQuiet keeps the terms llvm-as accepts.
func validateQuiet(unis map[string]tyutil.Universe, items []item) []item {
	ok := make([]bool, len(items))
	llvmoracle.Parallel(len(items), func(i int) {
		ok[i], _ = llvmoracle.Accepts(unis[items[i].U].Defs() + declText(i, items[i].T))
	})
	var keep []item
	for i, it := range items {
		if ok[i] {
			keep = append(keep, it)
		}
	}
	return keep
}

// dedupe drops the terms of more that are already present (in have or earlier in more).
func dedupe(have, more []item) []item {
	seen := map[string]bool{}
	for _, it := range have {
		seen[it.U+"|"+it.T.Key()] = true
	}
	var out []item
	for _, it := range more {
		k := it.U + "|" + it.T.Key()
		if !seen[k] {
			seen[k] = true
			out = append(out, it)
		}
	}
	return out
}

func sortStrings(s []string) { sort.Strings(s) }

var reBad = regexp.MustCompile(`<<"BADPAIR", "([a-z]+)", (\d+), (\d+), (TRUE|FALSE)>>`)

// record runs the real code on the items and lets TLC judge the recording.
func record(rep *mbt.Report, unis map[string]tyutil.Universe, items []item, tier string) {
	n := len(items)
	in := childIn{Universes: unis, Items: items, CarefulRow: -1, Skip: map[string][]string{}, SkipU: map[string]bool{}}
	rows := make([]*childRow, n)
	parseErr := map[int]childRow{}
	noResult := func(i, j int, v, diag string) {
		rep.Fail(mbt.Failure{Signature: "C16|Equal|no result (process died: stack overflow, crash or hang)|kinds=" + items[i].T.K + "," + items[j].T.K,
			What: fmt.Sprintf("types.Equal(%s, %s) [%s] in universe %s does not return: %s", items[i].T.LL(), items[j].T.LL(), viewWhat[v], items[i].U, mbt.Truncate(diag, 300)),
			Case: map[string]interface{}{"u": items[i].U, "defs": unis[items[i].U], "a": items[i].T, "b": items[j].T}})
	}
	for deaths := 0; ; {
		got, died, diag := runChild(in, 15*time.Minute)
		parsedAll := false
		var lastAt, lastAtParse *childRow
		for k := range got {
			r := got[k]
			switch r.Kind {
			case "atparse":
				lastAtParse = &got[k]
			case "parsed":
				if r.I >= 0 {
					parseErr[r.I] = r
				} else {
					parsedAll = true
				}
			case "at":
				lastAt = &got[k]
			case "row":
				rows[r.I] = &got[k]
			}
		}
		if !died {
			break
		}
		deaths++
		if !parsedAll {
			if lastAtParse == nil {
				mbt.Infra("child process died before doing anything: %s", diag)
			}
			i := lastAtParse.I
			parseErr[i] = childRow{Kind: "parsed", I: i, ParseErr: "no result: process died (stack overflow, crash or hang): " + mbt.Truncate(diag, 200)}
			in.SkipParse = append(in.SkipParse, i)
			continue
		}
		i := in.From
		for i < n && (rows[i] != nil || in.SkipU[items[i].U]) {
			i++
		}
		if i >= n {
			mbt.Infra("child process died without a missing row: %s", diag)
		}
		if in.CarefulRow == i && lastAt != nil && lastAt.I == i {
			noResult(i, lastAt.J, lastAt.V, diag)
			key := strconv.Itoa(i)
			in.Skip[key] = append(in.Skip[key], strconv.Itoa(lastAt.J)+":"+lastAt.V)
		}
		in.From, in.CarefulRow = i, i
		if deaths > 40 {
			rep.Note("the process evaluating Equal died more than 40 times; the remaining rows of universe %s are not evaluated", items[i].U)
			in.SkipU[items[i].U] = true
			deaths = 20
		}
	}
	// failures seen by the child itself
	for i, r := range parseErr {
		rep.Fail(mbt.Failure{Signature: "C16|print+parse|" + strings.SplitN(r.ParseErr, ":", 2)[0] + "|kind=" + items[i].T.K,
			What: fmt.Sprintf("type %s (universe %s) is not preserved by print+parse: %s; printed module:\n%s", items[i].T.LL(), items[i].U, mbt.Truncate(r.ParseErr, 300), r.Printed),
			Case: map[string]interface{}{"u": items[i].U, "defs": unis[items[i].U], "a": items[i].T, "b": items[i].T}})
	}
	type recRow struct {
		U     string           `json:"u"`
		T     *tyutil.Term     `json:"t"`
		Views map[string][]int `json:"views"`
	}
	newIdx := make([]int, n) // 0-based row -> 1-based index in the recording, 0 = not evaluated
	var recs []recRow
	var recItems []item
	for i := range items {
		if rows[i] != nil {
			recItems = append(recItems, items[i])
			newIdx[i] = len(recItems)
		}
	}
	pairs := 0
	perU := map[string]int{}
	for _, it := range recItems {
		perU[it.U]++
	}
	for i := range items {
		r := rows[i]
		if r == nil {
			continue
		}
		rr := recRow{U: items[i].U, T: items[i].T, Views: map[string][]int{}}
		for _, v := range viewNames {
			js := []int{}
			for _, j := range r.Views[v] {
				if newIdx[j] > 0 {
					js = append(js, newIdx[j])
				}
			}
			rr.Views[v] = js
		}
		recs = append(recs, rr)
		for _, b := range r.Bad {
			rep.Fail(mbt.Failure{Signature: "C16|Equal|" + b.St + "|kinds=" + items[i].T.K + "," + items[b.J].T.K,
				What: fmt.Sprintf("types.Equal(%s, %s) [%s] in universe %s: %s %s", items[i].T.LL(), items[b.J].T.LL(), viewWhat[b.V], items[i].U, b.St, mbt.Truncate(b.Msg, 200)),
				Case: map[string]interface{}{"u": items[i].U, "defs": unis[items[i].U], "a": items[i].T, "b": items[b.J].T}})
		}
		pairs += perU[items[i].U]
	}
	if len(recs) == 0 {
		return
	}
	items = recItems
	n = len(items)
	for i := range items {
		for j := range items {
			if items[i].U == items[j].U {
				rep.Count(items[i].U+"|"+items[i].T.Key()+"|"+items[j].T.Key(), i != j)
			}
		}
	}
	// views of terms whose print+parse failed are empty; do not let TLC flag them a second time
	for old := range parseErr {
		if newIdx[old] == 0 {
			continue
		}
		i := newIdx[old] - 1
		recs[i].Views["ps"] = recs[i].Views["ss"]
		for k := range recs {
			if recs[k].U == recs[i].U {
				if contains(recs[k].Views["ss"], i+1) {
					recs[k].Views["sp"] = append(recs[k].Views["sp"], i+1)
				}
			}
		}
	}
	t := mbt.MustTLC(mbt.TLCOpts{Spec: "TypesTrace", Cfg: "TypesTrace.cfg", Workers: 8, Continue: true,
		Data: map[string][]byte{"types_rec.ndjson": mbt.NDJSONBytes(recs)}, Timeout: 20 * time.Minute})
	defer t.Cleanup()
	rep.AddTLC(t)
	if t.Distinct != int64(n)+1 {
		mbt.Infra("TypesTrace consumed %d rows of %d:\n%s", t.Distinct-1, n, mbt.Truncate(t.Output, 2000))
	}
	for _, v := range t.Violated {
		if v != "RowOK" {
			mbt.Infra("TypesTrace: unexpected violation %s", v)
		}
	}
	rep.TracesValidated += n
	rep.Extra["recorded_pairs_"+tier] = pairs * len(viewNames)
	for _, m := range reBad.FindAllStringSubmatch(t.Output, -1) {
		v := m[1]
		i, _ := strconv.Atoi(m[2])
		j, _ := strconv.Atoi(m[3])
		want := m[4] == "TRUE"
		a, b := items[i-1], items[j-1]
		var sig, what string
		if want {
			sig = fmt.Sprintf("C16|Equal|same type reported unequal|%s|kind=%s", viewClass(v), a.T.K)
			what = fmt.Sprintf("types.Equal(%s, %s) = false in universe %s (%s), but both denote the same LLVM type", a.T.LL(), b.T.LL(), a.U, viewWhat[v])
		} else {
			sig = fmt.Sprintf("C16|Equal|different types reported equal|%s|differ in %s", viewClass(v), strings.Join(attrClass(a.T, b.T), "+"))
			what = fmt.Sprintf("types.Equal(%s, %s) = true in universe %s (%s), but the types differ in %s", a.T.LL(), b.T.LL(), a.U, viewWhat[v], strings.Join(attrClass(a.T, b.T), "+"))
		}
		rep.Fail(mbt.Failure{Signature: sig, What: what, Case: map[string]interface{}{"u": a.U, "defs": unis[a.U], "a": a.T, "b": b.T, "view": v}})
	}
}

func viewClass(v string) string {
	switch v {
	case "ss":
		return "shared objects"
	case "sd", "ds":
		return "separate objects per name"
	case "ii":
		return "interned objects (shared sub-objects, package singletons)"
	case "si", "is":
		return "interned against fresh objects"
	}
	return "after print+parse"
}

func contains(s []int, x int) bool {
	for _, y := range s {
		if y == x {
			return true
		}
	}
	return false
}

// Run is the C16 check.
func Run(tier, replay string) {
	if p := os.Getenv("VERIF_C16_CHILD"); p != "" {
		child(p)
	}
	log.SetOutput(io.Discard)
	rep := mbt.NewReport("C16", tier, "model_checking")
	rep.Rule = "ordered pairs of distinct type terms of one universe on which the real types.Equal was recorded (8 views: shared / separate Go objects per type name, printed and parsed back on either side, interned sub-objects and package singletons on both or one side) and judged by TLC against the reference identity TypeEq"
	llvmoracle.Require()

	if replay != "" {
		runReplay(rep, replay)
		rep.Finish()
	}

	big := "FALSE"
	if tier == "thorough" {
		big = "TRUE"
	}
	// (S) the reference identity satisfies the laws the property lists
	t := mbt.MustTLC(mbt.TLCOpts{Spec: "TypesEq", Cfg: "TypesEq.cfg", Consts: map[string]string{"Big": big}, Timeout: 20 * time.Minute})
	if len(t.Violated) > 0 || t.Assumption {
		mbt.Infra("TypeEq of Types.tla violates %v: specification error\n%s", t.Violated, mbt.Truncate(t.Output, 3000))
	}
	rep.AddTLC(t)
	t.Cleanup()
	// the switchable deviation (identified structs compared by fields) must be caught by the laws
	t = mbt.MustTLC(mbt.TLCOpts{Spec: "TypesEq", Cfg: "TypesEqDeviation.cfg"})
	if !containsStr(t.Violated, "OneAttribute") && !containsStr(t.Violated, "TermIdentity") {
		mbt.Infra("deviation NamedByFields is not caught by the laws of TypesEq.tla (violated: %v)", t.Violated)
	}
	t.Cleanup()
	t = mbt.MustTLC(mbt.TLCOpts{Spec: "TypesEq", Cfg: "TypesEqVacuity.cfg", Continue: true})
	if !containsStr(t.Violated, "NeverEqualDistinctObjects") || !containsStr(t.Violated, "UnfoldingNeverCoarser") {
		mbt.Infra("vacuity guard of TypesEq.tla: %v", t.Violated)
	}
	t.Cleanup()

	// (G) generated terms
	t = mbt.MustTLC(mbt.TLCOpts{Spec: "TypesEq", Cfg: "TypesEqGen.cfg", Workers: 1, Consts: map[string]string{"Big": big}})
	if len(t.Violated) > 0 {
		mbt.Infra("TypesEqGen: %v\n%s", t.Violated, mbt.Truncate(t.Output, 3000))
	}
	recs, err := mbt.ReadNDJSON[genRec](filepath.Join(t.Dir, "types_terms.ndjson"))
	if err != nil {
		mbt.Infra("%v", err)
	}
	rep.AddTLC(t)
	t.Cleanup()
	unis := map[string]tyutil.Universe{}
	var items []item
	for _, r := range recs {
		if r.Defs != nil {
			unis[r.U] = tyutil.Universe(r.Defs)
		} else if r.T != nil {
			items = append(items, item{U: r.U, T: r.T})
		}
	}
	if len(items) < 100 || len(unis) < 3 {
		mbt.Infra("generator produced %d terms in %d universes", len(items), len(unis))
	}
	rep.Extra["generated_terms"] = len(items)
	items = validate(rep, unis, items)
	// seeded random terms beyond the enumerated sets (no discard limit: the random generator,
	// not the specification, is responsible for ill-formed ones)
	nRandom := 60
	if tier == "thorough" {
		nRandom = 200
	}
	rnd := dedupe(items, validateQuiet(unis, randomItems(rand.New(rand.NewSource(mbt.Seed())), unis, nRandom)))
	rep.Extra["random_terms"] = len(rnd)
	if len(rnd) > 0 {
		rep.Sample(map[string]interface{}{"universe": rnd[0].U, "type": rnd[0].T.LL(), "origin": "random"})
	}
	items = append(items, rnd...)
	for k := 0; k < len(items); k += len(items)/5 + 1 {
		rep.Sample(map[string]interface{}{"universe": items[k].U, "type": items[k].T.LL()})
	}

	// (T) record the real Equal, judged by TLC
	record(rep, unis, items, tier)

	// histories: build, observe, mutate below, observe (spec/TypesMut.tla)
	histories(rep, tier)

	rep.Exhaustive = false
	rep.Assumptions = []string{
		"TLC evaluates TypeEq on the deserialised recording correctly; JSON transport of terms is faithful (tyutil)",
		"the term sets are the ones Gen of TypesEq.tla defines (leaves, one-level constructions, deep seeds and their one-attribute variants) over four universes, plus seeded random terms with one-attribute twins; other types are not exercised",
		"llvm-as 14 accepted every recorded term as a type (WellFormed of Types.tla agrees with LLVM on the generated set)",
	}
	rep.Finish()
}

func containsStr(s []string, x string) bool {
	for _, y := range s {
		if y == x {
			return true
		}
	}
	return false
}

func runReplay(rep *mbt.Report, path string) {
	type rf struct {
		Failures []struct {
			Case struct {
				U    string                  `json:"u"`
				Defs map[string]*tyutil.Body `json:"defs"`
				A    *tyutil.Term            `json:"a"`
				B    *tyutil.Term            `json:"b"`
				Hist *history                `json:"history"`
			} `json:"case"`
		} `json:"failures"`
	}
	var one rf
	if e := mbt.ReadJSON(path, &one); e != nil {
		mbt.Infra("replay %s: %v", path, e)
	}
	unis := map[string]tyutil.Universe{}
	var items []item
	seen := map[string]bool{}
	nh := 0
	for _, f := range one.Failures {
		if f.Case.Hist != nil {
			replayHistory(rep, f.Case.Hist)
			nh++
		}
	}
	if nh > 0 {
		return
	}
	for k, f := range one.Failures {
		if f.Case.A == nil || f.Case.B == nil {
			continue
		}
		u := fmt.Sprintf("%s#%d", f.Case.U, k)
		unis[u] = tyutil.Universe(f.Case.Defs)
		for _, t := range []*tyutil.Term{f.Case.A, f.Case.B} {
			if !seen[u+t.Key()] {
				seen[u+t.Key()] = true
				items = append(items, item{U: u, T: t})
			}
		}
	}
	if len(items) == 0 {
		mbt.Infra("replay %s: no case", path)
	}
	record(rep, unis, items, "replay")
}
