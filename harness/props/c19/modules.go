package c19

import (
	"fmt"
	"math/rand"
	"os"
	"path/filepath"
	"sort"
	"strings"

	"github.com/llir/llvm/asm"
	"github.com/llir/llvm/ir"
	"github.com/llir/llvm/ir/constant"
	"github.com/llir/llvm/ir/enum"
	"github.com/llir/llvm/ir/metadata"
	"github.com/llir/llvm/ir/types"
	"github.com/llir/llvm/ir/value"

	"verif/harness/mbt"
)

// subject is one module of the corpus.
type subject struct {
	Name   string
	Origin string // "file" | "api" | "text"
	M      *ir.Module
	Str    string // String()
	Chunks []int  // sizes of the Write calls of a never-failing run (writer with io.Writer only)
	// ChunksBy[ifs]: sizes of the calls (through any method) of the first never-failing run to a writer
	// with the optional interfaces ifs
	ChunksBy [ifAll + 1][]int
	// Large: a generated module with prints of very different sizes (1 byte ... > 1 MiB); MinFuncs are
	// the text sizes its functions must exceed
	Large    bool
	MinFuncs []int
}

// sections reports which sections of Module.WriteTo the module exercises.
func sections(m *ir.Module) []string {
	var s []string
	add := func(c bool, n string) {
		if c {
			s = append(s, n)
		}
	}
	add(m.SourceFilename != "", "source_filename")
	add(m.DataLayout != "", "datalayout")
	add(m.TargetTriple != "", "triple")
	add(len(m.ModuleAsms) > 0, "module_asm")
	add(len(m.TypeDefs) > 0, "typedefs")
	add(len(m.ComdatDefs) > 0, "comdats")
	add(len(m.Globals) > 0, "globals")
	add(len(m.Aliases) > 0, "aliases")
	add(len(m.IFuncs) > 0, "ifuncs")
	add(len(m.Funcs) > 0, "funcs")
	add(len(m.AttrGroupDefs) > 0, "attrgroups")
	add(len(m.NamedMetadataDefs) > 0, "named_metadata")
	add(len(m.MetadataDefs) > 0, "metadata")
	add(len(m.UseListOrders) > 0, "uselistorder")
	add(len(m.UseListOrderBBs) > 0, "uselistorder_bb")
	return s
}

var allSections = []string{"source_filename", "datalayout", "triple", "module_asm", "typedefs", "comdats", "globals", "aliases",
	"ifuncs", "funcs", "attrgroups", "named_metadata", "metadata", "uselistorder", "uselistorder_bb"}

// parsedFiles parses every .ll file below the repository's test data directories.
func parsedFiles() (subs []*subject, rejected []string) {
	var files []string
	for _, d := range []string{"testdata", "asm/testdata", "ir/testdata", "ir/types/testdata"} {
		filepath.Walk(filepath.Join(mbt.Repo, d), func(p string, info os.FileInfo, err error) error {
			if err == nil && !info.IsDir() && strings.HasSuffix(p, ".ll") {
				files = append(files, p)
			}
			return nil
		})
	}
	sort.Strings(files)
	for _, f := range files {
		var m *ir.Module
		var err error
		if msg, p := mbt.Guard(func() { m, err = asm.ParseFile(f) }); p || err != nil {
			rejected = append(rejected, fmt.Sprintf("%s: %v%s", f, err, msg))
			continue
		}
		rel, _ := filepath.Rel(mbt.Repo, f)
		subs = append(subs, &subject{Name: rel, Origin: "file", M: m})
	}
	return subs, rejected
}

// fullText has every top-level section of a module in LLVM syntax.
const fullText = `source_filename = "full.c"
target datalayout = "e-m:e-i64:64-n8:16:32:64-S128"
target triple = "x86_64-unknown-linux-gnu"
module asm ".globl marker"
%pair = type { i32, i64 }
%opaque = type opaque
$cd = comdat any
@g = global i32 42, comdat($cd)
@0 = private constant [3 x i8] c"a\00b"
@al = alias i32, i32* @g
@ifn = ifunc void (), void ()* ()* @resolver
declare void @ext(i32) #0
define void ()* @resolver() {
  ret void ()* null
}
define i32 @f(i32 %x) #0 !dbg !3 {
entry:
  %c = icmp eq i32 %x, 0
  br i1 %c, label %a, label %b
a:
  br label %b
b:
  %r = phi i32 [ 1, %entry ], [ 2, %a ]
  ret i32 %r
}
attributes #0 = { nounwind "k"="v" }
!llvm.module.flags = !{!0}
!named = !{!1, !2}
!0 = !{i32 1, !"flag", i32 3}
!1 = !{}
!2 = !DIBasicType(name: "int", size: 32, encoding: DW_ATE_signed)
!3 = distinct !DISubprogram(name: "f", scope: null, spFlags: DISPFlagDefinition)
uselistorder i32* @g, { 1, 0 }
uselistorder_bb @f, %b, { 1, 0 }
`

// apiFull builds a module through the ir API that exercises every section of WriteTo.
func apiFull() *ir.Module {
	m := ir.NewModule()
	m.SourceFilename = "api.c"
	m.DataLayout = "e-m:e-i64:64-n8:16:32:64-S128"
	m.TargetTriple = "x86_64-unknown-linux-gnu"
	m.ModuleAsms = []string{".globl marker", "nop"}
	pair := m.NewTypeDef("pair", types.NewStruct(types.NewInt(32), types.NewInt(64)))
	m.NewTypeDef("opaque", &types.StructType{Opaque: true})
	cd := &ir.ComdatDef{Name: "cd", Kind: enum.SelectionKindAny}
	cd2 := &ir.ComdatDef{Name: "other", Kind: enum.SelectionKindNoDeduplicate}
	m.ComdatDefs = append(m.ComdatDefs, cd, cd2)
	g := m.NewGlobalDef("g", constant.NewInt(types.I32, 42))
	g.Comdat = cd
	g.Linkage = enum.LinkageWeakODR
	un := m.NewGlobalDef("", constant.NewCharArrayFromString("a\x00b\xff\""))
	un.Immutable = true
	un.Linkage = enum.LinkagePrivate
	un.UnnamedAddr = enum.UnnamedAddrUnnamedAddr
	z := m.NewGlobalDef("needs \"quotes\"", constant.NewZeroInitializer(pair))
	z.TLSModel = enum.TLSModelInitialExec
	m.NewGlobal("ext_g", types.I64).Linkage = enum.LinkageExternal
	m.NewAlias("al", g).Linkage = enum.LinkageInternal
	attr := &ir.AttrGroupDef{ID: 0, FuncAttrs: []ir.FuncAttribute{enum.FuncAttrNoUnwind, ir.AttrString("s"), ir.AttrPair{Key: "k", Value: "v"}, ir.AlignStack(8)}}
	attr7 := &ir.AttrGroupDef{ID: 7, FuncAttrs: []ir.FuncAttribute{enum.FuncAttrReadNone}}
	m.AttrGroupDefs = append(m.AttrGroupDefs, attr, attr7)
	voidFn := types.NewPointer(types.NewFunc(types.Void))
	resolver := m.NewFunc("resolver", voidFn)
	resolver.NewBlock("").NewRet(constant.NewNull(voidFn))
	m.NewIFunc("ifn", resolver)
	ext := m.NewFunc("ext", types.Void, ir.NewParam("", types.I32))
	ext.FuncAttrs = append(ext.FuncAttrs, attr)
	sp := &metadata.DISubprogram{MetadataID: -1, Distinct: true, Name: "f", SPFlags: enum.DISPFlagDefinition | enum.DISPFlagOptimized}
	f := m.NewFunc("f", types.I32, ir.NewParam("x", types.I32))
	f.FuncAttrs = append(f.FuncAttrs, attr7)
	f.CallingConv = enum.CallingConvFast
	f.Metadata = append(f.Metadata, &metadata.Attachment{Name: "dbg", Node: sp})
	entry, a, b := f.NewBlock("entry"), f.NewBlock("a"), f.NewBlock("")
	c := entry.NewICmp(enum.IPredEQ, f.Params[0], constant.NewInt(types.I32, 0))
	entry.NewCondBr(c, a, b)
	a.NewCall(ext, f.Params[0])
	a.NewBr(b)
	phi := b.NewPhi(ir.NewIncoming(constant.NewInt(types.I32, 1), entry), ir.NewIncoming(constant.NewInt(types.I32, 2), a))
	add := b.NewAdd(phi, phi)
	b.NewRet(add)
	empty := &metadata.Tuple{MetadataID: -1}
	flag := &metadata.Tuple{MetadataID: -1, Fields: []metadata.Field{
		&metadata.Value{Value: constant.NewInt(types.I32, 1)}, &metadata.String{Value: "flag\x01"}, &metadata.Value{Value: constant.NewInt(types.I32, 3)}}}
	bt := &metadata.DIBasicType{MetadataID: -1, Name: "int", Size: 32, Encoding: enum.DwarfAttEncodingSigned, Flags: enum.DIFlagPublic | enum.DIFlagArtificial}
	m.MetadataDefs = append(m.MetadataDefs, flag, empty, bt, sp)
	m.NamedMetadataDefs["llvm.module.flags"] = &metadata.NamedDef{Name: "llvm.module.flags", Nodes: []metadata.Node{flag}}
	m.NamedMetadataDefs["named"] = &metadata.NamedDef{Name: "named", Nodes: []metadata.Node{empty, bt}}
	m.NamedMetadataDefs["named10"] = &metadata.NamedDef{Name: "named10"}
	m.UseListOrders = append(m.UseListOrders, &ir.UseListOrder{Value: g, Indices: []uint64{1, 0}})
	m.UseListOrderBBs = append(m.UseListOrderBBs, &ir.UseListOrderBB{Func: f, Block: a, Indices: []uint64{1, 0}})
	return m
}

// apiRand is the example of the package documentation (globals and functions only).
func apiRand() *ir.Module {
	m := ir.NewModule()
	i32 := types.I32
	abs := m.NewFunc("abs", i32, ir.NewParam("x", i32))
	seed := m.NewGlobalDef("seed", constant.NewInt(i32, 0))
	rnd := m.NewFunc("rand", i32)
	entry := rnd.NewBlock("")
	t1 := entry.NewLoad(i32, seed)
	t2 := entry.NewMul(t1, constant.NewInt(i32, 0x15A4E35))
	t3 := entry.NewAdd(t2, constant.NewInt(i32, 1))
	entry.NewStore(t3, seed)
	entry.NewRet(entry.NewCall(abs, t3))
	return m
}

// apiBig builds a module with nf functions of random shape (unnamed values, several blocks).
func apiBig(rng *rand.Rand, nf int) *ir.Module {
	m := ir.NewModule()
	m.TargetTriple = "x86_64-unknown-linux-gnu"
	i32 := types.I32
	var globals []*ir.Global
	for i := 0; i < 1+nf/4; i++ {
		name := fmt.Sprintf("g%d", i)
		if i%5 == 4 {
			name = ""
		}
		globals = append(globals, m.NewGlobalDef(name, constant.NewInt(i32, int64(rng.Intn(1000)))))
	}
	var prev *ir.Func
	for i := 0; i < nf; i++ {
		f := m.NewFunc(fmt.Sprintf("fn%d", i), i32, ir.NewParam("", i32), ir.NewParam("y", i32))
		nb := 1 + rng.Intn(3)
		blocks := make([]*ir.Block, nb)
		for j := range blocks {
			name := ""
			if rng.Intn(2) == 0 {
				name = fmt.Sprintf("bb%d", j)
			}
			blocks[j] = f.NewBlock(name)
		}
		for j, b := range blocks {
			var v = ir.Instruction(nil)
			cur := b.NewLoad(i32, globals[rng.Intn(len(globals))])
			_ = v
			last := cur
			acc := b.NewAdd(last, f.Params[rng.Intn(2)])
			for k := rng.Intn(4); k > 0; k-- {
				switch rng.Intn(3) {
				case 0:
					acc = b.NewAdd(acc, constant.NewInt(i32, int64(rng.Intn(99))))
				case 1:
					x := b.NewMul(acc, f.Params[0])
					b.NewStore(x, globals[rng.Intn(len(globals))])
				default:
					if prev != nil {
						b.NewCall(prev, acc, f.Params[1])
					}
				}
			}
			if j+1 < nb {
				b.NewBr(blocks[j+1])
			} else {
				b.NewRet(acc)
			}
		}
		prev = f
	}
	return m
}

// apiLarge builds a module whose functions have texts of very different sizes: for every entry of
// minBytes a function whose printed definition is longer than that many bytes (and shorter than about
// 1.25 times as many), between small functions, followed by an attribute group and metadata (so
// that prints follow the large ones).  Shapes are random (seeded): several blocks, named and unnamed
// values, loads, stores, arithmetic, calls.
func apiLarge(rng *rand.Rand, minBytes []int) *ir.Module {
	m := ir.NewModule()
	m.SourceFilename = "large.c"
	i32 := types.I32
	var globals []*ir.Global
	for i := 0; i < 4; i++ {
		globals = append(globals, m.NewGlobalDef(fmt.Sprintf("g%d", i), constant.NewInt(i32, int64(rng.Intn(1000)))))
	}
	attr := &ir.AttrGroupDef{ID: 0, FuncAttrs: []ir.FuncAttribute{enum.FuncAttrNoUnwind}}
	m.AttrGroupDefs = append(m.AttrGroupDefs, attr)
	var prev *ir.Func
	grow := func(f *ir.Func, b *ir.Block, acc value.Value, n int) (*ir.Block, value.Value) {
		for ; n > 0; n-- {
			switch rng.Intn(6) {
			case 0:
				acc = b.NewAdd(acc, constant.NewInt(i32, int64(rng.Intn(99999))))
			case 1:
				acc = b.NewMul(acc, f.Params[rng.Intn(2)])
			case 2:
				b.NewStore(acc, globals[rng.Intn(len(globals))])
			case 3:
				acc = b.NewXor(acc, b.NewLoad(i32, globals[rng.Intn(len(globals))]))
			case 4:
				if prev != nil {
					acc = b.NewCall(prev, acc, f.Params[1])
				} else {
					acc = b.NewSub(acc, f.Params[0])
				}
			default: // a new block, named or not
				name := ""
				if rng.Intn(2) == 0 {
					name = fmt.Sprintf("bb%d", len(f.Blocks))
				}
				nb := f.NewBlock(name)
				b.NewBr(nb)
				b = nb
			}
		}
		return b, acc
	}
	newFunc := func(name string, min int) {
		f := m.NewFunc(name, i32, ir.NewParam("", i32), ir.NewParam("y", i32))
		f.FuncAttrs = append(f.FuncAttrs, attr)
		b := f.NewBlock("")
		var acc value.Value = b.NewAdd(f.Params[0], f.Params[1])
		b, acc = grow(f, b, acc, 8)
		if min > 0 {
			// about 27 bytes per instruction; grow in steps and measure
			b, acc = grow(f, b, acc, min/27)
			for {
				ret := b.NewRet(acc)
				if n := len(f.LLString()); n > min+min/64 {
					break
				}
				b.Term = nil
				_ = ret
				b, acc = grow(f, b, acc, 16+min/400)
			}
		} else {
			b.NewRet(acc)
		}
		prev = f
	}
	newFunc("first", 0)
	for i, min := range minBytes {
		newFunc(fmt.Sprintf("big%d", i), min)
		newFunc(fmt.Sprintf("after%d", i), 0)
	}
	md := &metadata.Tuple{MetadataID: -1, Fields: []metadata.Field{&metadata.String{Value: "tail"}}}
	m.MetadataDefs = append(m.MetadataDefs, md)
	m.NamedMetadataDefs["tail"] = &metadata.NamedDef{Name: "tail", Nodes: []metadata.Node{md}}
	return m
}

// corpus assembles the modules of a run.
func corpus(tier string, rng *rand.Rand) (subs []*subject, rejected []string) {
	subs, rejected = parsedFiles()
	add := func(name, origin string, m *ir.Module) {
		subs = append(subs, &subject{Name: name, Origin: origin, M: m})
	}
	add("api:empty", "api", ir.NewModule())
	hdr := ir.NewModule()
	hdr.SourceFilename = "a\\b\"c"
	hdr.ModuleAsms = []string{"x"}
	add("api:header-only", "api", hdr)
	one := ir.NewModule()
	one.NewGlobal("x", types.I8)
	add("api:one-global", "api", one)
	add("api:rand-example", "api", apiRand())
	add("api:full", "api", apiFull())
	if m, err := asm.ParseString("full.ll", fullText); err == nil {
		add("text:full", "text", m)
	} else {
		rejected = append(rejected, "text:full: "+err.Error())
	}
	add("api:mid(12 funcs)", "api", apiBig(rng, 12))
	nf := 40
	if tier == "thorough" {
		nf = 64
	}
	add(fmt.Sprintf("api:big(%d funcs)", nf), "api", apiBig(rng, nf))
	// prints of very different sizes: function texts beyond 32 KiB, 64 KiB (and 128 KiB), 1 MiB
	large := func(name string, min ...int) {
		subs = append(subs, &subject{Name: name, Origin: "api", M: apiLarge(rng, min), Large: true, MinFuncs: min})
	}
	large("api:large(funcs > 32 KiB, > 64 KiB)", 32<<10, 64<<10)
	if tier == "thorough" {
		large("api:large(funcs > 128 KiB, > 40 KiB)", 128<<10, 40<<10)
	}
	large("api:huge(func > 1 MiB)", 1<<20)
	return subs, rejected
}
