package c19

import (
	"context"
	"fmt"
	"io"
	"math/rand"
	"os"
	"strings"
	"syscall"
)

// Optional interfaces of a writer beside io.Writer (bits of behaviour.Ifs); the names are those of
// spec/Writer.tla (w.ifs).
const (
	ifStringWriter = 1 << iota
	ifByteWriter
	ifReaderFrom
	ifAll = ifStringWriter | ifByteWriter | ifReaderFrom
)

// Methods through which bytes reach the writer (runRec.Via; WriterTrace!Method).
const (
	viaWrite = iota
	viaWriteString
	viaWriteByte
	viaReadFrom
	viaFlush
)

// errKinds are the classes of error VALUES a failing writer returns (behaviour.ErrK; w.errk of
// spec/Writer.tla): the opaque error of the harness and the values code commonly special-cases.
var errKinds = []string{"plain", "eintr", "eintr-path", "eagain", "short", "timeout", "ctx", "eof", "closed"}

// flushKinds are the behaviours of the Flush method of a writer that has one (Writer!FlushResult).
var flushKinds = []string{"nil", "sticky", "fails"}

// errValue makes the error value of failing call idx for class kind.  "plain" and the wrapped classes are
// values of their own (identity by pointer); the sentinels are the same value at every call.
func errValue(kind string, idx int) error {
	path := fmt.Sprintf("/instrumented/writer/call%d", idx)
	switch kind {
	case "eintr":
		return syscall.EINTR
	case "eintr-path":
		return &os.PathError{Op: "write", Path: path, Err: syscall.EINTR}
	case "eagain":
		return &os.PathError{Op: "write", Path: path, Err: syscall.EAGAIN}
	case "short":
		return io.ErrShortWrite
	case "timeout":
		return &os.PathError{Op: "write", Path: path, Err: os.ErrDeadlineExceeded}
	case "ctx":
		return context.Canceled
	case "eof":
		return io.EOF
	case "closed":
		return &os.PathError{Op: "write", Path: path, Err: os.ErrClosed}
	}
	return &callErr{idx: idx}
}

// ifaceNames lists the interfaces of a set, in the spelling of the specification.
func ifaceNames(ifs int) []string {
	n := []string{}
	if ifs&ifStringWriter != 0 {
		n = append(n, "StringWriter")
	}
	if ifs&ifByteWriter != 0 {
		n = append(n, "ByteWriter")
	}
	if ifs&ifReaderFrom != 0 {
		n = append(n, "ReaderFrom")
	}
	return n
}

// behaviour is what the instrumented writer is asked to do; the same fields
// as the writer record of spec/Writer.tla.
type behaviour struct {
	Mode   string // never | whole | prefix | edge | silent
	Sticky bool
	Piece  int    // 0: one piece; p>0: re-chunk in pieces of p; -1: random pieces (never mode only)
	Cap    int    // capacity (whole/prefix), per-Write limit (silent), unused (never)
	Ifs    int    // optional interfaces the writer implements beside io.Writer (ifStringWriter | ...)
	Flush  string // "" : the writer has no Flush method; "nil" | "sticky" | "fails": what its Flush() error returns
	ErrK   string // class of the error values returned ("" = "plain"; errKinds)
}

func (b behaviour) flush() string {
	if b.Flush == "" {
		return "none"
	}
	return b.Flush
}

func (b behaviour) errk() string {
	if b.ErrK == "" {
		return "plain"
	}
	return b.ErrK
}

// key identifies the behaviour of the sink (the interface set is not part of it: the required outcome
// of Writer.tla as written is the same for every interface set).
func (b behaviour) key(src int) string {
	return fmt.Sprintf("%d|%s|%v|%d|%d", src, b.Mode, b.Sticky, b.Piece, b.Cap)
}

// fullKey also distinguishes the interface sets.
func (b behaviour) fullKey(src int) string {
	return fmt.Sprintf("%s|ifs%d|%s|%s", b.key(src), b.Ifs, b.flush(), b.errk())
}

// class is the part of a behaviour that goes into a failure signature.
func (b behaviour) class() string {
	s := b.Mode
	if b.Sticky {
		s += "+sticky"
	}
	if b.Piece != 0 {
		s += "+rechunk"
	}
	if b.Ifs != 0 {
		s += "@" + strings.Join(ifaceNames(b.Ifs), "+")
	}
	if b.Flush != "" {
		s += "@Flusher:" + b.Flush
	}
	if b.errk() != "plain" {
		s += "/err:" + b.errk()
	}
	return s
}

// callErr is the error value of one Write call: every failing call returns a
// value of its own, so that "the first error" is an identity.
type callErr struct{ idx int }

func (e *callErr) Error() string {
	return fmt.Sprintf("instrumented writer: Write call %d failed", e.idx)
}

type call struct{ via, off, acc, err int }

// iw is the core of the instrumented writer handed to Module.WriteTo: sink, behaviour and the log of
// the calls made through ANY method.  It has no exported I/O method itself; asWriter wraps it in a
// type whose method set is exactly io.Writer plus the optional interfaces asked for, so that the
// type assertions of the code under test see the interface set of the behaviour.
type iw struct {
	b      behaviour
	cap    int
	failed bool
	sink   []byte // bytes that reached the sink
	sinkW  int    // Write calls the sink saw
	log    []call
	errs   []error // the error values returned, errIdx[i] the call that returned errs[i]
	errIdx []int
	rng    *rand.Rand
	// runaway guard: consecutive failing calls that offered the same number of bytes
	sameFail, sameLen int
}

// runawayLimit: a wrapper that re-issues a failing Write for ever (a retry loop on a writer that keeps
// failing) would hang the check; after this many consecutive failing calls of one size the writer panics.
// From the 64th such call on the calls are counted but not logged.
const runawayLimit = 20000

func newWriter(b behaviour, sizeHint int, rng *rand.Rand) *iw {
	return &iw{b: b, cap: b.Cap, sink: make([]byte, 0, sizeHint), rng: rng}
}

// sinkWrite offers one piece to the sink: bytes accepted and whether it failed.
func (w *iw) sinkWrite(p []byte) (int, bool) {
	w.sinkW++
	switch {
	case w.b.Mode == "never":
		w.sink = append(w.sink, p...)
		return len(p), false
	case w.b.Mode == "silent":
		n := len(p)
		if n > w.cap {
			n = w.cap
		}
		w.sink = append(w.sink, p[:n]...)
		return n, false
	case w.b.Sticky && w.failed:
		return 0, true
	case w.b.Mode == "once" && w.failed: // transient: its one failure is over
		w.sink = append(w.sink, p...)
		return len(p), false
	case w.b.Mode == "edge": // the Write that reaches the capacity reports the error (full count on an exact fit)
		if len(p) < w.cap {
			w.sink = append(w.sink, p...)
			w.cap -= len(p)
			return len(p), false
		}
		n := w.cap
		w.sink = append(w.sink, p[:n]...)
		w.cap = 0
		w.failed = true
		return n, true
	case len(p) <= w.cap:
		w.sink = append(w.sink, p...)
		w.cap -= len(p)
		return len(p), false
	case w.b.Mode == "whole":
		w.failed = true
		return 0, true
	default: // prefix
		n := w.cap
		w.sink = append(w.sink, p[:n]...)
		w.cap = 0
		w.failed = true
		return n, true
	}
}

// offer is one call of the writer through method via with the bytes p: every method feeds the same
// sink, with the same capacity and failure behaviour, and is logged.
func (w *iw) offer(via int, p []byte) (int, error) {
	idx := len(w.log) + 1
	acc, fail := 0, false
	if w.b.Piece == 0 {
		acc, fail = w.sinkWrite(p)
	} else {
		rest := p
		for len(rest) > 0 {
			q := w.b.Piece
			if q < 0 {
				q = 1 + w.rng.Intn(97)
			}
			if q > len(rest) {
				q = len(rest)
			}
			n, f := w.sinkWrite(rest[:q])
			acc += n
			if f || n < q {
				fail = f
				break
			}
			rest = rest[q:]
		}
	}
	c := call{via: via, off: len(p), acc: acc}
	var err error
	if fail {
		err = errValue(w.b.errk(), idx)
		w.errs, w.errIdx = append(w.errs, err), append(w.errIdx, idx)
		c.err = idx
		if w.sameFail > 0 && w.sameLen == len(p) {
			w.sameFail++
		} else {
			w.sameFail, w.sameLen = 1, len(p)
		}
		if w.sameFail > runawayLimit {
			panic(fmt.Sprintf("instrumented writer: %d consecutive failing calls offering %d bytes each (a retry loop that does not end)", w.sameFail, len(p)))
		}
		if w.sameFail > 64 {
			return acc, err
		}
	} else {
		w.sameFail = 0
	}
	w.log = append(w.log, c)
	return acc, err
}

// flushCall is a call of the writer's Flush method: it offers no bytes; what it returns is the writer's
// flush behaviour (Writer!FlushResult).  It is logged like every other call.
func (w *iw) flushCall() error {
	idx := len(w.log) + 1
	c := call{via: viaFlush}
	var err error
	switch w.b.Flush {
	case "sticky": // repeats the value of the first failed call (bufio.Writer)
		if len(w.errs) > 0 {
			err, c.err = w.errs[0], w.errIdx[0]
		}
	case "fails":
		err = errValue(w.b.errk(), idx)
		if _, own := err.(*callErr); !own && len(w.errs) > 0 && err == w.errs[0] {
			err = &callErr{idx: idx} // a sentinel class: keep the Flush error distinguishable from the Write error
		}
		w.errs, w.errIdx = append(w.errs, err), append(w.errIdx, idx)
		c.err = idx
	}
	w.log = append(w.log, c)
	return err
}

// errIdentity maps the error WriteTo returned to 0 (nil), the index of the
// call that returned this very value, or -1 (some other error).
func (w *iw) errIdentity(err error) int {
	if err == nil {
		return 0
	}
	for i, e := range w.errs {
		if e == err {
			return w.errIdx[i]
		}
	}
	return -1
}

// The method sets.  mW..mR each contribute one method; the eight writer types combine them.
type mW struct{ c *iw }
type mS struct{ c *iw }
type mB struct{ c *iw }
type mR struct{ c *iw }
type mF struct{ c *iw }

func (m mF) Flush() error { return m.c.flushCall() }

func (m mW) Write(p []byte) (int, error)       { return m.c.offer(viaWrite, p) }
func (m mS) WriteString(s string) (int, error) { return m.c.offer(viaWriteString, []byte(s)) }
func (m mB) WriteByte(b byte) error {
	_, err := m.c.offer(viaWriteByte, []byte{b})
	return err
}

// ReadFrom reads r to its end and offers what it read in one piece (as bufio.Writer does with a full
// buffer); it returns the bytes accepted.
func (m mR) ReadFrom(r io.Reader) (int64, error) {
	data, rerr := io.ReadAll(r)
	n, err := m.c.offer(viaReadFrom, data)
	if err == nil {
		err = rerr
	}
	return int64(n), err
}

type (
	wPlain struct{ mW }
	wS     struct {
		mW
		mS
	}
	wB struct {
		mW
		mB
	}
	wSB struct {
		mW
		mS
		mB
	}
	wR struct {
		mW
		mR
	}
	wSR struct {
		mW
		mS
		mR
	}
	wBR struct {
		mW
		mB
		mR
	}
	wSBR struct {
		mW
		mS
		mB
		mR
	}
)

// ... and the same eight with a Flush() error method
type (
	wF struct {
		mW
		mF
	}
	wSF struct {
		mW
		mS
		mF
	}
	wBF struct {
		mW
		mB
		mF
	}
	wSBF struct {
		mW
		mS
		mB
		mF
	}
	wRF struct {
		mW
		mR
		mF
	}
	wSRF struct {
		mW
		mS
		mR
		mF
	}
	wBRF struct {
		mW
		mB
		mR
		mF
	}
	wSBRF struct {
		mW
		mS
		mB
		mR
		mF
	}
)

// asWriter returns c as an io.Writer whose dynamic type has exactly the optional interfaces ifs, and a
// Flush() error method if and only if the behaviour of c has a flush kind.
func asWriter(c *iw, ifs int) io.Writer {
	w, s, b, r := mW{c}, mS{c}, mB{c}, mR{c}
	if c.b.Flush != "" {
		f := mF{c}
		switch ifs & ifAll {
		case 0:
			return wF{w, f}
		case ifStringWriter:
			return wSF{w, s, f}
		case ifByteWriter:
			return wBF{w, b, f}
		case ifStringWriter | ifByteWriter:
			return wSBF{w, s, b, f}
		case ifReaderFrom:
			return wRF{w, r, f}
		case ifStringWriter | ifReaderFrom:
			return wSRF{w, s, r, f}
		case ifByteWriter | ifReaderFrom:
			return wBRF{w, b, r, f}
		}
		return wSBRF{w, s, b, r, f}
	}
	switch ifs & ifAll {
	case 0:
		return wPlain{w}
	case ifStringWriter:
		return wS{w, s}
	case ifByteWriter:
		return wB{w, b}
	case ifStringWriter | ifByteWriter:
		return wSB{w, s, b}
	case ifReaderFrom:
		return wR{w, r}
	case ifStringWriter | ifReaderFrom:
		return wSR{w, s, r}
	case ifByteWriter | ifReaderFrom:
		return wBR{w, b, r}
	}
	return wSBR{w, s, b, r}
}

// checkMethodSets verifies that asWriter gives each interface set exactly its methods ("" if so).
func checkMethodSets() string {
	for _, fl := range []string{"", "nil"} {
		for ifs := 0; ifs <= ifAll; ifs++ {
			w := asWriter(&iw{b: behaviour{Flush: fl}}, ifs)
			_, s := w.(io.StringWriter)
			_, b := w.(io.ByteWriter)
			_, r := w.(io.ReaderFrom)
			_, f := w.(interface{ Flush() error })
			if s != (ifs&ifStringWriter != 0) || b != (ifs&ifByteWriter != 0) || r != (ifs&ifReaderFrom != 0) || f != (fl != "") {
				return fmt.Sprintf("interface set %v flush %q: StringWriter=%v ByteWriter=%v ReaderFrom=%v Flusher=%v", ifaceNames(ifs), fl, s, b, r, f)
			}
		}
	}
	return ""
}
