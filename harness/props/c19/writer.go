package c19

import (
	"fmt"
	"math/rand"
)

// behaviour is what the instrumented writer is asked to do; the same fields
// as the writer record of spec/Writer.tla.
type behaviour struct {
	Mode   string // never | whole | prefix | silent
	Sticky bool
	Piece  int // 0: one piece; p>0: re-chunk in pieces of p; -1: random pieces (never mode only)
	Cap    int // capacity (whole/prefix), per-Write limit (silent), unused (never)
}

func (b behaviour) key(src int) string {
	return fmt.Sprintf("%d|%s|%v|%d|%d", src, b.Mode, b.Sticky, b.Piece, b.Cap)
}

// class is the part of a behaviour that goes into a failure signature.
func (b behaviour) class() string {
	s := b.Mode
	if b.Sticky {
		s += "+sticky"
	}
	if b.Piece != 0 {
		s += "+rechunk"
	}
	return s
}

// callErr is the error value of one Write call: every failing call returns a
// value of its own, so that "the first error" is an identity.
type callErr struct{ idx int }

func (e *callErr) Error() string {
	return fmt.Sprintf("instrumented writer: Write call %d failed", e.idx)
}

type call struct{ off, acc, err int }

// iw is the instrumented io.Writer handed to Module.WriteTo.
type iw struct {
	b      behaviour
	cap    int
	failed bool
	sink   []byte // bytes that reached the sink
	sinkW  int    // Write calls the sink saw
	log    []call
	errs   []*callErr
	rng    *rand.Rand
}

func newWriter(b behaviour, sizeHint int, rng *rand.Rand) *iw {
	return &iw{b: b, cap: b.Cap, sink: make([]byte, 0, sizeHint), rng: rng}
}

// sinkWrite offers one piece to the sink: bytes accepted and whether it failed.
func (w *iw) sinkWrite(p []byte) (int, bool) {
	w.sinkW++
	switch {
	case w.b.Mode == "never":
		w.sink = append(w.sink, p...)
		return len(p), false
	case w.b.Mode == "silent":
		n := len(p)
		if n > w.cap {
			n = w.cap
		}
		w.sink = append(w.sink, p[:n]...)
		return n, false
	case w.b.Sticky && w.failed:
		return 0, true
	case len(p) <= w.cap:
		w.sink = append(w.sink, p...)
		w.cap -= len(p)
		return len(p), false
	case w.b.Mode == "whole":
		w.failed = true
		return 0, true
	default: // prefix
		n := w.cap
		w.sink = append(w.sink, p[:n]...)
		w.cap = 0
		w.failed = true
		return n, true
	}
}

// Write implements io.Writer and logs the call.
func (w *iw) Write(p []byte) (int, error) {
	idx := len(w.log) + 1
	acc, fail := 0, false
	if w.b.Piece == 0 {
		acc, fail = w.sinkWrite(p)
	} else {
		rest := p
		for len(rest) > 0 {
			q := w.b.Piece
			if q < 0 {
				q = 1 + w.rng.Intn(97)
			}
			if q > len(rest) {
				q = len(rest)
			}
			n, f := w.sinkWrite(rest[:q])
			acc += n
			if f || n < q {
				fail = f
				break
			}
			rest = rest[q:]
		}
	}
	c := call{off: len(p), acc: acc}
	var err error
	if fail {
		e := &callErr{idx: idx}
		w.errs = append(w.errs, e)
		c.err = idx
		err = e
	}
	w.log = append(w.log, c)
	return acc, err
}

// errIdentity maps the error WriteTo returned to 0 (nil), the index of the
// call that returned this very value, or -1 (some other error).
func (w *iw) errIdentity(err error) int {
	if err == nil {
		return 0
	}
	for _, e := range w.errs {
		if error(e) == err {
			return e.idx
		}
	}
	return -1
}
