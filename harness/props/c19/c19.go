// Package c19 checks property C19: Module.WriteTo honours the io.WriterTo
// contract, also when the writer fails.
//
// (S) spec/Writer.tla: the fmtWriter state machine against writer models; TLC
// checks the contract exhaustively for small chunk sequences and shows what
// the deviations (no latch, counting offered bytes, ...) break.
// (G) Writer.tla run on the chunk sizes of real modules generates, for every
// writer behaviour, the outcome the specification requires; the real
// Module.WriteTo is run against an instrumented writer of that behaviour and
// compared.
// (T) every run (Write log, returned n and error identity, bytes delivered
// versus String()) is recorded and judged by spec/WriterTrace.tla.
package c19

import (
	"fmt"
	"math/rand"
	"os"
	"path/filepath"
	"regexp"
	"sort"
	"strconv"
	"strings"
	"sync"
	"time"

	"verif/harness/mbt"
	"verif/harness/props/reg"
)

func init() { reg.Register("C19", Run) }

// runRec is one row of writer_rec.ndjson (see spec/WriterTrace.tla).
type runRec struct {
	ID   int    `json:"id"`
	Mode string `json:"mode"`
	St   int    `json:"st"`
	P    int    `json:"p"`
	K    int    `json:"k"`
	Off  []int  `json:"off"`
	Acc  []int  `json:"acc"`
	Err  []int  `json:"err"`
	N    int64  `json:"n"`
	E    int    `json:"e"`
	Dlen int    `json:"dlen"`
	Lcp  int    `json:"lcp"`
	Slen int    `json:"slen"`
	Sw   int    `json:"sw"`

	src   int // index of the subject
	panic string
	b     behaviour
}

func lcp(a []byte, s string) int {
	n := len(a)
	if len(s) < n {
		n = len(s)
	}
	for i := 0; i < n; i++ {
		if a[i] != s[i] {
			return i
		}
	}
	return n
}

// runOne calls the real Module.WriteTo against an instrumented writer.
func runOne(id, src int, s *subject, b behaviour, rng *rand.Rand) *runRec {
	w := newWriter(b, len(s.Str), rng)
	r := &runRec{ID: id, Mode: b.Mode, P: b.Piece, K: b.Cap, src: src, b: b, Slen: len(s.Str)}
	if b.Sticky {
		r.St = 1
	}
	var n int64
	var err error
	if msg, p := mbt.Guard(func() { n, err = s.M.WriteTo(w) }); p {
		r.panic = msg
	}
	r.N, r.E = n, w.errIdentity(err)
	r.Off, r.Acc, r.Err = make([]int, len(w.log)), make([]int, len(w.log)), make([]int, len(w.log))
	for i, c := range w.log {
		r.Off[i], r.Acc[i], r.Err[i] = c.off, c.acc, c.err
	}
	r.Dlen, r.Lcp, r.Sw = len(w.sink), lcp(w.sink, s.Str), w.sinkW
	return r
}

// offsets chooses the failure offsets for a module of length L.
func offsets(L int, chunks []int, all bool, stride int) []int {
	set := map[int]bool{0: true, L: true, L + 3: true}
	if L > 0 {
		set[L-1] = true
		set[1] = true
	}
	if all {
		for k := 0; k <= L; k++ {
			set[k] = true
		}
	} else {
		for k := 0; k <= L; k += stride {
			set[k] = true
		}
		pos := 0
		for _, c := range chunks { // every chunk boundary and its neighbours
			pos += c
			for _, k := range []int{pos - 1, pos, pos + 1} {
				if k >= 0 && k <= L {
					set[k] = true
				}
			}
		}
	}
	ks := make([]int, 0, len(set))
	for k := range set {
		ks = append(ks, k)
	}
	sort.Ints(ks)
	return ks
}

type tlcJob struct {
	name string
	opts mbt.TLCOpts
	// want: invariant names that must be violated (empty: none may be)
	want []string
	res  *mbt.TLCResult
}

// cfgWith returns the text of spec/<file> with the INVARIANTS line and some constants replaced.
func cfgWith(file string, invariants []string, consts map[string]string) []byte {
	b, err := os.ReadFile(filepath.Join(mbt.Root, "spec", file))
	if err != nil {
		mbt.Infra("%v", err)
	}
	var out []string
	for _, l := range strings.Split(string(b), "\n") {
		f := strings.Fields(l)
		if len(f) > 0 && (f[0] == "INVARIANTS" || f[0] == "INVARIANT") && invariants != nil {
			l = "INVARIANTS " + strings.Join(invariants, " ")
		}
		if len(f) >= 3 && f[1] == "=" {
			if v, ok := consts[f[0]]; ok {
				l = "  " + f[0] + " = " + v
			}
		}
		out = append(out, l)
	}
	return []byte(strings.Join(out, "\n"))
}

// design runs the design-level TLC checks: the wrapper as written satisfies the
// contract on every small behaviour, every named deviation is caught by the
// invariants it should break, the guards are not vacuous.
func design(rep *mbt.Report, tier string) {
	var jobs []*tlcJob
	main := map[string]string{}
	dev := map[string]string{"MaxChunks": "3"}
	if tier == "thorough" {
		main = map[string]string{"MaxChunks": "5", "Pieces": "{0, 1, 2, 3}"}
		dev = map[string]string{}
	}
	add := func(name, spec, file string, inv []string, consts map[string]string, want []string) {
		cfgName := strings.ReplaceAll(name, "/", ".") + ".cfg"
		jobs = append(jobs, &tlcJob{name: name, want: want, opts: mbt.TLCOpts{Spec: spec, Cfg: cfgName, Workers: 4, Timeout: 15 * time.Minute,
			Data: map[string][]byte{cfgName: cfgWith(file, inv, consts)}}})
	}
	add("as-written", "Writer", "Writer.cfg", nil, main, nil)
	add("rechunk-equiv", "WriterEquiv", "WriterEquiv.cfg", nil, nil, nil)
	merge := func(a, b map[string]string) map[string]string {
		m := map[string]string{}
		for k, v := range a {
			m[k] = v
		}
		for k, v := range b {
			m[k] = v
		}
		return m
	}
	// the early return removed
	for _, inv := range []string{"FirstError", "NoWriteAfterFailure", "PrefixDelivered"} {
		add("no-latch/"+inv, "Writer", "WriterNoLatch.cfg", []string{inv}, dev, []string{inv})
	}
	add("no-latch/CountExact", "Writer", "WriterNoLatch.cfg", []string{"CountExact", "NoFailEqualsString"}, dev, nil)
	// bytes offered are counted instead of bytes accepted
	add("count-offered/CountExact", "Writer", "Writer.cfg", []string{"CountExact"}, merge(dev, map[string]string{"CountAccepted": "FALSE"}), []string{"CountExact"})
	// no early return, but err assigned only while nil: keeps the first error, still writes after it
	kf := merge(dev, map[string]string{"LatchError": "FALSE", "KeepFirstError": "TRUE"})
	add("keep-first/FirstError", "Writer", "Writer.cfg", []string{"FirstError", "CountExact"}, kf, nil)
	add("keep-first/NoWriteAfterFailure", "Writer", "Writer.cfg", []string{"NoWriteAfterFailure"}, kf, []string{"NoWriteAfterFailure"})
	// a writer that violates the io.Writer contract
	add("silent/still-counts", "Writer", "WriterSilent.cfg", []string{"TypeOK", "CountExact", "SilentStillCounts"}, nil, nil)
	add("silent/prefix", "Writer", "WriterSilent.cfg", []string{"PrefixDeliveredAnyWriter"}, nil, []string{"PrefixDeliveredAnyWriter"})
	for _, inv := range []string{"NeverFails", "AlwaysFails", "NeverSkips"} {
		add("vacuity/"+inv, "Writer", "WriterVacuity.cfg", []string{inv}, nil, []string{inv})
	}
	sem := make(chan struct{}, 5)
	var wg sync.WaitGroup
	for _, j := range jobs {
		wg.Add(1)
		go func(j *tlcJob) {
			defer wg.Done()
			sem <- struct{}{}
			defer func() { <-sem }()
			j.res = mbt.MustTLC(j.opts)
		}(j)
	}
	wg.Wait()
	outcome := map[string]interface{}{}
	for _, j := range jobs {
		got := append([]string{}, j.res.Violated...)
		sort.Strings(got)
		want := append([]string{}, j.want...)
		sort.Strings(want)
		if strings.Join(got, ",") != strings.Join(want, ",") {
			mbt.Infra("Writer.tla, configuration %s: TLC reports violated=%v, the specification expects %v (specification error)", j.name, got, want)
		}
		outcome[j.name] = map[string]interface{}{"states": j.res.Distinct, "violated": got}
		if j.name == "as-written" || j.name == "rechunk-equiv" {
			rep.AddTLC(j.res)
		}
		j.res.Cleanup()
	}
	rep.Extra["design_level_tlc"] = outcome
}

var reVec = regexp.MustCompile(`<<\s*"VEC",\s*(\d+),\s*"(\w+)",\s*(TRUE|FALSE),\s*(-?\d+),\s*(\d+),\s*(\d+),\s*(\d+),\s*(\d+),\s*(\d+),\s*(\d+)\s*>>`)
var reBad = regexp.MustCompile(`<<\s*"BADRUN",\s*"(\w+)",\s*\{([^}]*)\},\s*(\d+)\s*>>`)

type vector struct {
	b                         behaviour
	n, errAt, calls, dlen, sw int
}

// generate runs Writer.tla on the recorded chunk sizes of the small subjects (direction G).
func generate(rep *mbt.Report, subs []*subject, small []int, pieces []int) map[string]vector {
	var rows [][]int
	for _, si := range small {
		rows = append(rows, subs[si].Chunks)
	}
	ps := make([]string, len(pieces))
	for i, p := range pieces {
		ps[i] = strconv.Itoa(p)
	}
	t := mbt.MustTLC(mbt.TLCOpts{Spec: "Writer", Cfg: "WriterGen.gen.cfg", Workers: 8, Timeout: 15 * time.Minute,
		Data: map[string][]byte{
			"WriterGen.gen.cfg": cfgWith("WriterGen.cfg", nil, map[string]string{"Pieces": "{" + strings.Join(ps, ", ") + "}"}),
			"chunks.ndjson":     mbt.NDJSONBytes(rows)}})
	defer t.Cleanup()
	if len(t.Violated) > 0 {
		mbt.Infra("Writer.tla (as written) violates %v on the chunk sequences of real modules: specification error\n%s", t.Violated, mbt.Truncate(t.Output, 3000))
	}
	rep.AddTLC(t)
	vecs := map[string]vector{}
	for _, m := range reVec.FindAllStringSubmatch(t.Output, -1) {
		iv := func(i int) int { v, _ := strconv.Atoi(m[i]); return v }
		v := vector{b: behaviour{Mode: m[2], Sticky: m[3] == "TRUE", Piece: iv(4), Cap: iv(5)}, n: iv(6), errAt: iv(7), calls: iv(8), dlen: iv(9), sw: iv(10)}
		vecs[v.b.key(small[iv(1)-1])] = v
	}
	want := 0
	for _, si := range small {
		want += (len(subs[si].Str)+1)*4*len(pieces) + len(pieces)
	}
	if len(vecs) != want {
		mbt.Infra("generator: %d vectors parsed, %d expected", len(vecs), want)
	}
	return vecs
}

// judge lets TLC judge the recorded runs (direction T) and files the failures.
func judge(rep *mbt.Report, subs []*subject, recs []*runRec) {
	byID := map[int]*runRec{}
	for _, r := range recs {
		byID[r.ID] = r
	}
	// batches bounded by rows and by log entries
	var batches [][]*runRec
	var cur []*runRec
	entries := 0
	for _, r := range recs {
		if len(cur) > 0 && (len(cur) >= 60000 || entries+len(r.Off) > 1500000) {
			batches = append(batches, cur)
			cur, entries = nil, 0
		}
		cur = append(cur, r)
		entries += len(r.Off)
	}
	if len(cur) > 0 {
		batches = append(batches, cur)
	}
	equipment, model := 0, 0
	for _, batch := range batches {
		t := mbt.MustTLC(mbt.TLCOpts{Spec: "WriterTrace", Cfg: "WriterTrace.cfg", Workers: 8, Continue: true, Timeout: 20 * time.Minute,
			Data: map[string][]byte{"writer_rec.ndjson": mbt.NDJSONBytes(batch)}})
		nb := (len(batch) + 511) / 512
		if t.Distinct != int64(len(batch)+nb+1) {
			out := t.Output
			t.Cleanup()
			mbt.Infra("WriterTrace judged %d states, expected %d rows + %d blocks + 1\n%s", t.Distinct, len(batch), nb, mbt.Truncate(out, 3000))
		}
		for _, v := range t.Violated {
			if v != "Judged" {
				mbt.Infra("WriterTrace: unexpected violation %s", v)
			}
		}
		rep.AddTLC(t)
		rep.TracesValidated += len(batch)
		for _, m := range reBad.FindAllStringSubmatch(t.Output, -1) {
			id, _ := strconv.Atoi(m[3])
			r := byID[id]
			if r == nil {
				mbt.Infra("WriterTrace names unknown run %d", id)
			}
			switch m[1] {
			case "equipment":
				equipment++
				if equipment == 1 {
					fmt.Printf("equipment mismatch on %s %+v: %s\n", subs[r.src].Name, r.b, describe(r))
				}
			case "model":
				model++
				if model == 1 {
					fmt.Printf("as-written model mismatch on %s %+v: %s\n", subs[r.src].Name, r.b, describe(r))
				}
			default:
				for _, law := range strings.Split(m[2], ",") {
					law = strings.Trim(strings.TrimSpace(law), `"`)
					rep.Fail(mbt.Failure{Signature: "C19|WriteTo|" + law + "|" + r.b.class(),
						What: fmt.Sprintf("%s: writer %+v: %s", subs[r.src].Name, r.b, describe(r)),
						Case: caseOf(subs[r.src], r)})
				}
			}
		}
		t.Cleanup()
	}
	if equipment > 0 {
		mbt.Infra("%d recorded runs in which the instrumented writer did not behave as the writer model of Writer.tla says (test equipment or model error)", equipment)
	}
	if model > 0 {
		mbt.Infra("%d recorded runs satisfy the laws but differ from the prediction of the fmtWriter model as written: the model does not describe the code", model)
	}
}

func describe(r *runRec) string {
	first := 0
	acc := 0
	for j := range r.Off {
		acc += r.Acc[j]
		if first == 0 && r.Err[j] != 0 {
			first = j + 1
		}
	}
	return fmt.Sprintf("WriteTo returned n=%d err=%s; writer saw %d Write calls, accepted %d bytes, first failing call %d; %d bytes delivered, %d of them a prefix of String() (len %d)",
		r.N, errName(r.E), len(r.Off), acc, first, r.Dlen, r.Lcp, r.Slen)
}

func errName(e int) string {
	switch {
	case e == 0:
		return "nil"
	case e < 0:
		return "an error the writer never returned"
	}
	return fmt.Sprintf("error of call %d", e)
}

func caseOf(s *subject, r *runRec) map[string]interface{} {
	return map[string]interface{}{"subject": s.Name, "mode": r.b.Mode, "sticky": r.b.Sticky, "piece": r.b.Piece, "cap": r.b.Cap,
		"observed": map[string]interface{}{"n": r.N, "e": r.E, "calls": len(r.Off), "dlen": r.Dlen, "lcp": r.Lcp, "slen": r.Slen}}
}

// prepare prints every subject once and records its chunk sizes.
func prepare(rep *mbt.Report, subs []*subject) []*subject {
	var ok []*subject
	for _, s := range subs {
		if msg, p := mbt.Guard(func() { s.Str = s.M.String() }); p {
			rep.Note("%s: String() panics (%s): not usable for C19", s.Name, mbt.Truncate(msg, 120))
			continue
		}
		ok = append(ok, s)
	}
	return ok
}

// Run is the C19 check.
func Run(tier, replay string) {
	rep := mbt.NewReport("C19", tier, "model_checking")
	rep.Rule = "distinct (module, writer behaviour) pairs on which the real Module.WriteTo was run against an instrumented writer and judged by TLC (WriterTrace.tla); behaviours = failure offset k x {whole-chunk, short-write} x {sticky, recovering} x re-chunking piece size, never-failing writers with fixed and random chunking, contract-violating silent short writes"
	seed := mbt.Seed()
	var cases []map[string]interface{}
	if replay != "" {
		var rf struct {
			Tier     string `json:"tier"`
			Seed     int64  `json:"seed"`
			Failures []struct {
				Case map[string]interface{} `json:"case"`
			} `json:"failures"`
		}
		if err := mbt.ReadJSON(replay, &rf); err != nil {
			mbt.Infra("replay %s: %v", replay, err)
		}
		if rf.Tier != "" {
			tier = rf.Tier
		}
		seed = rf.Seed
		for _, f := range rf.Failures {
			if f.Case != nil {
				cases = append(cases, f.Case)
			}
		}
		if len(cases) == 0 {
			mbt.Infra("replay %s: no case", replay)
		}
	}
	rng := rand.New(rand.NewSource(seed))
	phases := map[string]float64{}
	t0 := time.Now()
	lap := func(name string) {
		phases[name] = time.Since(t0).Seconds()
		t0 = time.Now()
		rep.Extra["phase_seconds"] = phases
	}

	if replay == "" {
		design(rep, tier)
		lap("design-level TLC")
	}

	subs, rejected := corpus(tier, rng)
	for _, r := range rejected {
		rep.Note("not parsed, skipped: %s", mbt.Truncate(r, 160))
	}
	subs = prepare(rep, subs)
	if len(subs) < 5 {
		mbt.Infra("only %d usable modules", len(subs))
	}
	covered := map[string]bool{}
	var recs []*runRec
	id := 0
	newRun := func(si int, b behaviour) *runRec {
		id++
		r := runOne(id, si, subs[si], b, rng)
		recs = append(recs, r)
		key := subs[si].Name + "|" + b.key(si)
		rep.Count(key, true)
		if r.panic != "" {
			rep.Fail(mbt.Failure{Signature: "C19|WriteTo|panic|" + b.class(), What: fmt.Sprintf("%s: writer %+v: WriteTo panics: %s", subs[si].Name, b, mbt.Truncate(r.panic, 200)), Case: caseOf(subs[si], r)})
		}
		return r
	}

	if replay != "" {
		for _, c := range cases {
			name, _ := c["subject"].(string)
			num := func(k string) int { f, _ := c[k].(float64); return int(f) }
			mode, _ := c["mode"].(string)
			st, _ := c["sticky"].(bool)
			found := false
			for si, s := range subs {
				if s.Name == name {
					found = true
					base := runOne(0, si, s, behaviour{Mode: "never"}, rng)
					s.Chunks = base.Off
					newRun(si, behaviour{Mode: mode, Sticky: st, Piece: num("piece"), Cap: num("cap")})
				}
			}
			if !found {
				mbt.Infra("replay: no module named %q in the corpus", name)
			}
		}
		judge(rep, subs, recs)
		rep.Finish()
	}

	// baseline: a never-failing writer that takes every Write in one piece; its log is the chunk sequence
	gPieces, tPieces := []int{0, 2, 7}, []int{0, 7}
	gLimit, allLimit, stride := 700, 1600, 37
	if tier == "thorough" {
		gPieces, tPieces = []int{0, 1, 2, 7, 64}, []int{0, 7}
		gLimit, allLimit, stride = 3000, 12000, 6
	}
	var small []int
	allOffsets := []string{}
	strided := []string{}
	for si, s := range subs {
		base := newRun(si, behaviour{Mode: "never"})
		s.Chunks = base.Off
		for _, sec := range sections(s.M) {
			covered[sec] = true
		}
		L := len(s.Str)
		isSmall := L <= gLimit
		if isSmall {
			small = append(small, si)
		}
		pieces := tPieces
		if isSmall {
			pieces = gPieces
		}
		// never-failing writers, however they chunk
		for _, p := range []int{1, 2, 7, 64, -1, -1} {
			newRun(si, behaviour{Mode: "never", Piece: p})
		}
		// contract-violating short writes without error
		for _, k := range []int{0, 1, 2, 7, 64} {
			newRun(si, behaviour{Mode: "silent", Cap: k})
		}
		all := isSmall || L <= allLimit
		if all {
			allOffsets = append(allOffsets, fmt.Sprintf("%s (%d bytes, %d writes)", s.Name, L, len(s.Chunks)))
		} else {
			strided = append(strided, fmt.Sprintf("%s (%d bytes, %d writes, stride %d + all write boundaries +-1)", s.Name, L, len(s.Chunks), stride))
		}
		ks := offsets(L, s.Chunks, all, stride)
		if isSmall { // the generator enumerates 0..L exactly
			ks = ks[:0]
			for k := 0; k <= L; k++ {
				ks = append(ks, k)
			}
		}
		for _, k := range ks {
			for _, mode := range []string{"whole", "prefix"} {
				for _, st := range []bool{false, true} {
					for _, p := range pieces {
						newRun(si, behaviour{Mode: mode, Sticky: st, Piece: p, Cap: k})
					}
				}
			}
		}
	}
	var missing []string
	for _, sec := range allSections {
		if !covered[sec] {
			missing = append(missing, sec)
		}
	}
	if len(missing) > 0 {
		mbt.Infra("corpus does not exercise these sections of Module.WriteTo: %v", missing)
	}
	rep.Extra["sections_of_WriteTo_exercised"] = allSections
	rep.Extra["modules_every_offset"] = allOffsets
	rep.Extra["modules_strided_offsets"] = strided

	lap("runs of WriteTo")
	entries := 0
	for _, r := range recs {
		entries += len(r.Off)
	}
	rep.Extra["logged_write_calls"] = entries
	// (G) required outcomes generated by TLC from the specification, compared with the runs
	vecs := generate(rep, subs, small, gPieces)
	obs := map[string]*runRec{}
	for _, r := range recs {
		obs[r.b.key(r.src)] = r
	}
	keys := make([]string, 0, len(vecs))
	for k := range vecs {
		keys = append(keys, k)
	}
	sort.Strings(keys)
	compared := 0
	for _, k := range keys {
		v := vecs[k]
		r := obs[k]
		if r == nil {
			mbt.Infra("generator vector %s was not replayed", k)
		}
		compared++
		var diff []string
		if int64(v.n) != r.N {
			diff = append(diff, "n")
		}
		if v.errAt != r.E {
			diff = append(diff, "err")
		}
		if v.calls != len(r.Off) {
			diff = append(diff, "calls")
		}
		if v.dlen != r.Dlen || r.Lcp != r.Dlen {
			diff = append(diff, "delivered")
		}
		if len(diff) == 0 && v.sw != r.Sw {
			mbt.Infra("vector %s: the sink saw %d writes, the writer model says %d (test equipment)", k, r.Sw, v.sw)
		}
		if len(diff) > 0 {
			rep.Fail(mbt.Failure{Signature: "C19|WriteTo|required-outcome:" + strings.Join(diff, "+") + "|" + r.b.class(),
				What: fmt.Sprintf("%s: writer %+v: specification requires n=%d err=%s calls=%d delivered=%d; %s", subs[r.src].Name, r.b, v.n, errName(v.errAt), v.calls, v.dlen, describe(r)),
				Case: caseOf(subs[r.src], r)})
		}
	}
	rep.TracesValidated += compared
	rep.Extra["generated_vectors_replayed"] = compared
	if len(keys) > 0 {
		k := keys[len(keys)/2]
		v, r := vecs[k], obs[k]
		rep.Sample(map[string]interface{}{"kind": "generated-vector", "module": subs[r.src].Name, "writer": fmt.Sprintf("%+v", v.b),
			"required": map[string]int{"n": v.n, "errAt": v.errAt, "calls": v.calls, "delivered": v.dlen}, "observed": describe(r)})
	}

	lap("generator TLC + comparison")
	// (T) every run judged by TLC
	judge(rep, subs, recs)
	lap("trace TLC")
	for _, i := range []int{len(recs) / 3, 2 * len(recs) / 3, len(recs) - 1} {
		r := recs[i]
		rep.Sample(map[string]interface{}{"kind": "recorded-run", "module": subs[r.src].Name, "writer": fmt.Sprintf("%+v", r.b), "observed": describe(r)})
	}
	rep.Extra["runs"] = len(recs)
	rep.Extra["modules"] = len(subs)
	rep.Exhaustive = false
	rep.Assumptions = []string{
		"fmt.Fprint/Fprintf/Fprintln perform exactly one Write on the underlying writer per call (Go standard library)",
		"the instrumented writer implements the writer models of Writer.tla (checked per run by the Equipment conjunct of WriterTrace.tla)",
		"writers that cut a Write short without returning an error are outside the property; for them only the count and the nil error are checked",
		"TLC evaluates the predicates of Writer.tla on the recorded rows correctly; the byte comparison with String() is done by the harness (longest common prefix) and handed to TLC as lengths",
	}
	rep.Finish()
}
