// Package c19 checks property C19: Module.WriteTo honours the io.WriterTo
// contract, also when the writer fails.
//
// (S) spec/Writer.tla: the fmtWriter state machine against writer models; TLC
// checks the contract exhaustively for small chunk sequences and shows what
// the deviations (no latch, counting offered bytes, ...) break.
// (G) Writer.tla run on the chunk sizes of real modules generates, for every
// writer behaviour, the outcome the specification requires; the real
// Module.WriteTo is run against an instrumented writer of that behaviour and
// compared.
// (T) every run (Write log, returned n and error identity, bytes delivered
// versus String()) is recorded and judged by spec/WriterTrace.tla.
package c19

import (
	"fmt"
	"io"
	"math/rand"
	"os"
	"path/filepath"
	"regexp"
	"runtime"
	"sort"
	"strconv"
	"strings"
	"sync"
	"time"

	"verif/harness/mbt"
	"verif/harness/props/reg"
)

func init() { reg.Register("C19", Run) }

// runRec is one row of writer_rec.ndjson (see spec/WriterTrace.tla).
type runRec struct {
	ID   int      `json:"id"`
	Mode string   `json:"mode"`
	St   int      `json:"st"`
	P    int      `json:"p"`
	K    int      `json:"k"`
	F0   int      `json:"f0"`  // 1: the writer is shared with an earlier call of the history and failed there
	Ifs  []string `json:"ifs"` // optional interfaces of the writer (StringWriter, ByteWriter, ReaderFrom)
	Fl   string   `json:"fl"`  // what the writer's Flush method returns ("none": no Flush method)
	Ek   string   `json:"ek"`  // class of the error values the writer returns
	Via  []int    `json:"via"` // method of each logged call: 0 Write, 1 WriteString, 2 WriteByte, 3 ReadFrom, 4 Flush
	Off  []int    `json:"off"`
	Acc  []int    `json:"acc"`
	Err  []int    `json:"err"`
	N    int64    `json:"n"`
	E    int      `json:"e"`
	Dlen int      `json:"dlen"`
	Lcp  int      `json:"lcp"`
	Slen int      `json:"slen"`
	Sw   int      `json:"sw"`
	H    int      `json:"h"`  // position in a history of back-to-back calls (0: main loop)
	Bc   int      `json:"bc"` // calls of the first never-failing WriteTo of this module to a writer with the same interfaces
	Sh   int      `json:"sh"` // position in a history of calls that share ONE writer (0: the writer is this call's own)

	src   int // index of the subject
	panic string
	b     behaviour
	pre   *runRec // the call made just before this one in the same goroutine
	// shared-writer history this call belongs to: the modules written one after the other to the one writer
	shSubs []int
}

// softInfra reports an infrastructure problem; if violations were already found the verdict stands
// (exit 1): a defect that derails the harness must not be turned into an infrastructure error.
func softInfra(rep *mbt.Report, format string, a ...interface{}) {
	if rep.Violations() > 0 {
		rep.Note("after the violations above the harness also hit: "+format, a...)
		rep.Finish()
	}
	mbt.Infra(format, a...)
}

func lcp(a []byte, s string) int {
	n := len(a)
	if len(s) < n {
		n = len(s)
	}
	for i := 0; i < n; i++ {
		if a[i] != s[i] {
			return i
		}
	}
	return n
}

// runOne calls the real Module.WriteTo against an instrumented writer of its own.
func runOne(id, src int, s *subject, b behaviour, rng *rand.Rand) *runRec {
	w := newWriter(b, len(s.Str), rng)
	return runOn(id, src, s, w, asWriter(w, b.Ifs))
}

// runOn calls the real Module.WriteTo against the instrumented writer w (wr is w with its method set),
// which earlier calls may have used: the row describes THIS call - the state of the writer when the call
// started (capacity left, failed flag), the calls it received, the bytes that reached the sink during the
// call; call numbers and the identity of the returned error count from the start of this call (an error
// value the writer returned to an earlier WriteTo is "some other error", -1).
func runOn(id, src int, s *subject, w *iw, wr io.Writer) *runRec {
	b := w.b
	start, sink0, sw0 := len(w.log), len(w.sink), w.sinkW
	r := &runRec{ID: id, Mode: b.Mode, P: b.Piece, K: w.cap, Ifs: ifaceNames(b.Ifs), Fl: b.flush(), Ek: b.errk(), src: src, b: b, Slen: len(s.Str), Bc: len(s.ChunksBy[b.Ifs&ifAll])}
	if b.Sticky {
		r.St = 1
	}
	if w.failed {
		r.F0 = 1
	}
	var n int64
	var err error
	if msg, p := mbt.Guard(func() { n, err = s.M.WriteTo(wr) }); p {
		r.panic = msg
	}
	r.N, r.E = n, w.errIdentity(err)
	if r.E > 0 {
		if r.E > start {
			r.E -= start
		} else {
			r.E = -1
		}
	}
	log := w.log[start:]
	r.Via, r.Off, r.Acc, r.Err = make([]int, len(log)), make([]int, len(log)), make([]int, len(log)), make([]int, len(log))
	for i, c := range log {
		r.Via[i], r.Off[i], r.Acc[i], r.Err[i] = c.via, c.off, c.acc, c.err
		if c.err != 0 {
			r.Err[i] = c.err - start
		}
	}
	r.Dlen, r.Lcp, r.Sw = len(w.sink)-sink0, lcp(w.sink[sink0:], s.Str), w.sinkW-sw0
	return r
}

// offsets chooses the failure offsets for a module of length L.
func offsets(L int, chunks []int, all bool, stride int) []int {
	set := map[int]bool{0: true, L: true, L + 3: true}
	if L > 0 {
		set[L-1] = true
		set[1] = true
	}
	if all {
		for k := 0; k <= L; k++ {
			set[k] = true
		}
	} else {
		for k := 0; k <= L; k += stride {
			set[k] = true
		}
		pos := 0
		for _, c := range chunks { // every chunk boundary and its neighbours
			pos += c
			for _, k := range []int{pos - 1, pos, pos + 1} {
				if k >= 0 && k <= L {
					set[k] = true
				}
			}
		}
	}
	ks := make([]int, 0, len(set))
	for k := range set {
		ks = append(ks, k)
	}
	sort.Ints(ks)
	return ks
}

// gridOffsets chooses the failure offsets for a module with prints of very different sizes.  logs are
// the call sizes of the never-failing first calls (one per interface set).  Beside the ends of String():
// every observed call boundary and its neighbours and the middle of every call; and, because an
// implementation may hand a large print on in pieces whose size the harness does not know, inside every
// call of >= 1 KiB the grid of the piece sizes P = 512, 1 Ki, 2 Ki ... : for P >= allFrom every piece m
// (boundary m*P and its neighbours, and the middle of the piece), for smaller P the pieces 1, 2 and the
// last one.  sparse (quick tier, module of more than 1 MiB, where one run costs 80 ms): calls below
// 1 KiB contribute their end only, the grid starts at P = 4 Ki.
func gridOffsets(L int, logs [][]int, allFrom int, sparse bool) []int {
	set := map[int]bool{0: true, 1: true, L - 1: true, L: true, L + 3: true}
	put := func(k int) {
		if k >= 0 && k <= L {
			set[k] = true
		}
	}
	for _, log := range logs {
		pos := 0
		for _, c := range log {
			start := pos
			pos += c
			put(pos)
			if c < 1024 && sparse {
				continue
			}
			put(pos - 1)
			put(pos + 1)
			if c >= 2 {
				put(start + c/2)
			}
			if c < 1024 {
				continue
			}
			P0 := 512
			if sparse {
				P0 = 4096
			}
			for P := P0; P < c; P *= 2 {
				last := (c - 1) / P
				for m := 1; m <= last; m++ {
					if P < allFrom && m > 2 && m != last {
						continue
					}
					put(start + m*P - 1)
					put(start + m*P)
					if !sparse {
						put(start + m*P + 1)
					}
					if start+m*P+P/2 < pos {
						put(start + m*P + P/2)
					}
				}
			}
		}
	}
	ks := make([]int, 0, len(set))
	for k := range set {
		if k >= 0 {
			ks = append(ks, k)
		}
	}
	sort.Ints(ks)
	return ks
}

type tlcJob struct {
	name string
	opts mbt.TLCOpts
	// want: invariant names that must be violated (empty: none may be)
	want []string
	res  *mbt.TLCResult
}

// cfgWith returns the text of spec/<file> with the INVARIANTS line and some constants replaced.
func cfgWith(file string, invariants []string, consts map[string]string) []byte {
	b, err := os.ReadFile(filepath.Join(mbt.Root, "spec", file))
	if err != nil {
		mbt.Infra("%v", err)
	}
	var out []string
	for _, l := range strings.Split(string(b), "\n") {
		f := strings.Fields(l)
		if len(f) > 0 && (f[0] == "INVARIANTS" || f[0] == "INVARIANT") && invariants != nil {
			l = "INVARIANTS " + strings.Join(invariants, " ")
		}
		if len(f) >= 3 && f[1] == "=" {
			if v, ok := consts[f[0]]; ok {
				l = "  " + f[0] + " = " + v
			}
		}
		out = append(out, l)
	}
	return []byte(strings.Join(out, "\n"))
}

// design runs the design-level TLC checks: the wrapper as written satisfies the
// contract on every small behaviour, every named deviation is caught by the
// invariants it should break, the guards are not vacuous.
func design(rep *mbt.Report, tier string) {
	var jobs []*tlcJob
	main := map[string]string{}
	dev := map[string]string{"MaxChunks": "3"}
	devDirect := map[string]string{"MaxChunks": "2"} // deviations of the direct route
	if tier == "thorough" {
		main = map[string]string{"MaxChunks": "5", "Pieces": "{0, 1, 2, 3}"}
		dev = map[string]string{}
		devDirect = map[string]string{}
	}
	add := func(name, spec, file string, inv []string, consts map[string]string, want []string) {
		cfgName := strings.ReplaceAll(name, "/", ".") + ".cfg"
		jobs = append(jobs, &tlcJob{name: name, want: want, opts: mbt.TLCOpts{Spec: spec, Cfg: cfgName, Workers: 4, Timeout: 15 * time.Minute,
			Data: map[string][]byte{cfgName: cfgWith(file, inv, consts)}}})
	}
	add("as-written", "Writer", "Writer.cfg", nil, main, nil)
	add("rechunk-equiv", "WriterEquiv", "WriterEquiv.cfg", nil, nil, nil)
	merge := func(a, b map[string]string) map[string]string {
		m := map[string]string{}
		for k, v := range a {
			m[k] = v
		}
		for k, v := range b {
			m[k] = v
		}
		return m
	}
	// the early return removed
	for _, inv := range []string{"FirstError", "NoWriteAfterFailure", "PrefixDelivered"} {
		add("no-latch/"+inv, "Writer", "WriterNoLatch.cfg", []string{inv}, dev, []string{inv})
	}
	add("no-latch/CountExact", "Writer", "WriterNoLatch.cfg", []string{"CountExact", "NoFailEqualsString"}, dev, nil)
	// bytes offered are counted instead of bytes accepted
	add("count-offered/CountExact", "Writer", "Writer.cfg", []string{"CountExact"}, merge(dev, map[string]string{"CountAccepted": "FALSE"}), []string{"CountExact"})
	// no early return, but err assigned only while nil: keeps the first error, still writes after it
	kf := merge(dev, map[string]string{"LatchError": "FALSE", "KeepFirstError": "TRUE"})
	add("keep-first/FirstError", "Writer", "Writer.cfg", []string{"FirstError", "CountExact"}, kf, nil)
	add("keep-first/NoWriteAfterFailure", "Writer", "Writer.cfg", []string{"NoWriteAfterFailure"}, kf, []string{"NoWriteAfterFailure"})
	// a writer that violates the io.Writer contract
	add("silent/still-counts", "Writer", "WriterSilent.cfg", []string{"TypeOK", "CountExact", "SilentStillCounts"}, nil, nil)
	add("silent/prefix", "Writer", "WriterSilent.cfg", []string{"PrefixDeliveredAnyWriter"}, nil, []string{"PrefixDeliveredAnyWriter"})
	// a pooled fmtWriter whose error latch survives the call: only a history of two calls shows it
	for _, inv := range []string{"CallStartsFresh", "HealthyAfterFailure", "FirstError", "NoFailEqualsString"} {
		add("pooled/"+inv, "Writer", "WriterPooled.cfg", []string{inv}, nil, []string{inv})
	}
	add("pooled/single-call", "Writer", "WriterPooled.cfg", nil, map[string]string{"MaxCalls": "1"}, nil)
	add("pooled/CountExact", "Writer", "WriterPooled.cfg", []string{"TypeOK", "CountExact", "NoWriteAfterFailure", "PrefixDelivered"}, nil, nil)
	for _, inv := range []string{"NeverFails", "AlwaysFails", "NeverSkips", "NoHistory"} {
		add("vacuity/"+inv, "Writer", "WriterVacuity.cfg", []string{inv}, nil, []string{inv})
	}
	// The interface set of the writer and the routes of a print.  A wrapper that hands ready strings to
	// WriteString / ReadFrom where the writer has them, else to Write in pieces of <= MaxWrite bytes, and
	// separator bytes to WriteByte, obeys every law (prints of up to three pieces, every interface set):
	// the laws are over every method through which bytes reach the writer.
	direct := map[string]string{}
	if tier == "thorough" {
		direct = map[string]string{"UnitSizes": "{0, 1, 2, 3, 5}",
			"IfaceSets": `{{}, {"StringWriter"}, {"ByteWriter"}, {"ReaderFrom"}, {"StringWriter", "ByteWriter"}, {"StringWriter", "ReaderFrom"}, {"ByteWriter", "ReaderFrom"}, {"StringWriter", "ByteWriter", "ReaderFrom"}}`}
	}
	add("direct-route", "Writer", "WriterDirect.cfg", nil, direct, nil)
	// the piece loop adds the running total of the print once per piece: only CountExact breaks, only for a
	// writer without WriteString / ReadFrom and a print of more than one piece
	running := merge(devDirect, map[string]string{"PieceCount": `"running"`})
	add("running-count/CountExact", "Writer", "WriterDirect.cfg", []string{"CountExact"}, running, []string{"CountExact"})
	add("running-count/other-laws", "Writer", "WriterDirect.cfg", []string{"TypeOK", "NoWriteAfterFailure", "PrefixDelivered", "FirstError", "FailsAtCapacity"}, running, nil)
	add("running-count/invisible-with-WriteString", "Writer", "WriterDirect.cfg", []string{"CountExact", "NoFailEqualsString"},
		merge(running, map[string]string{"IfaceSets": `{{"StringWriter"}, {"ReaderFrom"}, {"StringWriter", "ByteWriter", "ReaderFrom"}}`}), nil)
	add("running-count/invisible-for-one-piece", "Writer", "WriterDirect.cfg", []string{"CountExact", "NoFailEqualsString"},
		merge(running, map[string]string{"UnitSizes": "{0, 1, 2}"}), nil)
	// the latch replaced by a redirection to io.Discard: correct if every view of the writer is redirected;
	// with views cached at construction the writer is still called through them after the failure
	redirect := merge(devDirect, map[string]string{"LatchBy": `"redirect"`})
	cached := merge(redirect, map[string]string{"CachedViews": "TRUE"})
	add("redirect/all-views", "Writer", "WriterDirect.cfg", nil, redirect, nil)
	for _, inv := range []string{"NoWriteAfterFailure", "PrefixDelivered", "CountExact"} {
		add("redirect-cached-views/"+inv, "Writer", "WriterDirect.cfg", []string{inv}, cached, []string{inv})
	}
	add("redirect-cached-views/FirstError", "Writer", "WriterDirect.cfg", []string{"TypeOK", "FirstError", "NoFailEqualsString", "StringNeverPanics"}, cached, nil)
	add("redirect-cached-views/invisible-for-plain-writer", "Writer", "WriterDirect.cfg", nil, merge(cached, map[string]string{"IfaceSets": "{{}}"}), nil)
	for _, inv := range []string{"NoThreePieces", "NoFailInLaterPiece", "NoWriteString", "NoWriteByte", "NoReadFrom"} {
		add("vacuity-direct/"+inv, "Writer", "WriterDirect.cfg", []string{inv}, devDirect, []string{inv})
	}
	// Histories in which a later call goes to the SAME writer (it keeps its remaining capacity and its failed
	// flag), up to three calls, and the writer mode "edge" (an error together with a full count).  As written
	// every law holds per call.
	devShared := map[string]string{"MaxChunks": "2"}
	shared := map[string]string{}
	if tier == "thorough" {
		devShared = map[string]string{}
		shared = map[string]string{"UnitSizes": "{0, 1, 2, 3}", "Pieces": "{0, 1, 2}", "LaterModes": `{"never", "whole", "prefix", "edge"}`}
	}
	add("shared-writer", "Writer", "WriterShared.cfg", nil, shared, nil)
	// the wrapper kept per destination writer: count and latch continue in the next call to that writer
	perWriter := merge(devShared, map[string]string{"PerWriterWrapper": "TRUE"})
	for _, inv := range []string{"CountExact", "FirstError", "HealthyAfterFailure"} {
		add("per-writer-wrapper/"+inv, "Writer", "WriterShared.cfg", []string{inv}, perWriter, []string{inv})
	}
	add("per-writer-wrapper/other-laws", "Writer", "WriterShared.cfg", []string{"TypeOK", "NoWriteAfterFailure", "PrefixDelivered"}, perWriter, nil)
	add("per-writer-wrapper/invisible-with-a-writer-per-call", "Writer", "WriterShared.cfg", nil, merge(perWriter, map[string]string{"ShareChoices": "{FALSE}"}), nil)
	// a short count taken for the failure signal: an error with a full count is missed
	short := merge(devShared, map[string]string{"LatchOn": `"short"`})
	for _, inv := range []string{"FirstError", "NoWriteAfterFailure"} {
		add("latch-on-short-count/"+inv, "Writer", "WriterShared.cfg", []string{inv}, short, []string{inv})
	}
	add("latch-on-short-count/other-laws", "Writer", "WriterShared.cfg", []string{"TypeOK", "CountExact", "PrefixDelivered", "NoFailEqualsString", "FailsAtCapacity"}, short, nil)
	add("latch-on-short-count/invisible-without-full-count-errors", "Writer", "WriterShared.cfg", nil,
		merge(short, map[string]string{"Modes": `{"never", "whole", "prefix"}`, "ShareChoices": "{FALSE}"}), nil)
	for _, inv := range []string{"NoSharedRecovery", "NoSharedStuck", "NoThirdSharedCall", "NoFullCountError"} {
		add("vacuity-shared/"+inv, "Writer", "WriterShared.cfg", []string{inv}, nil, []string{inv})
	}
	// Faults by VALUE and the Flusher capability (WriterFaults.cfg): error values of several classes, the
	// transient failure "once", writers with a Flush method.  As written every law holds for all of them.
	faults := map[string]string{}
	devFaults := map[string]string{"MaxChunks": "2", "UnitSizes": "{0, 1, 2}"}
	if tier == "thorough" {
		faults = map[string]string{"MaxChunks": "4"}
		devFaults = map[string]string{}
	}
	add("faults-by-value-and-flushers", "Writer", "WriterFaults.cfg", nil, faults, nil)
	// WriteTo ends with Flush() of a writer that has it and returns Flush's result: the latched error is lost
	// when Flush does not repeat it, and the writer is called after its failure
	flushEnd := merge(devFaults, map[string]string{"FlushAtEnd": "TRUE"})
	for _, inv := range []string{"FirstError", "NoWriteAfterFailure"} {
		add("flush-at-end/"+inv, "Writer", "WriterFaults.cfg", []string{inv}, flushEnd, []string{inv})
	}
	add("flush-at-end/other-laws", "Writer", "WriterFaults.cfg", []string{"CountExact", "PrefixDelivered", "NoFailEqualsString"}, flushEnd, nil)
	add("flush-at-end/invisible-without-Flush-method", "Writer", "WriterFaults.cfg", nil, merge(flushEnd, map[string]string{"FlushKinds": `{"none"}`}), nil)
	add("flush-at-end/first-error-kept-by-sticky-flushers", "Writer", "WriterFaults.cfg", []string{"FirstError", "CountExact"}, merge(flushEnd, map[string]string{"FlushKinds": `{"none", "sticky"}`}), nil)
	// a Write that failed with an error of a special-cased class is re-issued with the whole buffer
	retry := merge(devFaults, map[string]string{"RetryKinds": `{"eintr"}`})
	for _, inv := range []string{"NoWriteAfterFailure", "FirstError", "PrefixDelivered", "CountExact"} {
		add("retry-on-eintr/"+inv, "Writer", "WriterFaults.cfg", []string{inv}, retry, []string{inv})
	}
	add("retry-on-eintr/invisible-with-opaque-errors", "Writer", "WriterFaults.cfg", nil, merge(retry, map[string]string{"ErrKinds": `{"plain"}`}), nil)
	for _, inv := range []string{"NoTransientFailure", "NoFailedFlusher"} {
		add("vacuity-faults/"+inv, "Writer", "WriterFaults.cfg", []string{inv}, devFaults, []string{inv})
	}
	sem := make(chan struct{}, 5)
	var wg sync.WaitGroup
	for _, j := range jobs {
		wg.Add(1)
		go func(j *tlcJob) {
			defer wg.Done()
			sem <- struct{}{}
			defer func() { <-sem }()
			j.res = mbt.MustTLC(j.opts)
		}(j)
	}
	wg.Wait()
	outcome := map[string]interface{}{}
	for _, j := range jobs {
		got := append([]string{}, j.res.Violated...)
		sort.Strings(got)
		want := append([]string{}, j.want...)
		sort.Strings(want)
		if strings.Join(got, ",") != strings.Join(want, ",") {
			mbt.Infra("Writer.tla, configuration %s: TLC reports violated=%v, the specification expects %v (specification error)", j.name, got, want)
		}
		outcome[j.name] = map[string]interface{}{"states": j.res.Distinct, "violated": got}
		if j.name == "as-written" || j.name == "rechunk-equiv" || j.name == "shared-writer" || j.name == "faults-by-value-and-flushers" {
			rep.AddTLC(j.res)
		}
		j.res.Cleanup()
	}
	rep.Extra["design_level_tlc"] = outcome
}

var reVec = regexp.MustCompile(`<<\s*"VEC",\s*(\d+),\s*"(\w+)",\s*(TRUE|FALSE),\s*(-?\d+),\s*(\d+),\s*(\d+),\s*(\d+),\s*(\d+),\s*(\d+),\s*(\d+),\s*(\d+),\s*(TRUE|FALSE)\s*>>`)
var reBad = regexp.MustCompile(`<<\s*"BADRUN",\s*"(\w+)",\s*\{([^}]*)\},\s*(\d+)\s*>>`)

type vector struct {
	b                         behaviour
	n, errAt, calls, dlen, sw int
	call                      int  // position of the call in the history
	prevFailed                bool // an earlier call of the history failed
}

// vecKey: first calls by behaviour, later calls also by what preceded them.
func vecKey(src int, b behaviour, call int, prevFailed bool) string {
	if call <= 1 {
		return b.key(src)
	}
	return fmt.Sprintf("%s|call%d|%v", b.key(src), call, prevFailed)
}

// genRow is one line of chunks.ndjson (Writer!Given): the prints of a module and the writers to try.
type genRow struct {
	C   []int `json:"c"`   // sizes of the prints
	All int   `json:"all"` // 1: every capacity 0..len(String()); 0: the capacities K
	K   []int `json:"k"`
	P   []int `json:"p"` // re-chunking piece sizes
}

// generate runs Writer.tla on the recorded chunk sizes of the small subjects (every capacity) and of
// the subjects with large prints (the capacities tried) (direction G).
func generate(rep *mbt.Report, subs []*subject, small []int, pieces []int, largeSubs []int, largeCaps map[int][]int, lPieces []int) map[string]vector {
	var rows []genRow
	var srcs []int
	want := 0
	for _, si := range small {
		rows = append(rows, genRow{C: append([]int{}, subs[si].Chunks...), All: 1, K: []int{0}, P: pieces})
		srcs = append(srcs, si)
		// first calls: every capacity x ({whole, prefix} x {sticky, recovering} + edge) x pieces, plus never x pieces;
		// second calls (healthy writer): pieces x {after a failed call, after a successful call}
		want += (len(subs[si].Str)+1)*5*len(pieces) + len(pieces) + 2*len(pieces)
	}
	for _, si := range largeSubs {
		rows = append(rows, genRow{C: append([]int{}, subs[si].Chunks...), All: 0, K: largeCaps[si], P: lPieces})
		srcs = append(srcs, si)
		want += len(largeCaps[si])*5*len(lPieces) + len(lPieces) + 2*len(lPieces)
	}
	t := mbt.MustTLC(mbt.TLCOpts{Spec: "Writer", Cfg: "WriterGen.cfg", Workers: 8, Timeout: 15 * time.Minute,
		Data: map[string][]byte{"chunks.ndjson": mbt.NDJSONBytes(rows)}})
	defer t.Cleanup()
	if len(t.Violated) > 0 {
		softInfra(rep, "Writer.tla (as written) violates %v on the chunk sequences of real modules: specification error\n%s", t.Violated, mbt.Truncate(t.Output, 3000))
	}
	rep.AddTLC(t)
	vecs := map[string]vector{}
	for _, m := range reVec.FindAllStringSubmatch(t.Output, -1) {
		iv := func(i int) int { v, _ := strconv.Atoi(m[i]); return v }
		v := vector{b: behaviour{Mode: m[2], Sticky: m[3] == "TRUE", Piece: iv(4), Cap: iv(5)}, n: iv(6), errAt: iv(7), calls: iv(8), dlen: iv(9), sw: iv(10), call: iv(11), prevFailed: m[12] == "TRUE"}
		vecs[vecKey(srcs[iv(1)-1], v.b, v.call, v.prevFailed)] = v
	}
	if len(vecs) != want {
		softInfra(rep, "generator: %d vectors parsed, %d expected", len(vecs), want)
	}
	return vecs
}

// judge lets TLC judge the recorded runs (direction T) and files the failures.
func judge(rep *mbt.Report, subs []*subject, recs []*runRec) {
	byID := map[int]*runRec{}
	for _, r := range recs {
		byID[r.ID] = r
	}
	// batches bounded by rows and by log entries
	var batches [][]*runRec
	var cur []*runRec
	entries := 0
	for _, r := range recs {
		if len(cur) > 0 && (len(cur) >= 60000 || entries+len(r.Off) > 1500000) {
			batches = append(batches, cur)
			cur, entries = nil, 0
		}
		cur = append(cur, r)
		entries += len(r.Off)
	}
	if len(cur) > 0 {
		batches = append(batches, cur)
	}
	equipment, model := 0, 0
	for _, batch := range batches {
		t := mbt.MustTLC(mbt.TLCOpts{Spec: "WriterTrace", Cfg: "WriterTrace.cfg", Workers: 8, Continue: true, Timeout: 20 * time.Minute,
			Data: map[string][]byte{"writer_rec.ndjson": mbt.NDJSONBytes(batch)}})
		nb := (len(batch) + 511) / 512
		if t.Distinct != int64(len(batch)+nb+1) {
			out := t.Output
			t.Cleanup()
			softInfra(rep, "WriterTrace judged %d states, expected %d rows + %d blocks + 1\n%s", t.Distinct, len(batch), nb, mbt.Truncate(out, 3000))
		}
		for _, v := range t.Violated {
			if v != "Judged" {
				mbt.Infra("WriterTrace: unexpected violation %s", v)
			}
		}
		rep.AddTLC(t)
		rep.TracesValidated += len(batch)
		for _, m := range reBad.FindAllStringSubmatch(t.Output, -1) {
			id, _ := strconv.Atoi(m[3])
			r := byID[id]
			if r == nil {
				mbt.Infra("WriterTrace names unknown run %d", id)
			}
			switch m[1] {
			case "equipment":
				equipment++
				if equipment == 1 {
					fmt.Printf("equipment mismatch on %s %+v: %s\n", subs[r.src].Name, r.b, describe(r))
				}
			case "model":
				model++
				if model == 1 {
					fmt.Printf("as-written model mismatch on %s %+v: %s\n", subs[r.src].Name, r.b, describe(r))
				}
			default:
				for _, law := range strings.Split(m[2], ",") {
					law = strings.Trim(strings.TrimSpace(law), `"`)
					rep.Fail(mbt.Failure{Signature: "C19|WriteTo|" + law + "|" + r.class(),
						What: fmt.Sprintf("%s: writer %+v%s: %s", subs[r.src].Name, r.b, r.context(subs), describe(r)),
						Case: caseOf(subs, r)})
				}
			}
		}
		t.Cleanup()
	}
	if equipment > 0 {
		softInfra(rep, "%d recorded runs in which the instrumented writer did not behave as the writer model of Writer.tla says (test equipment or model error)", equipment)
	}
	if model > 0 {
		softInfra(rep, "%d recorded runs satisfy the laws but differ from the prediction of the fmtWriter model as written: the model does not describe the code", model)
	}
}

func describe(r *runRec) string {
	first := 0
	acc := 0
	for j := range r.Off {
		acc += r.Acc[j]
		if first == 0 && r.Err[j] != 0 {
			first = j + 1
		}
	}
	methods := [5]int{}
	for _, v := range r.Via {
		methods[v%5]++
	}
	return fmt.Sprintf("WriteTo returned n=%d err=%s; writer saw %d calls (%d Write, %d WriteString, %d WriteByte, %d ReadFrom, %d Flush), accepted %d bytes, first failing call %d; %d bytes delivered, %d of them a prefix of String() (len %d)",
		r.N, errName(r.E), len(r.Off), methods[0], methods[1], methods[2], methods[3], methods[4], acc, first, r.Dlen, r.Lcp, r.Slen)
}

func maxInt(a []int) int {
	m := 0
	for _, v := range a {
		if v > m {
			m = v
		}
	}
	return m
}

func errName(e int) string {
	switch {
	case e == 0:
		return "nil"
	case e < 0:
		return "an error the writer never returned"
	}
	return fmt.Sprintf("error of call %d", e)
}

// class is the writer class of the run, marked when the call followed a failed call of a history.
func (r *runRec) class() string {
	if r.Sh > 1 {
		return r.b.class() + "@later-call-on-a-shared-writer"
	}
	if r.H > 1 {
		return r.b.class() + "@after-failed-call"
	}
	return r.b.class()
}

func (r *runRec) context(subs []*subject) string {
	if r.Sh > 0 {
		var names []string
		for _, si := range r.shSubs {
			names = append(names, subs[si].Name)
		}
		return fmt.Sprintf(" (call %d of the history %v on ONE shared writer; when this call started the writer had %d bytes of capacity left, failed before: %v)", r.Sh, names, r.K, r.F0 == 1)
	}
	if r.pre == nil {
		return ""
	}
	return fmt.Sprintf(" (the call before it in the same goroutine: %s, writer %+v, returned err=%s)", subs[r.pre.src].Name, r.pre.b, errName(r.pre.E))
}

// caseOf is the replayable description of a run: the call itself and the call made just before it.
func caseOf(subs []*subject, r *runRec) map[string]interface{} {
	c := map[string]interface{}{"subject": subs[r.src].Name, "mode": r.b.Mode, "sticky": r.b.Sticky, "piece": r.b.Piece, "cap": r.b.Cap, "ifs": r.b.Ifs, "flush": r.b.Flush, "errk": r.b.ErrK,
		"observed": map[string]interface{}{"n": r.N, "e": r.E, "calls": len(r.Off), "dlen": r.Dlen, "lcp": r.Lcp, "slen": r.Slen}}
	if r.Sh > 0 { // the whole history on the one writer is replayed
		var names []string
		for _, si := range r.shSubs {
			names = append(names, subs[si].Name)
		}
		c["shared_writer_history"] = names
		c["position"] = r.Sh
		return c
	}
	if r.pre != nil {
		c["pre"] = map[string]interface{}{"subject": subs[r.pre.src].Name, "mode": r.pre.b.Mode, "sticky": r.pre.b.Sticky, "piece": r.pre.b.Piece, "cap": r.pre.b.Cap, "ifs": r.pre.b.Ifs, "flush": r.pre.b.Flush, "errk": r.pre.b.ErrK}
	}
	return c
}

// prepare makes the very first calls of the process on every module, before any writer has failed:
// String(), then WriteTo to a never-failing writer that takes every Write in one piece.  The Write
// sizes of that call are the chunk sequence of the module.  A first call that does not deliver
// String() with n = len and a nil error is a violation by itself and makes the module unusable as
// a reference.
func prepare(rep *mbt.Report, subs []*subject, rng *rand.Rand) []*subject {
	var ok []*subject
	for i, s := range subs {
		if msg, p := mbt.Guard(func() { s.Str = s.M.String() }); p {
			rep.Note("%s: String() panics (%s): not usable for C19", s.Name, mbt.Truncate(msg, 120))
			continue
		}
		// the very first call goes to a writer that has io.Writer only; then one first call per interface set
		healthy := true
		for ifs := 0; ifs <= ifAll; ifs++ {
			b := behaviour{Mode: "never", Ifs: ifs}
			r := runOne(0, i, s, b, rng)
			if diff := healthyDiff(r, s); diff != "" || r.panic != "" {
				if r.panic != "" {
					diff += "panic"
				}
				cls := ""
				if ifs != 0 {
					cls = "@" + strings.Join(ifaceNames(ifs), "+")
				}
				rep.Count("first-call|"+s.Name+cls, true)
				rep.Fail(mbt.Failure{Signature: "C19|WriteTo|never-failing-writer|first call: " + diff + cls, What: fmt.Sprintf("%s: first WriteTo of the process to a never-failing writer with the interfaces io.Writer %v: %s %s", s.Name, ifaceNames(ifs), describe(r), r.panic),
					Case: map[string]interface{}{"subject": s.Name, "mode": "never", "sticky": false, "piece": 0, "cap": 0, "ifs": ifs}})
				healthy = false
				continue
			}
			s.ChunksBy[ifs] = r.Off
		}
		if !healthy {
			continue
		}
		s.Chunks = s.ChunksBy[0]
		ok = append(ok, s)
	}
	return ok
}

// healthyDiff names what a call to a never-failing writer got wrong ("" if nothing).
func healthyDiff(r *runRec, s *subject) string {
	var d []string
	if r.N != int64(len(s.Str)) {
		d = append(d, "n")
	}
	if r.E != 0 {
		d = append(d, "err")
	}
	if r.Dlen != len(s.Str) || r.Lcp != r.Dlen {
		d = append(d, "delivered")
	}
	return strings.Join(d, "+")
}

// Run is the C19 check.
func Run(tier, replay string) {
	rep := mbt.NewReport("C19", tier, "model_checking")
	rep.Rule = "distinct (module, writer behaviour, position in a history of calls) triples on which the real Module.WriteTo was run against an instrumented writer and judged by TLC (WriterTrace.tla); behaviours = failure offset k x {whole-chunk, short-write} x {sticky, recovering} x re-chunking piece size, never-failing writers with fixed and random chunking, contract-violating silent short writes; histories = failing call, then healthy call on the same and on another module, then String()"
	seed := mbt.Seed()
	var cases []map[string]interface{}
	if replay != "" {
		var rf struct {
			Tier     string `json:"tier"`
			Seed     int64  `json:"seed"`
			Failures []struct {
				Case map[string]interface{} `json:"case"`
			} `json:"failures"`
		}
		if err := mbt.ReadJSON(replay, &rf); err != nil {
			mbt.Infra("replay %s: %v", replay, err)
		}
		if rf.Tier != "" {
			tier = rf.Tier
		}
		seed = rf.Seed
		for _, f := range rf.Failures {
			if f.Case != nil {
				cases = append(cases, f.Case)
			}
		}
		if len(cases) == 0 {
			mbt.Infra("replay %s: no case", replay)
		}
	}
	rng := rand.New(rand.NewSource(seed))
	phases := map[string]float64{}
	t0 := time.Now()
	lap := func(name string) {
		phases[name] = time.Since(t0).Seconds()
		t0 = time.Now()
		rep.Extra["phase_seconds"] = phases
	}

	if replay == "" {
		design(rep, tier)
		lap("design-level TLC")
	}

	// All calls of the real code are made back to back by this goroutine, pinned to its thread, with one
	// P: state that an implementation keeps between calls (a pool, a package variable) is then met again
	// by the next call instead of staying behind on another P.
	runtime.LockOSThread()
	procs := runtime.GOMAXPROCS(1)
	restore := func() {
		runtime.GOMAXPROCS(procs)
		runtime.UnlockOSThread()
	}

	subs, rejected := corpus(tier, rng)
	for _, r := range rejected {
		rep.Note("not parsed, skipped: %s", mbt.Truncate(r, 160))
	}
	subs = prepare(rep, subs, rng)
	if len(subs) < 5 {
		restore()
		softInfra(rep, "only %d usable modules", len(subs))
	}
	covered := map[string]bool{}
	var recs []*runRec
	var last *runRec
	id := 0
	newRun := func(si int, b behaviour, h int) *runRec {
		id++
		r := runOne(id, si, subs[si], b, rng)
		r.H, r.pre = h, last
		last = r
		recs = append(recs, r)
		key := fmt.Sprintf("%s|%s|h%d", subs[si].Name, b.fullKey(si), h)
		if h > 0 && r.pre != nil {
			key += "|after " + subs[r.pre.src].Name + "|" + r.pre.b.fullKey(r.pre.src)
		}
		rep.Count(key, true)
		if r.panic != "" {
			rep.Fail(mbt.Failure{Signature: "C19|WriteTo|panic|" + r.class(), What: fmt.Sprintf("%s: writer %+v%s: WriteTo panics: %s", subs[si].Name, b, r.context(subs), mbt.Truncate(r.panic, 200)), Case: caseOf(subs, r)})
		}
		return r
	}
	// String() must keep working (it panics on an error) and keep its value, whatever was called before.
	stringChecks := 0
	checkString := func(si int) {
		stringChecks++
		s := subs[si]
		var got string
		ctx := ""
		var c map[string]interface{}
		if last != nil {
			ctx = fmt.Sprintf(" after WriteTo of %s to writer %+v returned err=%s", subs[last.src].Name, last.b, errName(last.E))
			c = caseOf(subs, last)
			c["then_string_of"] = s.Name
		}
		rep.Count(fmt.Sprintf("String|%s|%s", s.Name, ctx), true)
		cls := "first"
		if last != nil {
			cls = last.b.class()
		}
		if msg, p := mbt.Guard(func() { got = s.M.String() }); p {
			rep.Fail(mbt.Failure{Signature: "C19|String|panics after a failed WriteTo|" + cls, What: fmt.Sprintf("%s: String()%s panics: %s", s.Name, ctx, mbt.Truncate(msg, 200)), Case: c})
			return
		}
		if got != s.Str {
			rep.Fail(mbt.Failure{Signature: "C19|String|differs after a failed WriteTo|" + cls, What: fmt.Sprintf("%s: String()%s has %d bytes, %d of them a prefix of the first String() (%d bytes)", s.Name, ctx, len(got), lcp([]byte(got), s.Str), len(s.Str)), Case: c})
		}
	}
	// A history of calls that share ONE writer (two modules into one stream, a retry on the same file): the
	// writer keeps what is left of its capacity and its failed flag; every call is a row of its own, judged
	// as a call to a writer in that state.
	sharedHist := func(srcs []int, b behaviour) []*runRec {
		total := 0
		for _, si := range srcs {
			total += len(subs[si].Str)
		}
		w := newWriter(b, total, rng)
		wr := asWriter(w, b.Ifs)
		var rows []*runRec
		for pos, si := range srcs {
			id++
			r := runOn(id, si, subs[si], w, wr)
			r.H, r.Sh, r.pre, r.shSubs = pos+1, pos+1, last, srcs
			last = r
			recs = append(recs, r)
			rows = append(rows, r)
			key := fmt.Sprintf("shared|%s|pos%d|left%d|failed%d", b.fullKey(si), pos+1, r.K, r.F0)
			for _, sj := range srcs {
				key += "|" + subs[sj].Name
			}
			rep.Count(key, true)
			if r.panic != "" {
				rep.Fail(mbt.Failure{Signature: "C19|WriteTo|panic|" + r.class(), What: fmt.Sprintf("%s: call %d on the shared writer %+v: WriteTo panics: %s", subs[si].Name, pos+1, b, mbt.Truncate(r.panic, 200)), Case: caseOf(subs, r)})
			}
		}
		return rows
	}
	byName := func(name string) int {
		for si, s := range subs {
			if s.Name == name {
				return si
			}
		}
		restore()
		mbt.Infra("replay: no module named %q in the corpus", name)
		return -1
	}
	behaviourOf := func(c map[string]interface{}) behaviour {
		num := func(k string) int { f, _ := c[k].(float64); return int(f) }
		mode, _ := c["mode"].(string)
		st, _ := c["sticky"].(bool)
		fl, _ := c["flush"].(string)
		ek, _ := c["errk"].(string)
		return behaviour{Mode: mode, Sticky: st, Piece: num("piece"), Cap: num("cap"), Ifs: num("ifs"), Flush: fl, ErrK: ek}
	}

	if replay != "" {
		for _, c := range cases {
			name, _ := c["subject"].(string)
			if hist, ok := c["shared_writer_history"].([]interface{}); ok {
				var srcs []int
				for _, n := range hist {
					ns, _ := n.(string)
					srcs = append(srcs, byName(ns))
				}
				sharedHist(srcs, behaviourOf(c))
				continue
			}
			h := 0
			if pre, ok := c["pre"].(map[string]interface{}); ok {
				pn, _ := pre["subject"].(string)
				newRun(byName(pn), behaviourOf(pre), 1)
				h = 2
			}
			newRun(byName(name), behaviourOf(c), h)
			if sn, ok := c["then_string_of"].(string); ok {
				checkString(byName(sn))
			}
		}
		restore()
		judge(rep, subs, recs)
		rep.Finish()
	}

	gPieces, tPieces := []int{0, 2, 7}, []int{0, 7}
	gLimit, allLimit, stride := 700, 1600, 37
	lPieces := []int{0, 4096} // re-chunking piece sizes of the writers tried on the large modules
	hugeFrom := 256 << 10     // modules of more than 1 MiB: every piece of the grid for piece sizes >= hugeFrom
	if tier == "thorough" {
		gPieces, tPieces = []int{0, 1, 2, 7, 64}, []int{0, 7}
		gLimit, allLimit, stride = 3000, 12000, 6
		hugeFrom = 16 << 10
	}
	// Interface sets: the writer with io.Writer only goes through everything as before; a writer that
	// also has WriteString and one that has all optional interfaces (bufio.Writer, os.File) are tried at
	// every offset; the other five sets at the reduced offsets.
	ifsEvery := []int{ifStringWriter, ifAll}
	ifsReduced := []int{ifByteWriter, ifReaderFrom, ifStringWriter | ifByteWriter, ifStringWriter | ifReaderFrom, ifByteWriter | ifReaderFrom}
	var small []int
	isSmallSub := map[int]bool{}
	allOffsets := []string{}
	strided := []string{}
	large := []string{}
	var largeSubs []int
	largeCaps := map[int][]int{}
	for si, s := range subs {
		// a never-failing writer that takes every Write in one piece; from the second module on this call
		// follows the failing calls on the previous module
		newRun(si, behaviour{Mode: "never"}, 0)
		for _, sec := range sections(s.M) {
			covered[sec] = true
		}
		L := len(s.Str)
		if s.Large {
			// prints of 1 byte ... > 1 MiB: every interface set, failure offsets inside every piece
			// every offset x {whole, prefix} x the writers with io.Writer only, + WriteString, + all three; the
			// other five interface sets in turn.  A module of more than 1 MiB in the quick tier: one (mode,
			// interface set) pair per offset, in turn.
			logs := s.ChunksBy[:]
			allFrom := 16 << 10
			huge := L > 1<<20
			if huge {
				allFrom = hugeFrom
			}
			sparse := huge && tier != "thorough"
			ks := gridOffsets(L, logs, allFrom, sparse)
			largeSubs = append(largeSubs, si)
			largeCaps[si] = ks
			large = append(large, fmt.Sprintf("%s (%d bytes, %d writes, largest %d bytes; %d offsets)", s.Name, L, len(s.Chunks), maxInt(s.Chunks), len(ks)))
			for ifs := 0; ifs <= ifAll; ifs++ {
				if sparse && ifs != 0 && ifs != ifStringWriter && ifs != ifAll {
					continue
				}
				for _, p := range []int{4096, -1} {
					newRun(si, behaviour{Mode: "never", Piece: p, Ifs: ifs}, 0)
				}
				newRun(si, behaviour{Mode: "silent", Cap: 4096, Ifs: ifs}, 0)
			}
			main3 := []int{0, ifStringWriter, ifAll}
			for i, k := range ks {
				for mi, mode := range []string{"whole", "prefix", "edge"} {
					sets := append(append([]int{}, main3...), ifsReduced[(2*i+mi)%len(ifsReduced)])
					if mode == "edge" { // an error with a full count: two interface sets in turn
						sets = []int{main3[i%3], ifsReduced[i%len(ifsReduced)]}
					}
					if sparse {
						if (mode != "edge" && i%2 != mi) || (mode == "edge" && i%3 != 0) {
							continue
						}
						sets = []int{main3[(i/2)%3]}
					}
					for j, ifs := range sets {
						newRun(si, behaviour{Mode: mode, Sticky: mode != "edge" && (i+j)%2 == 1, Piece: lPieces[(i/2+j)%len(lPieces)], Cap: k, Ifs: ifs}, 0)
					}
				}
			}
			continue
		}
		isSmall := L <= gLimit
		if isSmall {
			small = append(small, si)
			isSmallSub[si] = true
		}
		pieces := tPieces
		if isSmall {
			pieces = gPieces
		}
		// never-failing writers, however they chunk
		for _, p := range []int{1, 2, 7, 64, -1, -1} {
			newRun(si, behaviour{Mode: "never", Piece: p}, 0)
		}
		// contract-violating short writes without error
		for _, k := range []int{0, 1, 2, 7, 64} {
			newRun(si, behaviour{Mode: "silent", Cap: k}, 0)
		}
		// ... and with every other interface set
		for ifs := 1; ifs <= ifAll; ifs++ {
			newRun(si, behaviour{Mode: "never", Ifs: ifs}, 0)
			newRun(si, behaviour{Mode: "never", Piece: 7, Ifs: ifs}, 0)
			newRun(si, behaviour{Mode: "silent", Cap: 2, Ifs: ifs}, 0)
		}
		all := isSmall || L <= allLimit
		if all {
			allOffsets = append(allOffsets, fmt.Sprintf("%s (%d bytes, %d writes)", s.Name, L, len(s.Chunks)))
		} else {
			strided = append(strided, fmt.Sprintf("%s (%d bytes, %d writes, stride %d + all write boundaries +-1)", s.Name, L, len(s.Chunks), stride))
		}
		ks := offsets(L, s.Chunks, all, stride)
		if isSmall { // the generator enumerates 0..L exactly
			ks = ks[:0]
			for k := 0; k <= L; k++ {
				ks = append(ks, k)
			}
		}
		for _, k := range ks {
			for _, mode := range []string{"whole", "prefix", "edge"} {
				for _, st := range []bool{false, true} {
					if mode == "edge" && st { // the capacity is 0 after its failure: sticky by construction
						continue
					}
					for pi, p := range pieces {
						if mode == "edge" && tier != "thorough" && pi != 0 && pi != 1+k%(len(pieces)-1) {
							continue // quick: in one piece and one of the re-chunking piece sizes, in turn
						}
						newRun(si, behaviour{Mode: mode, Sticky: st, Piece: p, Cap: k}, 0)
					}
				}
				// + WriteString at the even offsets, all optional interfaces at the odd ones (thorough: both)
				for j, ifs := range ifsEvery {
					if tier == "thorough" || (k%2 == j && (mode != "edge" || k%4 < 2)) {
						newRun(si, behaviour{Mode: mode, Sticky: mode != "edge" && (k/2+j)%2 == 1, Cap: k, Ifs: ifs}, 0)
					}
				}
			}
		}
		// Faults by value and flushers: at every offset tried, a transient failure ("once": everything after
		// the failing Write would be accepted) with an error value of each class in turn; the other modes with
		// the classes in turn; and writers that have a Flush method (no-op, sticky, failing) in each mode in turn.
		faultModes := []string{"once", "whole", "prefix", "edge"}
		for i, k := range ks {
			ek := errKinds[1+i%(len(errKinds)-1)]
			newRun(si, behaviour{Mode: "once", Piece: pieces[i%len(pieces)], Cap: k, ErrK: ek, Ifs: []int{0, ifStringWriter, ifAll}[i%3]}, 0)
			mode := faultModes[(i/2)%len(faultModes)]
			newRun(si, behaviour{Mode: mode, Sticky: mode != "edge" && mode != "once" && i%3 == 0, Cap: k, ErrK: errKinds[(i/3)%len(errKinds)]}, 0)
			fmode := faultModes[i%len(faultModes)]
			newRun(si, behaviour{Mode: fmode, Sticky: (fmode == "whole" || fmode == "prefix") && i%2 == 0, Piece: pieces[(i/4)%len(pieces)], Cap: k,
				Flush: flushKinds[(i/4)%len(flushKinds)], ErrK: errKinds[(i/12)%len(errKinds)], Ifs: []int{0, ifAll, ifStringWriter, ifByteWriter | ifReaderFrom}[(i/3)%4]}, 0)
		}
		for i, fl := range flushKinds { // never-failing writers that have a Flush method
			newRun(si, behaviour{Mode: "never", Piece: []int{0, 7}[i%2], Flush: fl, Ifs: []int{0, ifAll, ifStringWriter}[i%3]}, 0)
		}
		for i, k := range offsets(L, s.Chunks, false, stride) {
			for _, mode := range []string{"whole", "prefix", "edge"} {
				for j, ifs := range ifsReduced {
					if mode == "edge" && j != i%len(ifsReduced) {
						continue
					}
					newRun(si, behaviour{Mode: mode, Sticky: mode != "edge" && (i+j)%2 == 1, Piece: pieces[(i+j)%len(pieces)], Cap: k, Ifs: ifs}, 0)
				}
			}
		}
	}
	var missing []string
	for _, sec := range allSections {
		if !covered[sec] {
			missing = append(missing, sec)
		}
	}
	rep.Extra["sections_of_WriteTo_exercised"] = allSections
	rep.Extra["modules_every_offset"] = allOffsets
	rep.Extra["modules_strided_offsets"] = strided
	rep.Extra["modules_large_prints"] = large
	rep.Extra["writer_interface_sets"] = map[string]interface{}{"every_offset": [][]string{{}, ifaceNames(ifStringWriter), ifaceNames(ifAll)}, "reduced_offsets": 5, "first_calls_and_never_failing": 8}
	lap("runs of WriteTo")

	// Histories: WriteTo(failing at k) ; WriteTo(healthy) on the same module ; String() ;
	// WriteTo(failing at k) ; WriteTo(healthy) on ANOTHER module ; String() of that module.
	// Required: the later calls behave exactly like first calls.
	histories := 0
	var hist2 []*runRec // the healthy second calls
	for si, s := range subs {
		L := len(s.Str)
		if L == 0 {
			continue
		}
		ks := map[int]bool{0: true, 1: true, L / 2: true, L - 1: true}
		pos := 0
		for i, c := range s.Chunks { // fail inside the first, a middle and the last Write and at their ends
			pos += c
			if i == 0 || i == len(s.Chunks)/2 || i == len(s.Chunks)-1 {
				ks[pos-1] = true
				if pos < L {
					ks[pos] = true
				}
			}
		}
		if tier == "thorough" && L <= gLimit {
			for k := 0; k < L; k++ {
				ks[k] = true
			}
		}
		if s.Large { // a call costs up to 80 ms: two offsets, one inside the largest print
			ks = map[int]bool{0: true}
			pos := 0
			for _, c := range s.Chunks {
				if c == maxInt(s.Chunks) {
					ks[pos+c/2+c/3] = true
				}
				pos += c
			}
		}
		var sorted []int
		for k := range ks {
			if k >= 0 && k < L {
				sorted = append(sorted, k)
			}
		}
		sort.Ints(sorted)
		other := (si + 1) % len(subs)
		if subs[other].Large && !s.Large {
			other = 0 // only a large module is followed by a large one
		}
		for i, k := range sorted {
			for mi, mode := range []string{"whole", "prefix"} {
				for j, p := range []int{0, 7} {
					if s.Large && (mi != i%2 || (p != 0 && tier != "thorough")) {
						continue
					}
					// the failing and the healthy writer have the same or different interface sets
					fifs := []int{0, ifStringWriter, ifAll, ifReaderFrom}[(i+j)%4]
					hifs := []int{0, 0, ifStringWriter, ifAll, ifByteWriter}[(i+2*j)%5]
					fb := behaviour{Mode: mode, Sticky: k%2 == 1, Piece: p, Cap: k, Ifs: fifs}
					histories++
					newRun(si, fb, 1)
					hist2 = append(hist2, newRun(si, behaviour{Mode: "never", Ifs: hifs}, 2))
					checkString(si)
					newRun(si, fb, 1)
					hist2 = append(hist2, newRun(other, behaviour{Mode: "never", Piece: p, Ifs: hifs}, 2))
					checkString(other)
				}
			}
		}
	}
	// Histories on ONE shared writer: module A, module B, module A again written to the same writer, whose
	// capacity ends inside / at the end of / just after each of the three calls; never-failing shared
	// writers.  Every call must report its own count and its own first error, deliver a prefix of its own
	// String(), and a recovering writer into which a later module fits must get all of it.
	sharedHistories, sharedCalls := 0, 0
	for si, s := range subs {
		other := (si + 1) % len(subs)
		for len(subs[other].Str) > 1<<20 || len(subs[other].Str) == 0 {
			other = (other + 1) % len(subs)
		}
		if len(s.Str) > 1<<20 {
			continue
		}
		srcs := []int{si, other, si}
		L1, L2 := len(s.Str), len(subs[other].Str)
		kset := map[int]bool{}
		for _, base := range []int{0, L1, L1 + L2} {
			l := L1
			if base == L1 {
				l = L2
			}
			for _, d := range []int{0, 1, l / 2, l - 1} {
				if d >= 0 {
					kset[base+d] = true
				}
			}
			if tier == "thorough" && l <= gLimit {
				for d := 0; d < l; d += 3 {
					kset[base+d] = true
				}
			}
		}
		kset[2*L1+L2], kset[2*L1+L2+5] = true, true
		// the capacity ends at the end of the largest Write of A (an exact fit) in call 1 and in call 3
		pos, at := 0, 0
		for _, c := range s.Chunks {
			pos += c
			if c == maxInt(s.Chunks) {
				at = pos
			}
		}
		kset[at], kset[L1+L2+at] = true, true
		var ks []int
		for k := range kset {
			ks = append(ks, k)
		}
		sort.Ints(ks)
		sets := []int{0, ifStringWriter, ifAll, ifByteWriter | ifReaderFrom}
		for i, k := range ks {
			for mi, mode := range []string{"whole", "prefix", "edge"} {
				for _, st := range []bool{false, true} {
					if st && (mode == "edge" || (s.Large && (i+mi)%2 == 0)) {
						continue
					}
					b := behaviour{Mode: mode, Sticky: st, Piece: []int{0, 7, 0, 4096}[(i+mi)%4], Cap: k, Ifs: sets[(i+2*mi)%len(sets)]}
					sharedCalls += len(sharedHist(srcs, b))
					sharedHistories++
				}
			}
		}
		for i, ifs := range sets {
			sharedCalls += len(sharedHist(srcs, behaviour{Mode: "never", Piece: []int{0, 7}[i%2], Ifs: ifs}))
			sharedHistories++
		}
		checkString(si)
	}
	restore()
	rep.Extra["histories_on_one_shared_writer"] = map[string]int{"histories": sharedHistories, "calls": sharedCalls}
	rep.Extra["histories"] = histories
	rep.Extra["string_calls_after_failed_WriteTo"] = stringChecks
	lap("histories")
	entries := 0
	for _, r := range recs {
		entries += len(r.Off)
	}
	rep.Extra["logged_write_calls"] = entries
	rep.Extra["runs"] = len(recs)
	rep.Extra["modules"] = len(subs)

	// (T) every run judged by TLC
	judge(rep, subs, recs)
	lap("trace TLC")
	if len(missing) > 0 {
		softInfra(rep, "corpus does not exercise these sections of Module.WriteTo: %v", missing)
	}

	// (G) required outcomes generated by TLC from the specification, compared with the runs
	vecs := generate(rep, subs, small, gPieces, largeSubs, largeCaps, lPieces)
	compared := 0
	compare := func(v vector, r *runRec, k string) {
		compared++
		var diff []string
		if int64(v.n) != r.N {
			diff = append(diff, "n")
		}
		if v.errAt != r.E {
			diff = append(diff, "err")
		}
		if v.calls != len(r.Off) {
			diff = append(diff, "calls")
		}
		if v.dlen != r.Dlen || r.Lcp != r.Dlen {
			diff = append(diff, "delivered")
		}
		if len(diff) == 0 && v.sw != r.Sw {
			softInfra(rep, "vector %s: the sink saw %d writes, the writer model says %d (test equipment)", k, r.Sw, v.sw)
		}
		if len(diff) > 0 {
			rep.Fail(mbt.Failure{Signature: "C19|WriteTo|required-outcome:" + strings.Join(diff, "+") + "|" + r.class(),
				What: fmt.Sprintf("%s: writer %+v%s: specification requires n=%d err=%s calls=%d delivered=%d; %s", subs[r.src].Name, r.b, r.context(subs), v.n, errName(v.errAt), v.calls, v.dlen, describe(r)),
				Case: caseOf(subs, r)})
		}
	}
	// Writer.tla as written never consults the interface set: the vector of (module, sink behaviour) is
	// the required outcome for the runs of EVERY interface set.
	replayed := map[string]*runRec{}
	byIfs := map[int]int{}
	for _, r := range recs {
		if r.H != 0 {
			continue
		}
		k := r.b.key(r.src)
		v, ok := vecs[k]
		if !ok {
			continue // random re-chunking, silent writers, capacities or pieces outside the generator's sets
		}
		if r.b.Ifs == 0 || replayed[k] == nil {
			replayed[k] = r
		}
		byIfs[r.b.Ifs]++
		compare(v, r, k)
	}
	keys := make([]string, 0, len(vecs))
	for k, v := range vecs {
		if v.call == 1 {
			keys = append(keys, k)
		}
	}
	sort.Strings(keys)
	unreplayed := 0
	for _, k := range keys {
		if replayed[k] == nil {
			unreplayed++
			// (quick: the "edge" writers are run with some of the generator's piece sizes only)
			if src, _ := strconv.Atoi(strings.SplitN(k, "|", 2)[0]); isSmallSub[src] && !(vecs[k].b.Mode == "edge" && tier != "thorough") {
				softInfra(rep, "generator vector %s was not replayed", k)
			}
		}
	}
	perIfs := map[string]int{}
	for ifs, n := range byIfs {
		perIfs["io.Writer+"+strings.Join(ifaceNames(ifs), "+")] = n
	}
	rep.Extra["generated_vectors_replayed_per_interface_set"] = perIfs
	rep.Extra["generated_vectors_of_large_modules_not_replayed"] = unreplayed
	// the healthy second calls of the histories against the vectors TLC generated for second calls
	second := 0
	for _, r := range hist2 {
		if !isSmallSub[r.src] {
			continue
		}
		k := vecKey(r.src, r.b, 2, true)
		v, ok := vecs[k]
		if !ok {
			continue // piece size outside the generator's set
		}
		second++
		compare(v, r, k)
	}
	rep.TracesValidated += compared
	rep.Extra["generated_vectors_replayed"] = compared
	rep.Extra["generated_second_call_vectors_replayed"] = second
	if len(keys) > 0 {
		k := keys[len(keys)/2]
		for i := 0; replayed[k] == nil && i < len(keys); i++ {
			k = keys[i]
		}
		v, r := vecs[k], replayed[k]
		if r == nil {
			softInfra(rep, "no generator vector was replayed")
		}
		rep.Sample(map[string]interface{}{"kind": "generated-vector", "module": subs[r.src].Name, "writer": fmt.Sprintf("%+v", v.b),
			"required": map[string]int{"n": v.n, "errAt": v.errAt, "calls": v.calls, "delivered": v.dlen}, "observed": describe(r)})
	}
	lap("generator TLC + comparison")

	for _, i := range []int{len(recs) / 3, 2 * len(recs) / 3, len(recs) - 1} {
		r := recs[i]
		rep.Sample(map[string]interface{}{"kind": "recorded-run", "module": subs[r.src].Name, "writer": fmt.Sprintf("%+v", r.b), "position_in_history": r.H, "observed": describe(r)})
	}
	rep.Exhaustive = false
	rep.Assumptions = []string{
		"fmt.Fprint/Fprintf/Fprintln perform exactly one Write on the underlying writer per call (Go standard library)",
		"the instrumented writer implements the writer models of Writer.tla (checked per run by the Equipment conjunct of WriterTrace.tla)",
		"writers that cut a Write short without returning an error are outside the property; for them only the count and the nil error are checked",
		"TLC evaluates the predicates of Writer.tla on the recorded rows correctly; the byte comparison with String() is done by the harness (longest common prefix) and handed to TLC as lengths",
		"state kept between calls is met by the next call because all calls are made back to back by one goroutine locked to its thread with GOMAXPROCS(1); state kept per goroutine or cleared by a garbage collection between two calls is not seen",
	}
	rep.Finish()
}
