// Package c19 checks property C19 (not built yet).
package c19

import (
	"verif/harness/mbt"
	"verif/harness/props/reg"
)

func init() { reg.Register("C19", Run) }

// Run is the C19 check.
func Run(tier, replay string) { mbt.Infra("check C19 is not built yet") }
