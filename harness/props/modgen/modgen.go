// Package modgen fills the templates of spec/Modules.tla: TLC enumerates the
// valid configurations of every feature family, this package turns each into
// module text.
package modgen

import (
	"fmt"
	"os"
	"path/filepath"
	"regexp"
	"sort"
	"strings"
	"time"

	"verif/harness/mbt"
)

// Vector is one configuration emitted by Modules.tla.
type Vector struct {
	Fam     string            `json:"fam"`
	Prelude string            `json:"prelude"`
	Tmpl    string            `json:"tmpl"`
	Order   []string          `json:"order"`
	Cfg     map[string]string `json:"cfg"`
	Dflt    map[string]string `json:"dflt"` // the family's default configuration
	Derived map[string]string `json:"derived"`
	DI      bool              `json:"di"`
	Form    string            `json:"form"` // "fwd", "rev" (fields reversed), "inline" (node written where it is used)
	Repr    bool              `json:"repr"` // FALSE: the library's IR cannot hold the construct (required outcome: an error)
}

var reNum = regexp.MustCompile(`\d+`)

// Construct names the construct under test: family plus, per non-default slot, its name and
// the first two words of its value (numbers abstracted).
func (v *Vector) Construct() string {
	var parts []string
	for _, s := range v.Order {
		x := strings.TrimSpace(v.Cfg[s])
		if x == "" {
			continue
		}
		w := strings.Fields(x)
		if len(w) > 2 {
			w = w[:2]
		}
		parts = append(parts, s+"="+reNum.ReplaceAllString(strings.Join(w, " "), "N"))
	}
	if len(parts) > 3 {
		parts = parts[:3]
	}
	if v.Form == "inline" {
		return v.Fam + "@inline:" + strings.Join(parts, ",")
	}
	return v.Fam + ":" + strings.Join(parts, ",")
}

// Text renders the configuration.
func (v *Vector) Text() string {
	body := v.Tmpl
	if v.DI {
		var fs []string
		for _, s := range v.Order {
			if x := v.Cfg[s]; x != "" {
				fs = append(fs, x)
			}
		}
		body = strings.Replace(body, "{fields}", strings.Join(fs, ", "), 1)
	} else {
		for s, x := range v.Cfg {
			body = strings.ReplaceAll(body, "{"+s+"}", x)
		}
		for s, x := range v.Derived {
			body = strings.ReplaceAll(body, "{"+s+"}", x)
		}
	}
	if v.DI {
		return body + v.Prelude
	}
	return v.Prelude + body
}

// Singles returns, for a configuration that differs from the default in two or more slots, the
// configurations that differ in exactly one of them (used to find the minimal failing case).
func (v *Vector) Singles() []*Vector {
	var diff []string
	for _, s := range v.Order {
		if v.Cfg[s] != v.Dflt[s] {
			diff = append(diff, s)
		}
	}
	if len(diff) < 2 || v.Fam == "gv" && false {
		return nil
	}
	var out []*Vector
	for _, s := range diff {
		w := *v
		w.Cfg = map[string]string{}
		for k, x := range v.Dflt {
			w.Cfg[k] = x
		}
		w.Cfg[s] = v.Cfg[s]
		out = append(out, &w)
	}
	return out
}

// Label names the configuration by the slots that differ from empty.
func (v *Vector) Label() string {
	var parts []string
	for _, s := range v.Order {
		if x := strings.TrimSpace(v.Cfg[s]); x != "" {
			if len(x) > 40 {
				x = x[:40] + "…"
			}
			parts = append(parts, s+"="+x)
		}
	}
	sort.Strings(parts)
	if len(parts) > 4 {
		parts = parts[:4]
	}
	if v.Form != "" && v.Form != "fwd" {
		return v.Fam + "@" + v.Form + "[" + strings.Join(parts, ";") + "]"
	}
	return v.Fam + "[" + strings.Join(parts, ";") + "]"
}

// Generate runs TLC on Modules.tla for the given families ("*" = all) and returns the vectors.
func Generate(rep *mbt.Report, families ...string) []Vector {
	var q []string
	for _, f := range families {
		q = append(q, fmt.Sprintf("%q", f))
	}
	pairMode := "listed"
	if os.Getenv("VERIF_MODULES_PAIRS") == "all" {
		pairMode = "all"
	}
	cfg := "SPECIFICATION Spec\nCONSTANTS\n  FamilySet = {" + strings.Join(q, ", ") + "}\n  PairMode = \"" + pairMode + "\"\nINVARIANT EveryAltCovered\nACTION_CONSTRAINT Emit\nCHECK_DEADLOCK FALSE\n"
	t := mbt.MustTLC(mbt.TLCOpts{Spec: "Modules", Cfg: "ModulesGen.cfg", Workers: 1, Timeout: 15 * time.Minute, Data: map[string][]byte{"ModulesGen.cfg": []byte(cfg)}})
	defer t.Cleanup()
	if len(t.Violated) > 0 {
		mbt.Infra("Modules.tla: %v violated: a keyword of the tables is unreachable (specification error)", t.Violated)
	}
	rep.AddTLC(t)
	vs, err := mbt.ReadNDJSON[Vector](filepath.Join(t.Dir, "modules.ndjson"))
	if err != nil {
		mbt.Infra("modules.ndjson: %v", err)
	}
	if len(vs) == 0 {
		mbt.Infra("Modules.tla emitted no configuration")
	}
	return vs
}
