// Package c03 checks property C03 (not built yet).
package c03

import (
	"verif/harness/mbt"
	"verif/harness/props/reg"
)

func init() { reg.Register("C03", Run) }

// Run is the C03 check.
func Run(tier, replay string) { mbt.Infra("check C03 is not built yet") }
