// Package c03 checks property C03: every module assembled through the public
// constructors from well-typed operands prints, without crashing, to text that
// the library's parser and LLVM accept, that denotes what was constructed and
// executes to the value the construction implies.
//
// spec/Build.tla generates construction programs (G): the coverage family
// (every Schema kind x operand class x named/unnamed, every variant, flag,
// repetition count, constant expression, constant form, module-level
// constructor), exhaustively enumerated integer programs with the value the
// reference evaluator computes, and -simulate behaviours (random mixes and
// deeper integer programs). Each program is replayed through the real API
// (harness/props/schema.BuildProg) and
//
//	(1) no constructor may panic on its own type check; String() must not panic;
//	(2) LLVM must accept the printed text; it must denote the module the
//	    program describes: llvm-as|llvm-dis of the printed text equals
//	    llvm-as|llvm-dis of the text rendered from the Schema templates
//	    (translation validation; if LLVM rejects the template text the program
//	    is discarded as a specification error, never reported);
//	(3) asm.ParseString accepts the text and re-printing gives the same text;
//	(4) executable programs: lli's exit status equals the evaluator's value.
package c03

import (
	"fmt"
	"math/rand"
	"os"
	"path/filepath"
	"regexp"
	"sort"
	"strings"
	"sync"
	"time"

	"github.com/llir/llvm/asm"
	"github.com/llir/llvm/ir"

	"verif/harness/llvmoracle"
	"verif/harness/mbt"
	"verif/harness/props/reg"
	"verif/harness/props/schema"
)

func init() { reg.Register("C03", Run) }

type outcome struct {
	prog        *schema.Prog
	sig, what   string // failure, if any
	discard     string // specification-side problem: program not judged
	disagree    bool   // a differing output was examined
	skippedExec bool   // executable, but the expected exit status is ambiguous (124)
	libText     string
	specText    string
	kinds       []string
}

var reOpcode = regexp.MustCompile(`(?:= |^\s*)(?:tail |notail |musttail )?([a-z_]+)`)

// firstDiff returns the first differing line pair of two texts.
func firstDiff(a, b string) (string, string) {
	la, lb := strings.Split(a, "\n"), strings.Split(b, "\n")
	for i := 0; i < len(la) || i < len(lb); i++ {
		x, y := "", ""
		if i < len(la) {
			x = la[i]
		}
		if i < len(lb) {
			y = lb[i]
		}
		if x != y {
			return x, y
		}
	}
	return "", ""
}

var reTypeDef = regexp.MustCompile(`^%\S+ = type `)

// sortTypeDefs sorts the type-definition lines of a module text.
func sortTypeDefs(text string) string {
	var defs, rest []string
	for _, l := range strings.Split(text, "\n") {
		if reTypeDef.MatchString(l) {
			defs = append(defs, l)
		} else {
			rest = append(rest, l)
		}
	}
	sort.Strings(defs)
	return strings.Join(append(defs, rest...), "\n")
}

func opcodeOf(line string) string {
	line = strings.TrimSpace(line)
	if strings.HasPrefix(line, "@") {
		return "global"
	}
	if strings.HasPrefix(line, "define") || strings.HasPrefix(line, "declare") {
		return "function-header"
	}
	if m := reOpcode.FindStringSubmatch(line); m != nil {
		return m[1]
	}
	return "line"
}

// subject names what a program is about, for signatures: the kind under test for the coverage
// families, the opcode of the first differing / offending line otherwise.
func subject(p *schema.Prog, line string) string {
	if p.Fam == "cover" || p.Fam == "cexpr" {
		// id = cat:kind/fam/cls/...
		parts := strings.SplitN(p.ID, "/", 4)
		if len(parts) >= 3 {
			return parts[0] + "|" + parts[2]
		}
	}
	if p.Fam == "hist" && p.Hist != nil {
		return "hist:" + p.Hist.Pattern() // the step names of the history; positions and observers are not part of the signature
	}
	if p.Fam == "const" || p.Fam == "module" {
		if k := strings.Index(p.ID, "/"); k > 0 {
			return p.ID[:k] // the creation order of mod:unnamed/<order> is not part of the signature
		}
		return p.ID
	}
	return p.Fam + ":" + opcodeOf(line)
}

var reLLVMErrLine = regexp.MustCompile(`<stdin>:(\d+):`)

func offendingLine(text, diag string) string {
	if m := reLLVMErrLine.FindStringSubmatch(diag); m != nil {
		var n int
		fmt.Sscan(m[1], &n)
		ls := strings.Split(text, "\n")
		if n >= 1 && n <= len(ls) {
			return ls[n-1]
		}
	}
	// verifier errors quote the instruction
	ls := strings.Split(diag, "\n")
	if len(ls) > 1 {
		return ls[1]
	}
	return ""
}

var reLocalTok = regexp.MustCompile(`%[A-Za-z_][A-Za-z0-9_.]*`)
var reUndefType = regexp.MustCompile(`use of undefined type named '([^']+)'`)
var reDefType = regexp.MustCompile(`'([%@][^']+)' defined with type '([^']+)' but expected '([^']+)'`)
var reDigits = regexp.MustCompile(`\b\d+ x |\(\d+\)`)

// wrongResultType recognises LLVM's "defined with type A but expected B" and names the opcode of the
// defining instruction; numbers in the types are abstracted.
func wrongResultType(text, diag string) (def, llvmTy, libTy string, ok bool) {
	m := reDefType.FindStringSubmatch(diag)
	if m == nil {
		return "", "", "", false
	}
	for _, l := range strings.Split(text, "\n") {
		l = strings.TrimSpace(l)
		if strings.HasPrefix(l, m[1]+" = ") {
			abs := func(t string) string {
				return reDigits.ReplaceAllStringFunc(t, func(x string) string {
					if strings.HasPrefix(x, "(") {
						return "(N)"
					}
					return "N x "
				})
			}
			from, to := abs(m[2]), abs(m[3])
			if strings.ReplaceAll(from, " addrspace(N)", "") == to { // only the address space differs: one signature for all pointee types
				from, to = "T addrspace(N)*", "T*"
			}
			return opcodeOf(l), from, to, true
		}
	}
	return "", "", "", false
}

func normDiag(d string) string {
	d = strings.Split(d, "\n")[0]
	d = regexp.MustCompile(`<stdin>:\d+:\d+: `).ReplaceAllString(d, "")
	d = regexp.MustCompile(`'[^']*'`).ReplaceAllString(d, "'_'")
	d = regexp.MustCompile(`[%@][-a-zA-Z$._0-9]+`).ReplaceAllString(d, "_")
	d = regexp.MustCompile(`\d+`).ReplaceAllString(d, "N")
	return mbt.Truncate(d, 80)
}

// evaluate runs one program through the real API and all oracles.
func evaluate(tabs *schema.Tables, p *schema.Prog, full bool) (o outcome) {
	o.prog = p
	var bt *schema.Built
	cur := ""
	build := schema.BuildProgTracked
	if p.Hist != nil {
		build = schema.BuildHist // construct, then print / edit as the history says; the module after the history is judged
	}
	if msg, pn := mbt.Guard(func() { bt = build(p, &cur) }); pn {
		if strings.Contains(msg, "spec gap") || strings.HasPrefix(msg, "schema:") {
			o.discard = "harness: " + msg
			return
		}
		o.sig = "C03|constructor|" + cur + "|panics-on-well-typed-operands"
		o.what = fmt.Sprintf("the constructor call %s of program %s panics although its operands are well-typed: %s\n--- the program, rendered from the Schema templates:\n%s", cur, p.ID, mbt.Truncate(msg, 300), schema.RenderProg(tabs, p))
		return
	}
	if msg, pn := mbt.Guard(func() { o.libText = bt.M.String() }); pn {
		o.sig = "C03|print|" + subject(p, "") + "|String-panics"
		o.what = fmt.Sprintf("Module.String() of program %s panics: %s", p.ID, mbt.Truncate(msg, 300))
		return
	}
	o.specText = schema.RenderProg(tabs, p)
	// every %identifier of the printed module must be one the program introduces (the template
	// rendering has them all): a foreign one is state leaking in from a program built earlier
	for _, tok := range reLocalTok.FindAllString(o.libText, -1) {
		if !strings.Contains(o.specText, tok) {
			o.disagree = true
			o.sig = "C03|isolation|identifier-of-another-program-in-the-printed-module"
			o.what = fmt.Sprintf("the printed module of program %s mentions %s, which the program never introduces (a constructor call of another program built earlier in the process changed shared state, e.g. NewTypeDef renaming a shared type)\n--- printed:\n%s--- constructed:\n%s", p.ID, tok, o.libText, o.specText)
			return
		}
	}
	if full {
		// LLVM 14 accepts and verifies a basic block passed as a call argument or bundle input, but its
		// bitcode cannot hold one (llvm-dis: "Invalid record"): such programs are judged by llvm-as'
		// verdict and the library's parser only, not by the llvm-dis comparison
		noDis := strings.Contains(p.ID, "/labelarg/")
		canon := llvmoracle.Canon
		if noDis {
			canon = func(text string) (string, bool, string) {
				ok, diag := llvmoracle.Accepts(text)
				return "", ok, diag
			}
		}
		canonSpec, ok, diag := canon(o.specText)
		if !ok {
			o.discard = "LLVM rejects the template rendering: " + strings.Split(diag, "\n")[0]
			return
		}
		canonLib, ok, diag := canon(o.libText)
		if !ok {
			o.disagree = true
			line := offendingLine(o.libText, diag)
			if def, from, to, ok := wrongResultType(o.libText, diag); ok {
				// a value is used with a type other than the one LLVM derives for its definition:
				// the library computed (and cached) a wrong result type for the defining instruction
				o.sig = "C03|result-type|" + def + "|LLVM: " + from + ", library: " + to
				o.what = fmt.Sprintf("the library types the result of %s as %s where LLVM derives %s, so a later use does not verify: %s\n--- printed:\n%s", def, to, from, mbt.Truncate(diag, 300), o.libText)
				return
			}
			if m := reUndefType.FindStringSubmatch(diag); m != nil && !strings.Contains(o.specText, "%"+m[1]+" = type") {
				// the printed module uses a type name that this program never defined
				o.sig = "C03|isolation|type-name-defined-by-another-program-leaks"
				o.what = fmt.Sprintf("program %s never defines %%%s, yet its printed module uses it (a type definition of another module built earlier in the process renamed a shared type): %s\n--- printed:\n%s", p.ID, m[1], mbt.Truncate(diag, 200), o.libText)
				return
			}
			o.sig = "C03|llvm-as|" + subject(p, line) + "|rejected|" + normDiag(diag)
			o.what = fmt.Sprintf("LLVM rejects the printed module of program %s: %s\n--- printed:\n%s--- the same program rendered from the Schema templates (accepted by LLVM):\n%s", p.ID, mbt.Truncate(diag, 300), o.libText, o.specText)
			return
		}
		if canonLib != canonSpec {
			o.disagree = true
			x, y := firstDiff(canonLib, canonSpec)
			o.sig = "C03|faithful|" + subject(p, y) + "|denotes-a-different-module"
			o.what = fmt.Sprintf("the printed module of program %s does not denote what was constructed; first difference under llvm-as|llvm-dis:\n  printed:     %s\n  constructed: %s\n--- printed:\n%s", p.ID, x, y, o.libText)
			return
		}
		// the library's own parser
		var m2 *ir.Module
		var err error
		if msg, pn := mbt.Guard(func() { m2, err = asm.ParseString("prog.ll", o.libText) }); pn || err != nil {
			if err != nil {
				msg = err.Error()
			}
			o.sig = "C03|reparse|" + subject(p, "") + "|rejected-by-asm"
			o.what = fmt.Sprintf("asm.ParseString rejects the printed module of program %s: %s\n--- printed:\n%s", p.ID, mbt.Truncate(msg, 300), o.libText)
			return
		}
		var again string
		if msg, pn := mbt.Guard(func() { again = m2.String() }); pn {
			o.sig = "C03|reparse|" + subject(p, "") + "|reprint-panics"
			o.what = fmt.Sprintf("printing the re-parsed module of program %s panics: %s", p.ID, mbt.Truncate(msg, 300))
			return
		}
		// the order of type definitions carries no meaning (the parser sorts them, a builder keeps call order)
		if sortTypeDefs(again) != sortTypeDefs(o.libText) {
			x, y := firstDiff(sortTypeDefs(o.libText), sortTypeDefs(again))
			o.sig = "C03|reparse|" + subject(p, x) + "|reprint-differs"
			o.what = fmt.Sprintf("re-parsing and re-printing program %s changes the text:\n  printed:    %s\n  re-printed: %s", p.ID, x, y)
			return
		}
	}
	if p.Exec && p.Want == 124 {
		// llvmoracle.Lli cannot tell exit status 124 from a timeout of its `timeout` wrapper
		o.skippedExec = true
	} else if p.Exec {
		got, ok, diag := llvmoracle.Lli(o.libText)
		if !ok || got != p.Want {
			// is the reference right? run the template rendering
			sgot, sok, sdiag := llvmoracle.Lli(o.specText)
			if !sok || sgot != p.Want {
				o.discard = fmt.Sprintf("the evaluator of Build.tla says %d, LLVM computes %d for the template rendering (%s)", p.Want, sgot, sdiag)
				return
			}
			o.disagree = true
			body := ""
			if len(p.Fn.Blocks) > 0 && len(p.Fn.Blocks[0].Insts) > 0 {
				body = p.Fn.Blocks[0].Insts[0].Kind
			}
			if !ok {
				o.sig = "C03|execute|exec:" + body + "|lli-rejects"
				o.what = fmt.Sprintf("lli cannot run the printed module: %s\n%s", mbt.Truncate(diag, 300), o.libText)
				return
			}
			o.sig = "C03|execute|exec:" + body + "|wrong-result"
			o.what = fmt.Sprintf("executing the printed module gives %d, the construction calls imply %d (LLVM agrees on the template rendering)\n--- printed:\n%s--- constructed:\n%s", got, p.Want, o.libText, o.specText)
		}
	}
	return
}

type canary struct {
	p     *schema.Prog
	first string
}

// printAlone builds the program and returns its text ("panic: ..." if building or printing panics).
func printAlone(p *schema.Prog) (text string) {
	if msg, pn := mbt.Guard(func() { text = schema.BuildProg(p).M.String() }); pn {
		return "panic: " + msg
	}
	return text
}

func kindsOf(p *schema.Prog) []string {
	var ks []string
	for bi := range p.Fn.Blocks {
		for ii := range p.Fn.Blocks[bi].Insts {
			ks = append(ks, p.Fn.Blocks[bi].Insts[ii].Kind)
		}
		ks = append(ks, p.Fn.Blocks[bi].Term.Kind)
	}
	return ks
}

type stats struct {
	mu         sync.Mutex
	programs   int
	discards   map[string]int
	disagree   int
	kinds      map[string]int
	exec       int
	execUB     int
	skipped124 int
	byFam      map[string]int
	discardEx  []string
}

func runAll(rep *mbt.Report, tabs *schema.Tables, progs []schema.Prog, full func(p *schema.Prog) bool, st *stats) {
	t0 := time.Now()
	defer func() {
		if len(progs) > 0 {
			fmt.Printf("stage %s: %d programs in %.1fs\n", progs[0].Fam, len(progs), time.Since(t0).Seconds())
		}
	}()
	outs := make([]outcome, len(progs))
	llvmoracle.Parallel(len(progs), func(i int) { outs[i] = evaluate(tabs, &progs[i], full(&progs[i])) })
	for i := range outs {
		o := &outs[i]
		p := o.prog
		key := p.Fam + ":" + p.ID
		if p.Fam == "exec" || p.Fam == "mix" {
			key = p.Fam + ":" + o.specText
		}
		rep.Count(key, true)
		st.programs++
		st.byFam[p.Fam]++
		for _, k := range kindsOf(p) {
			st.kinds[k]++
		}
		if p.Exec && !o.skippedExec {
			st.exec++
		}
		if o.skippedExec {
			st.skipped124++
		}
		if p.UB {
			st.execUB++
		}
		if o.disagree {
			st.disagree++
		}
		if o.discard != "" {
			st.discards[p.Fam]++
			st.disagree++
			if len(st.discardEx) < 8 {
				st.discardEx = append(st.discardEx, p.ID+": "+mbt.Truncate(o.discard, 200))
			}
			continue
		}
		if o.sig != "" {
			rep.Fail(mbt.Failure{Signature: o.sig, What: o.what, Case: p})
		}
	}
	if len(outs) > 0 {
		o := outs[len(outs)/2]
		rep.Sample(map[string]interface{}{"program": o.prog.ID, "family": o.prog.Fam, "printed": mbt.Truncate(o.libText, 600), "exec": o.prog.Exec, "want": o.prog.Want})
	}
}

func tlcProgs(rep *mbt.Report, o mbt.TLCOpts) []schema.Prog {
	o.Spec, o.Workers = "Build", 1
	if o.Timeout == 0 {
		o.Timeout = 20 * time.Minute
	}
	t := mbt.MustTLC(o)
	defer t.Cleanup()
	if len(t.Violated) > 0 {
		mbt.Infra("Build.tla (%s) violates %v: specification error\n%s", o.Cfg, t.Violated, mbt.Truncate(t.Output, 3000))
	}
	rep.AddTLC(t)
	progs, err := mbt.ReadNDJSON[schema.Prog](filepath.Join(t.Dir, "progs.ndjson"))
	if err != nil {
		mbt.Infra("progs.ndjson: %v", err)
	}
	return progs
}

// Run is the C03 check.
func Run(tier, replay string) {
	llvmoracle.Require()
	rep := mbt.NewReport("C03", tier, "translation_validation")
	rep.Rule = "construction programs generated by Build.tla, replayed through the public constructors and judged by LLVM (llvm-as, llvm-dis comparison with the Schema-template rendering, lli) and by the library's own parser; distinct = distinct programs"
	rng := rand.New(rand.NewSource(mbt.Seed()))
	thorough := tier == "thorough"

	// the tables
	t := mbt.MustTLC(mbt.TLCOpts{Spec: "SchemaEnum", Cfg: "SchemaEnum.cfg", Workers: 1, Consts: map[string]string{"WithCExprs": "TRUE"}})
	if len(t.Violated) > 0 {
		mbt.Infra("SchemaEnum: table inconsistency %v", t.Violated)
	}
	var tabs schema.Tables
	if err := mbt.ReadJSON(filepath.Join(t.Dir, "schema.json"), &tabs); err != nil {
		mbt.Infra("schema.json: %v", err)
	}
	t.Cleanup()
	st := &stats{discards: map[string]int{}, kinds: map[string]int{}, byFam: map[string]int{}}
	all := func(*schema.Prog) bool { return true }

	if replay != "" {
		var rf struct {
			Failures []struct {
				Case *schema.Prog `json:"case"`
			} `json:"failures"`
		}
		if err := mbt.ReadJSON(replay, &rf); err != nil {
			mbt.Infra("replay %s: %v", replay, err)
		}
		var ps []schema.Prog
		for _, f := range rf.Failures {
			if f.Case != nil {
				ps = append(ps, *f.Case)
			}
		}
		runAll(rep, &tabs, ps, all, st)
		rep.Programs = st.programs
		rep.Finish()
	}

	stages := os.Getenv("VERIF_C03_STAGES") // development aid: comma-separated subset of cover,hist,exec,execsim,mix
	on := func(s string) bool { return stages == "" || strings.Contains(","+stages+",", ","+s+",") }

	// coverage family: exhaustive
	var canaries []canary
	if on("cover") {
		cover := tlcProgs(rep, mbt.TLCOpts{Cfg: "BuildCover.cfg"})
		// isolation law, first pass: a sample of programs is built and printed before anything else
		// has been constructed in this process
		for i := range cover {
			if i%20 == 0 || cover[i].Fam == "module" {
				canaries = append(canaries, canary{p: &cover[i], first: printAlone(&cover[i])})
			}
		}
		runAll(rep, &tabs, cover, all, st)
	}

	// histories (construct, print, edit, print): every single edit after every kind of observer,
	// and seeded behaviours of up to three edits
	if on("hist") {
		h1 := tlcProgs(rep, mbt.TLCOpts{Cfg: "BuildHist.cfg"})
		runAll(rep, &tabs, h1, all, st)
		nHist := 60
		if thorough {
			nHist = 400
		}
		hr := tlcProgs(rep, mbt.TLCOpts{Cfg: "BuildHistSim.cfg", Simulate: fmt.Sprintf("num=%d", nHist), Depth: 5})
		runAll(rep, &tabs, hr, all, st)
	}

	// executable integer programs: exhaustive at depth 1 over boundary constants
	consts := map[string]string{"ExecWidths": "{1, 8, 32}"}
	if thorough {
		consts = map[string]string{"ExecWidths": "{1, 8, 16, 32, 64}", "BoundarySmall": "FALSE"}
	}
	var exec1 []schema.Prog
	if on("exec") {
		exec1 = tlcProgs(rep, mbt.TLCOpts{Cfg: "BuildExec.cfg", Consts: consts, Timeout: 30 * time.Minute})
	}
	// every 16th of these also goes through the LLVM comparison and the parser (their kinds are in the coverage family)
	pick := map[*schema.Prog]bool{}
	for i := range exec1 {
		if rng.Intn(16) == 0 {
			pick[&exec1[i]] = true
		}
	}
	runAll(rep, &tabs, exec1, func(p *schema.Prog) bool { return pick[p] }, st)

	// random behaviours: deeper integer programs and mixes of all context-free kinds
	nExec, nMix := 100, 80
	if thorough {
		nExec, nMix = 1500, 600
	}
	if on("execsim") {
		execR := tlcProgs(rep, mbt.TLCOpts{Cfg: "BuildExecSim.cfg", Simulate: fmt.Sprintf("num=%d", nExec), Depth: 7})
		runAll(rep, &tabs, execR, func(p *schema.Prog) bool { return len(p.Fn.Blocks[0].Insts)%4 == 0 }, st)
	}
	if on("mix") {
		mix := tlcProgs(rep, mbt.TLCOpts{Cfg: "BuildMix.cfg", Simulate: fmt.Sprintf("num=%d", nMix), Depth: 7})
		runAll(rep, &tabs, mix, all, st)
	}

	// isolation law, second pass: the same programs built again after every other program of the run;
	// the text of a program must not depend on what was constructed before it in the same process
	for _, c := range canaries {
		again := printAlone(c.p)
		rep.Count("isolation:"+c.p.ID, true)
		if again != c.first {
			x, y := firstDiff(c.first, again)
			st.disagree++
			rep.Fail(mbt.Failure{Signature: "C03|isolation|" + c.p.Fam + "|text-depends-on-programs-built-earlier-in-the-process",
				What: fmt.Sprintf("program %s printed %q when built first in the process and prints %q when built again after the other %d programs of the run: some constructor mutated shared state",
					c.p.ID, x, y, st.programs),
				Case: c.p})
		}
	}
	rep.Extra["isolation_law_programs_built_twice"] = len(canaries)

	// a discarded program is a specification error; too many make the run worthless
	nd := 0
	for _, n := range st.discards {
		nd += n
	}
	if nd*50 > st.programs {
		mbt.Infra("%d of %d programs were discarded as specification errors (>2%%): %v", nd, st.programs, st.discardEx)
	}
	missing := []string{}
	for i := range tabs.Kinds {
		if st.kinds[tabs.Kinds[i].Kind] == 0 {
			missing = append(missing, tabs.Kinds[i].Kind)
		}
	}
	if len(missing) > 0 && stages == "" {
		mbt.Infra("kinds never constructed: %v", missing)
	}
	rep.Programs = st.programs
	rep.Disagreements = st.disagree
	rep.TracesValidated = st.programs - nd
	rep.Extra["programs_by_family"] = st.byFam
	rep.Extra["executed_programs"] = st.exec
	rep.Extra["programs_with_undefined_behaviour_not_executed"] = st.execUB
	rep.Extra["programs_not_executed_expected_status_124_ambiguous_with_timeout"] = st.skipped124
	rep.Extra["discarded_spec_errors"] = st.discards
	rep.Extra["discarded_examples"] = st.discardEx
	rep.Extra["kinds_constructed"] = len(st.kinds)
	ks := make([]string, 0, len(st.kinds))
	for k := range st.kinds {
		ks = append(ks, k)
	}
	sort.Strings(ks)
	rep.Extra["constant_expression_kinds"] = len(tabs.CExprs)
	rep.Exhaustive = false
	rep.Explanation = "the coverage family and the depth-1 integer programs are enumerated completely; deeper programs and mixes are seeded random behaviours of Build.tla"
	rep.Assumptions = []string{
		"LLVM 14 (llvm-as, llvm-dis, lli) arbitrates validity, meaning and execution; equal llvm-dis output is taken as 'denotes the same module'",
		"the Schema templates and the typing of Build.tla are themselves validated by LLVM on every program (rejected renderings and evaluator/lli disagreements are discarded and counted, >2% aborts with exit 2)",
		"optional fields without a constructor parameter (flags, alignment, address space, orderings, attributes) are set through the exported struct fields, as the package documentation prescribes",
	}
	rep.Finish()
}
