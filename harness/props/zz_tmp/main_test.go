package t
import (
	"testing"
	"time"
	"fmt"
	"verif/harness/mbt"
	"verif/harness/props/modgen"
	"verif/harness/props/corpus"
	"github.com/llir/llvm/asm"
)
func TestX(t *testing.T) {
	rep := mbt.NewReport("C13", "quick", "model_checking")
	t0 := time.Now()
	vs := modgen.Generate(rep, "*")
	n, bytes, ok := 0, 0, 0
	for _, v := range vs { if v.Repr { n++; tx := v.Text(); bytes += len(tx); if _, err := asm.ParseString("x", tx); err == nil { ok++ } } }
	fmt.Println("modgen", len(vs), n, ok, bytes, time.Since(t0))
	t0 = time.Now()
	cl := corpus.Clang("-O1 -g")
	for _, c := range cl { fmt.Println(c.Name, len(c.Text)) }
	fmt.Println(time.Since(t0))
	td := corpus.Testdata()
	fmt.Println("testdata", len(td))
}
