// Package c04 checks property C04: every reference in a parsed module is the
// object that defines it.
package c04

import (
	"fmt"
	"os"
	"path/filepath"
	"sort"
	"strings"
	"time"

	"verif/harness/llvmoracle"
	"verif/harness/mbt"
	"verif/harness/props/corpus"
	"verif/harness/props/irwalk"
	"verif/harness/props/modgen"
	"verif/harness/props/reg"
	"verif/harness/props/trcheck"
	"verif/harness/props/trsrc"
)

func init() { reg.Register("C04", Run) }

// shape is a stable description of a source: the kinds of its entities, sorted.
func shape(src []trsrc.Entity) string {
	var ks []string
	for _, e := range src {
		k := e.K
		if e.Body != "" {
			k += ":" + e.Body
		}
		ks = append(ks, k)
	}
	sort.Strings(ks)
	return strings.Join(ks, ",")
}

func walkText(rep *mbt.Report, origin, label, text string) {
	m, err, p := trcheck.ParseReal(label, text)
	if p != "" || err != nil || m == nil {
		return // acceptance is C01/C05's business
	}
	issues, st := irwalk.Check(m)
	rep.Count("walk:"+text, st.Refs > 0)
	rep.TracesValidated++
	refs := rep.Extra["references_checked"].(int)
	rep.Extra["references_checked"] = refs + st.Refs
	for _, is := range issues {
		rep.Fail(mbt.Failure{Signature: "C04|" + is.Kind + "|" + origin, What: is.String() + " — input " + label, Case: map[string]string{"src": text}})
	}
}

// Run is the C04 check.
func Run(tier, replay string) {
	rep := mbt.NewReport("C04", tier, "model_checking")
	rep.Extra["references_checked"] = 0
	rep.Rule = "a case is a parsed module whose object graph was walked by reflection (every reachable global, local, named type, comdat, attribute group and numbered metadata node compared by pointer with the definition lists; parent links; placeholder blocks); sources: TLC vectors of Translate.tla (reference patterns x permutations), repository test inputs, seeded llvm-stress programs, and the printed form of each"
	if replay != "" {
		var rf struct {
			Failures []struct {
				Case map[string]string `json:"case"`
			} `json:"failures"`
		}
		if err := mbt.ReadJSON(replay, &rf); err != nil {
			mbt.Infra("replay: %v", err)
		}
		for _, f := range rf.Failures {
			walkText(rep, "replay", "replay.ll", f.Case["src"])
		}
		rep.Finish()
	}
	// (S)+(G): the model holds RefIdentity / NoDummyLeft / ScaffoldBeforeUse on every processing order;
	// its sources are replayed into the real parser.
	permAll := 4
	if tier == "thorough" {
		permAll = 6
	}
	vs := trcheck.Generate(rep, "perms", permAll)
	cs := trcheck.Run(vs)
	discarded := 0
	for _, c := range cs {
		if c.Want.St != "ok" {
			continue
		}
		if !c.LLVMOK {
			discarded++
			continue
		}
		if len(rep.Samples) < 3 {
			rep.Sample(map[string]interface{}{"src": c.Text, "picks_of_model": c.Picks})
		}
		switch {
		case c.Panic != "":
			rep.Fail(mbt.Failure{Signature: "C04|parse-panic|" + shape(c.Src), What: "parser panics on a valid reference pattern: " + c.Panic, Case: map[string]string{"src": c.Text}})
			continue
		case c.Err != nil:
			rep.Fail(mbt.Failure{Signature: "C04|parse-error|" + shape(c.Src), What: "parser rejects a valid reference pattern: " + c.Err.Error(), Case: map[string]string{"src": c.Text}})
			continue
		case c.PrintPanic != "":
			rep.Fail(mbt.Failure{Signature: "C04|print-panic|" + shape(c.Src), What: "printing the parsed pattern panics: " + c.PrintPanic, Case: map[string]string{"src": c.Text}})
		}
		walkText(rep, "pattern", "vector.ll", c.Text)
		if c.Printed != "" {
			walkText(rep, "pattern-printed", "vector-printed.ll", c.Printed)
		}
	}
	if discarded*10 > len(cs) {
		mbt.Infra("LLVM rejects %d of %d reference patterns: renderer or patterns are off", discarded, len(cs))
	}
	rep.Extra["pattern_sources"] = len(cs)
	rep.Extra["patterns_discarded_by_llvm"] = discarded
	// type aliases: accepted by the parser, unknown to LLVM
	for _, c := range trcheck.Run(trcheck.Generate(rep, "alias", 3)) {
		if c.Want.St == "ok" && c.Mod != nil {
			walkText(rep, "type-alias", "alias.ll", c.Text)
		}
	}
	// (T) the same walk on other parsed modules
	var files []string
	for _, g := range []string{"testdata/*.ll", "asm/testdata/*.ll", "ir/testdata/*.ll"} {
		fs, _ := filepath.Glob(filepath.Join(mbt.Repo, g))
		files = append(files, fs...)
	}
	sort.Strings(files)
	for _, f := range files {
		b, err := os.ReadFile(f)
		if err != nil {
			continue
		}
		walkText(rep, "testdata", filepath.Base(f), string(b))
	}
	nStress := 30
	if tier == "thorough" {
		nStress = 300
	}
	texts := make([]string, nStress)
	llvmoracle.Parallel(nStress, func(i int) {
		out, _, code, err := mbt.Tool(nil, 60*time.Second, "llvm-stress", "-size=120", fmt.Sprintf("-seed=%d", mbt.Seed()*1000+int64(i)))
		if err == nil && code == 0 {
			texts[i] = string(out)
		}
	})
	for i, t := range texts {
		if t != "" {
			walkText(rep, "llvm-stress", fmt.Sprintf("stress-%d.ll", i), t)
		}
	}
	// clang output (debug info, exceptions, TLS, ifunc ...) and the Modules.tla feature matrix
	for _, in := range corpus.Clang("-O0", "-O2 -g") {
		walkText(rep, "clang", in.Name, in.Text)
	}
	for _, v := range modgen.Generate(rep, "*") {
		if v.Repr && v.Fam != "spell" {
			walkText(rep, "modules-tla", v.Label(), v.Text())
		}
	}
	viol := trcheck.AsImplementedViolations(rep, "alias")
	rep.Extra["model_as_implemented_violates"] = viol
	rep.Assumptions = []string{"identity is judged by the reflection walk of harness/props/irwalk over exported fields; objects reachable only through unexported fields are not seen",
		"the model's reference patterns are those of TranslateSrc.tla; LLVM 14 confirms each is valid"}
	rep.Finish()
}
