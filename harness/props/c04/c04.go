// Package c04 checks property C04 (not built yet).
package c04

import (
	"verif/harness/mbt"
	"verif/harness/props/reg"
)

func init() { reg.Register("C04", Run) }

// Run is the C04 check.
func Run(tier, replay string) { mbt.Infra("check C04 is not built yet") }
