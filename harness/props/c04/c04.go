// Package c04 checks property C04: every reference in a parsed module is the
// object that defines it.
package c04

import (
	"fmt"
	"github.com/llir/llvm/ir"
	"os"
	"path/filepath"
	"sort"
	"strings"
	"time"

	"verif/harness/llvmoracle"
	"verif/harness/mbt"
	"verif/harness/props/corpus"
	"verif/harness/props/irwalk"
	"verif/harness/props/modgen"
	"verif/harness/props/reg"
	"verif/harness/props/trcheck"
	"verif/harness/props/trsrc"
)

func init() { reg.Register("C04", Run) }

// shape is a stable description of a source: the kinds of its entities, sorted.
func shape(src []trsrc.Entity) string {
	var ks []string
	for _, e := range src {
		k := e.K
		if e.Body != "" {
			k += ":" + e.Body
		}
		ks = append(ks, k)
	}
	sort.Strings(ks)
	return strings.Join(ks, ",")
}

// wantUses counts, per definition of the abstract source, the references the source makes to it
// (keys "glob:<key>", "comdat:<name>", "md:<id>", "block:<func key>/<block>").
func wantUses(src []trsrc.Entity) map[string]int {
	want := map[string]int{}
	keys := trsrc.Keys(src)
	for i, e := range src {
		switch {
		case e.K == "global" || e.K == "alias" || e.K == "ifunc" || e.K == "func":
			want["glob:"+keys[i]] += 0
			for _, l := range e.Locals {
				if l.LK == "block" && l.N != "" {
					want["block:"+keys[i]+"/"+l.N] += 0
				}
				if l.LK == "block" && l.N == "" {
					want["block:"+keys[i]+"/n0"] += 0 // the patterns have at most one unnamed block per function: %0
				}
			}
		case e.K == "comdat":
			want["comdat:"+e.N] += 0
		case e.K == "md":
			want["md:"+e.N] += 0
		}
	}
	add := func(x trsrc.Ref) {
		switch trsrc.RefClass(x.RK) {
		case "glob":
			want["glob:"+x.To]++
		case "comdat":
			want["comdat:"+x.To]++
		case "md":
			want["md:"+x.To]++
		case "block":
			want["glob:"+x.To]++
			want["block:"+x.To+"/"+x.Aux]++
		}
	}
	for _, e := range src {
		for _, x := range e.Refs {
			add(x)
		}
		for _, l := range e.Locals {
			for _, x := range l.Refs {
				add(x)
			}
		}
	}
	return want
}

// gotUses maps the use counts of the walk to the same keys.
func gotUses(m *ir.Module, uses map[interface{}]int) map[string]int {
	got := map[string]int{}
	gkey := func(named bool, name string, id int64) string {
		if named {
			return name
		}
		return fmt.Sprintf("@%d", id)
	}
	for _, g := range m.Globals {
		got["glob:"+gkey(!g.IsUnnamed(), g.GlobalName, g.GlobalID)] = uses[g]
	}
	for _, g := range m.Aliases {
		got["glob:"+gkey(!g.IsUnnamed(), g.GlobalName, g.GlobalID)] = uses[g]
	}
	for _, g := range m.IFuncs {
		got["glob:"+gkey(!g.IsUnnamed(), g.GlobalName, g.GlobalID)] = uses[g]
	}
	for _, f := range m.Funcs {
		k := gkey(!f.IsUnnamed(), f.GlobalName, f.GlobalID)
		got["glob:"+k] = uses[f]
		for _, b := range f.Blocks {
			if !b.IsUnnamed() {
				got["block:"+k+"/"+b.LocalName] = uses[b]
			} else if b.LocalID == 0 {
				got["block:"+k+"/n0"] = uses[b]
			}
		}
	}
	for _, c := range m.ComdatDefs {
		got["comdat:"+c.Name] = uses[c]
	}
	for _, md := range m.MetadataDefs {
		got[fmt.Sprintf("md:%d", md.ID())] = uses[md]
	}
	return got
}

// renumbered renames the keys of the unnamed global entities the way printing renumbers them: in
// print-group order (variables, aliases, ifuncs, functions), textual order within a group.
func renumbered(src []trsrc.Entity, want map[string]int) map[string]int {
	keys := trsrc.Keys(src)
	rank := map[string]int{"global": 0, "alias": 1, "ifunc": 2, "func": 3}
	type un struct {
		key  string
		r, i int
	}
	var us []un
	for i, e := range src {
		if r, ok := rank[e.K]; ok && e.N == "" {
			us = append(us, un{keys[i], r, i})
		}
	}
	sort.Slice(us, func(a, b int) bool {
		if us[a].r != us[b].r {
			return us[a].r < us[b].r
		}
		return us[a].i < us[b].i
	})
	ren := map[string]string{}
	for k, u := range us {
		ren[u.key] = fmt.Sprintf("@%d", k)
	}
	out := map[string]int{}
	for k, n := range want {
		parts := strings.SplitN(k, ":", 2)
		name := parts[1]
		rest := ""
		if parts[0] == "block" {
			j := strings.Index(name, "/")
			name, rest = name[:j], name[j:]
		}
		if nn, ok := ren[name]; ok && (parts[0] == "glob" || parts[0] == "block") {
			name = nn
		}
		out[parts[0]+":"+name+rest] = n
	}
	return out
}

// useCounts compares, for a pattern of Translate.tla, the number of references the source makes to
// each definition with the number of references of the parsed module that are bound to the object
// listed as that definition: a reference bound to a look-alike, to another entity or to a fresh copy
// changes a count even where every object reached is, taken alone, a listed definition.
func useCounts(rep *mbt.Report, origin string, src []trsrc.Entity, label, text string, printed bool) {
	m, err, p := trcheck.ParseReal(label, text)
	if p != "" || err != nil || m == nil {
		return
	}
	_, st := irwalk.Check(m)
	want, got := wantUses(src), gotUses(m, st.Uses)
	if printed {
		want = renumbered(src, want)
	}
	var ks []string
	for k := range want {
		ks = append(ks, k)
	}
	sort.Strings(ks)
	n := rep.Extra["use_counts_compared"].(int)
	rep.Extra["use_counts_compared"] = n + len(ks)
	for _, k := range ks {
		g, listed := got[k]
		if !listed {
			rep.Fail(mbt.Failure{Signature: "C04|use-count|" + origin + "|definition not listed|" + strings.SplitN(k, ":", 2)[0], What: fmt.Sprintf("the source defines %s, the parsed module does not list it — input %s", k, label), Case: map[string]string{"src": text}})
			continue
		}
		if g != want[k] {
			rep.Fail(mbt.Failure{Signature: "C04|use-count|" + origin + "|" + strings.SplitN(k, ":", 2)[0], What: fmt.Sprintf("the source refers to %s %d time(s); %d reference(s) of the parsed module are bound to the object listed as that definition — input %s", k, want[k], g, label), Case: map[string]string{"src": text}})
		}
	}
}

func walkText(rep *mbt.Report, origin, label, text string) {
	m, err, p := trcheck.ParseReal(label, text)
	if p != "" || err != nil || m == nil {
		return // acceptance is C01/C05's business
	}
	issues, st := irwalk.Check(m)
	rep.Count("walk:"+text, st.Refs > 0)
	rep.TracesValidated++
	refs := rep.Extra["references_checked"].(int)
	rep.Extra["references_checked"] = refs + st.Refs
	for _, is := range issues {
		rep.Fail(mbt.Failure{Signature: "C04|" + is.Kind + "|" + origin, What: is.String() + " — input " + label, Case: map[string]string{"src": text}})
	}
}

// Run is the C04 check.
func Run(tier, replay string) {
	rep := mbt.NewReport("C04", tier, "model_checking")
	rep.Extra["references_checked"] = 0
	rep.Extra["use_counts_compared"] = 0
	rep.Rule = "a case is a parsed module whose object graph was walked by reflection (every reachable global, local, named type, comdat, attribute group and numbered metadata node compared by pointer with the definition lists; parent links; placeholder blocks); sources: TLC vectors of Translate.tla (reference patterns x permutations), repository test inputs, seeded llvm-stress programs, and the printed form of each"
	if replay != "" {
		var rf struct {
			Failures []struct {
				Case map[string]string `json:"case"`
			} `json:"failures"`
		}
		if err := mbt.ReadJSON(replay, &rf); err != nil {
			mbt.Infra("replay: %v", err)
		}
		for _, f := range rf.Failures {
			walkText(rep, "replay", "replay.ll", f.Case["src"])
		}
		rep.Finish()
	}
	// (S)+(G): the model holds RefIdentity / NoDummyLeft / ScaffoldBeforeUse on every processing order;
	// its sources are replayed into the real parser.
	permAll := 4
	if tier == "thorough" {
		permAll = 6
	}
	vs := trcheck.Generate(rep, "perms", permAll)
	vs = append(vs, trcheck.Generate(rep, "layouts", permAll)...)
	cs := trcheck.Run(vs)
	discarded := 0
	for _, c := range cs {
		if c.Want.St != "ok" {
			continue
		}
		if !c.LLVMOK {
			discarded++
			continue
		}
		if len(rep.Samples) < 3 {
			rep.Sample(map[string]interface{}{"src": c.Text, "picks_of_model": c.Picks})
		}
		switch {
		case c.Panic != "":
			rep.Fail(mbt.Failure{Signature: "C04|parse-panic|" + shape(c.Src), What: "parser panics on a valid reference pattern: " + c.Panic, Case: map[string]string{"src": c.Text}})
			continue
		case c.Err != nil:
			rep.Fail(mbt.Failure{Signature: "C04|parse-error|" + shape(c.Src), What: "parser rejects a valid reference pattern: " + c.Err.Error(), Case: map[string]string{"src": c.Text}})
			continue
		case c.PrintPanic != "":
			rep.Fail(mbt.Failure{Signature: "C04|print-panic|" + shape(c.Src), What: "printing the parsed pattern panics: " + c.PrintPanic, Case: map[string]string{"src": c.Text}})
		}
		walkText(rep, "pattern", "vector.ll", c.Text)
		useCounts(rep, "pattern", c.Src, "vector.ll", c.Text, false)
		if c.Printed != "" {
			walkText(rep, "pattern-printed", "vector-printed.ll", c.Printed)
			useCounts(rep, "pattern-printed", c.Src, "vector-printed.ll", c.Printed, true)
		}
	}
	if discarded*10 > len(cs) {
		mbt.Infra("LLVM rejects %d of %d reference patterns: renderer or patterns are off", discarded, len(cs))
	}
	rep.Extra["pattern_sources"] = len(cs)
	rep.Extra["patterns_discarded_by_llvm"] = discarded
	// type aliases: accepted by the parser, unknown to LLVM
	for _, c := range trcheck.Run(trcheck.Generate(rep, "alias", 3)) {
		if c.Want.St == "ok" && c.Mod != nil {
			walkText(rep, "type-alias", "alias.ll", c.Text)
		}
	}
	// (T) the same walk on other parsed modules
	var files []string
	for _, g := range []string{"testdata/*.ll", "asm/testdata/*.ll", "ir/testdata/*.ll"} {
		fs, _ := filepath.Glob(filepath.Join(mbt.Repo, g))
		files = append(files, fs...)
	}
	sort.Strings(files)
	for _, f := range files {
		b, err := os.ReadFile(f)
		if err != nil {
			continue
		}
		walkText(rep, "testdata", filepath.Base(f), string(b))
	}
	nStress := 30
	if tier == "thorough" {
		nStress = 300
	}
	texts := make([]string, nStress)
	llvmoracle.Parallel(nStress, func(i int) {
		out, _, code, err := mbt.Tool(nil, 60*time.Second, "llvm-stress", "-size=120", fmt.Sprintf("-seed=%d", mbt.Seed()*1000+int64(i)))
		if err == nil && code == 0 {
			texts[i] = string(out)
		}
	})
	for i, t := range texts {
		if t != "" {
			walkText(rep, "llvm-stress", fmt.Sprintf("stress-%d.ll", i), t)
		}
	}
	// many blockaddress constants from global initialisers, function bodies and metadata nodes: every one
	// must end up holding a block of the named function (parsed repeatedly: a fix-up lost to scheduling
	// leaves a placeholder in some parses only)
	for k := 0; k < 3; k++ {
		text := corpus.BlockAddrModule(8+12*k, 8)
		for r := 0; r < 8; r++ {
			walkText(rep, "blockaddress-heavy", fmt.Sprintf("blockaddress-%d-%d.ll", k, r), text)
		}
	}
	// clang output (debug info, exceptions, TLS, ifunc ...) and the Modules.tla feature matrix
	for _, in := range corpus.Clang("-O0", "-O2 -g") {
		walkText(rep, "clang", in.Name, in.Text)
	}
	for _, v := range modgen.Generate(rep, "*") {
		if v.Repr && v.Fam != "spell" {
			walkText(rep, "modules-tla", v.Label(), v.Text())
		}
	}
	viol := trcheck.AsImplementedViolations(rep, "alias")
	rep.Extra["model_as_implemented_violates"] = viol
	rep.Assumptions = []string{"identity is judged by the reflection walk of harness/props/irwalk over exported fields; objects reachable only through unexported fields are not seen",
		"the model's reference patterns are those of TranslateSrc.tla; LLVM 14 confirms each is valid"}
	rep.Finish()
}
