// Package reg is the registry of property checks.
package reg

import (
	"fmt"
	"os"
)

// Check runs one property check at the given tier ("quick" or "thorough").
// replay, when non-empty, is the path of a replay file to re-run instead.
type Check func(tier, replay string)

var checks = map[string]Check{}

// Register adds a check.
func Register(id string, c Check) { checks[id] = c }

// Get returns the check for id.
func Get(id string) (Check, bool) { c, ok := checks[id]; return c, ok }

// IDs lists registered ids.
func IDs() []string {
	var ids []string
	for k := range checks {
		ids = append(ids, k)
	}
	return ids
}

// Main is the body of every per-property command.
func Main(id string) {
	args := os.Args[1:]
	if len(args) < 1 {
		fmt.Println("usage: <quick|thorough> | --replay <file>")
		os.Exit(2)
	}
	tier, replay := args[0], ""
	if tier == "--replay" {
		if len(args) < 2 {
			fmt.Println("missing replay file")
			os.Exit(2)
		}
		tier, replay = "quick", args[1]
	}
	if tier != "quick" && tier != "thorough" {
		fmt.Println("tier must be quick or thorough")
		os.Exit(2)
	}
	c, ok := Get(id)
	if !ok {
		fmt.Println("INFRA-ERROR: unknown property", id)
		os.Exit(2)
	}
	c(tier, replay)
	fmt.Println("INFRA-ERROR: check returned without a verdict")
	os.Exit(2)
}
