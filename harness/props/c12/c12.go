// Package c12 checks property C12 (not built yet).
package c12

import (
	"verif/harness/mbt"
	"verif/harness/props/reg"
)

func init() { reg.Register("C12", Run) }

// Run is the C12 check.
func Run(tier, replay string) { mbt.Infra("check C12 is not built yet") }
