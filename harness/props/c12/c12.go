// Package c12 checks property C12: translation is deterministic.
package c12

import (
	"bytes"
	"crypto/sha256"
	"encoding/hex"
	"encoding/json"
	"fmt"
	"io"
	"math/rand"
	"os"
	"os/exec"
	"path/filepath"
	"reflect"
	"sort"
	"strings"
	"sync"
	"syscall"
	"testing/iotest"
	"time"

	"github.com/llir/llvm/asm"
	"github.com/llir/llvm/ir"
	"github.com/llir/llvm/ir/constant"
	"github.com/llir/llvm/ir/metadata"
	"github.com/llir/llvm/ir/types"

	"verif/harness/llvmoracle"
	"verif/harness/mbt"
	"verif/harness/props/corpus"
	"verif/harness/props/irwalk"
	"verif/harness/props/modgen"
	"verif/harness/props/reg"
	"verif/harness/props/trcheck"
	"verif/harness/props/trsrc"
)

func init() { reg.Register("C12", Run) }

// outcome of one parse: accept/reject, printed text, structural digest.
type outcome struct {
	Status string `json:"status"` // "ok", "err", "panic"
	Text   string `json:"text"`   // sha of printed text ("" unless ok)
	Digest string `json:"digest"`
}

func sha(s string) string {
	h := sha256.Sum256([]byte(s))
	return hex.EncodeToString(h[:])[:24]
}

func summarize(m *ir.Module, err error, p string) outcome {
	switch {
	case p != "":
		return outcome{Status: "panic"}
	case err != nil:
		return outcome{Status: "err"} // the message may legitimately depend on the processing order
	}
	var text string
	if msg, pp := mbt.Guard(func() { text = m.String() }); pp {
		return outcome{Status: "ok", Text: "print-panic:" + sha(msg)}
	}
	// the digest is taken after printing (printing assigns IDs; both sides are printed)
	return outcome{Status: "ok", Text: sha(text), Digest: irwalk.Digest(m)}
}

func parseString(text string) outcome {
	m, err, p := trcheck.ParseReal("in.ll", text)
	return summarize(m, err, p)
}

// the four entry points
func entryPoints(dir, text string) map[string]outcome {
	out := map[string]outcome{}
	out["ParseString"] = parseString(text)
	var m *ir.Module
	var err error
	p, _ := mbt.Guard(func() { m, err = asm.ParseBytes("in.ll", []byte(text)) })
	out["ParseBytes"] = summarize(m, err, p)
	m, err = nil, nil
	p, _ = mbt.Guard(func() { m, err = asm.Parse("in.ll", strings.NewReader(text)) })
	out["Parse"] = summarize(m, err, p)
	path := filepath.Join(dir, "in.ll")
	os.WriteFile(path, []byte(text), 0o644)
	m, err = nil, nil
	p, _ = mbt.Guard(func() { m, err = asm.ParseFile(path) })
	out["ParseFile"] = summarize(m, err, p)
	// readers that deliver the text in other pieces than one Read: one byte at a time, and with
	// (0, nil) results in between (allowed by io.Reader)
	m, err = nil, nil
	p, _ = mbt.Guard(func() { m, err = asm.Parse("in.ll", iotest.OneByteReader(strings.NewReader(text))) })
	out["Parse(one-byte reader)"] = summarize(m, err, p)
	m, err = nil, nil
	p, _ = mbt.Guard(func() { m, err = asm.Parse("in.ll", iotest.DataErrReader(iotest.HalfReader(strings.NewReader(text)))) })
	out["Parse(half reader, data+EOF)"] = summarize(m, err, p)
	// a path whose size is not known from Stat: a named pipe fed by another goroutine
	fifo := filepath.Join(dir, "in.fifo")
	os.Remove(fifo)
	if syscall.Mkfifo(fifo, 0o600) == nil {
		done := make(chan struct{})
		go func() {
			defer close(done)
			if w, e := os.OpenFile(fifo, os.O_WRONLY, 0); e == nil {
				io.WriteString(w, text)
				w.Close()
			}
		}()
		m, err = nil, nil
		p, _ = mbt.Guard(func() { m, err = asm.ParseFile(fifo) })
		out["ParseFile(named pipe)"] = summarize(m, err, p)
		select {
		case <-done:
		case <-time.After(10 * time.Second):
			// the parser never opened or never drained the pipe (the outcome above says so); release the writer
			if r, e := os.OpenFile(fifo, os.O_RDONLY|syscall.O_NONBLOCK, 0); e == nil {
				io.Copy(io.Discard, r)
				r.Close()
			}
		}
		os.Remove(fifo)
	}
	return out
}

// --- hook recording ---------------------------------------------------------

type event struct {
	Phase, Key string
}

var (
	hookMu  sync.Mutex
	hookRec map[interface{}][]event
)

func hookOn() {
	hookMu.Lock()
	hookRec = map[interface{}][]event{}
	hookMu.Unlock()
	asm.VerifHook = func(gen interface{}, phase, key string) {
		hookMu.Lock()
		hookRec[gen] = append(hookRec[gen], event{phase, key})
		hookMu.Unlock()
	}
}

func hookOff() [][]event {
	asm.VerifHook = nil
	hookMu.Lock()
	defer hookMu.Unlock()
	var out [][]event
	for _, evs := range hookRec {
		out = append(out, evs)
	}
	hookRec = nil
	return out
}

var phaseMap = map[string]string{
	"createType": "createType", "translateType": "translateType", "translateComdat": "translateComdat",
	"createGlobal": "createGlobal", "createAttrGroup": "createAttr", "createNamedMetadata": "createNmd",
	"createMetadata": "createMd", "translateGlobal": "translateGlobal", "translateAttrGroup": "translateAttr",
	"translateNamedMetadata": "translateNmd", "translateMetadata": "translateMd",
}

func modelKey(phase, key string) string {
	unq := func(k string) string {
		if len(k) >= 2 && k[0] == '"' && k[len(k)-1] == '"' {
			return k[1 : len(k)-1] // a name that has to be written quoted (`z z`, or digits only: `10`)
		}
		return k
	}
	switch phase {
	case "createGlobal", "translateGlobal":
		if len(key) > 1 && key[0] == '@' && (key[1] < '0' || key[1] > '9') {
			return unq(key[1:])
		}
		return key // unnamed: "@0"
	case "createType", "translateType":
		return unq(key)
	case "createAttrGroup", "translateAttrGroup":
		return strings.TrimPrefix(key, "#")
	case "createMetadata", "translateMetadata":
		return strings.TrimPrefix(key, "!")
	case "createNamedMetadata", "translateNamedMetadata":
		return trsrc.EscName(key) // the hook reports the bytes of the name; the model name is its spelling (`a\00`)
	}
	return key
}

type traceRow struct {
	Ev    string         `json:"ev"`
	Src   []trsrc.Entity `json:"src,omitempty"`
	Lay   *trsrc.Layout  `json:"lay,omitempty"`
	Phase string         `json:"phase,omitempty"`
	Key   string         `json:"key,omitempty"`
	St    string         `json:"st,omitempty"`
}

func normSrc(src []trsrc.Entity) []trsrc.Entity {
	// JSON must carry every field of the TLA+ records, empty sequences included
	out := make([]trsrc.Entity, len(src))
	for i, e := range src {
		if e.Refs == nil {
			e.Refs = []trsrc.Ref{}
		}
		if e.Locals == nil {
			e.Locals = []trsrc.Local{}
		}
		ls := make([]trsrc.Local, len(e.Locals))
		for j, l := range e.Locals {
			if l.Refs == nil {
				l.Refs = []trsrc.Ref{}
			}
			ls[j] = l
		}
		e.Locals = ls
		out[i] = e
	}
	return out
}

// --- child mode --------------------------------------------------------------

type childIn struct {
	// Cold texts are the FIRST texts the fresh process parses: every goroutine parses all of them, all goroutines
	// released at once (whatever the library builds lazily on first use is built under contention)
	Cold       []string `json:"cold"`
	Texts      []string `json:"texts"`
	Goroutines int      `json:"goroutines"`
	Rounds     int      `json:"rounds"`
}

type childOut struct {
	Cold [][]outcome `json:"cold"` // per goroutine, per cold text
	Seq  []outcome   `json:"seq"`  // one sequential parse per text
	Conc [][]outcome `json:"conc"` // per round, per text (parsed concurrently)
}

func child(path string) {
	var in childIn
	if err := mbt.ReadJSON(path, &in); err != nil {
		fmt.Fprintln(os.Stderr, "child:", err)
		os.Exit(3)
	}
	var out childOut
	if len(in.Cold) > 0 {
		out.Cold = make([][]outcome, in.Goroutines)
		var wg sync.WaitGroup
		start := make(chan struct{})
		for g := 0; g < in.Goroutines; g++ {
			out.Cold[g] = make([]outcome, len(in.Cold))
			wg.Add(1)
			go func(g int) {
				defer wg.Done()
				<-start
				for i, t := range in.Cold {
					out.Cold[g][i] = parseString(t)
				}
			}(g)
		}
		close(start)
		wg.Wait()
	}
	for _, t := range in.Texts {
		out.Seq = append(out.Seq, parseString(t))
	}
	for r := 0; r < in.Rounds; r++ {
		res := make([]outcome, len(in.Texts))
		var wg sync.WaitGroup
		start := make(chan struct{})
		// Every goroutine parses a fixed share of the texts (index = g modulo the number of goroutines,
		// rotated per round) with no communication in between: handing the indices out over an unbuffered
		// channel would order the parses of different goroutines through the dispatcher (receive happens
		// before the completion of the send), and the race detector would see almost nothing as concurrent.
		for g := 0; g < in.Goroutines; g++ {
			wg.Add(1)
			go func(g int) {
				defer wg.Done()
				<-start
				for i := range in.Texts {
					if (i+r)%in.Goroutines == g {
						res[i] = parseString(in.Texts[i])
					}
				}
			}(g)
		}
		close(start)
		wg.Wait()
		out.Conc = append(out.Conc, res)
	}
	b, _ := json.Marshal(out)
	os.Stdout.Write(b)
	os.Exit(0)
}

func runChild(dir string, in childIn) (childOut, string) {
	path := filepath.Join(dir, "child-in.json")
	b, _ := json.Marshal(in)
	os.WriteFile(path, b, 0o644)
	cmd := exec.Command("timeout", "600", os.Args[0], "quick")
	cmd.Env = append(os.Environ(), "VERIF_C12_CHILD="+path, "GORACE=halt_on_error=0")
	var so, se bytes.Buffer
	cmd.Stdout, cmd.Stderr = &so, &se
	err := cmd.Run()
	var out childOut
	if e := json.Unmarshal(so.Bytes(), &out); e != nil {
		mbt.Infra("child process produced no result (%v, %v): %s", err, e, mbt.Truncate(se.String(), 2000))
	}
	return out, se.String()
}

// raceSignatures extracts one signature per race report: the sorted pair of top frames.
func raceSignatures(stderr string) map[string]string {
	sigs := map[string]string{}
	reports := strings.Split(stderr, "WARNING: DATA RACE")
	for _, r := range reports[1:] {
		var tops []string
		lines := strings.Split(r, "\n")
		for i, l := range lines {
			t := strings.TrimSpace(l)
			if (strings.HasPrefix(t, "Write at") || strings.HasPrefix(t, "Read at") || strings.HasPrefix(t, "Previous write at") || strings.HasPrefix(t, "Previous read at")) && i+1 < len(lines) {
				fn := strings.TrimSpace(lines[i+1])
				if k := strings.LastIndex(fn, "("); k > 0 {
					fn = fn[:k]
				}
				tops = append(tops, fn)
			}
		}
		sort.Strings(tops)
		sig := strings.Join(tops, " <-> ")
		if _, ok := sigs[sig]; !ok {
			sigs[sig] = mbt.Truncate(r, 1500)
		}
	}
	return sigs
}

// --- singletons ---------------------------------------------------------------

func singletons() string {
	vals := []interface{}{types.Void, types.MMX, types.Label, types.Token, types.Metadata,
		types.I1, types.I8, types.I16, types.I32, types.I64, types.I128, types.Half, types.Float, types.Double, types.X86_FP80, types.FP128, types.PPC_FP128,
		types.I1Ptr, types.I8Ptr, types.I32Ptr, types.I64Ptr,
		constant.True, constant.False, constant.None, metadata.Null}
	var sb strings.Builder
	for _, v := range vals {
		sb.WriteString(irwalk.Digest(v))
		sb.WriteString(reflect.TypeOf(v).String())
	}
	return sha(sb.String())
}

// --- large inputs (>= 9 entities per index: per-map hash seeds matter) ---------

func bigModule(rng *rand.Rand, n int) string {
	var sb strings.Builder
	perm := rng.Perm(n)
	for _, i := range perm {
		fmt.Fprintf(&sb, "%%t%d = type { i32, %%t%d*, %%t%d* }\n", i, (i+1)%n, (i*7+3)%n)
	}
	for _, i := range rng.Perm(n) {
		fmt.Fprintf(&sb, "$c%d = comdat any\n", i)
	}
	for _, i := range rng.Perm(n) {
		fmt.Fprintf(&sb, "@g%d = global %%t%d* null, comdat($c%d), !foo !%d\n", i, (i*3)%n, (i+2)%n, (i*5)%n)
	}
	for _, i := range rng.Perm(n) {
		fmt.Fprintf(&sb, "@s%d = addrspace(%d) global i32 %d\n", i, 1+i%3, i)
	}
	for _, i := range rng.Perm(n) {
		as := 1 + ((i+1)%n)%3
		fmt.Fprintf(&sb, "@u%d = global i1 icmp eq (i32 addrspace(%d)* @s%d, i32 addrspace(%d)* null)\n", i, as, (i+1)%n, as)
		fmt.Fprintf(&sb, "@v%d = global i32 addrspace(%d)* getelementptr (i32, i32 addrspace(%d)* @s%d, i64 1)\n", i, as, as, (i+1)%n)
		fmt.Fprintf(&sb, "@w%d = thread_local(initialexec) global i8* bitcast (i32 addrspace(%d)** @v%d to i8*)\n", i, 1+((i+2)%n)%3, (i+1)%n)
	}
	for _, i := range rng.Perm(n) {
		fmt.Fprintf(&sb, "@a%d = alias i8, bitcast (%%t%d** @g%d to i8*)\n", i, (i*3+3)%n*0+((i+1)*3)%n, (i+1)%n)
	}
	for _, i := range rng.Perm(n) {
		fmt.Fprintf(&sb, "define void @f%d(i32 %%p) #%d {\nentry:\n  %%x = ptrtoint %%t%d** @g%d to i32\n  call void @f%d(i32 %%x), !foo !%d\n  br label %%next\nnext:\n  %%y = phi i32 [ %%x, %%entry ], [ %%z, %%next ]\n  %%z = add i32 %%y, %%p\n  br label %%next\n}\n",
			i, i%5, (i*3)%n, i, (i+1)%n, (i+4)%n)
	}
	for _, i := range rng.Perm(5) {
		fmt.Fprintf(&sb, "attributes #%d = { nounwind \"k%d\" }\n", i, i)
	}
	for _, i := range rng.Perm(n) {
		fmt.Fprintf(&sb, "!nm%d = !{!%d, !%d}\n", i%7, i, (i+1)%n)
	}
	for _, i := range rng.Perm(n) {
		d := ""
		if i%3 == 0 {
			d = "distinct "
		}
		fmt.Fprintf(&sb, "!%d = %s!{!%d, %%t%d** @g%d, i32 %d}\n", i, d, (i+1)%n, (i*3)%n, i, i)
	}
	return sb.String()
}

// --- the check ------------------------------------------------------------------

// Run is the C12 check.
func Run(tier, replay string) {
	if p := os.Getenv("VERIF_C12_CHILD"); p != "" {
		child(p)
	}
	rep := mbt.NewReport("C12", tier, "model_checking")
	rep.Rule = "a case is one input (TLC vector of Translate.tla: reference patterns, their faults and permutations; repository test inputs; llvm-stress programs; generated modules with >= 9 entities per index) parsed repeatedly: in one process, through the four entry points, after unrelated activity, concurrently on 8 goroutines under the race detector and in fresh processes (whose first parses are modules of literals of every kind, on 8 goroutines at once); status, printed text and structural digest must all be equal; the translator's hook events are replayed as Pick actions of Translate.tla"
	rng := rand.New(rand.NewSource(mbt.Seed()))
	dir, err := os.MkdirTemp("", "verif-c12-")
	if err != nil {
		mbt.Infra("%v", err)
	}
	defer os.RemoveAll(dir)

	reps, nStress, children, rounds := 12, 12, 3, 2
	if tier == "thorough" {
		reps, nStress, children, rounds = 60, 80, 8, 6
	}

	// inputs
	type input struct {
		name string
		text string
		src  []trsrc.Entity // abstract source if the input is a TLC vector
		lay  trsrc.Layout
		want string
	}
	var inputs []input
	if replay != "" {
		var rf struct {
			Failures []struct {
				Case map[string]string `json:"case"`
			} `json:"failures"`
		}
		if err := mbt.ReadJSON(replay, &rf); err != nil {
			mbt.Infra("replay: %v", err)
		}
		for _, f := range rf.Failures {
			inputs = append(inputs, input{name: "replay", text: f.Case["src"]})
		}
		reps = 200
	} else {
		// (S) TLC: Deterministic on every processing order; (G) its sources
		// "layouts": the patterns laid out in every way (line endings, several definitions per line,
		// indentation, comments, no final line ending; raw line breaks inside string literals)
		for _, set := range []string{"all", "perms", "layouts"} {
			for _, v := range trcheck.Generate(rep, set, 4) {
				lay := v.Lay
				if lay.ID == "" {
					lay = trsrc.Plain
				}
				inputs = append(inputs, input{name: "vector/" + set, text: trsrc.RenderLay(v.Src, lay), src: v.Src, lay: lay, want: v.Want.St})
			}
		}
		var files []string
		for _, g := range []string{"testdata/*.ll", "asm/testdata/*.ll", "ir/testdata/*.ll"} {
			fs, _ := filepath.Glob(filepath.Join(mbt.Repo, g))
			files = append(files, fs...)
		}
		sort.Strings(files)
		for _, f := range files {
			if b, err := os.ReadFile(f); err == nil {
				inputs = append(inputs, input{name: "testdata/" + filepath.Base(f), text: string(b)})
			}
		}
		stress := make([]string, nStress)
		llvmoracle.Parallel(nStress, func(i int) {
			out, _, code, err := mbt.Tool(nil, 60*time.Second, "llvm-stress", "-size=150", fmt.Sprintf("-seed=%d", mbt.Seed()*7919+int64(i)))
			if err == nil && code == 0 {
				stress[i] = string(out)
			}
		})
		for i, s := range stress {
			if s != "" {
				inputs = append(inputs, input{name: fmt.Sprintf("llvm-stress/%d", i), text: s})
			}
		}
		for k := 0; k < 3; k++ {
			inputs = append(inputs, input{name: fmt.Sprintf("big/%d", k), text: bigModule(rng, 12+7*k)})
			inputs = append(inputs, input{name: fmt.Sprintf("blockaddress/%d", k), text: corpus.BlockAddrModule(8+8*k, 8)})
		}
		// clang output (many metadata nodes, attribute groups, types: hash-seeded map orders) and a
		// sample of the Modules.tla feature matrix
		for _, in := range corpus.Clang("-O1 -g") {
			inputs = append(inputs, input{name: "clang/" + in.Name, text: in.Text})
		}
		// quoted names and strings with escapes, each module with its own bytes (decoding state shared
		// between parses would show between goroutines)
		for _, in := range corpus.EscapeModules(16) {
			inputs = append(inputs, input{name: "escapes/" + in.Name, text: in.Text})
		}
		// constants only: every literal kind and spelling (also the cold-start texts of the child processes)
		for _, in := range corpus.LiteralModules(3) {
			inputs = append(inputs, input{name: "literals/" + in.Name, text: in.Text})
		}
		mv := modgen.Generate(rep, "*")
		step := 9
		if tier == "thorough" {
			step = 2
		}
		for k := int(mbt.Seed()) % step; k < len(mv); k += step {
			if mv[k].Repr {
				inputs = append(inputs, input{name: "modules/" + mv[k].Fam, text: mv[k].Text()})
			}
		}
	}

	single0 := singletons()
	type heldModule struct {
		input int
		via   string
		m     *ir.Module
	}
	var held []heldModule

	// 1. repetitions in this process with hooks on; entry points
	var rows []traceRow
	traces := 0
	ordersSeen := map[string]map[string]bool{} // input -> set of processing orders
	base := make([]outcome, len(inputs))
	for i, in := range inputs {
		hookOn()
		base[i] = parseString(in.text)
		evs := hookOff()
		ordersSeen[in.name+"\x00"+in.text] = map[string]bool{}
		record := func(evs [][]event, st string) {
			for _, e := range evs {
				var key strings.Builder
				for _, x := range e {
					key.WriteString(x.Phase + ":" + x.Key + ";")
				}
				set := ordersSeen[in.name+"\x00"+in.text]
				if set[key.String()] {
					continue
				}
				set[key.String()] = true
				// only executions whose outcome the model shares are replayed (a differing
				// outcome is C05's / C01's finding, not a statement about determinism)
				if in.src != nil && len(set) <= 6 && st == in.want {
					lay := in.lay
					rows = append(rows, traceRow{Ev: "src", Src: normSrc(in.src), Lay: &lay})
					for _, x := range e {
						if ph, ok := phaseMap[x.Phase]; ok {
							rows = append(rows, traceRow{Ev: "pick", Phase: ph, Key: modelKey(x.Phase, x.Key)})
						}
					}
					rows = append(rows, traceRow{Ev: "end", St: st})
					traces++
				}
			}
		}
		record(evs, base[i].Status)
		nontrivial := base[i].Status == "ok" || in.src != nil
		rep.Count(in.name+"\x00"+in.text, nontrivial)
		if len(rep.Samples) < 3 && in.src != nil {
			rep.Sample(map[string]interface{}{"input": in.name, "text": in.text, "outcome": base[i]})
		}
		fail := func(how string, got outcome) {
			class := "status"
			if got.Status == base[i].Status {
				class = "text"
				if got.Text == base[i].Text {
					class = "structure"
				}
			}
			rep.Fail(mbt.Failure{Signature: "C12|" + how + "|" + class + "|" + strings.SplitN(in.name, "/", 2)[0],
				What: fmt.Sprintf("%s: outcome %+v differs from first parse %+v (input %s)", how, got, base[i], in.name), Case: map[string]string{"src": in.text}})
		}
		if in.want != "" && base[i].Status != in.want && !(in.want == "err" && base[i].Status == "ok") {
			// acceptance against the model is C05/C01's business, but a crash is never deterministic behaviour we accept
			if base[i].Status == "panic" {
				rep.Note("input %s panics the parser (reported by C05/C01)", in.name)
			}
		}
		for r := 0; r < reps; r++ {
			hookOn()
			o := parseString(in.text)
			record(hookOff(), o.Status)
			if o != base[i] {
				fail("repetition", o)
				break
			}
		}
		// every entry point must see the same bytes: every laid-out input and every input with a carriage
		// return goes through all of them
		if i%7 == 0 || replay != "" || in.name == "vector/layouts" || strings.Contains(in.text, "\r") {
			for ep, o := range entryPoints(dir, in.text) {
				if o != base[i] {
					fail("entry-point "+ep, o)
				}
			}
		}
		// keep modules obtained through the reader and byte-slice entry points; they are printed
		// only after everything else has been parsed (a module must not depend on the caller's
		// buffer or on later parses)
		if (i%3 == 0 || replay != "") && base[i].Status == "ok" {
			// (an input on which the parser crashes is C05's / C01's finding; it is not parsed unguarded here)
			if m, err := asm.Parse("in.ll", strings.NewReader(in.text)); err == nil {
				held = append(held, heldModule{i, "Parse(reader)", m})
			}
			buf := []byte(in.text)
			if m, err := asm.ParseBytes("in.ll", buf); err == nil {
				held = append(held, heldModule{i, "ParseBytes", m})
			}
			for k := range buf {
				buf[k] = '#' // the caller reuses its buffer
			}
		}
	}
	for _, h := range held {
		var text string
		msg, p := mbt.Guard(func() { text = h.m.String() })
		if got := sha(text); p || (base[h.input].Status == "ok" && got != base[h.input].Text) {
			rep.Fail(mbt.Failure{Signature: "C12|held-module-changed|" + h.via,
				What: fmt.Sprintf("a module obtained through %s prints differently after other inputs were parsed / the caller reused its buffer (panic=%q); input %s", h.via, msg, inputs[h.input].name), Case: map[string]string{"src": inputs[h.input].text}})
		}
	}
	// 2. after unrelated activity: parse everything in reverse order, then re-check
	for i := len(inputs) - 1; i >= 0; i-- {
		if o := parseString(inputs[i].text); o != base[i] {
			rep.Fail(mbt.Failure{Signature: "C12|after-other-activity|" + strings.SplitN(inputs[i].name, "/", 2)[0],
				What: fmt.Sprintf("outcome %+v differs from first parse %+v after other inputs were parsed and printed", o, base[i]), Case: map[string]string{"src": inputs[i].text}})
		}
	}
	if s := singletons(); s != single0 {
		rep.Fail(mbt.Failure{Signature: "C12|package-level-state-mutated", What: "a package-level singleton (types.I1.., constant.True/False/None, metadata.Null) changed during parsing/printing", Case: map[string]string{}})
	}
	// 3. fresh processes, concurrent parses under the race detector
	texts := make([]string, len(inputs))
	for i := range inputs {
		texts[i] = inputs[i].text
	}
	// cold start: literal-rich modules are the first texts a fresh process parses, on 8 goroutines at once; child c
	// starts with another module (its own bit patterns) so that every first-use path is entered under contention
	var cold []string
	var coldBase []outcome
	for _, in := range corpus.LiteralModules(6) {
		cold = append(cold, in.Text)
		coldBase = append(coldBase, parseString(in.Text)) // sequential, in this (long warm) process
	}
	for c := 0; c < children; c++ {
		rot := append(append([]string{}, cold[c%len(cold):]...), cold[:c%len(cold)]...)
		rotBase := append(append([]outcome{}, coldBase[c%len(cold):]...), coldBase[:c%len(cold)]...)
		out, stderr := runChild(dir, childIn{Cold: rot, Texts: texts, Goroutines: 8, Rounds: rounds})
		if len(out.Cold) != 8 {
			mbt.Infra("child process returned %d cold-start results", len(out.Cold))
		}
		for g := range out.Cold {
			for i := range out.Cold[g] {
				rep.Count(fmt.Sprintf("cold-start/%d/%d/%d", c, g, i), true)
				if got := out.Cold[g][i]; got != rotBase[i] {
					class := "status"
					if got.Status == rotBase[i].Status {
						class = "text"
						if got.Text == rotBase[i].Text {
							class = "structure"
						}
					}
					rep.Fail(mbt.Failure{Signature: "C12|cold-start-concurrent-parse|" + class + "|literals",
						What: fmt.Sprintf("a module of literals parsed by 8 goroutines at once as the first parses of a fresh process: outcome %+v differs from the sequential parse %+v", got, rotBase[i]), Case: map[string]string{"src": rot[i]}})
				}
			}
		}
		for sig, report := range raceSignatures(stderr) {
			rep.Fail(mbt.Failure{Signature: "C12|data-race|" + sig, What: "race detector report during concurrent parses of unrelated inputs:\n" + report, Case: map[string]string{}})
		}
		for i := range inputs {
			if i < len(out.Seq) && out.Seq[i] != base[i] {
				rep.Fail(mbt.Failure{Signature: "C12|fresh-process|" + strings.SplitN(inputs[i].name, "/", 2)[0],
					What: fmt.Sprintf("outcome in a fresh process %+v differs from %+v", out.Seq[i], base[i]), Case: map[string]string{"src": inputs[i].text}})
			}
			for r := range out.Conc {
				if i < len(out.Conc[r]) && out.Conc[r][i] != base[i] {
					rep.Fail(mbt.Failure{Signature: "C12|concurrent-parse|" + strings.SplitN(inputs[i].name, "/", 2)[0],
						What: fmt.Sprintf("outcome while 8 goroutines parse concurrently %+v differs from %+v", out.Conc[r][i], base[i]), Case: map[string]string{"src": inputs[i].text}})
				}
			}
		}
	}
	// 4. (T) hook traces replayed as actions of Translate.tla
	if len(rows) > 0 {
		t := mbt.MustTLCAllowDeadlock(mbt.TLCOpts{Spec: "TranslateTrace", Cfg: "TranslateTrace.cfg", Workers: 1, Timeout: 20 * time.Minute,
			Data: map[string][]byte{"translate_trace.ndjson": mbt.NDJSONBytes(rows)}})
		rep.AddTLC(t)
		if len(t.Violated) > 0 {
			rep.Fail(mbt.Failure{Signature: "C12|trace|invariant " + strings.Join(t.Violated, ","), What: "a replayed execution of the real translator violates the model's invariant(s):\n" + mbt.Truncate(tail(t.Output, 3000), 3000), Case: map[string]string{}})
		} else if strings.Contains(t.Output, "Deadlock reached") {
			// The translator no longer follows the phase structure of Translate.tla (phases reordered,
			// merged or split, an entity processed twice or not at all). That is not by itself a breach
			// of C12, but the model no longer describes this code: nothing this check says about
			// processing orders can be believed until the model is brought up to date.
			if rep.Violations() > 0 {
				// the run already has verdicts (e.g. accept/reject differing between repetitions, which also
				// makes executions end where the model does not): report those; the trace cannot be used
				rep.Note("a hook trace of the real translator is not a behaviour of Translate.tla (not judged: the run has violations)")
			} else {
				mbt.Infra("a hook trace of the real translator is not a behaviour of Translate.tla; last states:\n%s", mbt.Truncate(tail(t.Output, 3500), 3500))
			}
		} else {
			rep.TracesValidated += traces
		}
		t.Cleanup()
	}
	distinctOrders, multi := 0, 0
	for _, set := range ordersSeen {
		distinctOrders += len(set)
		if len(set) > 1 {
			multi++
		}
	}
	rep.Extra["inputs"] = len(inputs)
	rep.Extra["repetitions_per_input"] = reps
	rep.Extra["distinct_processing_orders_observed"] = distinctOrders
	rep.Extra["inputs_with_more_than_one_order_observed"] = multi
	rep.Extra["hook_traces_validated"] = traces
	rep.Extra["child_processes"] = children
	if multi == 0 {
		mbt.Infra("no input was observed under two different processing orders: the run could not have seen order dependence")
	}
	rep.Assumptions = []string{"map orders are those the Go runtime produced in this run (counted in the evidence); the model covers all orders",
		"race freedom of concurrent parses is judged by the Go race detector on the executed schedules"}
	rep.Finish()
}

func tail(s string, n int) string {
	if len(s) <= n {
		return s
	}
	return s[len(s)-n:]
}
