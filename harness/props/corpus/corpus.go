// Package corpus builds the supplementary inputs of the round-trip checks:
// the repository's test inputs, seeded llvm-stress programs, opt-transformed
// variants, and LLVM IR compiled by clang from the C/C++ sources under
// /verif/corpus/c (debug info, exceptions, attributes, TLS, inline asm ...).
package corpus

import (
	"fmt"
	"os"
	"path/filepath"
	"sort"
	"strings"
	"time"

	"verif/harness/llvmoracle"
	"verif/harness/mbt"
)

// Input is a named module text.
type Input struct {
	Name   string
	Origin string // "testdata", "llvm-stress", "opt", "clang", "tlc:<spec>/<family>"
	Text   string
	// Construct names the construct under test for generated inputs ("" for corpora).
	Construct string
	// Unrepresentable is set for generated inputs whose construct the library's IR cannot hold:
	// the required outcome is an error (no crash, no silently altered module).
	Unrepresentable bool
	// Simpler returns simpler variants of a generated input (one varied slot each), or nil.
	Simpler func() []Input
}

// Testdata returns the .ll files shipped with the repository.
func Testdata() []Input {
	var files []string
	for _, g := range []string{"testdata/*.ll", "asm/testdata/*.ll", "ir/testdata/*.ll", "ir/*/testdata/*.ll"} {
		fs, _ := filepath.Glob(filepath.Join(mbt.Repo, g))
		files = append(files, fs...)
	}
	sort.Strings(files)
	var out []Input
	for _, f := range files {
		if b, err := os.ReadFile(f); err == nil {
			rel, _ := filepath.Rel(mbt.Repo, f)
			out = append(out, Input{Name: rel, Origin: "testdata", Text: string(b)})
		}
	}
	return out
}

// Stress returns n llvm-stress programs.
func Stress(n int, size int, seedBase int64) []Input {
	out := make([]Input, n)
	llvmoracle.Parallel(n, func(i int) {
		seed := seedBase + int64(i)
		so, _, code, err := mbt.Tool(nil, 60*time.Second, "llvm-stress", fmt.Sprintf("-size=%d", size), fmt.Sprintf("-seed=%d", seed))
		if err == nil && code == 0 {
			out[i] = Input{Name: fmt.Sprintf("llvm-stress -size=%d -seed=%d", size, seed), Origin: "llvm-stress", Text: string(so)}
		}
	})
	return compact(out)
}

// Opt returns opt-transformed variants of the inputs.
func Opt(ins []Input, passes ...string) []Input {
	out := make([]Input, len(ins)*len(passes))
	llvmoracle.Parallel(len(out), func(k int) {
		in, pass := ins[k/len(passes)], passes[k%len(passes)]
		so, _, code, err := mbt.Tool([]byte(in.Text), 120*time.Second, "opt", "-S", pass, "-o", "-", "-")
		if err == nil && code == 0 {
			out[k] = Input{Name: in.Name + " | opt " + pass, Origin: "opt", Text: string(so)}
		}
	})
	return compact(out)
}

// Clang compiles the sources under corpus/c at the given option sets.
func Clang(optSets ...string) []Input {
	srcs, _ := filepath.Glob(filepath.Join(mbt.Root, "corpus", "c", "*.c"))
	cpps, _ := filepath.Glob(filepath.Join(mbt.Root, "corpus", "c", "*.cpp"))
	srcs = append(srcs, cpps...)
	sort.Strings(srcs)
	out := make([]Input, len(srcs)*len(optSets))
	llvmoracle.Parallel(len(out), func(k int) {
		src, opts := srcs[k/len(optSets)], optSets[k%len(optSets)]
		cc := "clang"
		if strings.HasSuffix(src, ".cpp") {
			cc = "clang++"
		}
		args := append([]string{"-S", "-emit-llvm", "-o", "-"}, strings.Fields(opts)...)
		args = append(args, src)
		so, _, code, err := mbt.Tool(nil, 120*time.Second, cc, args...)
		if err == nil && code == 0 {
			out[k] = Input{Name: filepath.Base(src) + " " + opts, Origin: "clang", Text: string(so)}
		}
	})
	return compact(out)
}

func compact(in []Input) []Input {
	var out []Input
	for _, x := range in {
		if x.Text != "" {
			out = append(out, x)
		}
	}
	return out
}

// BlockAddrModule renders a module of nf functions, each of which takes the address of nb blocks of the
// next function (and of its own), plus one global initialiser and one metadata node per function that do
// the same: every blockaddress constant joins the translator's fix-up list, from global initialisers,
// function bodies and metadata nodes alike.
func BlockAddrModule(nf, nb int) string {
	var sb strings.Builder
	for i := 0; i < nf; i++ {
		fmt.Fprintf(&sb, "@t%d = global [%d x i8*] [", i, nb)
		for b := 0; b < nb; b++ {
			if b > 0 {
				sb.WriteString(", ")
			}
			fmt.Fprintf(&sb, "i8* blockaddress(@f%d, %%b%d)", (i+1)%nf, b)
		}
		sb.WriteString("]\n")
	}
	for i := 0; i < nf; i++ {
		fmt.Fprintf(&sb, "define i32 @f%d(i32 %%p) !foo !%d {\nentry:\n  br label %%b0\n", i, i)
		for b := 0; b < nb; b++ {
			fmt.Fprintf(&sb, "b%d:\n  %%x%d = ptrtoint i8* blockaddress(@f%d, %%b%d) to i32\n  %%y%d = ptrtoint i8* blockaddress(@f%d, %%b%d) to i32\n", b, b, (i+1)%nf, (b+1)%nb, b, i, b)
			if b+1 < nb {
				fmt.Fprintf(&sb, "  br label %%b%d\n", b+1)
			} else {
				fmt.Fprintf(&sb, "  ret i32 %%x%d\n", b)
			}
		}
		sb.WriteString("}\n")
	}
	for i := 0; i < nf; i++ {
		fmt.Fprintf(&sb, "!%d = !{i8* blockaddress(@f%d, %%b%d), i8* blockaddress(@f%d, %%b0)}\n", i, (i+2)%nf, i%nb, i)
	}
	return sb.String()
}

// EscapeModules returns n small modules in which every kind of quoted name and string carries backslash
// escapes (each module with its own bytes): global, local, label, type, comdat and metadata names, section,
// gc, partition, source_filename, module asm, inline asm, attribute strings, metadata strings, c"" arrays.
func EscapeModules(n int) []Input {
	var out []Input
	for k := 0; k < n; k++ {
		var sb strings.Builder
		fmt.Fprintf(&sb, "source_filename = \"f\\22%d\\5C.c\"\n", k)
		fmt.Fprintf(&sb, "module asm \"nop\\0A\\09%d\"\n", k)
		fmt.Fprintf(&sb, "%%\"t\\20%d\" = type { i32, %%\"t\\20%d\"* }\n", k, k)
		fmt.Fprintf(&sb, "$\"c\\20%d\" = comdat any\n", k)
		fmt.Fprintf(&sb, "@\"g\\22%d\" = global %%\"t\\20%d\" zeroinitializer, section \"s\\5C%d\", comdat($\"c\\20%d\"), !k\\2E%d !0\n", k, k, k, k, k)
		fmt.Fprintf(&sb, "@\"s\\01%d\" = constant [4 x i8] c\"a\\00\\22%d\"\n", k, k%10)
		fmt.Fprintf(&sb, "define i32 @\"f\\5C%d\"(i32 %%\"p\\20%d\") #0 gc \"g\\22%d\" {\n\"e\\20%d\":\n  %%\"x\\22\" = add i32 %%\"p\\20%d\", %d\n  call void asm sideeffect \"nop\\0A%d\", \"~{memory}\"()\n  br label %%\"b\\5C%d\"\n\"b\\5C%d\":\n  ret i32 %%\"x\\22\"\n}\n", k, k, k, k, k, k, k, k, k)
		fmt.Fprintf(&sb, "attributes #0 = { \"a\\22%d\"=\"v\\0A%d\" \"b\\5C%d\" }\n", k, k, k)
		fmt.Fprintf(&sb, "!\\31n%d = !{!0}\n!0 = !{!\"m\\00%d\", !\"\\22q%d\"}\n", k, k, k)
		out = append(out, Input{Name: fmt.Sprintf("escapes-%d.ll", k), Origin: "escapes", Text: sb.String()})
	}
	return out
}

// LiteralModules returns n modules made of constants only: every floating-point kind in every spelling
// (half 0xH / decimal / double-hex, float and double decimal, exponent and hex, x86_fp80 0xK,
// fp128 0xL, ppc_fp128 0xM; no bfloat: the library has no such kind; infinities, NaNs, signed zeros, subnormals), integers (decimal, negative, wide,
// u0x hex, i1 true/false), character arrays with escapes, and vectors / arrays / structs of them. Module k has its
// own bit patterns. They are the texts a process parses FIRST, from several goroutines at once (C12): whatever
// a literal decoder builds lazily on first use is then built under contention.
func LiteralModules(n int) []Input {
	var out []Input
	for k := 0; k < n; k++ {
		var sb strings.Builder
		h := func(i int) uint16 { return uint16((i*2654435761 + k*40503 + 0x3C00) & 0xFFFF) }
		// half first: the first literal a fresh process decodes
		halves := []uint16{0xFBFF, 0x7BFF, 0x0001, 0x8001, 0x03FF, 0x0400, 0x3C00, 0xBC00, 0x7C00, 0xFC00, 0x8000, 0x0000, 0x7E00, 0xFE01, 0x3555}
		for i := 0; i < 48; i++ {
			halves = append(halves, h(i))
		}
		fmt.Fprintf(&sb, "@h.arr = constant [%d x half] [", len(halves))
		for i, b := range halves {
			if i > 0 {
				sb.WriteString(", ")
			}
			fmt.Fprintf(&sb, "half 0xH%04X", b)
		}
		sb.WriteString("]\n")
		for i := 0; i < 16; i++ {
			fmt.Fprintf(&sb, "@h%d = global half 0xH%04X\n", i, h(100+i))
		}
		fmt.Fprintf(&sb, "@h.dec = global <4 x half> <half 1.5, half -2.0, half 6.550400e+04, half 0.0>\n")
		fmt.Fprintf(&sb, "@h.hex = global half 0x3FF8000000000000\n")
		fmt.Fprintf(&sb, "@f.dec = global [5 x float] [float 1.5, float -0.0, float 1.000000e+10, float 0x3FF8000000000000, float 0x7FF0000000000000]\n")
		for i := 0; i < 8; i++ {
			fmt.Fprintf(&sb, "@f%d = global float 0x%016X\n", i, uint64(0x3FF0000000000000)+uint64(k*16+i)<<29)
		}
		fmt.Fprintf(&sb, "@d.dec = global [6 x double] [double 1.5, double -2.5e-3, double 1.7976931348623157e+308, double 4.9406564584124654e-324, double 0xFFF8000000000001, double 0x8000000000000000]\n")
		for i := 0; i < 8; i++ {
			fmt.Fprintf(&sb, "@d%d = global double 0x%016X\n", i, uint64(0x3FF0000000000000)+uint64(k*977+i*131071))
		}
		for i := 0; i < 6; i++ {
			fmt.Fprintf(&sb, "@k%d = global x86_fp80 0xK%04X%016X\n", i, 0x3FFF+i+k, uint64(0x8000000000000000)+uint64(i*7919+k))
			fmt.Fprintf(&sb, "@l%d = global fp128 0xL%016X%016X\n", i, uint64(i*104729+k), uint64(0x3FFF000000000000)+uint64(i))
			fmt.Fprintf(&sb, "@m%d = global ppc_fp128 0xM%016X%016X\n", i, uint64(0x3FF0000000000000)+uint64(i+k), uint64(0x3C90000000000000)+uint64(i))
		}
		fmt.Fprintf(&sb, "@i.dec = global { i1, i1, i8, i32, i64, i128 } { i1 true, i1 false, i8 -128, i32 %d, i64 -9223372036854775808, i128 170141183460469231731687303715884105727 }\n", 1000003*k+7)
		fmt.Fprintf(&sb, "@i.hex = global [3 x i32] [i32 u0x%X, i32 u0xFFFFFFFF, i32 u0x0]\n", 0xABC0+k)
		fmt.Fprintf(&sb, "@s = constant [%d x i8] c\"lit%02d\\00\\22\\5C\\FF\\0Aend\"\n", 13, k%100)
		fmt.Fprintf(&sb, "@z = global { [2 x half], <2 x double>, i8* } { [2 x half] [half 0xH%04X, half 0xH%04X], <2 x double> <double 0.0, double -0.0>, i8* null }\n", h(300), h(301))
		out = append(out, Input{Name: fmt.Sprintf("literals-%d", k), Text: sb.String()})
	}
	return out
}
