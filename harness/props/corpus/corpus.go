// Package corpus builds the supplementary inputs of the round-trip checks:
// the repository's test inputs, seeded llvm-stress programs, opt-transformed
// variants, and LLVM IR compiled by clang from the C/C++ sources under
// /verif/corpus/c (debug info, exceptions, attributes, TLS, inline asm ...).
package corpus

import (
	"fmt"
	"os"
	"path/filepath"
	"sort"
	"strings"
	"time"

	"verif/harness/llvmoracle"
	"verif/harness/mbt"
)

// Input is a named module text.
type Input struct {
	Name   string
	Origin string // "testdata", "llvm-stress", "opt", "clang", "tlc:<spec>/<family>"
	Text   string
	// Construct names the construct under test for generated inputs ("" for corpora).
	Construct string
	// Unrepresentable is set for generated inputs whose construct the library's IR cannot hold:
	// the required outcome is an error (no crash, no silently altered module).
	Unrepresentable bool
	// Simpler returns simpler variants of a generated input (one varied slot each), or nil.
	Simpler func() []Input
}

// Testdata returns the .ll files shipped with the repository.
func Testdata() []Input {
	var files []string
	for _, g := range []string{"testdata/*.ll", "asm/testdata/*.ll", "ir/testdata/*.ll", "ir/*/testdata/*.ll"} {
		fs, _ := filepath.Glob(filepath.Join(mbt.Repo, g))
		files = append(files, fs...)
	}
	sort.Strings(files)
	var out []Input
	for _, f := range files {
		if b, err := os.ReadFile(f); err == nil {
			rel, _ := filepath.Rel(mbt.Repo, f)
			out = append(out, Input{Name: rel, Origin: "testdata", Text: string(b)})
		}
	}
	return out
}

// Stress returns n llvm-stress programs.
func Stress(n int, size int, seedBase int64) []Input {
	out := make([]Input, n)
	llvmoracle.Parallel(n, func(i int) {
		seed := seedBase + int64(i)
		so, _, code, err := mbt.Tool(nil, 60*time.Second, "llvm-stress", fmt.Sprintf("-size=%d", size), fmt.Sprintf("-seed=%d", seed))
		if err == nil && code == 0 {
			out[i] = Input{Name: fmt.Sprintf("llvm-stress -size=%d -seed=%d", size, seed), Origin: "llvm-stress", Text: string(so)}
		}
	})
	return compact(out)
}

// Opt returns opt-transformed variants of the inputs.
func Opt(ins []Input, passes ...string) []Input {
	out := make([]Input, len(ins)*len(passes))
	llvmoracle.Parallel(len(out), func(k int) {
		in, pass := ins[k/len(passes)], passes[k%len(passes)]
		so, _, code, err := mbt.Tool([]byte(in.Text), 120*time.Second, "opt", "-S", pass, "-o", "-", "-")
		if err == nil && code == 0 {
			out[k] = Input{Name: in.Name + " | opt " + pass, Origin: "opt", Text: string(so)}
		}
	})
	return compact(out)
}

// Clang compiles the sources under corpus/c at the given option sets.
func Clang(optSets ...string) []Input {
	srcs, _ := filepath.Glob(filepath.Join(mbt.Root, "corpus", "c", "*.c"))
	cpps, _ := filepath.Glob(filepath.Join(mbt.Root, "corpus", "c", "*.cpp"))
	srcs = append(srcs, cpps...)
	sort.Strings(srcs)
	out := make([]Input, len(srcs)*len(optSets))
	llvmoracle.Parallel(len(out), func(k int) {
		src, opts := srcs[k/len(optSets)], optSets[k%len(optSets)]
		cc := "clang"
		if strings.HasSuffix(src, ".cpp") {
			cc = "clang++"
		}
		args := append([]string{"-S", "-emit-llvm", "-o", "-"}, strings.Fields(opts)...)
		args = append(args, src)
		so, _, code, err := mbt.Tool(nil, 120*time.Second, cc, args...)
		if err == nil && code == 0 {
			out[k] = Input{Name: filepath.Base(src) + " " + opts, Origin: "clang", Text: string(so)}
		}
	})
	return compact(out)
}

func compact(in []Input) []Input {
	var out []Input
	for _, x := range in {
		if x.Text != "" {
			out = append(out, x)
		}
	}
	return out
}

// BlockAddrModule renders a module of nf functions, each of which takes the address of nb blocks of the
// next function (and of its own), plus one global initialiser and one metadata node per function that do
// the same: every blockaddress constant joins the translator's fix-up list, from global initialisers,
// function bodies and metadata nodes alike.
func BlockAddrModule(nf, nb int) string {
	var sb strings.Builder
	for i := 0; i < nf; i++ {
		fmt.Fprintf(&sb, "@t%d = global [%d x i8*] [", i, nb)
		for b := 0; b < nb; b++ {
			if b > 0 {
				sb.WriteString(", ")
			}
			fmt.Fprintf(&sb, "i8* blockaddress(@f%d, %%b%d)", (i+1)%nf, b)
		}
		sb.WriteString("]\n")
	}
	for i := 0; i < nf; i++ {
		fmt.Fprintf(&sb, "define i32 @f%d(i32 %%p) !foo !%d {\nentry:\n  br label %%b0\n", i, i)
		for b := 0; b < nb; b++ {
			fmt.Fprintf(&sb, "b%d:\n  %%x%d = ptrtoint i8* blockaddress(@f%d, %%b%d) to i32\n  %%y%d = ptrtoint i8* blockaddress(@f%d, %%b%d) to i32\n", b, b, (i+1)%nf, (b+1)%nb, b, i, b)
			if b+1 < nb {
				fmt.Fprintf(&sb, "  br label %%b%d\n", b+1)
			} else {
				fmt.Fprintf(&sb, "  ret i32 %%x%d\n", b)
			}
		}
		sb.WriteString("}\n")
	}
	for i := 0; i < nf; i++ {
		fmt.Fprintf(&sb, "!%d = !{i8* blockaddress(@f%d, %%b%d), i8* blockaddress(@f%d, %%b0)}\n", i, (i+2)%nf, i%nb, i)
	}
	return sb.String()
}

// EscapeModules returns n small modules in which every kind of quoted name and string carries backslash
// escapes (each module with its own bytes): global, local, label, type, comdat and metadata names, section,
// gc, partition, source_filename, module asm, inline asm, attribute strings, metadata strings, c"" arrays.
func EscapeModules(n int) []Input {
	var out []Input
	for k := 0; k < n; k++ {
		var sb strings.Builder
		fmt.Fprintf(&sb, "source_filename = \"f\\22%d\\5C.c\"\n", k)
		fmt.Fprintf(&sb, "module asm \"nop\\0A\\09%d\"\n", k)
		fmt.Fprintf(&sb, "%%\"t\\20%d\" = type { i32, %%\"t\\20%d\"* }\n", k, k)
		fmt.Fprintf(&sb, "$\"c\\20%d\" = comdat any\n", k)
		fmt.Fprintf(&sb, "@\"g\\22%d\" = global %%\"t\\20%d\" zeroinitializer, section \"s\\5C%d\", comdat($\"c\\20%d\"), !k\\2E%d !0\n", k, k, k, k, k)
		fmt.Fprintf(&sb, "@\"s\\01%d\" = constant [4 x i8] c\"a\\00\\22%d\"\n", k, k%10)
		fmt.Fprintf(&sb, "define i32 @\"f\\5C%d\"(i32 %%\"p\\20%d\") #0 gc \"g\\22%d\" {\n\"e\\20%d\":\n  %%\"x\\22\" = add i32 %%\"p\\20%d\", %d\n  call void asm sideeffect \"nop\\0A%d\", \"~{memory}\"()\n  br label %%\"b\\5C%d\"\n\"b\\5C%d\":\n  ret i32 %%\"x\\22\"\n}\n", k, k, k, k, k, k, k, k, k)
		fmt.Fprintf(&sb, "attributes #0 = { \"a\\22%d\"=\"v\\0A%d\" \"b\\5C%d\" }\n", k, k, k)
		fmt.Fprintf(&sb, "!\\31n%d = !{!0}\n!0 = !{!\"m\\00%d\", !\"\\22q%d\"}\n", k, k, k)
		out = append(out, Input{Name: fmt.Sprintf("escapes-%d.ll", k), Origin: "escapes", Text: sb.String()})
	}
	return out
}
