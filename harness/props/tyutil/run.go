package tyutil

import (
	"fmt"
	"reflect"
	"regexp"
	"strings"
	"sync"

	"github.com/llir/llvm/ir/types"

	"verif/harness/llvmoracle"
	"verif/harness/mbt"
)

// Outcome is what one implementation reported for one case: a type, a panic,
// an error, or "not applicable" (the implementation has no such form).
type Outcome struct {
	NA    bool   `json:"na,omitempty"`
	Type  *Term  `json:"type,omitempty"`
	Panic string `json:"panic,omitempty"`
	Err   string `json:"err,omitempty"`
	// Raw is the type object that was reported; Reread reads it again later.
	Raw types.Type `json:"-"`
}

// Reread reads the reported type object again. A type that was right when it
// was reported and differs now has been rewritten behind the caller's back
// (state shared between values); the result is then an outcome of its own.
func (o Outcome) Reread() Outcome {
	if o.NA || o.Raw == nil {
		return Outcome{NA: true}
	}
	var t *Term
	if msg, p := mbt.Guard(func() { t = FromType(o.Raw) }); p {
		return Outcome{Panic: msg}
	}
	return Outcome{Type: t, Raw: o.Raw}
}

// Observe runs f and records the type it returns, or its panic / error.
func Observe(f func() (types.Type, error)) Outcome {
	var t types.Type
	var err error
	msg, p := mbt.Guard(func() { t, err = f() })
	switch {
	case p:
		return Outcome{Panic: msg}
	case err != nil:
		return Outcome{Err: err.Error()}
	case t == nil:
		return Outcome{Err: "nil type"}
	}
	return Outcome{Type: FromType(t), Raw: t}
}

var (
	reDigits = regexp.MustCompile(`[0-9]+`)
	reQuoted = regexp.MustCompile("(`[^`]*`|\"[^\"]*\"|'[^']*')")
)

// NormMsg strips the case-specific parts (quoted text, numbers, positions) of a
// panic or error message so that one cause has one spelling.
func NormMsg(s string) string {
	if i := strings.Index(s, "\n"); i >= 0 {
		s = s[:i]
	}
	s = reQuoted.ReplaceAllString(s, "…")
	if i := strings.Index(s, "; expected"); i >= 0 {
		s = s[:i]
	}
	s = reDigits.ReplaceAllString(s, "N")
	if len(s) > 110 {
		s = s[:110]
	}
	return strings.TrimSpace(s)
}

// Class is the difference class of an outcome against the required type:
// "=" (agrees), "n/a", or a description of the structural difference.
func (o Outcome) Class(want *Term) string {
	switch {
	case o.NA:
		return "n/a"
	case o.Panic != "":
		return "panic(" + NormMsg(o.Panic) + ")"
	case o.Err != "":
		return "error(" + NormMsg(o.Err) + ")"
	}
	if cls := DiffClass(want, o.Type); cls != "=" {
		return cls
	}
	if lies := Lies(o.Type); len(lies) > 0 {
		return "name(" + strings.Join(lies, "; ") + ")"
	}
	return "="
}

// String renders the outcome for messages.
func (o Outcome) String() string {
	switch {
	case o.NA:
		return "n/a"
	case o.Panic != "":
		return "panic: " + mbt.Truncate(o.Panic, 160)
	case o.Err != "":
		return "error: " + mbt.Truncate(o.Err, 160)
	}
	return o.Type.LL()
}

// ClearTyp sets the exported field Typ of the struct v points to to its zero
// value (the cached result type of instructions and expressions), so that the
// next call of Type() recomputes it. It reports whether there is such a field.
func ClearTyp(v interface{}) bool {
	rv := reflect.ValueOf(v)
	if rv.Kind() != reflect.Ptr || rv.IsNil() {
		return false
	}
	rv = rv.Elem()
	if rv.Kind() != reflect.Struct {
		return false
	}
	f := rv.FieldByName("Typ")
	if !f.IsValid() || !f.CanSet() {
		return false
	}
	f.Set(reflect.Zero(f.Type()))
	return true
}

// TypField returns the cached Typ field of v (nil if absent or unset).
func TypField(v interface{}) (types.Type, bool) {
	rv := reflect.ValueOf(v)
	if rv.Kind() != reflect.Ptr || rv.IsNil() {
		return nil, false
	}
	rv = rv.Elem()
	if rv.Kind() != reflect.Struct {
		return nil, false
	}
	f := rv.FieldByName("Typ")
	if !f.IsValid() {
		return nil, false
	}
	if (f.Kind() == reflect.Interface || f.Kind() == reflect.Ptr) && f.IsNil() {
		return nil, true
	}
	t, ok := f.Interface().(types.Type)
	return t, ok
}

// BatchAccept asks llvm-as about many independent units (functions, aliases,
// globals) that share a prelude: units are validated in batches, a rejected
// batch is split until the rejected units are isolated. ok[i] reports whether
// unit i is accepted; diag[i] is LLVM's message for a rejected unit.
func BatchAccept(prelude string, units []string, batch int) (ok []bool, diag []string) {
	ok = make([]bool, len(units))
	diag = make([]string, len(units))
	type span struct{ lo, hi int }
	var spans []span
	for lo := 0; lo < len(units); lo += batch {
		hi := lo + batch
		if hi > len(units) {
			hi = len(units)
		}
		spans = append(spans, span{lo, hi})
	}
	var mu sync.Mutex
	var check func(lo, hi int)
	check = func(lo, hi int) {
		var b strings.Builder
		b.WriteString(prelude)
		for i := lo; i < hi; i++ {
			b.WriteString(units[i])
			b.WriteByte('\n')
		}
		acc, d := llvmoracle.Accepts(b.String())
		if acc {
			mu.Lock()
			for i := lo; i < hi; i++ {
				ok[i] = true
			}
			mu.Unlock()
			return
		}
		if hi-lo == 1 {
			mu.Lock()
			diag[lo] = d
			mu.Unlock()
			return
		}
		mid := (lo + hi) / 2
		check(lo, mid)
		check(mid, hi)
	}
	llvmoracle.Parallel(len(spans), func(k int) { check(spans[k].lo, spans[k].hi) })
	return ok, diag
}

// Pct formats a ratio.
func Pct(a, b int) string {
	if b == 0 {
		return "0%"
	}
	return fmt.Sprintf("%.2f%%", 100*float64(a)/float64(b))
}
