// Package tyutil converts between the type terms of spec/Types.tla (JSON
// records written and read by TLC), the library's types.Type values, and LLVM
// assembly text. The text renderer does not use the library's printer, so
// that llvm-as judges the specification's terms and not the code under test.
package tyutil

import (
	"encoding/json"
	"fmt"
	"sort"
	"strings"

	"github.com/llir/llvm/ir/types"
)

// Term is a type term of Types.tla. Field K selects which fields are meaningful.
type Term struct {
	K  string  `json:"k"`
	W  int     `json:"w"`  // int
	FK string  `json:"fk"` // float
	E  *Term   `json:"e"`  // ptr, vec, arr
	AS int     `json:"as"` // ptr
	SC bool    `json:"sc"` // vec
	N  int     `json:"n"`  // vec, arr
	PK bool    `json:"pk"` // struct
	FS []*Term `json:"fs"` // struct
	NM string  `json:"nm"` // named; struct node of a mutable object (spec/TypesMut.tla): its name, "" = literal
	OP bool    `json:"op"` // struct node of a mutable object: opaque
	// AL is set by FromType only: the name a non-struct type object carries (TypeName). In LLVM
	// such a name is an alias of the type; it is not part of the structure and Diff ignores it.
	AL  string  `json:"-"`
	Ret *Term   `json:"ret"` // func
	PS  []*Term `json:"ps"`  // func
	VA  bool    `json:"va"`  // func
}

// MarshalJSON writes exactly the fields the TLA+ record of that kind has.
func (t *Term) MarshalJSON() ([]byte, error) {
	m := map[string]interface{}{"k": t.K}
	switch t.K {
	case "int":
		m["w"] = t.W
	case "float":
		m["fk"] = t.FK
	case "ptr":
		m["e"], m["as"] = t.E, t.AS
	case "vec":
		m["sc"], m["n"], m["e"] = t.SC, t.N, t.E
	case "arr":
		m["n"], m["e"] = t.N, t.E
	case "struct":
		m["pk"], m["fs"] = t.PK, nonNil(t.FS)
	case "named":
		m["nm"] = t.NM
	case "func":
		m["ret"], m["ps"], m["va"] = t.Ret, nonNil(t.PS), t.VA
	}
	return json.Marshal(m)
}

func nonNil(ts []*Term) []*Term {
	if ts == nil {
		return []*Term{}
	}
	return ts
}

// Constructors.
func Int(w int) *Term                   { return &Term{K: "int", W: w} }
func Float(fk string) *Term             { return &Term{K: "float", FK: fk} }
func Ptr(e *Term, as int) *Term         { return &Term{K: "ptr", E: e, AS: as} }
func Vec(sc bool, n int, e *Term) *Term { return &Term{K: "vec", SC: sc, N: n, E: e} }
func Arr(n int, e *Term) *Term          { return &Term{K: "arr", N: n, E: e} }
func Struct(pk bool, fs ...*Term) *Term { return &Term{K: "struct", PK: pk, FS: fs} }
func Named(nm string) *Term             { return &Term{K: "named", NM: nm} }
func Atom(a string) *Term               { return &Term{K: a} }

// Body is the definition of an identified struct in a universe.
type Body struct {
	Opaque bool    `json:"opaque"`
	PK     bool    `json:"pk"`
	FS     []*Term `json:"fs"`
	// Alias: the name stands for a non-struct type (`%V = type <2 x i32>`), see Types!Alias.
	Alias *Term `json:"alias,omitempty"`
}

// Universe maps type names to bodies.
type Universe map[string]*Body

// Names returns the names of the universe, sorted.
func (u Universe) Names() []string {
	var ns []string
	for n := range u {
		ns = append(ns, n)
	}
	sort.Strings(ns)
	return ns
}

// --- LLVM text (independent of the library's printer) -------------------------

// QuoteName renders a type name as LLVM spells it after the % sigil.
func QuoteName(nm string) string {
	bare := nm != ""
	for i := 0; i < len(nm); i++ {
		c := nm[i]
		ok := c == '-' || c == '$' || c == '.' || c == '_' || (c >= 'a' && c <= 'z') || (c >= 'A' && c <= 'Z') || (c >= '0' && c <= '9' && i > 0)
		if !ok {
			bare = false
		}
	}
	if bare {
		return nm
	}
	var b strings.Builder
	b.WriteByte('"')
	for i := 0; i < len(nm); i++ {
		c := nm[i]
		if c < 0x20 || c >= 0x7f || c == '"' || c == '\\' {
			fmt.Fprintf(&b, "\\%02X", c)
		} else {
			b.WriteByte(c)
		}
	}
	b.WriteByte('"')
	return b.String()
}

// LL renders the term as LLVM assembly.
func (t *Term) LL() string {
	switch t.K {
	case "int":
		return fmt.Sprintf("i%d", t.W)
	case "float":
		return t.FK
	case "ptr":
		if t.AS != 0 {
			return fmt.Sprintf("%s addrspace(%d)*", t.E.LL(), t.AS)
		}
		return t.E.LL() + "*"
	case "vec":
		if t.SC {
			return fmt.Sprintf("<vscale x %d x %s>", t.N, t.E.LL())
		}
		return fmt.Sprintf("<%d x %s>", t.N, t.E.LL())
	case "arr":
		return fmt.Sprintf("[%d x %s]", t.N, t.E.LL())
	case "struct":
		return structLL(t.PK, t.FS)
	case "named":
		return "%" + QuoteName(t.NM)
	case "func":
		var ps []string
		for _, p := range t.PS {
			ps = append(ps, p.LL())
		}
		if t.VA {
			ps = append(ps, "...")
		}
		return fmt.Sprintf("%s (%s)", t.Ret.LL(), strings.Join(ps, ", "))
	default:
		return t.K
	}
}

func structLL(pk bool, fs []*Term) string {
	var ss []string
	for _, f := range fs {
		ss = append(ss, f.LL())
	}
	s := "{ " + strings.Join(ss, ", ") + " }"
	if len(fs) == 0 {
		s = "{}"
	}
	if pk {
		return "<" + s + ">"
	}
	return s
}

// Defs renders the type definitions of the universe, in name order.
func (u Universe) Defs() string {
	var b strings.Builder
	for _, n := range u.Names() {
		d := u[n]
		if d.Alias != nil {
			fmt.Fprintf(&b, "%%%s = type %s\n", QuoteName(n), d.Alias.LL())
			continue
		}
		if d.Opaque {
			fmt.Fprintf(&b, "%%%s = type opaque\n", QuoteName(n))
		} else {
			fmt.Fprintf(&b, "%%%s = type %s\n", QuoteName(n), structLL(d.PK, d.FS))
		}
	}
	return b.String()
}

// Key is a canonical string for the term (its LLVM spelling).
func (t *Term) Key() string { return t.LL() }

// Abstract renders the term with every number replaced by a letter (N for
// lengths, M for widths) and address spaces kept: used in failure signatures.
func (t *Term) Abstract() string {
	switch t.K {
	case "int":
		if t.W == 1 {
			return "i1"
		}
		return "iM"
	case "float":
		return "fp"
	case "ptr":
		if t.AS != 0 {
			return t.E.Abstract() + " addrspace(A)*"
		}
		return t.E.Abstract() + "*"
	case "vec":
		if t.SC {
			return "<vscale x N x " + t.E.Abstract() + ">"
		}
		return "<N x " + t.E.Abstract() + ">"
	case "arr":
		return "[N x " + t.E.Abstract() + "]"
	case "struct":
		var ss []string
		for _, f := range t.FS {
			ss = append(ss, f.Abstract())
		}
		s := "{" + strings.Join(ss, ",") + "}"
		if t.PK {
			return "<" + s + ">"
		}
		return s
	case "named":
		return "%T"
	case "func":
		var ps []string
		for _, p := range t.PS {
			ps = append(ps, p.Abstract())
		}
		if t.VA {
			ps = append(ps, "...")
		}
		return t.Ret.Abstract() + "(" + strings.Join(ps, ",") + ")"
	}
	return t.K
}

// --- Go types ----------------------------------------------------------------

// Builder turns terms into library types. One StructType object is kept per
// name; with Fresh set, every occurrence of a name outside a struct body gets
// an object of its own (same name, same body), which LLVM's data model
// identifies with every other object of that name.
type Builder struct {
	U     Universe
	Fresh bool
	// Intern makes the builder hand out ONE Go object per type (the library's
	// own singletons types.I8, types.Double, ... where they exist), as programs
	// that build IR usually do; state that the library attaches to or keys by
	// type objects is then shared between everything built from this builder.
	Intern  bool
	named   map[string]*types.StructType
	aliases map[string]types.Type
	cache   map[string]types.Type
	depth   int
}

// NewBuilder returns a builder over universe u.
func NewBuilder(u Universe, fresh bool) *Builder {
	return &Builder{U: u, Fresh: fresh, named: map[string]*types.StructType{}}
}

var floatKinds = map[string]types.FloatKind{
	"half": types.FloatKindHalf, "float": types.FloatKindFloat, "double": types.FloatKindDouble,
	"fp128": types.FloatKindFP128, "x86_fp80": types.FloatKindX86_FP80, "ppc_fp128": types.FloatKindPPC_FP128,
}

// TypeDefs returns the identified struct types created so far, in name order
// (for ir.Module.TypeDefs).
func (b *Builder) TypeDefs() []types.Type {
	var ns []string
	for n := range b.U {
		ns = append(ns, n)
	}
	sort.Strings(ns)
	var out []types.Type
	for _, n := range ns {
		if b.U[n].Alias != nil {
			out = append(out, b.aliasType(n))
		} else {
			out = append(out, b.namedType(n, false))
		}
	}
	return out
}

// aliasType returns the (one) type object that carries the alias name nm, as
// Module.NewTypeDef(nm, t) makes it: an object of its own, never an interned or singleton one.
func (b *Builder) aliasType(nm string) types.Type {
	if b.aliases == nil {
		b.aliases = map[string]types.Type{}
	}
	if x, ok := b.aliases[nm]; ok {
		return x
	}
	x := b.build(b.U[nm].Alias)
	x.SetName(nm)
	b.aliases[nm] = x
	return x
}

func (b *Builder) namedType(nm string, allowFresh bool) *types.StructType {
	body, ok := b.U[nm]
	if !ok {
		panic(fmt.Sprintf("tyutil: name %q not in universe", nm))
	}
	fill := func(st *types.StructType) {
		if body.Opaque {
			st.Opaque = true
			return
		}
		st.Packed = body.PK
		b.depth++
		st.Fields = make([]types.Type, len(body.FS))
		for i, f := range body.FS {
			st.Fields[i] = b.Type(f)
		}
		b.depth--
	}
	if allowFresh && b.Fresh && b.depth == 0 {
		st := &types.StructType{TypeName: nm}
		fill(st)
		return st
	}
	if st, ok := b.named[nm]; ok {
		return st
	}
	st := &types.StructType{TypeName: nm}
	b.named[nm] = st
	fill(st)
	return st
}

var singletons = map[string]types.Type{
	"void": types.Void, "x86_mmx": types.MMX, "label": types.Label, "token": types.Token, "metadata": types.Metadata,
	"i1": types.I1, "i8": types.I8, "i16": types.I16, "i32": types.I32, "i64": types.I64, "i128": types.I128,
	"half": types.Half, "float": types.Float, "double": types.Double, "x86_fp80": types.X86_FP80, "fp128": types.FP128, "ppc_fp128": types.PPC_FP128,
	"i1*": types.I1Ptr, "i8*": types.I8Ptr, "i16*": types.I16Ptr, "i32*": types.I32Ptr, "i64*": types.I64Ptr, "i128*": types.I128Ptr,
}

// NewInternBuilder returns a builder that interns types (see Builder.Intern).
func NewInternBuilder(u Universe) *Builder {
	b := NewBuilder(u, false)
	b.Intern = true
	b.cache = map[string]types.Type{}
	return b
}

// Type builds the library type of the term.
func (b *Builder) Type(t *Term) types.Type {
	if !b.Intern {
		return b.build(t)
	}
	k := t.Key()
	if x, ok := b.cache[k]; ok {
		return x
	}
	x, ok := singletons[k]
	if !ok {
		x = b.build(t)
	}
	b.cache[k] = x
	return x
}

func (b *Builder) build(t *Term) types.Type {
	switch t.K {
	case "int":
		return types.NewInt(uint64(t.W))
	case "float":
		k, ok := floatKinds[t.FK]
		if !ok {
			panic("tyutil: float kind " + t.FK)
		}
		return &types.FloatType{Kind: k}
	case "ptr":
		p := types.NewPointer(b.Type(t.E))
		p.AddrSpace = types.AddrSpace(t.AS)
		return p
	case "vec":
		v := types.NewVector(uint64(t.N), b.Type(t.E))
		v.Scalable = t.SC
		return v
	case "arr":
		return types.NewArray(uint64(t.N), b.Type(t.E))
	case "struct":
		st := &types.StructType{Packed: t.PK, Fields: make([]types.Type, len(t.FS))}
		for i, f := range t.FS {
			st.Fields[i] = b.Type(f)
		}
		return st
	case "named":
		if body, ok := b.U[t.NM]; ok && body.Alias != nil {
			return b.aliasType(t.NM)
		}
		return b.namedType(t.NM, true)
	case "func":
		ft := &types.FuncType{RetType: b.Type(t.Ret), Variadic: t.VA}
		for _, p := range t.PS {
			ft.Params = append(ft.Params, b.Type(p))
		}
		return ft
	case "void":
		return &types.VoidType{}
	case "label":
		return &types.LabelType{}
	case "token":
		return &types.TokenType{}
	case "metadata":
		return &types.MetadataType{}
	case "x86_mmx":
		return &types.MMXType{}
	}
	panic("tyutil: kind " + t.K)
}

var floatNames = func() map[types.FloatKind]string {
	m := map[types.FloatKind]string{}
	for n, k := range floatKinds {
		m[k] = n
	}
	return m
}()

// FromType reads a library type back into a term (identified structs by name).
func FromType(t types.Type) *Term {
	x := fromType(t)
	if t != nil {
		if _, isStruct := t.(*types.StructType); !isStruct && x != nil {
			x.AL = t.Name()
		}
	}
	return x
}

func fromType(t types.Type) *Term {
	switch t := t.(type) {
	case nil:
		return &Term{K: "nil"}
	case *types.IntType:
		return Int(int(t.BitSize))
	case *types.FloatType:
		return Float(floatNames[t.Kind])
	case *types.PointerType:
		return Ptr(FromType(t.ElemType), int(t.AddrSpace))
	case *types.VectorType:
		return Vec(t.Scalable, int(t.Len), FromType(t.ElemType))
	case *types.ArrayType:
		return Arr(int(t.Len), FromType(t.ElemType))
	case *types.StructType:
		if t.TypeName != "" {
			return Named(t.TypeName)
		}
		st := &Term{K: "struct", PK: t.Packed}
		for _, f := range t.Fields {
			st.FS = append(st.FS, FromType(f))
		}
		return st
	case *types.FuncType:
		ft := &Term{K: "func", Ret: FromType(t.RetType), VA: t.Variadic}
		for _, p := range t.Params {
			ft.PS = append(ft.PS, FromType(p))
		}
		return ft
	case *types.VoidType:
		return Atom("void")
	case *types.LabelType:
		return Atom("label")
	case *types.TokenType:
		return Atom("token")
	case *types.MetadataType:
		return Atom("metadata")
	case *types.MMXType:
		return Atom("x86_mmx")
	}
	return &Term{K: fmt.Sprintf("?%T", t)}
}

// Same reports whether two terms are identical (the specification's TypeEq on
// terms; used only to classify, never to decide a verdict by itself).
func Same(a, b *Term) bool { return len(Diff(a, b)) == 0 }

// Diff lists the attribute positions in which want and got differ, as
// "path.attr:want→got" with numbers abstracted (address spaces, booleans and
// kinds are kept; widths and lengths become "differs").
func Diff(want, got *Term) []string {
	var out []string
	diff("top", want, got, &out)
	return out
}

func diff(path string, a, b *Term, out *[]string) {
	add := func(attr string, x, y interface{}) {
		*out = append(*out, fmt.Sprintf("%s.%s:%v→%v", path, attr, x, y))
	}
	if a == nil || b == nil {
		if a != b {
			add("present", a != nil, b != nil)
		}
		return
	}
	if a.K != b.K {
		add("k", a.K, b.K)
		return
	}
	sub := func(p string) string {
		if path == "top" {
			return p
		}
		return path + "." + p
	}
	switch a.K {
	case "int":
		if a.W != b.W {
			if a.W == 1 || b.W == 1 {
				add("w", widthClass(a.W), widthClass(b.W))
			} else {
				*out = append(*out, path+".w:differs")
			}
		}
	case "float":
		if a.FK != b.FK {
			add("fk", a.FK, b.FK)
		}
	case "ptr":
		if a.AS != b.AS {
			add("as", a.AS, b.AS)
		}
		diff(sub("e"), a.E, b.E, out)
	case "vec":
		if a.SC != b.SC {
			add("sc", a.SC, b.SC)
		}
		if a.N != b.N {
			*out = append(*out, path+".n:differs")
		}
		diff(sub("e"), a.E, b.E, out)
	case "arr":
		if a.N != b.N {
			*out = append(*out, path+".n:differs")
		}
		diff(sub("e"), a.E, b.E, out)
	case "struct":
		if a.PK != b.PK {
			add("pk", a.PK, b.PK)
		}
		if len(a.FS) != len(b.FS) {
			*out = append(*out, path+".fields:count differs")
			return
		}
		for i := range a.FS {
			diff(sub(fmt.Sprintf("f%d", i)), a.FS[i], b.FS[i], out)
		}
	case "named":
		if a.NM != b.NM {
			*out = append(*out, path+".nm:differs")
		}
	case "func":
		if a.VA != b.VA {
			add("va", a.VA, b.VA)
		}
		diff(sub("ret"), a.Ret, b.Ret, out)
		if len(a.PS) != len(b.PS) {
			*out = append(*out, path+".params:count differs")
			return
		}
		for i := range a.PS {
			diff(sub(fmt.Sprintf("p%d", i)), a.PS[i], b.PS[i], out)
		}
	}
}

func widthClass(w int) string {
	if w == 1 {
		return "i1"
	}
	return "iM"
}

// DiffClass joins Diff into one string ("=" when the terms are identical).
func DiffClass(want, got *Term) string {
	d := Diff(want, got)
	if len(d) == 0 {
		return "="
	}
	return strings.Join(d, ",")
}

// AliasDefs is the universe whose alias names Lies checks (set by the check that uses aliases).
var AliasDefs Universe

// Lies lists the positions of t where a type object carries a name that is defined as another
// type: `%V = type <2 x i32>` on an object that is a <4 x i32>. LLVM would read the printed
// name as the defined type, so the reported type is wrong although its structure is right.
func Lies(t *Term) []string {
	var out []string
	var walk func(path string, t *Term)
	walk = func(path string, t *Term) {
		if t == nil {
			return
		}
		if t.AL != "" {
			def, ok := AliasDefs[t.AL]
			switch {
			case !ok || def.Alias == nil:
				out = append(out, path+" carries the undefined name %"+t.AL)
			case !Same(derefAliases(def.Alias), t):
				out = append(out, fmt.Sprintf("%s is named %%%s = %s but is a %s", path, t.AL, def.Alias.Abstract(), t.Abstract()))
			}
		}
		walk(path+".e", t.E)
		walk(path+".ret", t.Ret)
		for i, f := range t.FS {
			walk(fmt.Sprintf("%s.f%d", path, i), f)
		}
		for i, p := range t.PS {
			walk(fmt.Sprintf("%s.p%d", path, i), p)
		}
	}
	walk("top", t)
	return out
}

// derefAliases replaces alias names inside a term by what they stand for.
func derefAliases(t *Term) *Term {
	if t == nil {
		return nil
	}
	if t.K == "named" {
		if d, ok := AliasDefs[t.NM]; ok && d.Alias != nil {
			return derefAliases(d.Alias)
		}
		return t
	}
	c := *t
	c.E, c.Ret = derefAliases(t.E), derefAliases(t.Ret)
	c.FS, c.PS = nil, nil
	for _, f := range t.FS {
		c.FS = append(c.FS, derefAliases(f))
	}
	for _, p := range t.PS {
		c.PS = append(c.PS, derefAliases(p))
	}
	return &c
}
