// Package c07 checks property C07 (not built yet).
package c07

import (
	"verif/harness/mbt"
	"verif/harness/props/reg"
)

func init() { reg.Register("C07", Run) }

// Run is the C07 check.
func Run(tier, replay string) { mbt.Infra("check C07 is not built yet") }
