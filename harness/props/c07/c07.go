// Package c07 checks property C07: getelementptr result types are computed
// correctly (LLVM's type) and consistently by every implementation in the
// library.
//
// (S) spec/Types.tla GepResultType + spec/TypesGep.tla (shape invariants of
// the required function, counterexamples for the walker as implemented).
// (G) TLC enumerates element type x base x index list with the required
// result type; each case is rendered as instruction, constant expression and
// alias (renderer independent of the library), llvm-as confirms that the
// result can be used at the required type (which validates the specification
// against LLVM), and seven observation points of the library are compared
// with the required type:
//
//	asm.inst                  type the parser attaches to the instruction
//	ir.inst(parsed)           type ir recomputes on the parsed instruction
//	ir.NewGetElementPtr       instruction constructor
//	asm.cexpr                 constant expression read by the parser
//	constant.NewGetElementPtr constant-expression constructor
//	asm.alias                 type-only path used for alias address spaces
//	gep.ResultType            the shared walker, called directly
package c07

import (
	"fmt"
	"io"
	"log"
	"math/rand"
	"path/filepath"
	"reflect"
	"sort"
	"strings"
	"time"

	"github.com/llir/llvm/asm"
	"github.com/llir/llvm/ir"
	"github.com/llir/llvm/ir/constant"
	"github.com/llir/llvm/ir/types"
	"github.com/llir/llvm/ir/value"
	"github.com/llir/llvm/verifshim"

	"verif/harness/llvmoracle"
	"verif/harness/mbt"
	"verif/harness/props/reg"
	"verif/harness/props/tyutil"
)

func init() { reg.Register("C07", Run) }

type idx struct {
	F   string `json:"f"`
	W   int    `json:"w"`
	Val int    `json:"val"`
	Vec int    `json:"vec"`
	SC  bool   `json:"sc"`
	IR  bool   `json:"ir"`
	Lit string `json:"lit"` // spelling: dec | hex | lead0; for cfold the expression: trunc | zext | add | sub
}

// lit spells the integer literal v of an index as the index record says.
func (ix idx) lit(v int) string {
	switch ix.Lit {
	case "hex":
		return fmt.Sprintf("u0x%X", v)
	case "lead0":
		return fmt.Sprintf("00%d", v)
	}
	return fmt.Sprint(v)
}

type gcase struct {
	Defs map[string]*tyutil.Body `json:"defs,omitempty"`
	Elem *tyutil.Term            `json:"elem,omitempty"`
	Base *tyutil.Term            `json:"base,omitempty"`
	Idxs []idx                   `json:"idxs"`
	Want *tyutil.Term            `json:"want,omitempty"`
}

// Observation points. The first seven are taken case by case (one module per case, fresh
// type objects). The "+reread" points read the type objects reported there once more after
// ALL cases have been computed. The "(batch)" points share state between cases, as real
// programs do: one module per element type that contains every case over it (bases in both
// address spaces reach the same identified-struct and field type objects), parsed once; and
// the constructors and the walker fed from ONE interning builder (the library's singletons
// types.I8, ... included). Their types are read after the last case. "printed(batch)" is
// llvm-as's verdict on those modules as the library prints them (uses are spelled with the
// reported type).
var baseImpls = []string{"asm.inst", "ir.inst(parsed)", "ir.NewGetElementPtr", "asm.cexpr", "constant.NewGetElementPtr", "asm.alias", "gep.ResultType"}
var impls = func() []string {
	out := append([]string{}, baseImpls...)
	for _, im := range baseImpls {
		out = append(out, im+"+reread")
	}
	for _, im := range baseImpls {
		out = append(out, im+"(batch)")
	}
	out = append(out, "printed(batch)")
	return append(out, wrapImpls...)
}()

// The constructors are also fed constant indices wrapped in *constant.Index (what
// constant.NewIndex returns and what the parser builds for constant-expression indices):
// "Index" = every constant index wrapped, InRange as the case says (false unless `inrange`);
// "Index.InRange set" = wrapped and InRange set to true after construction. The wrapper does
// not take part in typing.
var wrapImpls = []string{"ir.NewGetElementPtr(Index)", "constant.NewGetElementPtr(Index)",
	"ir.NewGetElementPtr(Index.InRange set)", "constant.NewGetElementPtr(Index.InRange set)"}

// baseImpl is the case-by-case observation point a batch or re-read point repeats.
func baseImpl(im string) string {
	for _, suf := range []string{"+reread", "(batch)"} {
		if i := strings.Index(im, suf); i >= 0 && im != "printed(batch)" {
			return im[:i]
		}
	}
	return im
}

// --- rendering (independent of the library's printer) -------------------------

func (ix idx) typ() *tyutil.Term {
	t := tyutil.Int(ix.W)
	if ix.Vec > 0 {
		return tyutil.Vec(ix.SC, ix.Vec, t)
	}
	return t
}

// text renders index k (0-based) as "type value".
func (ix idx) text(k int) string {
	ty := ix.typ().LL()
	el := fmt.Sprintf("i%d", ix.W)
	var v string
	switch ix.F {
	case "int":
		if ix.W == 1 {
			v = map[int]string{0: "false", 1: "true"}[ix.Val]
		} else {
			v = ix.lit(ix.Val)
		}
	case "cfold":
		switch ix.Lit {
		case "trunc":
			v = fmt.Sprintf("trunc (i64 %d to %s)", ix.Val, el)
		case "zext":
			v = fmt.Sprintf("zext (i16 %d to %s)", ix.Val, el)
		case "add":
			v = fmt.Sprintf("add (%s %d, %s 0)", el, ix.Val, el)
		case "sub":
			v = fmt.Sprintf("sub (%s %d, %s 1)", el, ix.Val+1, el)
		default:
			panic("cfold expression " + ix.Lit)
		}
	case "zeroinit":
		v = "zeroinitializer"
	case "undef", "poison":
		v = ix.F
	case "splat":
		var es []string
		for i := 0; i < ix.Vec; i++ {
			if i == 0 {
				es = append(es, el+" "+ix.lit(ix.Val)) // the first element carries the spelling
			} else {
				es = append(es, fmt.Sprintf("%s %d", el, ix.Val))
			}
		}
		v = "<" + strings.Join(es, ", ") + ">"
	case "nonsplat":
		var es []string
		for i := 0; i < ix.Vec; i++ {
			es = append(es, fmt.Sprintf("%s %d", el, i))
		}
		v = "<" + strings.Join(es, ", ") + ">"
	case "elemundef":
		v = fmt.Sprintf("<%s undef, %s 1>", el, el)
	case "elemcexpr":
		v = fmt.Sprintf("<%s ptrtoint (i8* @h to %s), %s 0>", el, el, el)
	case "cexpr":
		if ix.Vec > 0 {
			var es []string
			for i := 0; i < ix.Vec; i++ {
				es = append(es, "i8* @h")
			}
			v = fmt.Sprintf("ptrtoint (<%d x i8*> <%s> to %s)", ix.Vec, strings.Join(es, ", "), ty)
		} else {
			v = fmt.Sprintf("ptrtoint (i8* @h to %s)", ty)
		}
	case "cexpr2":
		v = fmt.Sprintf("add (%s ptrtoint (i8* @h to %s), %s 1)", ty, ty, ty)
	case "ssa":
		v = fmt.Sprintf("%%i%d", k)
	default:
		panic("index form " + ix.F)
	}
	s := ty + " " + v
	if ix.IR {
		s = "inrange " + s
	}
	return s
}

func (c *gcase) hasSSA() bool {
	for _, ix := range c.Idxs {
		if ix.F == "ssa" {
			return true
		}
	}
	return false
}
func (c *gcase) hasInRange() bool {
	for _, ix := range c.Idxs {
		if ix.IR {
			return true
		}
	}
	return false
}
func (c *gcase) anyVecIdx() bool {
	for _, ix := range c.Idxs {
		if ix.Vec > 0 {
			return true
		}
	}
	return false
}
func (c *gcase) basePtr() *tyutil.Term {
	if c.Base.K == "vec" {
		return c.Base.E
	}
	return c.Base
}

func (c *gcase) instOK() bool  { return !c.hasInRange() }
func (c *gcase) cexprOK() bool { return !c.hasSSA() }
func (c *gcase) aliasOK() bool { return c.cexprOK() && c.Base.K == "ptr" && !c.anyVecIdx() }

func (c *gcase) key() string {
	var b strings.Builder
	b.WriteString(c.Elem.LL())
	b.WriteString(" | ")
	b.WriteString(c.Base.LL())
	for k, ix := range c.Idxs {
		b.WriteString(" , ")
		s := ix.text(k)
		if ix.F == "ssa" {
			s = ix.typ().LL() + " %ssa"
		}
		b.WriteString(s)
	}
	return b.String()
}

// globalName is the name of the base global of element type number e in address space as.
func globalName(e, as int) string { return fmt.Sprintf("g%d_%d", as, e) }

// baseConst renders the base operand of the constant-expression form.
func (c *gcase) baseConst(e int) string {
	p := c.basePtr()
	g := "@" + globalName(e, p.AS)
	if c.Base.K == "ptr" {
		return g
	}
	if c.Base.SC {
		return "undef"
	}
	if strings.HasPrefix(p.LL(), "{") {
		// LLVM reads "<{" at the start of a constant as a packed struct, so a vector
		// constant whose element type starts with "{" cannot be spelled element by element
		return "zeroinitializer"
	}
	var es []string
	for i := 0; i < c.Base.N; i++ {
		es = append(es, p.LL()+" "+g)
	}
	return "<" + strings.Join(es, ", ") + ">"
}

func (c *gcase) idxText() string {
	var b strings.Builder
	for k, ix := range c.Idxs {
		b.WriteString(", ")
		b.WriteString(ix.text(k))
	}
	return b.String()
}

// instUnit renders a function whose instruction result is stored at the required type.
func (c *gcase) instUnit(name string) string {
	w := c.Want.LL()
	params := []string{c.Base.LL() + " %b", w + "* %p"}
	for k, ix := range c.Idxs {
		if ix.F == "ssa" {
			params = append(params, fmt.Sprintf("%s %%i%d", ix.typ().LL(), k))
		}
	}
	return fmt.Sprintf("define void @%s(%s) {\n  %%r = getelementptr %s, %s %%b%s\n  store %s %%r, %s* %%p\n  ret void\n}\n",
		name, strings.Join(params, ", "), c.Elem.LL(), c.Base.LL(), c.idxText(), w, w)
}

// cexprUnit renders a function that stores the constant expression at the required type.
func (c *gcase) cexprUnit(name string, e int) string {
	w := c.Want.LL()
	return fmt.Sprintf("define void @%s(%s* %%p) {\n  store %s getelementptr (%s, %s %s%s), %s* %%p\n  ret void\n}\n",
		name, w, w, c.Elem.LL(), c.Base.LL(), c.baseConst(e), c.idxText(), w)
}

// aliasUnit renders an alias whose aliasee is the constant expression.
func (c *gcase) aliasUnit(name string, e int) string {
	return fmt.Sprintf("@%s = alias %s, getelementptr (%s, %s %s%s)\n", name, c.Want.E.LL(), c.Elem.LL(), c.Base.LL(), c.baseConst(e), c.idxText())
}

// --- the run -------------------------------------------------------------------

type env struct {
	uni     tyutil.Universe
	elems   []*tyutil.Term // distinct element types, index = number in global names
	elemNo  map[string]int
	prelude string // type definitions, @h and the base globals of every element type
}

func newEnv(uni tyutil.Universe, cases []*gcase) *env {
	e := &env{uni: uni, elemNo: map[string]int{}}
	for _, c := range cases {
		k := c.Elem.LL()
		if _, ok := e.elemNo[k]; !ok {
			e.elemNo[k] = len(e.elems)
			e.elems = append(e.elems, c.Elem)
		}
	}
	var b strings.Builder
	b.WriteString(uni.Defs())
	b.WriteString("@h = global i8 0\n")
	for i, t := range e.elems {
		b.WriteString(e.globals(i, t))
	}
	e.prelude = b.String()
	return e
}

func (e *env) globals(i int, t *tyutil.Term) string {
	return fmt.Sprintf("@%s = global %s zeroinitializer\n@%s = addrspace(1) global %s zeroinitializer\n", globalName(i, 0), t.LL(), globalName(i, 1), t.LL())
}

// small is the prelude for one case (what the library parses).
func (e *env) small(c *gcase) string {
	i := e.elemNo[c.Elem.LL()]
	return e.uni.Defs() + "@h = global i8 0\n" + e.globals(i, c.Elem)
}

type result struct {
	c     *gcase
	out   map[string]tyutil.Outcome
	class map[string]string
}

// objects builds the library operands of a case.
type objects struct {
	b      *tyutil.Builder
	h      *ir.Global
	g      [2]*ir.Global
	elem   types.Type
	base   types.Type
	baseV  value.Value
	baseC  constant.Constant
	idxV   []value.Value
	idxC   []constant.Constant
	shimIx []verifshim.GepIndex
}

func (e *env) objects(c *gcase) *objects {
	return e.objectsWith(tyutil.NewBuilder(e.uni, false), c)
}

func (e *env) objectsWith(b *tyutil.Builder, c *gcase) *objects {
	o := &objects{b: b}
	o.elem = o.b.Type(c.Elem)
	o.base = o.b.Type(c.Base)
	o.h = ir.NewGlobalDef("h", constant.NewInt(types.I8, 0))
	i := e.elemNo[c.Elem.LL()]
	for as := 0; as < 2; as++ {
		g := &ir.Global{ContentType: o.elem, Init: constant.NewZeroInitializer(o.elem), AddrSpace: types.AddrSpace(as)}
		g.SetName(globalName(i, as))
		g.Type()
		o.g[as] = g
	}
	o.baseV = ir.NewParam("b", o.base)
	p := c.basePtr()
	switch {
	case c.Base.K == "ptr":
		o.baseC = o.g[p.AS]
	case c.Base.SC:
		o.baseC = constant.NewUndef(o.base)
	case strings.HasPrefix(p.LL(), "{"):
		o.baseC = constant.NewZeroInitializer(o.base)
	default:
		var es []constant.Constant
		for k := 0; k < c.Base.N; k++ {
			es = append(es, o.g[p.AS])
		}
		o.baseC = constant.NewVector(o.base.(*types.VectorType), es...)
	}
	for k, ix := range c.Idxs {
		ty := o.b.Type(ix.typ())
		it := types.NewInt(uint64(ix.W))
		var cst constant.Constant
		switch ix.F {
		case "int":
			cst = intConst(it, ix, ix.Val)
		case "cfold":
			v := int64(ix.Val)
			switch ix.Lit {
			case "trunc":
				cst = constant.NewTrunc(constant.NewInt(types.I64, v), it)
			case "zext":
				cst = constant.NewZExt(constant.NewInt(types.I16, v), it)
			case "add":
				cst = constant.NewAdd(constant.NewInt(it, v), constant.NewInt(it, 0))
			case "sub":
				cst = constant.NewSub(constant.NewInt(it, v+1), constant.NewInt(it, 1))
			default:
				panic("cfold expression " + ix.Lit)
			}
		case "zeroinit":
			cst = constant.NewZeroInitializer(ty)
		case "undef":
			cst = constant.NewUndef(ty)
		case "poison":
			cst = constant.NewPoison(ty)
		case "splat", "nonsplat":
			var es []constant.Constant
			for n := 0; n < ix.Vec; n++ {
				switch {
				case ix.F == "nonsplat":
					es = append(es, constant.NewInt(it, int64(n)))
				case n == 0:
					es = append(es, intConst(it, ix, ix.Val))
				default:
					es = append(es, constant.NewInt(it, int64(ix.Val)))
				}
			}
			cst = constant.NewVector(ty.(*types.VectorType), es...)
		case "elemundef":
			cst = constant.NewVector(ty.(*types.VectorType), constant.NewUndef(it), constant.NewInt(it, 1))
		case "elemcexpr":
			cst = constant.NewVector(ty.(*types.VectorType), constant.NewPtrToInt(o.h, it), constant.NewInt(it, 0))
		case "cexpr":
			if ix.Vec > 0 {
				var es []constant.Constant
				for n := 0; n < ix.Vec; n++ {
					es = append(es, o.h)
				}
				cst = constant.NewPtrToInt(constant.NewVector(types.NewVector(uint64(ix.Vec), types.I8Ptr), es...), ty)
			} else {
				cst = constant.NewPtrToInt(o.h, ty)
			}
		case "cexpr2":
			cst = constant.NewAdd(constant.NewPtrToInt(o.h, ty), constant.NewInt(it, 1))
		case "ssa":
		default:
			panic("index form " + ix.F)
		}
		if ix.F == "ssa" {
			o.idxV = append(o.idxV, ir.NewParam(fmt.Sprintf("i%d", k), ty))
			o.idxC = append(o.idxC, nil)
		} else {
			o.idxV = append(o.idxV, cst)
			if ix.IR {
				w := constant.NewIndex(cst)
				w.InRange = true
				cst = w
			}
			o.idxC = append(o.idxC, cst)
		}
		// what a correct classifier hands to the walker (the index record has no scalability)
		gi := verifshim.GepIndex{VectorLen: uint64(ix.Vec)}
		switch ix.F {
		case "int", "splat", "cfold":
			gi.HasVal, gi.Val = true, int64(ix.Val)
		case "zeroinit":
			gi.HasVal, gi.Val = true, 0
		}
		// if the index record has a field for scalability (a repaired walker), fill it
		if f := reflect.ValueOf(&gi).Elem().FieldByName("Scalable"); f.IsValid() && f.Kind() == reflect.Bool && f.CanSet() {
			f.SetBool(ix.SC)
		}
		o.shimIx = append(o.shimIx, gi)
	}
	return o
}

// intConst builds the integer constant v from the spelling the index record asks for.
func intConst(it *types.IntType, ix idx, v int) constant.Constant {
	if ix.Lit == "hex" || ix.Lit == "lead0" {
		c, err := constant.NewIntFromString(it, ix.lit(v))
		if err != nil {
			panic(fmt.Sprintf("constant.NewIntFromString(%v, %q): %v", it, ix.lit(v), err))
		}
		return c
	}
	return constant.NewInt(it, int64(v))
}

func firstInst(m *ir.Module) (ir.Instruction, error) {
	if len(m.Funcs) != 1 || len(m.Funcs[0].Blocks) != 1 || len(m.Funcs[0].Blocks[0].Insts) < 1 {
		return nil, fmt.Errorf("unexpected shape of the parsed module")
	}
	return m.Funcs[0].Blocks[0].Insts[0], nil
}

// evaluate runs every implementation on the case. valid says which rendered
// forms llvm-as accepted (inst, cexpr, alias).
func (e *env) evaluate(c *gcase, valid [3]bool) *result {
	r := &result{c: c, out: map[string]tyutil.Outcome{}, class: map[string]string{}}
	na := tyutil.Outcome{NA: true}
	for _, im := range impls {
		r.out[im] = na
	}
	i := e.elemNo[c.Elem.LL()]
	var o *objects
	if msg, p := mbt.Guard(func() { o = e.objects(c) }); p {
		for _, im := range impls {
			r.out[im] = tyutil.Outcome{Panic: "building operands: " + msg}
		}
	} else {
		if valid[0] {
			// parser, instruction
			var inst *ir.InstGetElementPtr
			r.out["asm.inst"] = tyutil.Observe(func() (types.Type, error) {
				m, err := asm.ParseString("c07.ll", e.small(c)+c.instUnit("f"))
				if err != nil {
					return nil, err
				}
				in, err := firstInst(m)
				if err != nil {
					return nil, err
				}
				g, ok := in.(*ir.InstGetElementPtr)
				if !ok {
					return nil, fmt.Errorf("parsed instruction is %T", in)
				}
				inst = g
				return g.Typ, nil
			})
			if inst != nil {
				r.out["ir.inst(parsed)"] = tyutil.Observe(func() (types.Type, error) {
					inst.Typ = nil
					return inst.Type(), nil
				})
			}
			r.out["ir.NewGetElementPtr"] = tyutil.Observe(func() (types.Type, error) {
				return ir.NewGetElementPtr(o.elem, o.baseV, o.idxV...).Type(), nil
			})
		}
		if valid[1] {
			r.out["asm.cexpr"] = tyutil.Observe(func() (types.Type, error) {
				m, err := asm.ParseString("c07.ll", e.small(c)+c.cexprUnit("f", i))
				if err != nil {
					return nil, err
				}
				in, err := firstInst(m)
				if err != nil {
					return nil, err
				}
				st, ok := in.(*ir.InstStore)
				if !ok {
					return nil, fmt.Errorf("parsed instruction is %T", in)
				}
				return st.Src.Type(), nil
			})
			r.out["constant.NewGetElementPtr"] = tyutil.Observe(func() (types.Type, error) {
				return constant.NewGetElementPtr(o.elem, o.baseC, o.idxC...).Type(), nil
			})
		}
		for _, set := range []bool{false, true} {
			set := set
			suffix := "(Index)"
			if set {
				suffix = "(Index.InRange set)"
			}
			wrap := func(k int, c constant.Constant) *constant.Index {
				if w, ok := c.(*constant.Index); ok {
					c = w.Constant
				}
				w := constant.NewIndex(c)
				if set || r.c.Idxs[k].IR {
					w.InRange = true
				}
				return w
			}
			if valid[0] {
				r.out["ir.NewGetElementPtr"+suffix] = tyutil.Observe(func() (types.Type, error) {
					var vs []value.Value
					for k, v := range o.idxV {
						if c, ok := v.(constant.Constant); ok {
							v = wrap(k, c)
						}
						vs = append(vs, v)
					}
					return ir.NewGetElementPtr(o.elem, o.baseV, vs...).Type(), nil
				})
			}
			if valid[1] {
				r.out["constant.NewGetElementPtr"+suffix] = tyutil.Observe(func() (types.Type, error) {
					var cs []constant.Constant
					for k, c := range o.idxC {
						cs = append(cs, wrap(k, c))
					}
					return constant.NewGetElementPtr(o.elem, o.baseC, cs...).Type(), nil
				})
			}
		}
		if valid[2] {
			r.out["asm.alias"] = tyutil.Observe(func() (types.Type, error) {
				m, err := asm.ParseString("c07.ll", e.small(c)+c.aliasUnit("a", i))
				if err != nil {
					return nil, err
				}
				if len(m.Aliases) != 1 {
					return nil, fmt.Errorf("parsed module has %d aliases", len(m.Aliases))
				}
				return m.Aliases[0].Typ, nil
			})
		}
		if valid[0] || valid[1] {
			r.out["gep.ResultType"] = tyutil.Observe(func() (types.Type, error) {
				return verifshim.GepResultType(o.elem, o.base, o.shimIx), nil
			})
		}
	}
	return r
}

// batch adds the observations that share state between the cases (see impls).
func (e *env) batch(rep *mbt.Report, results []*result, valid [][3]bool) {
	// constructors and walker over one interning builder
	b := tyutil.NewInternBuilder(e.uni)
	for n, r := range results {
		c := r.c
		var o *objects
		if _, p := mbt.Guard(func() { o = e.objectsWith(b, c) }); p {
			continue
		}
		if valid[n][0] {
			r.out["ir.NewGetElementPtr(batch)"] = tyutil.Observe(func() (types.Type, error) {
				return ir.NewGetElementPtr(o.elem, o.baseV, o.idxV...).Type(), nil
			})
		}
		if valid[n][1] {
			r.out["constant.NewGetElementPtr(batch)"] = tyutil.Observe(func() (types.Type, error) {
				return constant.NewGetElementPtr(o.elem, o.baseC, o.idxC...).Type(), nil
			})
		}
		if valid[n][0] || valid[n][1] {
			r.out["gep.ResultType(batch)"] = tyutil.Observe(func() (types.Type, error) {
				return verifshim.GepResultType(o.elem, o.base, o.shimIx), nil
			})
		}
	}
	// one module per element type with every case the parser read on its own
	groups := map[int][]int{}
	for n, r := range results {
		groups[e.elemNo[r.c.Elem.LL()]] = append(groups[e.elemNo[r.c.Elem.LL()]], n)
	}
	type unit struct {
		n    int
		form int
	}
	var geps []*ir.InstGetElementPtr
	var gepOf []int
	printed := 0
	for i := range e.elems {
		var us []unit
		for _, n := range groups[i] {
			r := results[n]
			if valid[n][0] && r.out["asm.inst"].Type != nil {
				us = append(us, unit{n, 0})
			}
			if valid[n][1] && r.out["asm.cexpr"].Type != nil {
				us = append(us, unit{n, 1})
			}
			if valid[n][2] && r.out["asm.alias"].Type != nil {
				us = append(us, unit{n, 2})
			}
		}
		text := func(u unit) string {
			c := results[u.n].c
			switch u.form {
			case 0:
				return c.instUnit(fmt.Sprintf("fi%d", u.n))
			case 1:
				return c.cexprUnit(fmt.Sprintf("fc%d", u.n), i)
			}
			return c.aliasUnit(fmt.Sprintf("a%d", u.n), i)
		}
		formImpl := []string{"asm.inst(batch)", "asm.cexpr(batch)", "asm.alias(batch)"}
		var mods []*ir.Module
		var parse func(lo, hi int)
		parse = func(lo, hi int) {
			var sb strings.Builder
			sb.WriteString(e.uni.Defs() + "@h = global i8 0\n" + e.globals(i, e.elems[i]))
			for _, u := range us[lo:hi] {
				sb.WriteString(text(u))
			}
			var m *ir.Module
			var err error
			msg, p := mbt.Guard(func() { m, err = asm.ParseString("c07-all.ll", sb.String()) })
			if p || err != nil {
				if hi-lo > 1 {
					mid := (lo + hi) / 2
					parse(lo, mid)
					parse(mid, hi)
					return
				}
				o := tyutil.Outcome{Panic: msg}
				if !p {
					o = tyutil.Outcome{Err: err.Error()}
				}
				results[us[lo].n].out[formImpl[us[lo].form]] = o
				return
			}
			mods = append(mods, m)
		}
		if len(us) > 0 {
			parse(0, len(us))
		}
		for _, m := range mods {
			for _, f := range m.Funcs {
				var n int
				switch {
				case strings.HasPrefix(f.Name(), "fi"):
					fmt.Sscanf(f.Name(), "fi%d", &n)
					results[n].out["asm.inst(batch)"] = tyutil.Observe(func() (types.Type, error) {
						in, err := firstInstOf(f)
						if err != nil {
							return nil, err
						}
						g, ok := in.(*ir.InstGetElementPtr)
						if !ok {
							return nil, fmt.Errorf("parsed instruction is %T", in)
						}
						geps, gepOf = append(geps, g), append(gepOf, n)
						return g.Typ, nil
					})
				case strings.HasPrefix(f.Name(), "fc"):
					fmt.Sscanf(f.Name(), "fc%d", &n)
					results[n].out["asm.cexpr(batch)"] = tyutil.Observe(func() (types.Type, error) {
						in, err := firstInstOf(f)
						if err != nil {
							return nil, err
						}
						st, ok := in.(*ir.InstStore)
						if !ok {
							return nil, fmt.Errorf("parsed instruction is %T", in)
						}
						return st.Src.Type(), nil
					})
				}
			}
			for _, a := range m.Aliases {
				var n int
				fmt.Sscanf(a.Name(), "a%d", &n)
				al := a
				results[n].out["asm.alias(batch)"] = tyutil.Observe(func() (types.Type, error) { return al.Typ, nil })
			}
			// the library's print of the module, judged by llvm-as
			var defs []*ir.Func
			for _, f := range m.Funcs {
				if len(f.Blocks) > 0 {
					defs = append(defs, f)
				}
			}
			leaves := 0
			var check func(lo, hi int, withAliases bool)
			check = func(lo, hi int, withAliases bool) {
				if leaves > 24 {
					return
				}
				sub := &ir.Module{TypeDefs: m.TypeDefs, Globals: m.Globals, Funcs: defs[lo:hi]}
				if withAliases {
					sub.Aliases = m.Aliases
				}
				var txt string
				msg, p := mbt.Guard(func() { txt = sub.String() })
				acc, diag := false, "the printer panics: "+msg
				if !p {
					acc, diag = llvmoracle.Accepts(txt)
				}
				if acc {
					printed += hi - lo
					return
				}
				if withAliases {
					check(lo, hi, false)
					if leaves == 0 { // the functions alone are fine: an alias is printed wrongly
						leaves++
						for _, a := range m.Aliases {
							var n int
							fmt.Sscanf(a.Name(), "a%d", &n)
							one := &ir.Module{TypeDefs: m.TypeDefs, Globals: m.Globals, Aliases: []*ir.Alias{a}}
							if acc, d := llvmoracle.Accepts(one.String()); !acc {
								results[n].out["printed(batch)"] = tyutil.Outcome{Err: "llvm-as rejects the printed alias: " + d + "\n" + a.LLString()}
								break
							}
						}
					}
					return
				}
				if hi-lo > 1 {
					mid := (lo + hi) / 2
					check(lo, mid, false)
					check(mid, hi, false)
					return
				}
				leaves++
				var n int
				fmt.Sscanf(defs[lo].Name()[2:], "%d", &n)
				results[n].out["printed(batch)"] = tyutil.Outcome{Err: "llvm-as rejects the printed function: " + diag + "\n" + defs[lo].LLString()}
			}
			check(0, len(defs), true)
		}
	}
	rep.Extra["functions_printed_and_accepted_by_llvm_as"] = printed
	// recomputation inside the shared modules: clear every cached type, then compute them all
	for _, g := range geps {
		g.Typ = nil
	}
	for k, g := range geps {
		gg := g
		results[gepOf[k]].out["ir.inst(parsed)(batch)"] = tyutil.Observe(func() (types.Type, error) { return gg.Type(), nil })
	}
	// everything reported so far is read once more, now that all cases have been computed
	for _, r := range results {
		for _, im := range baseImpls {
			r.out[im+"+reread"] = r.out[im].Reread()
			if o := r.out[im+"(batch)"]; o.Raw != nil {
				r.out[im+"(batch)"] = o.Reread()
			}
		}
	}
}

func firstInstOf(f *ir.Func) (ir.Instruction, error) {
	if len(f.Blocks) != 1 || len(f.Blocks[0].Insts) < 1 {
		return nil, fmt.Errorf("unexpected shape of the parsed function")
	}
	return f.Blocks[0].Insts[0], nil
}

// --- minimisation and signatures ------------------------------------------------

func baseShape(b *tyutil.Term) string {
	p := b
	s := "ptr"
	if b.K == "vec" {
		p = b.E
		s = "<N x ptr>"
		if b.SC {
			s = "<vscale x N x ptr>"
		}
	}
	if p.AS != 0 {
		s += ".as1"
	}
	return s
}

func idxShape(ix idx) string {
	f := ix.F
	if ix.F != "cfold" && ix.Lit != "" && ix.Lit != "dec" {
		f += "(" + ix.Lit + ")"
	}
	if ix.F == "int" && ix.Val < 0 {
		f += "(negative)"
	}
	s := f + ":" + ix.typ().Abstract()
	if ix.IR {
		s = "inrange " + s
	}
	return s
}

// through lists the kinds of the aggregates the indices after the first step into.
func (e *env) through(c *gcase) []string {
	var out []string
	t := c.Elem
	for k, ix := range c.Idxs {
		if k == 0 {
			continue
		}
		r := t
		if r.K == "named" {
			b := e.uni[r.NM]
			r = tyutil.Struct(b.PK, b.FS...)
		}
		switch r.K {
		case "struct":
			out = append(out, "struct")
			if ix.Val >= 0 && ix.Val < len(r.FS) {
				t = r.FS[ix.Val]
			}
		case "arr", "vec":
			out = append(out, r.K)
			t = r.E
		default:
			out = append(out, "?")
		}
	}
	return out
}

// shape describes the minimal failing case abstractly. Indices that are plain
// integer literals carry no information once a non-plain operand is present,
// so the shape is the base plus the set of non-plain index forms; only when
// every index is a plain integer the list and the kinds stepped into are given.
func (e *env) shape(c *gcase) string {
	var all, special []string
	seen := map[string]bool{}
	for _, ix := range c.Idxs {
		s := idxShape(ix)
		all = append(all, s)
		if (!strings.HasPrefix(s, "int:") || ix.IR) && !seen[s] {
			seen[s] = true
			special = append(special, s)
		}
	}
	if len(special) > 0 {
		sort.Strings(special)
		return "base=" + baseShape(c.Base) + " idx∋{" + strings.Join(special, ", ") + "}"
	}
	s := "base=" + baseShape(c.Base) + " idx=[" + strings.Join(all, ", ") + "]"
	if th := e.through(c); len(th) > 0 {
		s += " through=[" + strings.Join(th, ",") + "]"
	}
	return s
}

// neighbours lists the simpler cases next to c, plainest first: plain base,
// one index dropped, one index replaced by a plain integer literal. An operand
// is never replaced by another non-plain form (say an SSA vector by a
// zeroinitializer vector): the forms correspond to different arms of the
// classifiers under test, and such a step could walk a new defect into the
// minimal shape of a listed one and hide it.
func neighbours(c *gcase) []*gcase {
	var out []*gcase
	if !(c.Base.K == "ptr" && c.Base.AS == 0) {
		n := *c
		n.Base = tyutil.Ptr(c.Elem, 0)
		out = append(out, &n)
		if c.Base.K == "vec" && c.Base.E.AS != 0 { // keep the vector, drop the address space
			n2 := *c
			n2.Base = tyutil.Vec(c.Base.SC, c.Base.N, tyutil.Ptr(c.Elem, 0))
			out = append(out, &n2)
		}
		if c.Base.K == "vec" { // keep the address space, drop the vector
			n3 := *c
			n3.Base = tyutil.Ptr(c.Elem, c.Base.E.AS)
			out = append(out, &n3)
		}
	}
	for k := len(c.Idxs) - 1; k >= 0; k-- {
		n := *c
		n.Idxs = append(append([]idx{}, c.Idxs[:k]...), c.Idxs[k+1:]...)
		out = append(out, &n)
	}
	plain := []idx{{F: "int", W: 64, Val: 0, Lit: "dec"}, {F: "int", W: 32, Val: 0, Lit: "dec"}, {F: "int", W: 32, Val: 1, Lit: "dec"}}
	for k := len(c.Idxs) - 1; k >= 0; k-- {
		repl := func(p idx) {
			n := *c
			n.Idxs = append([]idx{}, c.Idxs...)
			n.Idxs[k] = p
			out = append(out, &n)
		}
		ix := c.Idxs[k]
		for _, p := range plain {
			if ix == p {
				break // already at least as plain
			}
			repl(p)
		}
	}
	return out
}

// minimise walks from a failing case to a neighbouring case of the enumerated
// set that fails in the same implementation with the same difference class,
// until there is none.
func minimise(table map[string]*result, r *result, im string) *result {
	cls := r.class[im]
	cur := r
	for steps := 0; steps < 20; steps++ {
		moved := false
		for _, n := range neighbours(cur.c) {
			if nr, ok := table[n.key()]; ok && nr != cur && nr.class[im] == cls {
				cur, moved = nr, true
				break
			}
		}
		if !moved {
			break
		}
	}
	return cur
}

func load(rep *mbt.Report, tier string) (tyutil.Universe, []*gcase) {
	t := mbt.MustTLC(mbt.TLCOpts{Spec: "TypesGep", Cfg: "TypesGep.cfg", Workers: 1, Consts: map[string]string{"Tier": `"` + tier + `"`}, Timeout: 15 * time.Minute})
	defer t.Cleanup()
	if len(t.Violated) > 0 {
		mbt.Infra("GepResultType of Types.tla violates its shape invariants %v: specification error\n%s", t.Violated, mbt.Truncate(t.Output, 3000))
	}
	rep.AddTLC(t)
	recs, err := mbt.ReadNDJSON[gcase](filepath.Join(t.Dir, "gep_cases.ndjson"))
	if err != nil {
		mbt.Infra("%v", err)
	}
	var uni tyutil.Universe
	var cases []*gcase
	for k := range recs {
		if recs[k].Defs != nil {
			uni = tyutil.Universe(recs[k].Defs)
			continue
		}
		cases = append(cases, &recs[k])
	}
	if uni == nil || len(cases) < 1000 {
		mbt.Infra("generator produced %d cases", len(cases))
	}
	if int64(len(cases)) != t.Distinct-int64(countStages(cases)) {
		rep.Note("TLC reported %d distinct states for %d cases", t.Distinct, len(cases))
	}
	return uni, cases
}

func countStages(cases []*gcase) int {
	el := map[string]bool{}
	eb := map[string]bool{}
	for _, c := range cases {
		el[c.Elem.LL()] = true
		eb[c.Elem.LL()+"|"+c.Base.LL()] = true
	}
	return 1 + len(el) + len(eb)
}

// process validates the cases with llvm-as, runs the implementations and reports.
func process(rep *mbt.Report, uni tyutil.Universe, cases []*gcase, minimiseSigs bool) {
	e := newEnv(uni, cases)
	// (b) llvm-as: the result can be used at the required type
	type unitRef struct{ c, form int }
	var units []string
	var refs []unitRef
	for n, c := range cases {
		i := e.elemNo[c.Elem.LL()]
		if c.instOK() {
			units = append(units, c.instUnit(fmt.Sprintf("fi%d", n)))
			refs = append(refs, unitRef{n, 0})
		}
		if c.cexprOK() {
			units = append(units, c.cexprUnit(fmt.Sprintf("fc%d", n), i))
			refs = append(refs, unitRef{n, 1})
		}
		if c.aliasOK() {
			units = append(units, c.aliasUnit(fmt.Sprintf("a%d", n), i))
			refs = append(refs, unitRef{n, 2})
		}
	}
	ok, diag := tyutil.BatchAccept(e.prelude, units, 250)
	valid := make([][3]bool, len(cases))
	discards := 0
	discardByForm := map[string]int{}
	for u, r := range refs {
		if ok[u] {
			valid[r.c][r.form] = true
			continue
		}
		discards++
		form := []string{"instruction", "constant expression", "alias"}[r.form]
		discardByForm[form]++
		if discards <= 8 {
			rep.Note("spec/LLVM disagreement (discarded): llvm-as rejects the %s form of {%s}: %s", form, cases[r.c].key(), mbt.Truncate(diag[u], 200))
		}
	}
	rep.Extra["llvm_validated_units"] = len(units) - discards
	rep.Extra["llvm_discards"] = discards
	rep.Extra["llvm_discards_by_form"] = discardByForm
	if discards*50 > len(units) {
		mbt.Infra("llvm-as rejects %d of %d rendered getelementptr uses (%s): GepResultType of Types.tla or the renderer disagrees with LLVM", discards, len(units), tyutil.Pct(discards, len(units)))
	}
	// (a)+(c) the library
	results := make([]*result, len(cases))
	llvmoracle.Parallel(len(cases), func(n int) { results[n] = e.evaluate(cases[n], valid[n]) })
	e.batch(rep, results, valid)
	for _, r := range results {
		for _, im := range impls {
			r.class[im] = r.out[im].Class(r.c.Want)
		}
	}
	table := map[string]*result{}
	for _, r := range results {
		table[r.c.key()] = r
	}
	perImpl := map[string]int{}
	failing := map[string]int{}
	sigCount := map[string]int{}
	for _, r := range results {
		nontrivial := len(r.c.Idxs) > 0
		rep.Count(r.c.key(), nontrivial)
		for _, im := range impls {
			cls := r.class[im]
			if cls == "n/a" {
				continue
			}
			perImpl[im]++
			rep.TracesValidated++
			if cls == "=" {
				continue
			}
			// a batch / re-read observation that fails exactly as the case-by-case one adds nothing
			if base := baseImpl(im); base != im && r.class[base] == cls {
				continue
			}
			failing[im]++
			m := r
			if minimiseSigs {
				m = minimise(table, r, im)
			}
			sig := fmt.Sprintf("C07|%s|%s|%s", im, cls, e.shape(m.c))
			sigCount[sig]++
			rep.Fail(mbt.Failure{Signature: sig,
				What: fmt.Sprintf("%s: getelementptr {%s} must have type %s, got %s (minimal failing shape {%s}: required %s, got %s)",
					im, r.c.key(), r.c.Want.LL(), r.out[im], m.c.key(), m.c.Want.LL(), m.out[im]),
				Case: map[string]interface{}{"impl": im, "defs": uni, "case": r.c, "minimal": m.c}})
		}
	}
	rep.Extra["evaluated_per_implementation"] = perImpl
	rep.Extra["failing_per_implementation"] = failing
	rep.Extra["failure_signatures"] = sigCount
}

// Run is the C07 check.
func Run(tier, replay string) {
	log.SetOutput(io.Discard)
	rep := mbt.NewReport("C07", tier, "model_checking")
	rep.Rule = "getelementptr cases (element type x base x non-empty index list) enumerated by TLC with the required result type, validated by llvm-as and compared with seven observation points of the library"
	llvmoracle.Require()
	rng := rand.New(rand.NewSource(mbt.Seed()))

	if replay != "" {
		runReplay(rep, replay)
		rep.Finish()
	}

	// the walker as implemented must be refuted by the required function (deviation switch)
	t := mbt.MustTLC(mbt.TLCOpts{Spec: "TypesGep", Cfg: "TypesGepDeviation.cfg", Continue: false})
	if len(t.Violated) == 0 {
		mbt.Infra("TypesGepDeviation: the as-implemented walker agrees with the required function on the whole model; the deviation switch is dead")
	}
	rep.Extra["as_implemented_refuted_by"] = t.Violated
	t.Cleanup()

	uni, cases := load(rep, tier)
	// seeded order (the set is evaluated completely; the seed picks the samples)
	perm := rng.Perm(len(cases))
	for _, k := range perm[:4] {
		rep.Sample(map[string]interface{}{"gep": cases[k].key(), "required_type": cases[k].Want.LL()})
	}
	process(rep, uni, cases, true)
	rep.Exhaustive = true
	rep.Explanation = "exhaustive over the finite sets of TypesGep.tla for this tier (element types, bases, all index lists of length <= 2 over every index form, length 3 over the plain forms); index lists longer than 3 and element types outside Elems are not covered"
	rep.Assumptions = []string{
		"llvm-as 14 accepting `store <required type> %r` validates the required type; the renderer (harness/props/c07) spells the case as the specification means it",
		"TLC's enumeration of TypesGep.tla is complete for the constants of the tier",
	}
	rep.Finish()
}

func runReplay(rep *mbt.Report, path string) {
	type rf struct {
		Failures []struct {
			Case struct {
				Defs map[string]*tyutil.Body `json:"defs"`
				Case *gcase                  `json:"case"`
				Min  *gcase                  `json:"minimal"`
			} `json:"case"`
		} `json:"failures"`
	}
	var one rf
	if e := mbt.ReadJSON(path, &one); e != nil {
		mbt.Infra("replay %s: %v", path, e)
	}
	var cases []*gcase
	var uni tyutil.Universe
	seen := map[string]bool{}
	for _, f := range one.Failures {
		if f.Case.Case == nil {
			continue
		}
		uni = tyutil.Universe(f.Case.Defs)
		for _, c := range []*gcase{f.Case.Case, f.Case.Min} {
			if c != nil && c.Want != nil && !seen[c.key()] {
				seen[c.key()] = true
				cases = append(cases, c)
			}
		}
	}
	if len(cases) == 0 {
		mbt.Infra("replay %s: no case", path)
	}
	sort.Slice(cases, func(i, j int) bool { return cases[i].key() < cases[j].key() })
	process(rep, uni, cases, true)
}
