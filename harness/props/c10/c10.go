// Package c10 checks property C10 (not built yet).
package c10

import (
	"verif/harness/mbt"
	"verif/harness/props/reg"
)

func init() { reg.Register("C10", Run) }

// Run is the C10 check.
func Run(tier, replay string) { mbt.Infra("check C10 is not built yet") }
