// Package c10 checks property C10: floating-point literals keep their exact bit
// pattern through parsing and printing.
//
// Specification: spec/FloatLit.tla (FloatDenoteHex, HexSpelling, Widen/Narrow, the
// as-implemented model) and spec/FloatLitTrace.tla (the law on a recording).
//
//	(S) TLC checks the round-trip laws of the reference functions on all 65 536 half
//	    patterns and on the boundary sets of the other five kinds, and shows that the
//	    property fails on the as-implemented model (FloatLitImpl.cfg).
//	(G) The same run writes one vector per pattern and spelling (literal text, required
//	    bits); each literal goes through asm.ParseString and constant.NewFloatFromString
//	    and is printed.
//	(T) Every (kind, input literal, printed literal) triple, together with LLVM's reading
//	    of both literals (llvm-as | llvm-dis on a folded bitcast), is judged by TLC with
//	    FloatLitTrace.tla: bits(input) = bits(printed), hexadecimal forms decoded by the
//	    spec, decimal forms by LLVM. Seeded random patterns and decimal / scientific
//	    inputs take the same path.
//
// A spec/LLVM disagreement is an infrastructure error (exit 2), never a verdict.
package c10

import (
	"fmt"
	"io"
	"log"
	"math/rand"
	"os"
	"path/filepath"
	"regexp"
	"sort"
	"strconv"
	"strings"
	"time"

	"verif/harness/llvmoracle"
	"verif/harness/mbt"
	"verif/harness/props/reg"
)

func init() { reg.Register("C10", Run) }

type litJ struct {
	Form string `json:"form"`
	Digs []int  `json:"digs"`
}

type row struct {
	ID    int    `json:"id"`
	Kind  string `json:"kind"`
	In    litJ   `json:"in"`
	Inl   []int  `json:"inl"`
	Out   litJ   `json:"out"`
	Outok bool   `json:"outok"`
	Outl  []int  `json:"outl"`
}

type vecJ struct {
	Kind  string `json:"kind"`
	Tag   string `json:"tag"`
	Lit   string `json:"lit"`
	Valid bool   `json:"valid"`
	Want  string `json:"want"`
	Cls   string `json:"cls"`
	Impl  string `json:"impl"`
	Pos   string `json:"pos"`
	Sib   string `json:"sib"`
	Sibl  string `json:"sibl"`
}

func hexDigits(s string) []int {
	out := make([]int, len(s))
	for i := 0; i < len(s); i++ {
		v, err := strconv.ParseUint(s[i:i+1], 16, 8)
		if err != nil {
			mbt.Infra("not a hexadecimal digit in %q", s)
		}
		out[i] = int(v)
	}
	return out
}

var reHexLit = regexp.MustCompile(`^0x([HKLMR]?)([0-9A-Fa-f]+)$`)

// parseLit splits a literal into the form the spec reads.
func parseLit(s string) litJ {
	if m := reHexLit.FindStringSubmatch(s); m != nil {
		f := m[1]
		if f == "" {
			f = "D"
		}
		return litJ{Form: f, Digs: hexDigits(m[2])}
	}
	return litJ{Form: "dec", Digs: []int{}}
}

var fullDigits = map[string]int{"D": 16, "H": 4, "K": 20, "L": 32, "M": 32}

// isShort reports whether a hexadecimal literal has fewer digits than the full form.
func isShort(l litJ) bool { return l.Form != "dec" && len(l.Digs) < fullDigits[l.Form] }

// formName names the spelling class of a literal; a short spelling of the four lettered forms is a
// class of its own (the unpadded double format is what LLVM itself prints, it stays one class).
func formName(l litJ) string {
	switch l.Form {
	case "dec":
		return "decimal"
	case "D":
		return "0x(double-format)"
	}
	if isShort(l) {
		return "0x" + l.Form + "(short)"
	}
	return "0x" + l.Form
}

// spelling names the way the value reached the library: the spelling class of the literal, or the API call.
func spelling(cs *caseT, il litJ) string {
	if cs.in.via != "" {
		return "constant." + cs.in.via
	}
	if cs.in.pos != "" {
		return formName(il) + "@" + cs.in.pos
	}
	return formName(il)
}

// caseT is one judged literal.
type caseT struct {
	in    input
	inR   reading // LLVM's reading of the input
	lib   printed
	outR  reading // LLVM's reading of the printed literal
	rowID int
}

var reBad = regexp.MustCompile(`"BAD\|(\d+)\|([^|"]*)\|([^|"]*)\|([^|"]*)\|([^|"]*)\|"`)
var reChunk = regexp.MustCompile(`"CHUNK\|(\d+)\|(\d+)\|(\d+)\|"`)
var reSpecDiff = regexp.MustCompile(`"SPECDIFF\|(\d+)\|(in|out)\|"`)

type checker struct {
	rep          *mbt.Report
	tier         string
	specDiffs    int
	specChecked  int
	discardedIn  int // inputs LLVM rejects (outside the property's quantifier)
	printedDec   map[string]int
	printedHex   map[string]int
	changed      map[string]int // per kind: inputs whose bits changed
	asModelled   int
	notModelled  int
	changedHalf  map[string]bool
	extraDevs    []string
	sigExamples  map[string]string
	sigCount     map[string]int
	invalidOK    int
	llvmAccepted int
	viaAPI       int            // cases whose value went through constant.NewFloat
	atPosition   map[string]int // Positions: cases per place
	posAsScalar  int            // failing rows of a place whose printed literal is the scalar path's (reported there)
}

// judge runs the pipeline on the inputs: LLVM's reading of the inputs, the library, LLVM's
// reading of the printed literals, TLC's verdict on the recording.
func (c *checker) judge(ins []input, label string) {
	rep := c.rep
	t0 := time.Now()
	// --- LLVM reads the inputs
	var qs, single []query
	for _, in := range ins {
		if in.fromSpec && !in.valid {
			single = append(single, in.q)
		} else {
			qs = append(qs, in.q)
		}
	}
	inRead := llvmRead(qs, false)
	for k, v := range llvmRead(single, true) {
		inRead[k] = v
	}
	// --- spec vectors: the spec's reading against LLVM's (validation of the specification)
	var cases []*caseT
	seen := map[string]bool{}
	for _, in := range ins {
		r := inRead[in.q.key()]
		if in.fromSpec {
			c.specChecked++
			if in.valid != r.ok || (r.ok && in.want != r.bits) {
				c.specDiffs++
				if c.specDiffs <= 5 {
					rep.Note("SPEC/LLVM disagreement on %s %s: spec valid=%v bits=%s, LLVM ok=%v bits=%s %s", in.q.kind, in.q.lit, in.valid, in.want, r.ok, r.bits, r.diag)
				}
				continue
			}
			if !in.valid {
				c.invalidOK++
				continue
			}
		}
		if !r.ok {
			c.discardedIn++
			continue
		}
		if seen[in.q.key()+in.via+in.pos+in.sib] {
			continue
		}
		seen[in.q.key()+in.via+in.pos+in.sib] = true
		cases = append(cases, &caseT{in: in, inR: r})
	}
	c.llvmAccepted += len(cases)
	tLLVM1 := time.Since(t0)
	// --- the library
	t1 := time.Now()
	lq := make([]query, len(cases))
	vals := make([]*float64, len(cases))
	poss := make([]*input, len(cases))
	for i, cs := range cases {
		lq[i] = cs.in.q
		if cs.in.pos != "" {
			in := cs.in
			poss[i] = &in
		}
		if cs.in.via == "NewFloat" {
			v := cs.in.val
			vals[i] = &v
		}
	}
	libs := runLibrary(lq, vals, poss)
	tLib := time.Since(t1)
	// --- LLVM reads the printed literals
	t2 := time.Now()
	var oq []query
	for i, cs := range cases {
		cs.lib = libs[i]
		if cs.lib.out != "" {
			oq = append(oq, query{cs.in.q.kind, cs.lib.out})
		}
	}
	outRead := llvmRead(oq, false)
	tLLVM2 := time.Since(t2)
	// --- recording
	var rows []row
	var rowCase []*caseT
	for _, cs := range cases {
		q := cs.in.q
		rep.Count(q.key()+cs.in.via+cs.in.pos+cs.in.sib, true)
		if cs.in.pos != "" {
			c.atPosition[cs.in.pos]++
		}
		il := parseLit(q.lit)
		if cs.in.via != "" {
			c.viaAPI++
		}
		if cs.in.tag == "extra" {
			// spellings outside the property's list: reported as notes only
			if cs.lib.out == "" || outRead[query{q.kind, cs.lib.out}.key()].bits != cs.inR.bits {
				c.extraDevs = append(c.extraDevs, fmt.Sprintf("%s %s -> %s%s", q.kind, q.lit, cs.lib.out, cs.lib.problem))
			}
			continue
		}
		if cs.lib.problem != "" && cs.lib.out == "" {
			sig := fmt.Sprintf("C10|%s|%s|%s", q.kind, spelling(cs, il), cs.lib.problem)
			if q.kind == "ppc_fp128" && strings.HasSuffix(cs.lib.problem, "panic") && !isShort(il) {
				if s := classifyPPCPanic(cs.inR.bits); s != "" {
					sig = s
				}
			}
			c.fail(sig, fmt.Sprintf("%s %s (LLVM reads 0x%s): %s: %s", q.kind, q.lit, cs.inR.bits, cs.lib.problem, mbt.Truncate(cs.lib.detail, 200)), cs)
			continue
		}
		if cs.lib.problem != "" {
			sig := fmt.Sprintf("C10|%s|%s|%s", q.kind, spelling(cs, il), cs.lib.problem)
			c.fail(sig, fmt.Sprintf("%s %s: %s", q.kind, q.lit, mbt.Truncate(cs.lib.detail, 300)), cs)
		}
		cs.outR = outRead[query{q.kind, cs.lib.out}.key()]
		ol := parseLit(cs.lib.out)
		if ol.Form == "dec" {
			c.printedDec[q.kind]++
		} else {
			c.printedHex[q.kind]++
		}
		cs.rowID = len(rows) + 1
		r := row{ID: cs.rowID, Kind: q.kind, In: il, Inl: hexDigits(cs.inR.bits), Out: ol, Outok: cs.outR.ok, Outl: []int{}}
		if cs.outR.ok {
			r.Outl = hexDigits(cs.outR.bits)
		}
		rows = append(rows, r)
		rowCase = append(rowCase, cs)
		if len(rep.Samples) < 4 && (len(rows)%977 == 1) {
			rep.Sample(map[string]interface{}{"kind": q.kind, "input": q.lit, "llvm_bits_of_input": cs.inR.bits, "printed": cs.lib.out, "llvm_bits_of_printed": cs.outR.bits, "source": cs.in.tag})
		}
	}
	if len(rows) == 0 {
		return
	}
	// --- TLC judges the recording
	t3 := time.Now()
	const chunkRows = 512
	nch := (len(rows) + chunkRows - 1) / chunkRows
	data := map[string][]byte{}
	for ch := 0; ch < nch; ch++ {
		hi := (ch + 1) * chunkRows
		if hi > len(rows) {
			hi = len(rows)
		}
		data[fmt.Sprintf("floatlit_rec_%d.ndjson", ch+1)] = mbt.NDJSONBytes(rows[ch*chunkRows : hi])
	}
	t := mbt.MustTLC(mbt.TLCOpts{Spec: "FloatLitTrace", Cfg: "FloatLitTrace.cfg", Workers: 8, Continue: true,
		Consts: map[string]string{"NChunks": strconv.Itoa(nch)}, Data: data, Timeout: 15 * time.Minute})
	if os.Getenv("VERIF_C10_KEEP") != "" {
		fmt.Println("  kept TLC run directory", t.Dir)
	} else {
		defer t.Cleanup()
	}
	rep.AddTLC(t)
	if t.Distinct != int64(3*nch+1) || len(t.Violated) > 0 {
		mbt.Infra("FloatLitTrace judged %d chunks of %d, violated %v (%s)\n%s", (t.Distinct-1)/3, nch, t.Violated, label, tail(t.Output, 2000))
	}
	judged, chunkBad := 0, 0
	chunkSeen := map[string]bool{}
	for _, m := range reChunk.FindAllStringSubmatch(t.Output, -1) {
		if chunkSeen[m[1]] {
			continue
		}
		chunkSeen[m[1]] = true
		n, _ := strconv.Atoi(m[2])
		b, _ := strconv.Atoi(m[3])
		judged += n
		chunkBad += b
	}
	if judged != len(rows) || len(chunkSeen) != nch {
		mbt.Infra("FloatLitTrace judged %d rows of %d in %d chunks of %d (%s)", judged, len(rows), len(chunkSeen), nch, label)
	}
	rep.TracesValidated += len(rows)
	for _, m := range reSpecDiff.FindAllStringSubmatch(t.Output, -1) {
		id, _ := strconv.Atoi(m[1])
		cs := rowCase[id-1]
		c.specDiffs++
		if c.specDiffs <= 5 {
			rep.Note("SPEC/LLVM disagreement (%s literal) on %s %s -> %s: LLVM reads %s / %s", m[2], cs.in.q.kind, cs.in.q.lit, cs.lib.out, cs.inR.bits, cs.outR.bits)
		}
	}
	nbad := 0
	badSeen := map[int]bool{} // TLC may evaluate (and print) a row more than once
	for _, m := range reBad.FindAllStringSubmatch(t.Output, -1) {
		id, _ := strconv.Atoi(m[1])
		if badSeen[id] {
			continue
		}
		badSeen[id] = true
		cs := rowCase[id-1]
		nbad++
		if cs.in.pos != "" && cs.lib.out == cs.lib.viaConst {
			// the literal printed at the place is the one the scalar path prints: the defect of the scalar
			// path (reported there under its own signature), not one of the place
			c.posAsScalar++
			continue
		}
		c.changed[cs.in.q.kind]++
		if cs.in.q.kind == "half" {
			c.changedHalf[cs.inR.bits] = true
		}
		if cs.in.fromSpec {
			if cs.outR.ok && cs.outR.bits == cs.in.impl {
				c.asModelled++
			} else {
				c.notModelled++
			}
		}
		sig, what := classify(cs, m[2], m[3], m[4], m[5])
		c.fail(sig, what, cs)
	}
	if nbad != chunkBad {
		mbt.Infra("FloatLitTrace: %d BAD lines but the chunks count %d failing rows", nbad, chunkBad)
	}
	fmt.Printf("  [%s] inputs=%d judged=%d bad=%d  llvm-in %.1fs  library %.1fs  llvm-out %.1fs  TLC %.1fs\n",
		label, len(ins), len(rows), nbad, tLLVM1.Seconds(), tLib.Seconds(), tLLVM2.Seconds(), time.Since(t3).Seconds())
}

func tail(s string, n int) string {
	if len(s) > n {
		return s[len(s)-n:]
	}
	return s
}

func (c *checker) fail(sig, what string, cs *caseT) {
	c.sigCount[sig]++
	if _, ok := c.sigExamples[sig]; !ok {
		c.sigExamples[sig] = what
	}
	cse := map[string]string{"kind": cs.in.q.kind, "lit": cs.in.q.lit, "printed": cs.lib.out,
		"llvm_bits_of_input": cs.inR.bits, "llvm_bits_of_printed": cs.outR.bits}
	if cs.in.via != "" {
		cse["via"], cse["value"] = cs.in.via, strconv.FormatFloat(cs.in.val, 'x', -1, 64)
	}
	if cs.in.pos != "" {
		cse["pos"], cse["sib"], cse["sibl"] = cs.in.pos, cs.in.sib, cs.in.sibl
	}
	c.rep.Fail(mbt.Failure{Signature: sig, What: what, Case: cse})
}

// readVectors collects the vec_*.ndjson files TLC wrote.
func readVectors(dir string) []input {
	files, _ := filepath.Glob(filepath.Join(dir, "vec_*.ndjson"))
	sort.Strings(files)
	var out []input
	for _, f := range files {
		vs, err := mbt.ReadNDJSON[vecJ](f)
		if err != nil {
			mbt.Infra("vectors: %v", err)
		}
		for _, v := range vs {
			in := input{q: query{v.Kind, v.Lit}, tag: v.Tag, fromSpec: true, valid: v.Valid, want: v.Want, cls: v.Cls, impl: v.Impl}
			if v.Pos != "" && v.Pos != "scalar" {
				in.pos, in.sib, in.sibl = v.Pos, v.Sib, v.Sibl
			}
			out = append(out, in)
		}
	}
	return out
}

// Run is the C10 check.
func Run(tier, replay string) {
	log.SetOutput(io.Discard) // the library logs inexact conversions; the check sees them in the bits
	llvmoracle.Require()
	rep := mbt.NewReport("C10", tier, "model_checking")
	rep.Rule = "distinct (kind, literal) inputs that LLVM accepts, parsed by asm.ParseString and constant.NewFloatFromString, printed, and judged by TLC: bits(input) = bits(printed), hexadecimal forms read by spec/FloatLit.tla, decimal forms by llvm-as"
	c := &checker{rep: rep, tier: tier, printedDec: map[string]int{}, printedHex: map[string]int{}, changed: map[string]int{},
		changedHalf: map[string]bool{}, atPosition: map[string]int{}, sigExamples: map[string]string{}, sigCount: map[string]int{}}
	rng := rand.New(rand.NewSource(mbt.Seed()))

	if replay != "" {
		c.judge(replayInputs(replay), "replay")
		c.finish(false)
	}

	// (S)+(G): reference functions checked by TLC on all half patterns and the boundary sets;
	// the same run writes the vectors.
	consts := map[string]string{}
	if tier == "thorough" {
		consts["Walk"] = "TRUE" // boundary mantissas also include every single-bit pattern
	}
	t := mbt.MustTLC(mbt.TLCOpts{Spec: "FloatLit", Cfg: "FloatLit.cfg", Consts: consts, Workers: 8, Timeout: 20 * time.Minute})
	if len(t.Violated) > 0 {
		mbt.Infra("reference functions of FloatLit.tla violate %v: specification error\n%s", t.Violated, tail(t.Output, 3000))
	}
	rep.AddTLC(t)
	vectors := readVectors(t.Dir)
	fmt.Printf("  FloatLit.cfg: %d states, %d vectors, %.1fs\n", t.Distinct, len(vectors), t.Wall.Seconds())
	t.Cleanup()
	if t.Distinct < 65536 {
		mbt.Infra("FloatLit.cfg enumerated %d states", t.Distinct)
	}
	// the property fails on the as-implemented model
	ti := mbt.MustTLC(mbt.TLCOpts{Spec: "FloatLit", Cfg: "FloatLitImpl.cfg", Workers: 8, Timeout: 10 * time.Minute})
	if len(ti.Violated) != 1 || ti.Violated[0] != "Preserved" {
		mbt.Infra("FloatLitImpl.cfg: expected Preserved to be violated on the as-implemented model, got %v", ti.Violated)
	}
	fmt.Printf("  FloatLitImpl.cfg: Preserved violated on the as-implemented model as expected, %.1fs\n", ti.Wall.Seconds())
	ti.Cleanup()
	nHalf := 0
	predicted := map[string]bool{}
	for _, v := range vectors {
		if v.q.kind == "half" && v.tag == "canon" {
			nHalf++
			if v.impl != v.want {
				predicted[v.want] = true
			}
		}
		if v.tag == "canon" {
			rep.Extra["patterns_"+v.q.kind] = inc(rep.Extra["patterns_"+v.q.kind])
		}
	}
	validatePositions(vectors)
	c.judge(vectors, "spec-vectors")
	// PowerOfTwoNeighbours: the same values in decimal and through constant.NewFloat
	p2 := pow2Derived(vectors, tier)
	rep.Extra["power_of_two_neighbours"] = map[string]int{"hexadecimal_vectors_of_the_spec": countTag(vectors, "pow2"), "decimal_spellings_and_NewFloat_calls_derived": len(p2)}
	c.judge(p2, "power-of-two-neighbours")
	rep.Extra["half_patterns_changed"] = len(c.changedHalf)
	rep.Extra["half_patterns_changed_predicted_by_as_implemented_model"] = len(predicted)
	same := len(predicted) == len(c.changedHalf)
	for k := range predicted {
		same = same && c.changedHalf[k]
	}
	if !same {
		rep.Note("the half patterns that change (%d) are not the ones the as-implemented model of FloatLit.tla predicts (%d): the model has drifted from the code", len(c.changedHalf), len(predicted))
	}

	// (T): seeded random patterns and decimal inputs
	nRand, nDec := 1500, 1500
	if tier == "thorough" {
		nRand, nDec = 100000, 40000
	}
	c.judge(randomPatterns(rng, nRand), "random-patterns")
	c.judge(shortSpellings(rng, nRand/3), "short-spellings")
	c.judge(decimalInputs(rng, nDec), "decimal-inputs")
	c.finish(nHalf == 65536)
}

func countTag(ins []input, tag string) int {
	n := 0
	for _, in := range ins {
		if in.tag == tag {
			n++
		}
	}
	return n
}

func inc(v interface{}) int {
	if n, ok := v.(int); ok {
		return n + 1
	}
	return 1
}

func (c *checker) finish(halfExhaustive bool) {
	rep := c.rep
	if c.specDiffs > 0 {
		mbt.Infra("%d disagreements between spec/FloatLit.tla and LLVM (of %d compared): the specification is wrong, no verdict", c.specDiffs, c.specChecked+rep.TracesValidated)
	}
	rep.Exhaustive = halfExhaustive
	if halfExhaustive {
		rep.Explanation = "exhaustive for half (all 65 536 bit patterns in the 0xH and the 16-digit spelling); boundary sets, seeded random patterns and decimal inputs for the other kinds"
	}
	rep.Extra["printed_decimal_by_kind"] = c.printedDec
	rep.Extra["printed_hex_by_kind"] = c.printedHex
	rep.Extra["inputs_whose_bits_changed_by_kind"] = c.changed
	rep.Extra["spec_vectors_compared_with_llvm"] = c.specChecked
	rep.Extra["invalid_spellings_rejected_by_llvm_as_the_spec_says"] = c.invalidOK
	rep.Extra["inputs_rejected_by_llvm_(outside_quantifier)"] = c.discardedIn
	rep.Extra["llvm_spawns"] = spawns
	rep.Extra["values_through_constant.NewFloat"] = c.viaAPI
	rep.Extra["positions"] = map[string]interface{}{"cases_per_place": c.atPosition, "failing_rows_identical_to_the_scalar_path_(reported_there)": c.posAsScalar}
	rep.Extra["failing_cases_by_signature"] = c.sigCount
	rep.Extra["spec_vector_deviations_equal_to_the_AsImplemented_model"] = c.asModelled
	rep.Extra["spec_vector_deviations_not_modelled_(ppc_fp128_pair_arithmetic)"] = c.notModelled
	if len(c.extraDevs) > 0 {
		sort.Strings(c.extraDevs)
		rep.Note("short spellings outside the property's list (LLVM accepts them; not judged): %d are not reproduced by the library: %s", len(c.extraDevs), mbt.Truncate(strings.Join(c.extraDevs, "; "), 600))
	}
	rep.Assumptions = []string{
		"llvm-as/llvm-dis 14 fold bitcast (<fp> <lit> to iN) in a global initialiser without changing the bits (ppc_fp128: llvm-dis echoes the 0xM spelling)",
		"TLC evaluates FloatDenoteHex correctly; every hexadecimal literal of the run was also read by LLVM and compared (0 disagreements, otherwise exit 2)",
		"decimal -> binary conversion is not specified in TLA+; LLVM's reading is taken as the denotation of decimal literals",
	}
	if os.Getenv("VERIF_C10_SIGS") != "" {
		var ks []string
		for k := range c.sigCount {
			ks = append(ks, k)
		}
		sort.Strings(ks)
		for _, k := range ks {
			fmt.Printf("SIG %6d  %s\n         e.g. %s\n", c.sigCount[k], k, c.sigExamples[k])
		}
	}
	rep.Finish()
}

func replayInputs(path string) []input {
	type rf struct {
		Failures []struct {
			Case map[string]string `json:"case"`
		} `json:"failures"`
	}
	var one rf
	if err := mbt.ReadJSON(path, &one); err != nil {
		mbt.Infra("replay %s: %v", path, err)
	}
	var out []input
	for _, f := range one.Failures {
		if f.Case["kind"] != "" {
			in := input{q: query{f.Case["kind"], f.Case["lit"]}, tag: "replay"}
			if f.Case["via"] != "" {
				in.via = f.Case["via"]
				in.val, _ = strconv.ParseFloat(f.Case["value"], 64)
			}
			in.pos, in.sib, in.sibl = f.Case["pos"], f.Case["sib"], f.Case["sibl"]
			out = append(out, in)
		}
	}
	if len(out) == 0 {
		mbt.Infra("replay %s: no cases", path)
	}
	return out
}
