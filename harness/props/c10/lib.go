package c10

import (
	"fmt"
	"strings"

	"github.com/llir/llvm/asm"
	"github.com/llir/llvm/ir"
	"github.com/llir/llvm/ir/constant"
	"github.com/llir/llvm/ir/types"

	"verif/harness/llvmoracle"
	"verif/harness/mbt"
)

var irType = map[string]*types.FloatType{
	"half": types.Half, "float": types.Float, "double": types.Double,
	"x86_fp80": types.X86_FP80, "fp128": types.FP128, "ppc_fp128": types.PPC_FP128,
}

// printed is what the library makes of one typed literal.
type printed struct {
	out      string // the literal it prints (parser path)
	problem  string // "" | "parse-error" | "parse-panic" | "print-panic" | "paths-differ" | "module-text-differs"
	detail   string
	viaConst string // constant.NewFloatFromString + Ident
}

// viaConstant runs the constructor and the printer directly.
func viaConstant(q query) (out, problem, detail string) {
	var c *constant.Float
	var err error
	if msg, p := mbt.Guard(func() { c, err = constant.NewFloatFromString(irType[q.kind], q.lit) }); p {
		return "", "parse-panic", msg
	}
	if err != nil {
		return "", "parse-error", err.Error()
	}
	if msg, p := mbt.Guard(func() { out = c.Ident() }); p {
		return "", "print-panic", msg
	}
	return out, "", ""
}

// viaParser parses a module with one global per query and prints every initialiser.
func viaParser(qs []query) []printed {
	res := make([]printed, len(qs))
	var b strings.Builder
	for i, q := range qs {
		fmt.Fprintf(&b, "@g%d = global %s %s\n", i, q.kind, q.lit)
	}
	var m *ir.Module
	var err error
	msg, p := mbt.Guard(func() { m, err = asm.ParseString("c10.ll", b.String()) })
	if p || err != nil {
		if len(qs) == 1 {
			if p {
				res[0] = printed{problem: "parse-panic", detail: msg}
			} else {
				res[0] = printed{problem: "parse-error", detail: err.Error()}
			}
			return res
		}
		// find the offenders: halves
		mid := len(qs) / 2
		copy(res, viaParser(qs[:mid]))
		copy(res[mid:], viaParser(qs[mid:]))
		return res
	}
	byName := map[string]*ir.Global{}
	for _, g := range m.Globals {
		byName[g.Name()] = g
	}
	for i, q := range qs {
		g := byName[fmt.Sprintf("g%d", i)]
		if g == nil {
			res[i] = printed{problem: "parse-error", detail: "global missing from the parsed module"}
			continue
		}
		f, ok := g.Init.(*constant.Float)
		if !ok {
			res[i] = printed{problem: "parse-error", detail: fmt.Sprintf("initialiser is %T", g.Init)}
			continue
		}
		var id, line string
		if msg, p := mbt.Guard(func() { id = f.Ident(); line = g.LLString() }); p {
			res[i] = printed{problem: "print-panic", detail: msg}
			continue
		}
		res[i].out = id
		if want := fmt.Sprintf("@g%d = global %s %s", i, q.kind, id); line != want {
			res[i].problem, res[i].detail = "module-text-differs", fmt.Sprintf("global prints as %q, constant as %q", line, id)
		}
	}
	return res
}

// viaNewFloat hands the value to constant.NewFloat and prints the constant.
func viaNewFloat(kind string, x float64) (res printed) {
	var c *constant.Float
	if msg, p := mbt.Guard(func() { c = constant.NewFloat(irType[kind], x) }); p {
		return printed{problem: "NewFloat-panic", detail: msg}
	}
	if msg, p := mbt.Guard(func() { res.out = c.Ident() }); p {
		return printed{problem: "print-panic", detail: msg}
	}
	res.viaConst = res.out
	return res
}

// runLibrary pushes every query through both paths of the library (vals[i] != nil: the value goes
// through constant.NewFloat instead).
func runLibrary(qs []query, vals []*float64, poss []*input) []printed {
	const per = 1000
	nb := (len(qs) + per - 1) / per
	res := make([]printed, len(qs))
	llvmoracle.Parallel(nb, func(b int) {
		lo, hi := b*per, (b+1)*per
		if hi > len(qs) {
			hi = len(qs)
		}
		copy(res[lo:hi], viaParser(qs[lo:hi]))
		for i := lo; i < hi; i++ {
			if vals[i] != nil {
				res[i] = viaNewFloat(qs[i].kind, *vals[i])
				continue
			}
			if poss[i] != nil {
				// Positions: the literal printed at the place; viaConst = what the scalar path prints
				res[i] = viaPosition(*poss[i])
				res[i].viaConst, _, _ = viaConstant(qs[i])
				continue
			}
			out, problem, detail := viaConstant(qs[i])
			res[i].viaConst = out
			if res[i].problem == "" && (problem != "" || out != res[i].out) {
				res[i].problem = "paths-differ"
				res[i].detail = fmt.Sprintf("asm.ParseString prints %q, constant.NewFloatFromString %q %s %s", res[i].out, out, problem, detail)
			}
		}
	})
	return res
}
