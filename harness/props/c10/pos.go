package c10

// Positions (spec/FloatLit.tla, Pos = TRUE): the literal stands at a place of a module other than
// the initialiser of a scalar global.  posModule writes the module text of the place, the library
// parses and prints the module, and leavesAt reads the floating-point literals printed at the same
// place (a tiny reader of typed constants of the printed text, independent of the library's data
// structures; `zeroinitializer` denotes the all-bits-clear value of every leaf of its type).

import (
	"fmt"
	"regexp"
	"strconv"
	"strings"

	"github.com/llir/llvm/asm"
	"github.com/llir/llvm/ir"

	"verif/harness/llvmoracle"
	"verif/harness/mbt"
)

// posModule returns the module text that holds literal l of the kind at the position (s = the
// literal of the sibling leaves), and the index of l among the floating-point leaves of the site.
// n makes the names unique so that many modules can be concatenated for one llvm-as run.
func posModule(kind, l, s, pos string, n int) (text string, leaf int) {
	k := kind
	switch pos {
	case "vector":
		return fmt.Sprintf("@g%d = global <2 x %s> <%s %s, %s %s>\n", n, k, k, l, k, s), 0
	case "array":
		return fmt.Sprintf("@g%d = global [2 x %s] [%s %s, %s %s]\n", n, k, k, s, k, l), 1
	case "struct":
		return fmt.Sprintf("@g%d = global { %s, i32, %s } { %s %s, i32 0, %s %s }\n", n, k, k, k, s, k, l), 1
	case "nested":
		return fmt.Sprintf("@g%d = global { [2 x <2 x %s>], i8* } { [2 x <2 x %s>] [<2 x %s> <%s %s, %s %s>, <2 x %s> <%s %s, %s %s>], i8* null }\n",
			n, k, k, k, k, s, k, s, k, k, s, k, l), 3
	case "operand":
		return fmt.Sprintf("define %s @f%d(%s %%x) {\n  %%r = fsub %s %s, %%x\n  ret %s %%r\n}\n", k, n, k, k, l, k), 0
	case "vector-operand":
		return fmt.Sprintf("define <2 x %s> @f%d(<2 x %s> %%x) {\n  %%r = fsub <2 x %s> <%s %s, %s %s>, %%x\n  ret <2 x %s> %%r\n}\n", k, n, k, k, k, l, k, s, k), 0
	case "call-argument":
		return fmt.Sprintf("declare void @h%d(%s, <2 x %s>)\ndefine void @f%d() {\n  call void @h%d(%s %s, <2 x %s> <%s %s, %s %s>)\n  ret void\n}\n", n, k, k, n, n, k, s, k, k, s, k, l), 2
	case "return":
		return fmt.Sprintf("define %s @f%d() {\n  ret %s %s\n}\n", k, n, k, l), 0
	case "metadata":
		return fmt.Sprintf("!named%d = !{!%d}\n!%d = !{%s %s, <2 x %s> <%s %s, %s %s>}\n", n, n, n, k, s, k, k, s, k, l), 2
	}
	panic("c10: unknown position " + pos)
}

var reSite = map[string]*regexp.Regexp{
	"global":         regexp.MustCompile(`(?m)^@g\d+ = global (.*)$`),
	"operand":        regexp.MustCompile(`(?m)^\s*%r = fsub (.*)$`),
	"call-argument":  regexp.MustCompile(`(?m)^\s*call void @h\d+\((.*)\)\s*$`),
	"return":         regexp.MustCompile(`(?m)^\s*ret (.*)$`),
	"metadata":       regexp.MustCompile(`(?m)^!\d+ = !\{(.*)\}\s*$`),
	"vector-operand": nil,
}

func siteOf(pos string) *regexp.Regexp {
	switch pos {
	case "vector", "array", "struct", "nested":
		return reSite["global"]
	case "vector-operand":
		return reSite["operand"]
	}
	return reSite[pos]
}

// --- reader of the typed constants of printed text ---------------------------

type tyNode struct {
	k     string // "fp" | "other" | "seq" (n x elem) | "struct"
	n     int
	elems []*tyNode
}

type tcReader struct {
	toks []string
	i    int
	kind string
	zero string
	out  []string
}

func tcTokens(s string) []string {
	var toks []string
	cur := ""
	flush := func() {
		if cur != "" {
			toks = append(toks, cur)
			cur = ""
		}
	}
	for _, r := range s {
		switch {
		case r == ' ' || r == '\t':
			flush()
		case strings.ContainsRune("<>[]{}(),*", r):
			flush()
			toks = append(toks, string(r))
		default:
			cur += string(r)
		}
	}
	flush()
	return toks
}

func (r *tcReader) peek() string {
	if r.i < len(r.toks) {
		return r.toks[r.i]
	}
	return ""
}
func (r *tcReader) next() string { t := r.peek(); r.i++; return t }

var reIntTy = regexp.MustCompile(`^i\d+$`)

func (r *tcReader) typ() *tyNode {
	var t *tyNode
	switch tok := r.peek(); {
	case tok == r.kind:
		r.next()
		t = &tyNode{k: "fp"}
	case reIntTy.MatchString(tok):
		r.next()
		t = &tyNode{k: "other"}
	case tok == "<" && r.i+1 < len(r.toks) && r.toks[r.i+1] == "{":
		r.next()
		t = r.typ()
		if r.next() != ">" {
			return nil
		}
	case tok == "<" || tok == "[":
		r.next()
		n, err := strconv.Atoi(r.next())
		if err != nil || r.next() != "x" {
			return nil
		}
		e := r.typ()
		if e == nil {
			return nil
		}
		r.next() // closer
		t = &tyNode{k: "seq", n: n, elems: []*tyNode{e}}
	case tok == "{":
		r.next()
		t = &tyNode{k: "struct"}
		for r.peek() != "}" {
			e := r.typ()
			if e == nil {
				return nil
			}
			t.elems = append(t.elems, e)
			if r.peek() == "," {
				r.next()
			}
		}
		r.next()
	default:
		return nil
	}
	for r.peek() == "*" {
		r.next()
		t = &tyNode{k: "other"}
	}
	return t
}

func (r *tcReader) zeros(t *tyNode) {
	switch t.k {
	case "fp":
		r.out = append(r.out, r.zero)
	case "seq":
		for j := 0; j < t.n; j++ {
			r.zeros(t.elems[0])
		}
	case "struct":
		for _, e := range t.elems {
			r.zeros(e)
		}
	}
}

func (r *tcReader) value(t *tyNode) bool {
	tok := r.next()
	switch tok {
	case "zeroinitializer":
		r.zeros(t)
		return true
	case "<", "[", "{":
		packed := tok == "<" && r.peek() == "{"
		if packed {
			r.next()
		}
		for {
			if c := r.peek(); c == ">" || c == "]" || c == "}" {
				break
			}
			if !r.typed() {
				return false
			}
			if r.peek() == "," {
				r.next()
			}
		}
		r.next()
		if packed && r.peek() == ">" {
			r.next()
		}
		return true
	case "":
		return false
	}
	if t.k == "fp" {
		r.out = append(r.out, tok)
	}
	return true
}

func (r *tcReader) typed() bool {
	t := r.typ()
	if t == nil {
		return false
	}
	return r.value(t)
}

// zeroMark is the leaf a zeroinitializer contributes; zeroLit spells it for LLVM.
func zeroLit(kind string) string {
	switch kind {
	case "half":
		return "0xH0000"
	case "x86_fp80":
		return "0xK" + strings.Repeat("0", 20)
	case "fp128":
		return "0xL" + strings.Repeat("0", 32)
	case "ppc_fp128":
		return "0xM" + strings.Repeat("0", 32)
	}
	return "0x0000000000000000"
}

// leavesAt returns the floating-point leaves of the kind printed at the site of the position.
func leavesAt(printedModule, kind, pos string) (leaves []string, folded bool, site string) {
	m := siteOf(pos).FindStringSubmatch(printedModule)
	if m == nil {
		return nil, false, ""
	}
	site = m[1]
	r := &tcReader{toks: tcTokens(site), kind: kind, zero: zeroLit(kind)}
	for r.typed() {
		if r.peek() != "," {
			break
		}
		r.next()
	}
	return r.out, strings.Contains(site, "zeroinitializer"), site
}

// viaPosition parses the module of the position, prints it and reads the literal printed at the place.
func viaPosition(in input) (res printed) {
	text, leaf := posModule(in.q.kind, in.q.lit, in.sibl, in.pos, 0)
	var m *ir.Module
	var err error
	if msg, p := mbt.Guard(func() { m, err = asm.ParseString("c10pos.ll", text) }); p {
		return printed{problem: "parse-panic", detail: msg}
	}
	if err != nil {
		return printed{problem: "parse-error", detail: err.Error()}
	}
	var out string
	if msg, p := mbt.Guard(func() { out = m.String() }); p {
		return printed{problem: "print-panic", detail: msg}
	}
	leaves, folded, site := leavesAt(out, in.q.kind, in.pos)
	if leaf >= len(leaves) {
		return printed{problem: "literal-missing-from-printed-module", detail: fmt.Sprintf("module %q is printed as %q", text, out)}
	}
	res.out = leaves[leaf]
	res.detail = site
	if folded && res.out == zeroLit(in.q.kind) {
		res.detail = "(as part of zeroinitializer) " + site
	}
	return res
}

// validatePositions gives all position modules to llvm-as in one run: the templates are this
// harness's, not the specification's, and a template LLVM rejects is an infrastructure error.
func validatePositions(ins []input) {
	var b strings.Builder
	n := 0
	for _, in := range ins {
		if in.pos == "" || !in.valid {
			continue
		}
		n++
		t, _ := posModule(in.q.kind, in.q.lit, in.sibl, in.pos, n)
		b.WriteString(t)
	}
	if n == 0 {
		return
	}
	if ok, diag := llvmoracle.Accepts(b.String()); !ok {
		mbt.Infra("llvm-as rejects the position modules of the harness: %s", mbt.Truncate(diag, 400))
	}
}
