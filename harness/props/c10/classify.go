package c10

import (
	"fmt"
	"math"
	"math/big"
	"strconv"
	"strings"

	"verif/harness/mbt"
)

// Failure signatures. They are built from the classes of the required and of the observed
// bit pattern (computed by TLC with the operators of FloatLit.tla) and from which fields
// changed, never from the concrete pattern:
//
//	C10|<kind>|nan-payload-or-signalling-bit-lost          NaN in, NaN of the same sign out
//	C10|<kind>|nan-sign-lost                                NaN in, NaN of the other sign out
//	C10|fp128|0xL-words-swapped|first-word-nan-shaped|printed-as-library-nan
//	C10|fp128|0xL(short)|16-to-31-digits-left-padded-as-a-whole
//	C10|<kind>|0x<K|M>(short)|parse-panic, |parse-error        short spellings the parser cannot read
//	C10|x86_fp80|unnormal|printed-as-finite-value
//	C10|ppc_fp128|negative-infinity-printed-as-positive
//	C10|ppc_fp128|non-canonical-pair|replaced-by-its-sum
//	C10|ppc_fp128|non-canonical-pair|panic-when-sum-is-not-a-double
//	C10|ppc_fp128|pair|sum-rounded-to-106-bits
//	C10|double|decimal|subnormal-range|rounded-twice
//	C10|half|decimal|reads-as-infinity|not-printed-as-infinity
//	C10|<kind>|<spelling>|<class in>-><class out>|changed:<fields>      everything else
//
// so that a non-NaN value that changes, a NaN that changes its sign, a zero that loses its
// sign, ... have signatures of their own.

func isNaNClass(c string) bool {
	switch c {
	case "qnan", "snan", "pseudo-nan", "pseudo-inf":
		return true
	}
	return false
}

func u64(h string) uint64 {
	v, _ := strconv.ParseUint(h, 16, 64)
	return v
}

// pairValue is the exact value hi+lo of a double-double; ok=false if a part is not finite.
func pairValue(bits string) (v *big.Float, ok bool) {
	hi, lo := math.Float64frombits(u64(bits[:16])), math.Float64frombits(u64(bits[16:]))
	if math.IsNaN(hi) || math.IsInf(hi, 0) || math.IsNaN(lo) || math.IsInf(lo, 0) {
		return nil, false
	}
	v = new(big.Float).SetPrec(2300).SetFloat64(hi)
	v.Add(v, new(big.Float).SetPrec(2300).SetFloat64(lo))
	return v, true
}

// canonicalPair reports whether (hi, lo) is a normalised double-double: hi is the double
// nearest to hi+lo, and a zero/inf/NaN high part has a +0 low part.
func canonicalPair(bits string) bool {
	hiB, loB := u64(bits[:16]), u64(bits[16:])
	hi := math.Float64frombits(hiB)
	if math.IsNaN(hi) || math.IsInf(hi, 0) || hi == 0 {
		return loB == 0
	}
	v, ok := pairValue(bits)
	if !ok {
		return false
	}
	if loB == 1<<63 { // -0 low part: not what a sum produces
		return false
	}
	r, _ := v.Float64()
	return r == hi
}

func classify(cs *caseT, law, inCls, outCls, diff string) (sig, what string) {
	q := cs.in.q
	il := parseLit(q.lit)
	ol := parseLit(cs.lib.out)
	what = fmt.Sprintf("%s %s denotes 0x%s (%s) but is printed as %s", q.kind, q.lit, cs.inR.bits, inCls, cs.lib.out)
	if cs.in.via != "" {
		what = fmt.Sprintf("constant.%s(%s, %v) (the value of %s, 0x%s, %s) is printed as %s", cs.in.via, q.kind, cs.in.val, q.lit, cs.inR.bits, inCls, cs.lib.out)
	}
	if cs.in.pos != "" {
		what = fmt.Sprintf("%s %s at position %q (other leaves: %s %s) denotes 0x%s (%s) but the literal printed at that place is %s [%s]", q.kind, q.lit, cs.in.pos, cs.in.sib, cs.in.sibl, cs.inR.bits, inCls, cs.lib.out, mbt.Truncate(cs.lib.detail, 160))
	}
	if law == "printed-rejected" {
		what += fmt.Sprintf(", which llvm-as rejects: %s", cs.outR.diag)
		return fmt.Sprintf("C10|%s|%s|printed-%s-rejected-by-llvm", q.kind, spelling(cs, il), formName(ol)), what
	}
	what += fmt.Sprintf(", which denotes 0x%s (%s)", cs.outR.bits, outCls)
	generic := fmt.Sprintf("C10|%s|%s|%s->%s|changed:%s", q.kind, spelling(cs, il), inCls, outCls, diff)
	if ol.Form == "dec" {
		generic += "|printed-decimal"
	}
	switch q.kind {
	case "ppc_fp128":
		if sig := classifyPPC(cs.inR.bits, cs.outR.bits); sig != "" {
			return sig, what
		}
		return generic, what
	case "fp128":
		if il.Form == "L" && len(il.Digs) >= 16 && len(il.Digs) < 32 &&
			strings.EqualFold(cs.lib.out, "0xL"+strings.Repeat("0", 32-len(il.Digs))+q.lit[3:]) {
			// LLVM: first word = the first 16 digits, second word = the rest; the library pads the whole spelling
			return "C10|fp128|0xL(short)|16-to-31-digits-left-padded-as-a-whole", what
		}
		if il.Form == "L" {
			// the words as LLVM's lexer splits the spelling: the first one is the LOW word
			first := u64(cs.inR.bits[16:])
			second := u64(cs.inR.bits[:16])
			nanShaped := first>>48&0x7FFF == 0x7FFF && (first&0xFFFFFFFFFFFF != 0 || second != 0)
			libNaN := strings.HasSuffix(cs.lib.out, "FFF8000000000000000000000000000") && (strings.HasPrefix(cs.lib.out, "0xL7") || strings.HasPrefix(cs.lib.out, "0xLF"))
			if nanShaped && libNaN {
				return "C10|fp128|0xL-words-swapped|first-word-nan-shaped|printed-as-library-nan", what
			}
		}
	case "x86_fp80":
		if inCls == "unnormal" && (outCls == "normal" || outCls == "subnormal" || outCls == "zero") && !strings.Contains(diff, "s") {
			return "C10|x86_fp80|unnormal|printed-as-finite-value", what
		}
	case "double":
		if il.Form == "dec" && (inCls == "subnormal" || inCls == "zero" || inCls == "normal") && (outCls == "subnormal" || outCls == "zero" || outCls == "normal") && !strings.Contains(diff, "s") {
			// one unit in the last place, input in the subnormal range
			a, b := u64(cs.inR.bits)&^(1<<63), u64(cs.outR.bits)&^(1<<63)
			if a < 1<<52+1 && b < 1<<52+1 && (a-b == 1 || b-a == 1) {
				return "C10|double|decimal|subnormal-range|rounded-twice", what
			}
		}
	}
	// A finite value printed in decimal whose digits denote the NEIGHBOUR (one ulp away, same sign): the
	// shortest-digits search of the printer.  "power-of-two": the value is a power of two (mantissa field
	// zero, or a single bit in the subnormal range), where the interval of values that round to it is half
	// as wide below as above; "other": any other value.
	if (q.kind == "half" || q.kind == "float" || q.kind == "double") && ol.Form == "dec" && len(cs.inR.bits) <= 16 && len(cs.outR.bits) == len(cs.inR.bits) {
		finite := func(c string) bool { return c == "zero" || c == "subnormal" || c == "normal" }
		a, b := u64(cs.inR.bits), u64(cs.outR.bits)
		if finite(inCls) && finite(outCls) && !strings.Contains(diff, "s") && (a-b == 1 || b-a == 1) {
			manW := map[string]uint{"half": 10, "float": 23, "double": 52}[q.kind]
			man := a & (1<<manW - 1)
			exp := a >> manW & (1<<(uint(len(cs.inR.bits))*4-1-manW) - 1)
			cls := "other"
			if man == 0 || (exp == 0 && man&(man-1) == 0) {
				cls = "power-of-two"
			}
			return fmt.Sprintf("C10|%s|%s|printed-decimal-denotes-neighbour|%s", q.kind, spelling(cs, il), cls), what
		}
	}
	if q.kind == "half" && il.Form == "dec" && inCls == "inf" && outCls != "inf" {
		return "C10|half|decimal|reads-as-infinity|not-printed-as-infinity", what
	}
	if isNaNClass(inCls) && isNaNClass(outCls) {
		if strings.Contains(diff, "s") {
			return fmt.Sprintf("C10|%s|nan-sign-lost", q.kind), what
		}
		return fmt.Sprintf("C10|%s|nan-payload-or-signalling-bit-lost", q.kind), what
	}
	return generic, what
}

func parts(bits string) (hi, lo float64, hiB, loB uint64) {
	hiB, loB = u64(bits[:16]), u64(bits[16:])
	return math.Float64frombits(hiB), math.Float64frombits(loB), hiB, loB
}

// sumOverflows reports whether the double nearest to hi+lo (rounded to 106 bits first) is infinite.
func sumOverflows(bits string) bool {
	v, ok := pairValue(bits)
	if !ok {
		return false
	}
	r := new(big.Float).SetPrec(106).SetMode(big.ToNearestEven).Set(v)
	f, _ := r.Float64()
	return math.IsInf(f, 0)
}

// classifyPPC recognises the ways in which the library's detour through a 106-bit sum changes
// a double-double pair; "" if the change is none of them.
func classifyPPC(in, out string) string {
	hi, lo, _, _ := parts(in)
	ohi, _, _, oloB := parts(out)
	canon := canonicalPair(in)
	switch {
	case math.IsNaN(hi):
		if math.IsNaN(ohi) {
			if (in[0] >= '8') != (out[0] >= '8') {
				return "C10|ppc_fp128|nan-sign-lost"
			}
			return "C10|ppc_fp128|nan-payload-or-signalling-bit-lost"
		}
		return ""
	case math.IsNaN(lo):
		if math.IsNaN(ohi) {
			return "C10|ppc_fp128|non-canonical-pair|replaced-by-its-sum"
		}
		return ""
	case math.IsInf(hi, 0) || math.IsInf(lo, 0):
		s := hi + lo
		if math.IsInf(s, -1) && math.IsInf(ohi, 1) && oloB == 0 {
			return "C10|ppc_fp128|negative-infinity-printed-as-positive"
		}
		if math.IsInf(s, 0) && ohi == s && oloB == 0 && !canon {
			return "C10|ppc_fp128|non-canonical-pair|replaced-by-its-sum"
		}
		return ""
	}
	vin, _ := pairValue(in)
	vout, okOut := pairValue(out)
	if !okOut {
		return ""
	}
	if vin.Cmp(vout) == 0 {
		// the sign of a zero is the sign of the high part
		if !canon && (vin.Sign() != 0 || (in[0] >= '8') == (out[0] >= '8')) {
			return "C10|ppc_fp128|non-canonical-pair|replaced-by-its-sum"
		}
		return ""
	}
	r := new(big.Float).SetPrec(106).SetMode(big.ToNearestEven).Set(vin)
	if r.Cmp(vout) == 0 {
		return "C10|ppc_fp128|pair|sum-rounded-to-106-bits"
	}
	return ""
}

// classifyPPCPanic recognises the panics of the detour: the sum of the parts is not a double.
func classifyPPCPanic(in string) string {
	hi, lo, _, _ := parts(in)
	if math.IsNaN(hi) || math.IsNaN(lo) || canonicalPair(in) {
		return ""
	}
	if (math.IsInf(hi, 0) && math.IsInf(lo, 0) && math.Signbit(hi) != math.Signbit(lo)) || sumOverflows(in) {
		return "C10|ppc_fp128|non-canonical-pair|panic-when-sum-is-not-a-double"
	}
	return ""
}
