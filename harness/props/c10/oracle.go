package c10

import (
	"fmt"
	"math/big"
	"regexp"
	"strconv"
	"strings"
	"sync"

	"verif/harness/llvmoracle"
	"verif/harness/mbt"
)

// query is one typed literal.
type query struct{ kind, lit string }

func (q query) key() string { return q.kind + " " + q.lit }

// reading is LLVM's reading of a typed literal.
type reading struct {
	ok   bool
	bits string // upper-case hexadecimal digits, full width of the kind, most significant first
	diag string
}

var width = map[string]int{"half": 16, "float": 32, "double": 64, "x86_fp80": 80, "fp128": 128, "ppc_fp128": 128}

var kinds = []string{"half", "float", "double", "x86_fp80", "fp128", "ppc_fp128"}

var (
	reGlobal  = regexp.MustCompile(`(?m)^@g(\d+) = global (\S+) (.*)$`)
	reErrLine = regexp.MustCompile(`<stdin>:(\d+):\d+: error: (.*)`)
	spawns    int
	spawnMu   sync.Mutex
)

// render writes one global per query; LLVM folds the bitcast and prints the integer
// (ppc_fp128 is not folded, but llvm-dis always prints it as 0xM...).
func render(qs []query) string {
	var b strings.Builder
	for i, q := range qs {
		if q.kind == "ppc_fp128" {
			fmt.Fprintf(&b, "@g%d = global ppc_fp128 %s\n", i, q.lit)
		} else {
			n := width[q.kind]
			fmt.Fprintf(&b, "@g%d = global i%d bitcast (%s %s to i%d)\n", i, n, q.kind, q.lit, n)
		}
	}
	return b.String()
}

// toHex renders a (possibly negative) decimal integer as w-bit two's complement hexadecimal.
func toHex(dec string, w int) (string, bool) {
	v, ok := new(big.Int).SetString(dec, 10)
	if !ok {
		return "", false
	}
	if v.Sign() < 0 {
		v.Add(v, new(big.Int).Lsh(big.NewInt(1), uint(w)))
	}
	s := strings.ToUpper(v.Text(16))
	if len(s) > w/4 {
		return "", false
	}
	return strings.Repeat("0", w/4-len(s)) + s, true
}

// readBatch asks LLVM for one batch; rejected literals are removed one at a time
// (llvm-as names the line of the first error) until the rest is accepted.
func readBatch(qs []query) []reading {
	out := make([]reading, len(qs))
	idx := make([]int, len(qs)) // positions still in the batch
	for i := range idx {
		idx[i] = i
	}
	for len(idx) > 0 {
		cur := make([]query, len(idx))
		for j, i := range idx {
			cur[j] = qs[i]
		}
		spawnMu.Lock()
		spawns++
		spawnMu.Unlock()
		text, ok, diag := llvmoracle.Canon(render(cur))
		if !ok {
			m := reErrLine.FindStringSubmatch(diag)
			if m == nil {
				mbt.Infra("llvm-as: unexpected diagnostic %q", diag)
			}
			line, _ := strconv.Atoi(m[1])
			if line < 1 || line > len(idx) {
				mbt.Infra("llvm-as: diagnostic names line %d of %d", line, len(idx))
			}
			out[idx[line-1]] = reading{ok: false, diag: m[2]}
			idx = append(idx[:line-1:line-1], idx[line:]...)
			continue
		}
		seen := 0
		for _, m := range reGlobal.FindAllStringSubmatch(text, -1) {
			j, _ := strconv.Atoi(m[1])
			if j >= len(idx) {
				mbt.Infra("llvm-dis: unexpected global g%d", j)
			}
			q := cur[j]
			var r reading
			if q.kind == "ppc_fp128" {
				if m[2] != "ppc_fp128" || !strings.HasPrefix(m[3], "0xM") || len(m[3]) != 35 {
					mbt.Infra("llvm-dis prints ppc_fp128 %s as %q", q.lit, m[0])
				}
				r = reading{ok: true, bits: m[3][3:]}
			} else {
				h, ok := toHex(m[3], width[q.kind])
				if !ok {
					mbt.Infra("llvm-dis did not fold %s %s: %q", q.kind, q.lit, m[0])
				}
				r = reading{ok: true, bits: h}
			}
			out[idx[j]] = r
			seen++
		}
		if seen != len(idx) {
			mbt.Infra("llvm-dis printed %d of %d globals", seen, len(idx))
		}
		break
	}
	return out
}

// llvmRead returns LLVM's reading of every query. Queries expected to be rejected
// should be passed with single=true (one spawn each, in parallel).
func llvmRead(qs []query, single bool) map[string]reading {
	uniq := map[string]bool{}
	var list []query
	for _, q := range qs {
		if !uniq[q.key()] {
			uniq[q.key()] = true
			list = append(list, q)
		}
	}
	per := 1500
	if single {
		per = 1
	}
	nb := (len(list) + per - 1) / per
	res := make([][]reading, nb)
	llvmoracle.Parallel(nb, func(b int) {
		lo, hi := b*per, (b+1)*per
		if hi > len(list) {
			hi = len(list)
		}
		res[b] = readBatch(list[lo:hi])
	})
	out := make(map[string]reading, len(list))
	for b := 0; b < nb; b++ {
		for j, r := range res[b] {
			out[list[b*per+j].key()] = r
		}
	}
	return out
}
