package c10

import (
	"fmt"
	"math"
	"math/big"
	"math/rand"
	"strconv"
	"strings"
)

// input is one literal to be judged, with its provenance.
type input struct {
	q   query
	tag string // vector tag of the spec, or "random", "decimal", ...
	// via "NewFloat": the value is not parsed from q.lit but handed to constant.NewFloat(type, val); q.lit is
	// then the literal that denotes the value (the required bits are LLVM's / the spec's reading of it)
	via string
	val float64
	// Positions (spec/FloatLit.tla): the literal stands at place pos of a module ("" and "scalar": initialiser
	// of a scalar global, the ordinary path), the other leaves of the place hold the literal sibl (class sib)
	pos, sib, sibl string
	// fields of spec vectors
	fromSpec bool
	valid    bool
	want     string
	cls      string
	impl     string
}

func hex64(v uint64) string { return fmt.Sprintf("%016X", v) }

// randDouble returns a random 64-bit pattern; one time in four the exponent field is forced to
// all zeros or all ones, one time in eight only a few low mantissa bits are kept.
func randDouble(rng *rand.Rand) uint64 {
	v := rng.Uint64()
	switch rng.Intn(8) {
	case 0:
		v &^= 0x7FF << 52 // zero / subnormal
	case 1:
		v |= 0x7FF << 52 // inf / NaN
	case 2:
		v &= 0xFFF0000000000000 | (1<<uint(rng.Intn(53)) - 1) // few low mantissa bits
	}
	return v
}

// widen32 is the double-format spelling of a float32 pattern (Go's conversion keeps NaN payloads
// but quiets signalling NaNs, so NaNs are widened by hand).
func widen32(b uint32) uint64 {
	e := (b >> 23) & 0xFF
	m := uint64(b & 0x7FFFFF)
	if e == 0xFF {
		return uint64(b>>31)<<63 | 0x7FF<<52 | m<<29
	}
	return math.Float64bits(float64(math.Float32frombits(b)))
}

// widen16 is the double-format spelling of a half pattern.
func widen16(h uint16) uint64 {
	s := uint64(h>>15) << 63
	e := int((h >> 10) & 0x1F)
	m := uint64(h & 0x3FF)
	switch {
	case e == 0x1F:
		return s | 0x7FF<<52 | m<<42
	case e == 0 && m == 0:
		return s
	case e == 0:
		return s | math.Float64bits(float64(m)*math.Pow(2, -24))
	}
	return s | uint64(e-15+1023)<<52 | m<<42
}

// randomPatterns returns seeded random bit patterns of every kind in LLVM's hexadecimal spellings.
func randomPatterns(rng *rand.Rand, perKind int) []input {
	var out []input
	add := func(kind, lit string) { out = append(out, input{q: query{kind, lit}, tag: "random"}) }
	for i := 0; i < perKind; i++ {
		// half (already exhaustive in the spec vectors; kept so that all kinds take this path)
		h := uint16(rng.Intn(65536))
		add("half", fmt.Sprintf("0xH%04X", h))
		// float: random pattern in the 16-digit double format
		f := rng.Uint32()
		switch rng.Intn(8) {
		case 0:
			f &^= 0xFF << 23
		case 1:
			f |= 0xFF << 23
		}
		add("float", "0x"+hex64(widen32(f)))
		// double
		d := randDouble(rng)
		add("double", "0x"+hex64(d))
		if rng.Intn(4) == 0 {
			add("double", fmt.Sprintf("0x%X", d)) // unpadded, as LLVM prints it
		}
		// x86_fp80: integer bit mostly consistent with the exponent
		se := uint16(rng.Intn(65536))
		m := rng.Uint64()
		switch rng.Intn(8) {
		case 0:
			se &= 0x8000
		case 1:
			se |= 0x7FFF
		}
		if rng.Intn(4) != 0 {
			if se&0x7FFF == 0 {
				m &^= 1 << 63
			} else {
				m |= 1 << 63
			}
		}
		add("x86_fp80", fmt.Sprintf("0xK%04X%016X", se, m))
		// fp128: LLVM spells the low word first
		hi, lo := rng.Uint64(), rng.Uint64()
		switch rng.Intn(8) {
		case 0:
			hi &^= 0x7FFF << 48
		case 1:
			hi |= 0x7FFF << 48
		case 2:
			lo |= 0x7FFF << 48 // the low word looks like a NaN/inf when read as a high word
		case 3:
			lo = 0
		}
		add("fp128", fmt.Sprintf("0xL%016X%016X", lo, hi))
		// ppc_fp128: arbitrary pairs and canonical pairs (low part below half an ulp of the high part)
		a, b := randDouble(rng), randDouble(rng)
		switch rng.Intn(3) {
		case 0:
			ea := int(a >> 52 & 0x7FF)
			if ea > 60 && ea < 0x7FF {
				eb := ea - 54 - rng.Intn(6)
				b = b&^(0x7FF<<52) | uint64(eb)<<52
			}
		case 1:
			b = 0
		}
		add("ppc_fp128", fmt.Sprintf("0xM%016X%016X", a, b))
	}
	return out
}

// exactDecimal returns the exact decimal expansion of x in positional and scientific notation.
func exactDecimal(x *big.Float) (plain, sci string) {
	plain = x.Text('f', 1200)
	if strings.Contains(plain, ".") {
		plain = strings.TrimRight(plain, "0")
		if strings.HasSuffix(plain, ".") {
			plain += "0"
		}
	}
	sci = x.Text('e', 1200)
	if p := strings.IndexByte(sci, 'e'); p >= 0 {
		mant := strings.TrimRight(sci[:p], "0")
		if strings.HasSuffix(mant, ".") {
			mant += "0"
		}
		sci = mant + sci[p:]
	}
	return
}

// decimalInputs returns decimal and scientific literals. For half and float only exactly
// representable values are useful (LLVM rejects the others); for double any decimal is legal.
func decimalInputs(rng *rand.Rand, n int) []input {
	var out []input
	add := func(kind, lit string) { out = append(out, input{q: query{kind, lit}, tag: "decimal"}) }
	fixed := []string{"0.0", "-0.0", "+0.0", "1.0", "-1.0", "+1.0", "1.", "0.5", "2.5", "0.25", "-0.375", "1.0e+10", "2.5e+10",
		"1.0e300", "1.0E+2", "1.0e2", "1.5E-3", "65504.0", "65505.0", "0.1", "0.3", "3.141592653589793", "100000.0", "1.0e+6", "1000000.0",
		"16777216.0", "16777217.0", "1.7976931348623157e+308", "1.7976931348623159e+308", "4.9406564584124654e-324", "5.0e-324",
		"2.4703282292062327e-324", "2.4703282292062328e-324", "2.2250738585072014e-308", "2.2250738585072011e-308",
		"1.0e+400", "-1.0e+400", "1.0e-400", "-1.0e-400", "123456789012345678901234567890.0", "0.000001", "1.0e-6", "9007199254740993.0",
		"5.9604644775390625e-8", "6.103515625e-5", "1.401298464324817070923729583289916131280e-45", "3.4028234663852886e+38",
		"0.00006103515625", "1.0e+0", "1.0e-0", "00.5", "1.50"}
	for _, k := range []string{"half", "float", "double"} {
		for _, s := range fixed {
			add(k, s)
		}
	}
	styles := func(kind string, x *big.Float) {
		plain, sci := exactDecimal(x)
		switch rng.Intn(4) {
		case 0:
			add(kind, plain)
		case 1:
			add(kind, sci)
		case 2:
			add(kind, strings.Replace(sci, "e", "E", 1))
		default:
			if len(plain) < 60 {
				add(kind, plain)
			} else {
				add(kind, sci)
			}
		}
	}
	for i := 0; i < n; i++ {
		// exactly representable half and float values
		h := uint16(rng.Intn(65536))
		if (h>>10)&0x1F != 0x1F {
			styles("half", new(big.Float).SetPrec(64).SetFloat64(math.Float64frombits(widen16(h))))
		}
		f := rng.Uint32()
		if rng.Intn(6) == 0 {
			f &^= 0xFF << 23 // subnormal
		}
		if (f>>23)&0xFF != 0xFF {
			styles("float", new(big.Float).SetPrec(64).SetFloat64(float64(math.Float32frombits(f))))
		}
		// doubles: shortest decimal, 17 digits, exact expansion, long noisy decimals
		d := randDouble(rng)
		if (d>>52)&0x7FF == 0x7FF {
			d &^= 1 << 62
		}
		v := math.Float64frombits(d)
		switch rng.Intn(5) {
		case 0:
			s := strconv.FormatFloat(v, 'e', -1, 64)
			if !strings.Contains(s[:strings.IndexByte(s, 'e')], ".") {
				s = strings.Replace(s, "e", ".0e", 1)
			}
			add("double", s)
		case 1:
			add("double", strconv.FormatFloat(v, 'e', 16, 64))
		case 2:
			styles("double", new(big.Float).SetPrec(64).SetFloat64(v))
		case 3:
			// a decimal with 30 significant digits near v
			s := strconv.FormatFloat(v, 'e', 16, 64)
			p := strings.IndexByte(s, 'e')
			noise := make([]byte, 13)
			for j := range noise {
				noise[j] = byte('0' + rng.Intn(10))
			}
			add("double", s[:p]+string(noise)+s[p:])
		default:
			add("double", strconv.FormatFloat(v, 'f', 1+rng.Intn(20), 64))
		}
		// decimals next to a halfway point between neighbouring subnormal doubles
		k := int64(rng.Intn(1 << uint(1+rng.Intn(20))))
		mid := new(big.Float).SetPrec(300).SetInt64(2*k + 1) // (k + 1/2) * 2^-1074 = (2k+1) * 2^-1075
		mid.SetMantExp(mid, -1075)
		eps := new(big.Float).SetPrec(300).SetMantExp(mid, -57-rng.Intn(8))
		if rng.Intn(2) == 0 {
			mid.Add(mid, eps)
		} else {
			mid.Sub(mid, eps)
		}
		add("double", mid.Text('e', 30))
		// and next to a halfway point between normal doubles
		w := math.Float64frombits(d&^(0x7FF<<52) | uint64(1+rng.Intn(2045))<<52)
		hw := new(big.Float).SetPrec(300).SetFloat64(w)
		nx := new(big.Float).SetPrec(300).SetFloat64(math.Nextafter(w, math.Inf(1)))
		hw.Add(hw, nx)
		hw.Quo(hw, big.NewFloat(2))
		if !hw.IsInf() {
			e2 := new(big.Float).SetPrec(300).SetMantExp(hw, -70)
			if rng.Intn(2) == 0 {
				hw.Add(hw, e2)
			} else {
				hw.Sub(hw, e2)
			}
			add("double", hw.Text('e', 40))
		}
	}
	return out
}

// valueOf is the value of a finite half, float or double bit pattern (hexadecimal digits of the kind's width).
func valueOf(kind, bits string) float64 {
	v := u64(bits)
	switch kind {
	case "half":
		return math.Float64frombits(widen16(uint16(v)))
	case "float":
		return float64(math.Float32frombits(uint32(v)))
	}
	return math.Float64frombits(v)
}

// pow2Derived derives from the "pow2" vectors of the specification (dimension PowerOfTwoNeighbours of
// FloatLit.tla: every power of two of half, float and double, its two neighbours and the negatives, in
// the hexadecimal spelling) the other ways in which the same value reaches the printer: its exact decimal
// expansion (scientific notation; positional as well when short) through the parser and
// constant.NewFloatFromString, and the value itself through constant.NewFloat.  quick: NewFloat for
// double only for the normal powers of two themselves.
func pow2Derived(vectors []input, tier string) []input {
	var out []input
	for _, v := range vectors {
		if v.tag != "pow2" || !v.valid {
			continue
		}
		x := valueOf(v.q.kind, v.want)
		plain, sci := exactDecimal(new(big.Float).SetPrec(64).SetFloat64(x))
		out = append(out, input{q: query{v.q.kind, sci}, tag: "pow2-decimal"})
		if len(plain) <= 24 {
			out = append(out, input{q: query{v.q.kind, plain}, tag: "pow2-decimal"})
		}
		if tier == "thorough" || v.q.kind != "double" || u64(v.want)&(1<<52-1) == 0 {
			out = append(out, input{q: v.q, tag: "pow2-newfloat", via: "NewFloat", val: x})
		}
	}
	return out
}

// shortSpellings returns random hexadecimal literals with fewer digits than the full form
// (LLVM accepts them and completes them as described in spec/FloatLit.tla above ShortForms).
func shortSpellings(rng *rand.Rand, n int) []input {
	forms := []struct {
		kind, prefix string
		full         int
	}{{"half", "0xH", 4}, {"half", "0x", 16}, {"float", "0x", 16}, {"double", "0x", 16}, {"x86_fp80", "0xK", 20}, {"fp128", "0xL", 32}, {"ppc_fp128", "0xM", 32}}
	const digits = "0123456789ABCDEFabcdef"
	var out []input
	for i := 0; i < n; i++ {
		for _, f := range forms {
			l := 1 + rng.Intn(f.full-1)
			b := make([]byte, l)
			for j := range b {
				switch rng.Intn(6) {
				case 0:
					b[j] = '0'
				case 1:
					b[j] = 'F'
				default:
					b[j] = digits[rng.Intn(len(digits))]
				}
			}
			if f.prefix == "0x" && f.kind != "double" && rng.Intn(2) == 0 {
				// half/float: a short double-format spelling is valid only for zero; use trailing zeros instead
				continue
			}
			out = append(out, input{q: query{f.kind, f.prefix + string(b)}, tag: "random-short"})
		}
	}
	return out
}
