// Package c08 checks property C08 (not built yet).
package c08

import (
	"verif/harness/mbt"
	"verif/harness/props/reg"
)

func init() { reg.Register("C08", Run) }

// Run is the C08 check.
func Run(tier, replay string) { mbt.Infra("check C08 is not built yet") }
