// Package c08 checks property C08: unnamed values are numbered exactly as
// LLVM numbers them.
//
// (S) spec/Numbering.tla states LLVM's numbering as a count and the code's ID
// assignment as a walk; spec/NumberingGen.tla lets TLC check their laws over
// all function and module shapes (with ValidateOnPrint = TRUE, the code as
// implemented, TLC reports the parse-then-print counterexample) and writes one
// vector per shape; spec/IRState.tla contributes histories that start from a
// parsed module.
// (G) every vector is (a) built through the real API, printed, compared token
// by token with the numbering of the specification and given to llvm-as; (b)
// rendered as text with implicit, explicit and mixed numbering -- llvm-as must
// accept it, else the vector is discarded as a spec/LLVM disagreement --,
// parsed with asm.ParseString, every use checked to be pointer-equal to the
// value at that number, printed again, numbered again.
// (T) the ir.VerifHook "setid" events of the prints are recorded and judged by
// TLC against spec/NumberingTrace.tla.
package c08

import (
	"fmt"
	"math/rand"
	"path/filepath"
	"regexp"
	"sort"
	"strconv"
	"strings"
	"time"

	"github.com/llir/llvm/asm"
	"github.com/llir/llvm/ir"
	"github.com/llir/llvm/ir/constant"
	"github.com/llir/llvm/ir/types"

	"verif/harness/llvmoracle"
	"verif/harness/mbt"
	"verif/harness/props/irhist"
	"verif/harness/props/reg"
)

func init() { reg.Register("C08", Run) }

const (
	sigParsePrint    = "C08|parse+print|panic|unnamed definitions textually out of print-group order"
	sigParseEditLoc  = "C08|parse+edit+print|panic|cached local ID validated against position"
	sigParseEditGlob = "C08|parse+edit+print|panic|cached global ID validated against position"
)

// --- recording of "setid" events (T) ------------------------------------------------

type recItem struct {
	Name   string `json:"name"`
	Res    string `json:"res"`
	Before int    `json:"before"`
}
type recEvent struct {
	Pos int `json:"pos"`
	Old int `json:"old"`
	New int `json:"new"`
}
type record struct {
	ID     int        `json:"id"`
	What   string     `json:"what"`
	Items  []recItem  `json:"items"`
	Events []recEvent `json:"events"`
	After  []int      `json:"after"`
	desc   string
}

type checker struct {
	rep      *mbt.Report
	tier     string
	rng      *rand.Rand
	records  []record
	recEvery int
	recCount int
	discards int
	vectors  int
	llvmRuns int
	// llvm-as verdicts by text
	accepted map[string]string // text -> "" (accepted) or diagnostic
	// module vectors: failures are reported only for vectors llvm-as has confirmed;
	// after sigCap confirmed failures of one signature further ones are only counted
	sigCount   map[string]int
	suppressed int
	modLLVM    int  // module vectors confirmed by llvm-as
	askPrinted bool // current module vector is in the llvm sample: printed text goes to llvm-as too
}

const sigCap = 150

// llvmAgrees asks llvm-as (cached) whether it accepts the source text with the
// textual numbers and the reference output with the print-group numbers of v.
func (c *checker) llvmAgrees(v vector) (bool, string) {
	ok1, d1 := c.accept(modText(v, textualOrder(v), v.Textual))
	ok2, d2 := c.accept(modText(v, groupOrder(v), v.Printed))
	return ok1 && ok2, diagClass(d1) + " " + diagClass(d2)
}

// failMod reports a failure of a module vector, once llvm-as has confirmed the vector.
func (c *checker) failMod(v vector, f mbt.Failure) {
	if c.sigCount[f.Signature] >= sigCap {
		c.suppressed++
		return
	}
	if ok, diag := c.llvmAgrees(v); !ok {
		c.discards++
		c.rep.Note("spec/LLVM disagreement (vector discarded): llvm-as rejects the rendering of %s: %s", v.key(), diag)
		return
	}
	c.sigCount[f.Signature]++
	c.rep.Fail(f)
}

func (c *checker) wantRecord() bool {
	c.recCount++
	return c.recEvery <= 1 || c.recCount%c.recEvery == 0
}

// accept asks llvm-as (cached).
func (c *checker) accept(text string) (bool, string) {
	if d, ok := c.accepted[text]; ok {
		return d == "", d
	}
	ok, diag := llvmoracle.Accepts(text)
	c.llvmRuns++
	if ok {
		diag = ""
	} else if diag == "" {
		diag = "rejected"
	}
	c.accepted[text] = diag
	return ok, diag
}

// prefetch runs llvm-as on all texts in parallel and caches the verdicts.
func (c *checker) prefetch(texts []string) {
	var todo []string
	seen := map[string]bool{}
	for _, t := range texts {
		if _, ok := c.accepted[t]; !ok && !seen[t] {
			seen[t] = true
			todo = append(todo, t)
		}
	}
	res := make([]string, len(todo))
	llvmoracle.Parallel(len(todo), func(i int) {
		ok, diag := llvmoracle.Accepts(todo[i])
		if !ok && diag == "" {
			diag = "rejected"
		}
		if ok {
			diag = ""
		}
		res[i] = diag
	})
	for i, t := range todo {
		c.accepted[t] = res[i]
	}
	c.llvmRuns += len(todo)
}

var reNum = regexp.MustCompile(`[0-9]+`)

// errClass abstracts a parser error for a signature: first clause only, numbers and quoted text removed.
func errClass(err error) string {
	m := err.Error()
	for _, sep := range []string{";", "`", "\n"} {
		if i := strings.Index(m, sep); i >= 0 {
			m = m[:i]
		}
	}
	m = regexp.MustCompile(`"[^"]*"`).ReplaceAllString(m, "<id>")
	return strings.TrimSpace(reNum.ReplaceAllString(m, "N"))
}

func diagClass(d string) string {
	if i := strings.Index(d, "error:"); i >= 0 {
		d = d[i+6:]
	}
	if i := strings.IndexByte(d, '\n'); i >= 0 {
		d = d[:i]
	}
	return strings.TrimSpace(reNum.ReplaceAllString(d, "N"))
}

// ===================================================================================
// function shapes
// ===================================================================================

const batchSize = 250

func (c *checker) funcVectors(vs []vector) {
	for lo := 0; lo < len(vs); lo += batchSize {
		hi := lo + batchSize
		if hi > len(vs) {
			hi = len(vs)
		}
		c.funcBatch(vs[lo:hi], lo)
	}
}

func (c *checker) funcBatch(vs []vector, base int) {
	rep := c.rep
	plans := make([]*plan, len(vs))
	for i, v := range vs {
		plans[i] = makePlan("f"+strconv.Itoa(base+i), v)
	}
	texts := make([]string, 3)
	for mode := 0; mode < 3; mode++ {
		var sb strings.Builder
		sb.WriteString(prelude)
		for _, pl := range plans {
			sb.WriteString(pl.render(mode))
			sb.WriteString("\n")
		}
		texts[mode] = sb.String()
	}
	c.prefetch(texts)
	// LLVM arbitrates the reference: the explicit rendering carries the numbers of the specification
	alive := make([]bool, len(vs))
	for i := range alive {
		alive[i] = true
	}
	if ok, _ := c.accept(texts[modeExplicit]); !ok {
		// find the shapes LLVM and the specification disagree on
		for i, pl := range plans {
			if ok, diag := c.accept(prelude + pl.render(modeExplicit)); !ok {
				alive[i] = false
				c.discards++
				rep.Note("spec/LLVM disagreement (vector discarded): llvm-as rejects the explicit rendering of %s: %s", pl.describe, diagClass(diag))
			}
		}
	}
	refToks := make([][]string, len(plans))
	for i, pl := range plans {
		ref := pl.render(modeExplicit)
		refToks[i] = tokens(pl.chunk(ref, splitFuncs(ref)))
	}
	for _, v := range vs {
		c.vectors++
		rep.Count(v.key(), hasUnnamedAndNamedOrVoid(v))
	}

	// (a) build through the API, print
	e := newEnv()
	objs := make([]objects, len(plans))
	funcs := make([]*ir.Func, len(plans))
	for i, pl := range plans {
		funcs[i], objs[i] = pl.build(e)
	}
	events := c.hookStart()
	var printed string
	msg, panicked := mbt.Guard(func() { printed = e.m.String() })
	evs := c.hookStop(events)
	if panicked {
		rep.Fail(mbt.Failure{Signature: "C08|build+print|panic|" + irhist.PanicClass(msg),
			What: "printing a module of freshly built functions panics: " + mbt.Truncate(msg, 200), Case: caseOf(vs, "build")})
	} else {
		per := splitFuncs(printed)
		if ok, diag := c.accept(withoutBAMetadata(printed)); !ok {
			// blame single functions
			blamed := false
			for i, pl := range plans {
				if !alive[i] {
					continue
				}
				if ok1, d1 := c.accept(prelude + pl.standalone(printed, per)); !ok1 {
					blamed = true
					rep.Fail(mbt.Failure{Signature: "C08|build+print|llvm-as rejects|" + diagClass(d1),
						What: fmt.Sprintf("llvm-as rejects the printed function built from %s: %s", pl.describe, diagClass(d1)),
						Case: caseOf(vs[i:i+1], "build")})
				}
			}
			if !blamed {
				rep.Fail(mbt.Failure{Signature: "C08|build+print|llvm-as rejects|" + diagClass(diag),
					What: "llvm-as rejects the printed batch module: " + diagClass(diag), Case: caseOf(vs, "build")})
			}
		}
		for i, pl := range plans {
			if !alive[i] {
				continue
			}
			got := tokens(pl.chunk(printed, per))
			if d := firstDiff(got, refToks[i]); d >= 0 {
				rep.Fail(mbt.Failure{Signature: "C08|build+print|numbering|" + c.blame(pl, refToks[i], got, d),
					What: fmt.Sprintf("built %s prints identifiers %v, LLVM numbering is %v", pl.describe, got, refToks[i]),
					Case: caseOf(vs[i:i+1], "build")})
				continue
			}
			if c.wantRecord() {
				c.recordFunc(pl, objs[i], nil, evs, "build "+pl.describe)
			}
			// numbering again changes nothing
			c.reassign(pl, funcs[i], objs[i], "build", vs[i])
		}
	}

	// (b) text in three numbering modes -> llvm-as -> parser
	for mode := 0; mode < 3; mode++ {
		if ok, diag := c.accept(texts[mode]); !ok {
			if mode != modeExplicit {
				// the implicit forms must be valid whenever the explicit one is
				bad := 0
				for i, pl := range plans {
					if alive[i] {
						if ok1, _ := c.accept(prelude + pl.render(mode)); !ok1 {
							bad++
							c.discards++
						}
					}
				}
				rep.Note("llvm-as rejects the %s rendering of %d shapes of a batch (%s): discarded", modeNames[mode], bad, diagClass(diag))
			}
			continue
		}
		m, err := asm.ParseString("batch.ll", texts[mode])
		if err != nil {
			// find the shapes the parser rejects
			found := false
			for i, pl := range plans {
				if !alive[i] {
					continue
				}
				if _, e1 := asm.ParseString("one.ll", prelude+pl.render(mode)); e1 != nil {
					found = true
					rep.Fail(mbt.Failure{Signature: "C08|parse|rejected|" + modeNames[mode] + " numbering: " + errClass(e1),
						What: fmt.Sprintf("asm.ParseString rejects the %s rendering (accepted by llvm-as) of %s: %v", modeNames[mode], pl.describe, mbt.Truncate(e1.Error(), 200)),
						Case: caseOfText(vs[i:i+1], "parse", prelude+pl.render(mode))})
				}
			}
			if !found {
				rep.Fail(mbt.Failure{Signature: "C08|parse|rejected|batch: " + errClass(err),
					What: "asm.ParseString rejects a batch llvm-as accepts: " + mbt.Truncate(err.Error(), 200), Case: caseOfText(vs, "parse", texts[mode])})
			}
			continue
		}
		byName := map[string]*ir.Func{}
		for _, f := range m.Funcs {
			byName[f.GlobalName] = f
		}
		pobjs := make([]objects, len(plans))
		okPlan := make([]bool, len(plans))
		for i, pl := range plans {
			if !alive[i] {
				continue
			}
			f := byName[pl.fname]
			if f == nil {
				rep.Fail(mbt.Failure{Signature: "C08|parse|structure|function missing", What: "parsed module lacks " + pl.fname, Case: caseOf(vs[i:i+1], "parse")})
				continue
			}
			obj, err := pl.locate(f)
			if err != nil {
				rep.Fail(mbt.Failure{Signature: "C08|parse|structure|" + modeNames[mode] + " numbering",
					What: fmt.Sprintf("parsed %s rendering of %s has another structure: %v", modeNames[mode], pl.describe, err), Case: caseOfText(vs[i:i+1], "parse", prelude+pl.render(mode))})
				continue
			}
			pobjs[i] = obj
			okPlan[i] = true
			if detail := pl.checkCompanions(m, f, obj); detail != "" {
				site := "blockaddress of a block"
				if strings.Contains(detail, "metadata node") {
					site = "blockaddress of a block in a metadata node"
				}
				rep.Fail(mbt.Failure{Signature: "C08|parse|binding|" + site + ", " + modeNames[mode] + " numbering",
					What: fmt.Sprintf("%s rendering of %s: %s", modeNames[mode], pl.describe, detail), Case: caseOfText(vs[i:i+1], "parse", prelude+pl.render(mode))})
			}
			if kind, detail := pl.checkBinding(obj); kind != "" {
				rep.Fail(mbt.Failure{Signature: "C08|parse|binding|use of " + kind + ", " + modeNames[mode] + " numbering",
					What: fmt.Sprintf("%s rendering of %s: %s", modeNames[mode], pl.describe, detail), Case: caseOfText(vs[i:i+1], "parse", prelude+pl.render(mode))})
			}
			// the parser's own numbering of the unnamed values
			ids := pl.ids(obj)
			for k, it := range pl.flat {
				if it.num >= 0 && ids[k] != it.num {
					rep.Fail(mbt.Failure{Signature: "C08|parse|numbering|" + it.describeKind() + ", " + modeNames[mode] + " numbering",
						What: fmt.Sprintf("%s rendering of %s: the parser numbers the %s at walk position %d %%%d, LLVM %%%d", modeNames[mode], pl.describe, it.describeKind(), it.pos, ids[k], it.num),
						Case: caseOfText(vs[i:i+1], "parse", prelude+pl.render(mode))})
					break
				}
			}
		}
		// printing never fails on a module the parser produced
		before := make([][]int, len(plans))
		for i, pl := range plans {
			if okPlan[i] {
				before[i] = pl.ids(pobjs[i])
			}
		}
		events := c.hookStart()
		var out string
		msg, panicked := mbt.Guard(func() { out = m.String() })
		evs := c.hookStop(events)
		if panicked {
			rep.Fail(mbt.Failure{Signature: "C08|parse+print|panic|function, " + irhist.PanicClass(msg),
				What: "printing a parsed module panics: " + mbt.Truncate(msg, 200), Case: caseOfText(vs, "parse", texts[mode])})
			continue
		}
		per := splitFuncs(out)
		for i, pl := range plans {
			if !okPlan[i] {
				continue
			}
			got := tokens(pl.chunk(out, per))
			if d := firstDiff(got, refToks[i]); d >= 0 {
				rep.Fail(mbt.Failure{Signature: "C08|parse+print|numbering|" + c.blame(pl, refToks[i], got, d),
					What: fmt.Sprintf("%s rendering of %s prints identifiers %v after parsing, LLVM numbering is %v", modeNames[mode], pl.describe, got, refToks[i]),
					Case: caseOfText(vs[i:i+1], "parse", prelude+pl.render(mode))})
				continue
			}
			if c.wantRecord() {
				c.recordFunc(pl, pobjs[i], before[i], evs, "parse("+modeNames[mode]+") "+pl.describe)
			}
			c.reassign(pl, byName[pl.fname], pobjs[i], "parse", vs[i])
		}
		if mode == modeImplicit {
			if ok, diag := c.accept(withoutBAMetadata(out)); !ok {
				rep.Fail(mbt.Failure{Signature: "C08|parse+print|llvm-as rejects|" + diagClass(diag),
					What: "llvm-as rejects the text printed for a parsed batch: " + diagClass(diag), Case: caseOfText(vs, "parse", texts[mode])})
			}
		}
		if mode == modeImplicit {
			c.editParsed(vs, plans, okPlan, byName, refToks, m, texts[mode])
		}
	}
	if base == 0 && len(vs) > 0 {
		rep.Sample(map[string]interface{}{"kind": "func", "shape": vs[len(vs)/2].key(), "form": vs[len(vs)/2].Form, "llvm_numbering": vs[len(vs)/2].Ids,
			"explicit_text": plans[len(vs)/2].render(modeExplicit)})
	}
}

// editParsed: parse -> edit -> print (NumberingGen!FnInsertShifts). An unnamed instruction is inserted at the head of
// the entry block of every parsed function; the printer must give it the number the specification says (vector field
// ins) and move every later number -- definitions, uses, labels, and the addresses of the function's blocks held by
// an earlier function, by global initialisers and by metadata nodes -- up by one.
func (c *checker) editParsed(vs []vector, plans []*plan, okPlan []bool, byName map[string]*ir.Func, refToks [][]string, m *ir.Module, src string) {
	rep := c.rep
	for i, pl := range plans {
		if f := byName[pl.fname]; okPlan[i] && f != nil && len(f.Blocks) > 0 {
			k := constant.NewInt(types.I32, insertedConst)
			f.Blocks[0].Insts = append([]ir.Instruction{ir.NewAdd(k, k)}, f.Blocks[0].Insts...)
		}
	}
	var out string
	if msg, panicked := mbt.Guard(func() { out = m.String() }); panicked {
		rep.Fail(mbt.Failure{Signature: "C08|parse+edit+print|panic|function, " + irhist.PanicClass(msg),
			What: "printing a parsed module after an unnamed instruction was inserted panics: " + mbt.Truncate(msg, 200), Case: caseOfText(vs, "parse+edit", src)})
		return
	}
	per := splitFuncs(out)
	for i, pl := range plans {
		if !okPlan[i] || byName[pl.fname] == nil || len(byName[pl.fname].Blocks) == 0 {
			continue
		}
		rest, def, ok := cutInserted(per[pl.fname])
		if !ok {
			rep.Fail(mbt.Failure{Signature: "C08|parse+edit+print|structure|inserted instruction not printed", What: "the inserted instruction is missing from the printed function of " + pl.describe, Case: caseOfText(vs[i:i+1], "parse+edit", src)})
			continue
		}
		c.rep.Count("edit:"+pl.describe, true)
		if want := "%" + strconv.Itoa(vs[i].Ins); def != want {
			rep.Fail(mbt.Failure{Signature: "C08|parse+edit+print|numbering|inserted unnamed instruction",
				What: fmt.Sprintf("%s, parsed, unnamed instruction inserted at the head of the entry block: printed as %s, LLVM numbers it %s", pl.describe, def, want), Case: caseOfText(vs[i:i+1], "parse+edit", prelude+pl.render(modeImplicit))})
			continue
		}
		per2 := map[string]string{"u." + pl.fname: per["u."+pl.fname], pl.fname: rest}
		got, want := tokens(pl.chunk(out, per2)), pl.shiftTokens(refToks[i], vs[i].Ins)
		if d := firstDiff(got, want); d >= 0 {
			rep.Fail(mbt.Failure{Signature: "C08|parse+edit+print|numbering|" + pl.editRegion(d) + " keeps a number of before the edit",
				What: fmt.Sprintf("%s, parsed, unnamed instruction inserted at the head of the entry block: printed identifiers %v, LLVM numbering is %v (first difference at token %d)", pl.describe, got, want, d),
				Case: caseOfText(vs[i:i+1], "parse+edit", prelude+pl.render(modeImplicit))})
		}
	}
	if ok, diag := c.accept(withoutBAMetadata(out)); !ok {
		rep.Fail(mbt.Failure{Signature: "C08|parse+edit+print|llvm-as rejects|" + diagClass(diag),
			What: "llvm-as rejects the text printed for a parsed batch after an unnamed instruction was inserted into every function: " + diagClass(diag), Case: caseOfText(vs, "parse+edit", src)})
	}
}

func hasUnnamedAndNamedOrVoid(v vector) bool {
	un, other := false, false
	for _, id := range v.Ids {
		if id >= 0 {
			un = true
		} else {
			other = true
		}
	}
	for i, id := range v.Textual {
		if id >= 0 && v.Printed[i] != id {
			return true
		}
	}
	return un && other
}

// blame names the definition at which the printed identifiers first leave LLVM's numbering.
func (c *checker) blame(pl *plan, ref, got []string, d int) string {
	// the d-th token of the reference belongs to some item: find the definition token count
	want := "(end)"
	if d < len(ref) {
		want = ref[d]
	}
	// a difference inside the companions: the address of a block taken from outside its function
	refText := pl.render(modeExplicit)
	per := splitFuncs(refText)
	nu, nf := len(tokens(per["u."+pl.fname])), len(tokens(per[pl.fname]))
	if d < nu {
		return "blockaddress in an earlier function names another block"
	}
	if d >= nu+nf {
		return "blockaddress in a global initialiser names another block"
	}
	for _, it := range pl.flat {
		if !it.scaffold && it.num >= 0 && it.ident() == want {
			return "first difference at unnamed " + it.describeKind()
		}
	}
	// otherwise a token appeared where none is due: name the item kinds that take no number
	kinds := map[string]bool{}
	for _, it := range pl.flat {
		if !it.scaffold && it.num < 0 && it.name == "" && it.kind != "block" && it.kind != "param" {
			kinds[it.describeKind()] = true
		}
	}
	var ks []string
	for k := range kinds {
		ks = append(ks, k)
	}
	sort.Strings(ks)
	return "shifted numbering, shape contains " + strings.Join(ks, "+")
}

// reassign calls the public AssignIDs again: no error, nothing changes.
func (c *checker) reassign(pl *plan, f *ir.Func, obj objects, stage string, v vector) {
	before := pl.ids(obj)
	err := f.AssignIDs()
	after := pl.ids(obj)
	if err != nil {
		c.rep.Fail(mbt.Failure{Signature: "C08|" + stage + "+print+AssignIDs|error|numbering a numbered function again fails",
			What: fmt.Sprintf("AssignIDs on the printed %s: %v", pl.describe, err), Case: caseOf([]vector{v}, stage)})
		return
	}
	for i := range before {
		if before[i] != after[i] {
			c.rep.Fail(mbt.Failure{Signature: "C08|" + stage + "+print+AssignIDs|changed|numbering a numbered function again changes ids",
				What: fmt.Sprintf("AssignIDs on the printed %s changes ids %v -> %v", pl.describe, before, after), Case: caseOf([]vector{v}, stage)})
			return
		}
	}
}

type hookEvent struct {
	obj      interface{}
	old, new int64
}

func (c *checker) hookStart() *[]hookEvent {
	evs := &[]hookEvent{}
	ir.VerifHook = func(ev string, obj interface{}, old, new int64) {
		if ev == "setid" {
			*evs = append(*evs, hookEvent{obj, old, new})
		}
	}
	return evs
}

func (c *checker) hookStop(evs *[]hookEvent) []hookEvent {
	ir.VerifHook = nil
	return *evs
}

// recordFunc turns the events that concern one function into a trace record.
func (c *checker) recordFunc(pl *plan, obj objects, before []int, evs []hookEvent, desc string) {
	pos := map[interface{}]int{}
	for _, it := range pl.flat {
		if o := obj[it]; o != nil {
			pos[o] = it.pos
		}
	}
	r := record{ID: len(c.records) + 1, What: "func", desc: desc, Events: []recEvent{}}
	for k, it := range pl.flat {
		b := 0
		if before != nil {
			b = before[k]
		}
		r.Items = append(r.Items, recItem{Name: it.name, Res: it.res, Before: b})
	}
	for _, e := range evs {
		if p, ok := pos[e.obj]; ok {
			r.Events = append(r.Events, recEvent{Pos: p, Old: int(e.old), New: int(e.new)})
		}
	}
	r.After = pl.ids(obj)
	c.records = append(c.records, r)
}

func caseOf(vs []vector, stage string) map[string]interface{} {
	if len(vs) > 3 {
		vs = vs[:3]
	}
	return map[string]interface{}{"stage": stage, "vectors": vs}
}

func caseOfText(vs []vector, stage, text string) map[string]interface{} {
	m := caseOf(vs, stage)
	if len(text) < 4000 {
		m["text"] = text
	}
	return m
}

// ===================================================================================
// module shapes
// ===================================================================================

type modObj interface {
	ID() int64
	SetName(string)
	Ident() string
}

// modNames gives every definition its concrete name: named definitions are
// called after their kind and their ordinal among the definitions of that kind
// (so that the printed text depends on the group contents only).
func modNames(v vector) []string {
	src := v.Src
	ord := map[string]int{}
	out := make([]string, len(src))
	for i, e := range src {
		ord[e.Kind]++
		if e.Name != "" {
			out[i] = e.Kind[:2] + strconv.Itoa(ord[e.Kind])
			if v.Names == "numeral" {
				// quoted all-digit names: @"0", @"1", @"00", @"42" are names, not numbers
				out[i] = numeralName(i)
			}
		}
	}
	return out
}

func defLine(kind, ident string) string {
	switch kind {
	case "global":
		return ident + " = global i32 0\n"
	case "alias":
		return ident + " = alias i32, i32* @h.base\n"
	case "ifunc":
		return ident + " = ifunc void (), void ()* ()* @h.resolver\n"
	case "func":
		return "define void " + ident + "() {\n\tret void\n}\n"
	}
	mbt.Infra("unknown definition kind %q", kind)
	return ""
}

func useLine(i int, kind, ident string) string {
	if kind == "global" || kind == "alias" {
		return fmt.Sprintf("@u%d = global i32* %s\n", i+1, ident)
	}
	return fmt.Sprintf("@u%d = global void ()* %s\n", i+1, ident)
}

const modPrelude = "@h.base = global i32 0\ndefine void ()* @h.resolver() {\n\tret void ()* null\n}\n"

// modText renders the definitions in the given order with the given numbers, then the uses.
func modText(v vector, order []int, num []int) string {
	names := modNames(v)
	var sb strings.Builder
	sb.WriteString(modPrelude)
	ident := func(i int) string {
		if names[i] != "" {
			return "@" + quoteName(names[i])
		}
		return "@" + strconv.Itoa(num[i])
	}
	for _, i := range order {
		sb.WriteString(defLine(v.Src[i].Kind, ident(i)))
	}
	for i := range v.Src {
		sb.WriteString(useLine(i, v.Src[i].Kind, ident(i)))
	}
	return sb.String()
}

func textualOrder(v vector) []int {
	o := make([]int, len(v.Src))
	for i := range o {
		o[i] = i
	}
	return o
}

func groupOrder(v vector) []int {
	var o []int
	for _, k := range []string{"global", "alias", "ifunc", "func"} {
		for i, e := range v.Src {
			if e.Kind == k {
				o = append(o, i)
			}
		}
	}
	return o
}

// modDefTokens lists the @-definitions of printed text (helpers and use globals skipped), in order.
func modDefTokens(text string) []string {
	var out []string
	for _, t := range irhist.DefIdents(text) {
		if strings.HasPrefix(t, "@") && !strings.HasPrefix(t, "@h.") && !strings.HasPrefix(t, "@u") {
			out = append(out, t)
		}
	}
	return out
}

// modUseTokens lists the initialisers of the use globals u1..un.
var reUse = regexp.MustCompile(`(?m)^@u(\d+) = global [^@\n]*(@"[^"\n]*"|@[\w.]+)`)

func modUseTokens(text string, n int) []string {
	out := make([]string, n)
	for _, m := range reUse.FindAllStringSubmatch(text, -1) {
		if k, _ := strconv.Atoi(m[1]); k >= 1 && k <= n {
			out[k-1] = m[2]
		}
	}
	return out
}

func (c *checker) modVectors(vs []vector) {
	rep := c.rep
	// LLVM sees, up front: in thorough every vector; in quick all shapes <= 3 and a seeded
	// sample of the longer ones. Any other vector is shown to llvm-as before a failure on it
	// is reported (failMod), so no verdict rests on a vector LLVM has not confirmed.
	inSample := make([]bool, len(vs))
	var texts []string
	for i, v := range vs {
		inSample[i] = c.tier == "thorough" || len(v.Src) <= 3 || c.rng.Intn(100) < 10
		if inSample[i] {
			texts = append(texts, modText(v, textualOrder(v), v.Textual), modText(v, groupOrder(v), v.Printed))
		}
	}
	c.prefetch(texts)
	canonBudget := 100
	if c.tier == "thorough" {
		canonBudget = 1500
	}
	for vi, v := range vs {
		c.vectors++
		rep.Count(v.key(), hasUnnamedAndNamedOrVoid(v))
		src := modText(v, textualOrder(v), v.Textual)
		ref := modText(v, groupOrder(v), v.Printed)
		// the printed text goes to llvm-as as well for every shape that is already in print-group
		// order (one representative per printed form) and for a seeded sample of the others; the
		// identifiers of every printed text are compared with the reference llvm-as has confirmed
		c.askPrinted = inSample[vi] && (!outOfGroupOrderSrc(v) || c.rng.Intn(100) < 15)
		if inSample[vi] {
			if ok, diag := c.llvmAgrees(v); !ok {
				c.discards++
				rep.Note("spec/LLVM disagreement (vector discarded): llvm-as rejects the rendering of %s: %s", v.key(), diag)
				continue
			}
			c.modLLVM++
		}
		names := modNames(v)
		refDefs := modDefTokens(ref)
		refUses := modUseTokens(ref, len(v.Src))
		// LLVM's own printed numbering, for a seeded sample in quick and for all in thorough
		if inSample[vi] && canonBudget > 0 && c.rng.Intn(100) < 25 {
			canonBudget--
			if canon, ok, _ := llvmoracle.Canon(src); ok {
				got := modDefTokens(canon)
				want := append([]string{}, refDefs...)
				if d := firstDiff(stripQuotes(got), want); d >= 0 {
					c.discards++
					rep.Note("spec/LLVM disagreement (vector discarded): llvm-dis prints %v for %s, the specification says %v", got, v.key(), want)
					continue
				}
			}
		}

		// (a) build through the API in textual order, print
		m := ir.NewModule()
		base := ir.NewGlobalDef("h.base", constant.NewInt(types.I32, 0))
		resolver := ir.NewFunc("h.resolver", types.NewPointer(types.NewFunc(types.Void)))
		rb := resolver.NewBlock("")
		rb.NewRet(constant.NewNull(types.NewPointer(types.NewFunc(types.Void))))
		m.Globals = append(m.Globals, base)
		m.Funcs = append(m.Funcs, resolver)
		built := make([]modObj, len(v.Src))
		for i, e := range v.Src {
			switch e.Kind {
			case "global":
				built[i] = m.NewGlobalDef(names[i], constant.NewInt(types.I32, 0))
			case "alias":
				built[i] = m.NewAlias(names[i], base)
			case "ifunc":
				x := m.NewIFunc(names[i], resolver)
				// IFunc.Type() derives the IFunc's type from the resolver's own type (void ()* ()*)
				// instead of the resolver's result type; LLVM then reports "IFunc resolver has
				// incorrect type". Not a numbering matter (reported to the C03/C06 side): the
				// exported field is set to the type LLVM expects.
				x.Typ = types.NewPointer(types.NewFunc(types.Void))
				built[i] = x
			case "func":
				f := m.NewFunc(names[i], types.Void)
				f.NewBlock("").NewRet(nil)
				built[i] = f
			}
		}
		for i := range v.Src {
			m.NewGlobalDef("u"+strconv.Itoa(i+1), built[i].(constant.Constant))
		}
		c.judgeModule(v, m, built, nil, "build", src, refDefs, refUses)

		// (b) parse the text LLVM accepts
		pm, err := asm.ParseString("mod.ll", src)
		if err != nil {
			c.failMod(v, mbt.Failure{Signature: "C08|parse|rejected|module: " + errClass(err),
				What: fmt.Sprintf("asm.ParseString rejects %s (accepted by llvm-as): %v", v.key(), mbt.Truncate(err.Error(), 200)),
				Case: caseOfText([]vector{v}, "parse", src)})
			continue
		}
		parsed, uses, err := locateModule(v, pm)
		if err != nil {
			c.failMod(v, mbt.Failure{Signature: "C08|parse|structure|module", What: fmt.Sprintf("%s: %v", v.key(), err), Case: caseOfText([]vector{v}, "parse", src)})
			continue
		}
		for i := range v.Src {
			if uses[i] != parsed[i] {
				c.failMod(v, mbt.Failure{Signature: "C08|parse|binding|use of unnamed " + v.Src[i].Kind,
					What: fmt.Sprintf("%s: the use of definition %d is bound to %v", v.key(), i+1, uses[i]), Case: caseOfText([]vector{v}, "parse", src)})
				break
			}
			if v.Textual[i] >= 0 && int(parsed[i].ID()) != v.Textual[i] {
				c.failMod(v, mbt.Failure{Signature: "C08|parse|numbering|unnamed " + v.Src[i].Kind,
					What: fmt.Sprintf("%s: definition %d is @%d in the text LLVM accepts, the parser numbers it @%d", v.key(), i+1, v.Textual[i], parsed[i].ID()),
					Case: caseOfText([]vector{v}, "parse", src)})
				break
			}
		}
		before := make([]int, len(parsed))
		for i, o := range parsed {
			before[i] = int(o.ID())
		}
		c.judgeModule(v, pm, parsed, before, "parse", src, refDefs, refUses)
		if vi == len(vs)/3 {
			rep.Sample(map[string]interface{}{"kind": "mod", "shape": v.key(), "textual": v.Textual, "printed": v.Printed, "source_text": src})
		}
	}
}

func stripQuotes(s []string) []string {
	out := make([]string, len(s))
	for i, x := range s {
		out[i] = strings.ReplaceAll(x, `"`, "")
	}
	return out
}

// locateModule finds the definitions of v in the parsed module (k-th of its kind
// in textual order = k-th entry of the group) and the values the use globals point to.
func locateModule(v vector, m *ir.Module) (defs []modObj, uses []interface{}, err error) {
	var gs, as, is, fs []modObj
	for _, g := range m.Globals {
		if !strings.HasPrefix(g.GlobalName, "h.") && !strings.HasPrefix(g.GlobalName, "u") {
			gs = append(gs, g)
		}
	}
	for _, a := range m.Aliases {
		as = append(as, a)
	}
	for _, i := range m.IFuncs {
		is = append(is, i)
	}
	for _, f := range m.Funcs {
		if !strings.HasPrefix(f.GlobalName, "h.") {
			fs = append(fs, f)
		}
	}
	take := func(s *[]modObj) (modObj, error) {
		if len(*s) == 0 {
			return nil, fmt.Errorf("parsed module lacks a definition")
		}
		o := (*s)[0]
		*s = (*s)[1:]
		return o, nil
	}
	defs = make([]modObj, len(v.Src))
	for i, e := range v.Src {
		var o modObj
		switch e.Kind {
		case "global":
			o, err = take(&gs)
		case "alias":
			o, err = take(&as)
		case "ifunc":
			o, err = take(&is)
		case "func":
			o, err = take(&fs)
		}
		if err != nil {
			return nil, nil, err
		}
		defs[i] = o
	}
	if len(gs)+len(as)+len(is)+len(fs) != 0 {
		return nil, nil, fmt.Errorf("parsed module has extra definitions")
	}
	uses = make([]interface{}, len(v.Src))
	for _, g := range m.Globals {
		if strings.HasPrefix(g.GlobalName, "u") {
			if k, e := strconv.Atoi(g.GlobalName[1:]); e == nil && k >= 1 && k <= len(uses) {
				uses[k-1] = g.Init
			}
		}
	}
	return defs, uses, nil
}

// judgeModule prints m and compares with LLVM's numbering; then numbers again.
func (c *checker) judgeModule(v vector, m *ir.Module, defs []modObj, before []int, stage, src string, refDefs, refUses []string) {
	events := c.hookStart()
	var out string
	msg, panicked := mbt.Guard(func() { out = m.String() })
	evs := c.hookStop(events)
	cs := caseOfText([]vector{v}, stage, src)
	if panicked {
		sig := "C08|" + stage + "+print|panic|" + irhist.PanicClass(msg)
		if stage == "parse" && irhist.PanicClass(msg) == "invalid global ID" && outOfGroupOrder(v) {
			sig = sigParsePrint
		}
		c.failMod(v, mbt.Failure{Signature: sig, What: fmt.Sprintf("%s %s, String() panics: %s", stage, v.key(), mbt.Truncate(msg, 160)), Case: cs})
		return
	}
	gotDefs := modDefTokens(out)
	if d := firstDiff(gotDefs, refDefs); d >= 0 {
		kind := "?"
		if d < len(refDefs) {
			for i := range v.Src {
				if v.Src[i].Name == "" && "@"+strconv.Itoa(v.Printed[i]) == refDefs[d] {
					kind = v.Src[i].Kind
				}
			}
		}
		c.failMod(v, mbt.Failure{Signature: "C08|" + stage + "+print|numbering|first difference at unnamed " + kind,
			What: fmt.Sprintf("%s %s prints definitions %v, LLVM numbering is %v", stage, v.key(), gotDefs, refDefs), Case: cs})
		return
	}
	gotUses := modUseTokens(out, len(v.Src))
	if d := firstDiff(gotUses, refUses); d >= 0 {
		c.failMod(v, mbt.Failure{Signature: "C08|" + stage + "+print|numbering|use of unnamed " + v.Src[d].Kind,
			What: fmt.Sprintf("%s %s prints uses %v, LLVM numbering is %v", stage, v.key(), gotUses, refUses), Case: cs})
		return
	}
	if _, seen := c.accepted[out]; !seen && !c.askPrinted {
		// not in the llvm sample: the identifiers were compared with a reference llvm-as knows
	} else if ok, diag := c.accept(out); !ok {
		c.failMod(v, mbt.Failure{Signature: "C08|" + stage + "+print|llvm-as rejects|" + diagClass(diag),
			What: fmt.Sprintf("llvm-as rejects the text printed for %s %s: %s", stage, v.key(), diagClass(diag)), Case: cs})
		return
	}
	if c.wantRecord() {
		c.recordModule(v, m, before, evs, stage+" "+v.key())
	}
	// numbering again changes nothing
	ids := func() []int64 {
		var s []int64
		for _, o := range defs {
			s = append(s, o.ID())
		}
		return s
	}
	b := ids()
	if err := m.AssignGlobalIDs(); err != nil {
		c.failMod(v, mbt.Failure{Signature: "C08|" + stage + "+print+AssignGlobalIDs|error|numbering a numbered module again fails",
			What: fmt.Sprintf("%s %s: %v", stage, v.key(), err), Case: cs})
		return
	}
	a := ids()
	for i := range a {
		if a[i] != b[i] {
			c.failMod(v, mbt.Failure{Signature: "C08|" + stage + "+print+AssignGlobalIDs|changed|numbering a numbered module again changes ids",
				What: fmt.Sprintf("%s %s: %v -> %v", stage, v.key(), b, a), Case: cs})
			return
		}
	}
}

// outOfGroupOrderSrc: the definitions (named or not) are not listed group by group.
func outOfGroupOrderSrc(v vector) bool {
	o := groupOrder(v)
	for i := range o {
		if o[i] != i {
			return true
		}
	}
	return false
}

func outOfGroupOrder(v vector) bool {
	for i := range v.Src {
		if v.Textual[i] != v.Printed[i] {
			return true
		}
	}
	return false
}

// recordModule: items are all entries of the four groups in walk order.
func (c *checker) recordModule(v vector, m *ir.Module, before []int, evs []hookEvent, desc string) {
	type ent interface {
		ID() int64
		IsUnnamed() bool
	}
	var walk []ent
	for _, g := range m.Globals {
		walk = append(walk, g)
	}
	for _, a := range m.Aliases {
		walk = append(walk, a)
	}
	for _, i := range m.IFuncs {
		walk = append(walk, i)
	}
	for _, f := range m.Funcs {
		walk = append(walk, f)
	}
	pos := map[interface{}]int{}
	r := record{ID: len(c.records) + 1, What: "module", desc: desc, Events: []recEvent{}}
	for i, o := range walk {
		pos[o] = i + 1
		name := "n"
		if o.IsUnnamed() {
			name = ""
		}
		r.Items = append(r.Items, recItem{Name: name, Res: "value"})
		r.After = append(r.After, int(o.ID()))
	}
	// cached ids before the print: known for the definitions of the vector (all others are named)
	if before != nil {
		k := 0
		order := groupOrder(v)
		for i, o := range walk {
			if o.IsUnnamed() && k < len(order) {
				// the unnamed entries of the walk are exactly the unnamed definitions in group order
				for k < len(order) && v.Src[order[k]].Name != "" {
					k++
				}
				if k < len(order) {
					r.Items[i].Before = before[order[k]]
					k++
				}
			}
		}
	}
	for i := range r.Items {
		if r.Items[i].Name != "" {
			r.Items[i].Before = r.After[i]
		}
	}
	for _, e := range evs {
		if p, ok := pos[e.obj]; ok {
			r.Events = append(r.Events, recEvent{Pos: p, Old: int(e.old), New: int(e.new)})
		}
	}
	c.records = append(c.records, r)
}

// ===================================================================================
// trace validation (T)
// ===================================================================================

var reBadRec = regexp.MustCompile(`<<"BADREC", "([^"]+)", (\d+)>>`)

func (c *checker) judgeRecords() {
	rep := c.rep
	if len(c.records) == 0 {
		return
	}
	t := mbt.MustTLC(mbt.TLCOpts{Spec: "NumberingTrace", Cfg: "NumberingTrace.cfg", Workers: 4, Continue: true,
		Data: map[string][]byte{"numbering_rec.ndjson": mbt.NDJSONBytes(c.records)}, Timeout: 20 * time.Minute})
	defer t.Cleanup()
	rep.AddTLC(t)
	if t.Distinct != int64(len(c.records))+1 {
		mbt.Infra("NumberingTrace consumed %d of %d records", t.Distinct-1, len(c.records))
	}
	rep.TracesValidated += len(c.records)
	for _, v := range t.Violated {
		if v != "RowOK" {
			mbt.Infra("NumberingTrace: unexpected violation %s", v)
		}
	}
	for _, m := range reBadRec.FindAllStringSubmatch(t.Output, -1) {
		id, _ := strconv.Atoi(m[2])
		r := c.records[id-1]
		rep.Fail(mbt.Failure{Signature: "C08|setid trace|" + m[1] + "|" + r.What,
			What: fmt.Sprintf("recorded ID assignment of %s breaks law %q: before/items %v events %v after %v", r.desc, m[1], r.Items, r.Events, r.After),
			Case: map[string]interface{}{"stage": "trace", "record": r}})
	}
	rep.Extra["setid_records_judged_by_tlc"] = len(c.records)
}

// ===================================================================================
// histories that start from a parsed module (IRState)
// ===================================================================================

func (c *checker) histories(label string, consts map[string]string) {
	rep := c.rep
	consts["ValidateOnPrint"] = "FALSE"
	t := mbt.MustTLC(mbt.TLCOpts{Spec: "IRState", Cfg: "IRStateEmit.cfg", Consts: consts, Workers: 1, Timeout: 25 * time.Minute})
	defer t.Cleanup()
	if len(t.Violated) > 0 {
		mbt.Infra("IRState (%s) with ValidateOnPrint = FALSE violates %v: specification error", label, t.Violated)
	}
	rep.AddTLC(t)
	trs, err := mbt.ReadNDJSON[irhist.Transition](filepath.Join(t.Dir, "transitions.ndjson"))
	if err != nil {
		mbt.Infra("transitions of %s: %v", label, err)
	}
	n := 0
	for _, tr := range trs {
		n++
		c.judgeHistory(tr, label)
	}
	rep.TracesValidated += n
	rep.Extra["histories_"+label] = n
}

func (c *checker) judgeHistory(tr irhist.Transition, label string) {
	rep := c.rep
	key := irhist.Key(tr.Hist)
	parsed := len(tr.Hist) > 0 && tr.Hist[0].Op == "ParseText"
	edits := 0
	for _, cl := range tr.Hist[0:] {
		if !irhist.IsObserver(cl.Op) && cl.Op != "ParseText" {
			edits++
		}
	}
	rep.Count("hist:"+key, edits > 0)
	r := irhist.Replay(tr.Hist, false)
	cs := map[string]interface{}{"stage": "history", "hist": tr.Hist, "want": tr.Want}
	switch {
	case r.EarlyMsg != "":
		rep.Fail(mbt.Failure{Signature: "C08|history|mutator panics|" + irhist.PanicClass(r.EarlyMsg), What: key + ": " + r.EarlyMsg, Case: cs})
	case r.Panicked && tr.Want.Ok:
		cl := irhist.PanicClass(r.Msg)
		sig := "C08|history|panic|" + cl
		switch {
		case parsed && edits == 0 && cl == "invalid global ID":
			sig = sigParsePrint
		case parsed && cl == "invalid local ID":
			sig = sigParseEditLoc
		case parsed && cl == "invalid global ID":
			sig = sigParseEditGlob
		}
		rep.Fail(mbt.Failure{Signature: sig, What: fmt.Sprintf("history %s: String() panics (%s); required: %s", key, mbt.Truncate(r.Msg, 140), irhist.FmtToks(tr.Want.Text)), Case: cs})
	case !r.Panicked && !tr.Want.Ok:
		rep.Fail(mbt.Failure{Signature: "C08|history|prints where a panic is required|" + tr.Want.Why, What: key, Case: cs})
	case !r.Panicked:
		got := irhist.DefTokens(r.Text)
		if !irhist.SameToks(got, tr.Want.Text) {
			rep.Fail(mbt.Failure{Signature: "C08|history|numbering|printed identifiers differ from LLVM numbering",
				What: fmt.Sprintf("history %s prints %s; LLVM numbering: %s", key, irhist.FmtToks(got), irhist.FmtToks(tr.Want.Text)), Case: cs})
		}
	}
}

// ===================================================================================

func readVectors(dir string) []vector {
	vs, err := mbt.ReadNDJSON[vector](filepath.Join(dir, "vectors.ndjson"))
	if err != nil {
		mbt.Infra("vectors: %v", err)
	}
	return vs
}

// Run is the C08 check.
func Run(tier, replay string) {
	rep := mbt.NewReport("C08", tier, "model_checking")
	rep.Rule = "shapes that mix unnamed values with named ones or with instructions that take no number (functions), or whose textual numbering differs from the print-group numbering (modules); histories with at least one edit after parsing"
	llvmoracle.Require()
	c := &checker{rep: rep, tier: tier, rng: rand.New(rand.NewSource(mbt.Seed())), accepted: map[string]string{}, sigCount: map[string]int{}, recEvery: 3}
	if tier == "thorough" {
		c.recEvery = 12
	}
	if replay != "" {
		c.recEvery = 1
		c.runReplay(replay)
		c.judgeRecords()
		rep.Finish()
	}

	// (S) design level: the laws of Numbering over all shapes of the model
	chk := map[string]string{"MaxBlocks": "2", "MaxInsts": "1"}
	t := mbt.MustTLC(mbt.TLCOpts{Spec: "NumberingGen", Cfg: "NumberingGen.cfg", Consts: chk, Workers: 8})
	if len(t.Violated) > 0 {
		mbt.Infra("Numbering with ValidateOnPrint = FALSE violates %v: specification error", t.Violated)
	}
	rep.AddTLC(t)
	rep.Extra["tlc_states_design"] = t.Distinct
	t.Cleanup()
	// the code as implemented, in the model: TLC must find the C08 counterexample
	// (one worker: strict breadth-first search, so the counterexample reported is a shortest one)
	t = mbt.MustTLC(mbt.TLCOpts{Spec: "NumberingGen", Cfg: "NumberingGen.cfg", Workers: 1,
		Consts: map[string]string{"ValidateOnPrint": "TRUE", "Kinds": `{"mod"}`}})
	if len(t.Violated) != 1 || t.Violated[0] != "ModParsedTotal" {
		mbt.Infra("Numbering as implemented (ValidateOnPrint = TRUE) should violate exactly ModParsedTotal, TLC reports %v", t.Violated)
	}
	rep.CheckerCmds = append(rep.CheckerCmds, t.Cmd+" (as implemented, ModParsedTotal violated as expected)")
	rep.Extra["as_implemented_model"] = "ModParsedTotal violated: " + firstCounterexample(t.Output)
	t.Cleanup()

	// (G) vectors
	var vs []vector
	emit := func(label string, consts map[string]string, simulate string, depth int) {
		o := mbt.TLCOpts{Spec: "NumberingGen", Cfg: "NumberingEmit.cfg", Consts: consts, Workers: 1, Timeout: 25 * time.Minute,
			Simulate: simulate, Depth: depth}
		t := mbt.MustTLC(o)
		if len(t.Violated) > 0 {
			mbt.Infra("NumberingGen (%s) violates %v: specification error", label, t.Violated)
		}
		got := readVectors(t.Dir)
		rep.AddTLC(t)
		rep.Extra["vectors_"+label] = len(got)
		rep.Extra["tlc_wall_s_"+label] = t.Wall.Seconds()
		vs = append(vs, got...)
		t.Cleanup()
	}
	allForms := `{"short", "long", "longva", "bitcast", "asm", "tail", "addrspace"}`
	otherForms := `{"long", "longva", "bitcast", "asm", "tail", "addrspace"}`
	bothNames := `{"alpha", "numeral"}`
	if tier == "quick" {
		// all module shapes <= 4; all one-block functions with <= 2 instructions (short callee form);
		// all one-block functions with <= 1 instruction in every other callee form, and with numeral
		// names; all module shapes <= 3 with numeral names; random deeper ones
		emit("exhaustive", map[string]string{"MaxBlocks": "1", "MaxInsts": "2"}, "", 0)
		emit("forms", map[string]string{"Kinds": `{"func"}`, "MaxBlocks": "1", "MaxInsts": "1", "Forms": otherForms}, "", 0)
		emit("numerals", map[string]string{"MaxBlocks": "1", "MaxInsts": "1", "MaxSrc": "3", "NameStyles": `{"numeral"}`}, "", 0)
		emit("random", map[string]string{"Kinds": `{"func"}`, "MaxBlocks": "3", "MaxInsts": "2", "Forms": allForms, "NameStyles": bothNames}, "num=10", 5)
	} else {
		emit("exhaustive", map[string]string{"MaxBlocks": "2", "MaxInsts": "1"}, "", 0)
		emit("exhaustive1", map[string]string{"Kinds": `{"func"}`, "MaxBlocks": "1", "MaxInsts": "2", "Forms": allForms}, "", 0)
		emit("numerals", map[string]string{"MaxBlocks": "1", "MaxInsts": "2", "MaxSrc": "3", "NameStyles": `{"numeral"}`}, "", 0)
		emit("random", map[string]string{"Kinds": `{"func"}`, "MaxBlocks": "3", "MaxInsts": "2", "Forms": allForms, "NameStyles": bothNames}, "num=40", 5)
	}
	// de-duplicate (simulation repeats shapes)
	seen := map[string]bool{}
	var fv, mv []vector
	for _, v := range vs {
		k := v.key()
		if seen[k] {
			continue
		}
		seen[k] = true
		if v.Kind == "mod" {
			mv = append(mv, v)
		} else {
			fv = append(fv, v)
		}
	}
	t0 := time.Now()
	c.modVectors(mv)
	rep.Extra["wall_s_module_shapes"] = time.Since(t0).Seconds()
	t0 = time.Now()
	c.funcVectors(fv)
	rep.Extra["wall_s_function_shapes"] = time.Since(t0).Seconds()
	rep.Extra["module_shapes"] = len(mv)
	rep.Extra["function_shapes"] = len(fv)

	// histories from a parsed module, then edited (IRState)
	parse := map[string]string{"MaxSrc": "2", "MaxCalls": "3", "Observers": "{}"}
	if tier == "thorough" {
		parse["TermKinds"] = `{"ret", "br", "invoke", "callbr", "catchswitch"}`
	}
	c.histories("parse_edit_print", parse)
	if tier == "thorough" {
		c.histories("build_edit_print", map[string]string{"MaxSrc": "0", "MaxCalls": "4", "Observers": "{}",
			"TermKinds": `{"ret", "br", "invoke", "callbr", "catchswitch"}`})
	}

	// (T)
	c.judgeRecords()

	rep.TracesValidated += c.vectors // every vector was replayed into the real code and judged
	rep.Extra["llvm_as_runs"] = c.llvmRuns
	rep.Extra["module_shapes_confirmed_by_llvm_up_front"] = c.modLLVM
	if c.suppressed > 0 {
		rep.Note("%d further module-shape failures with a signature that already had %d llvm-confirmed instances were counted, not reported", c.suppressed, sigCap)
	}
	rep.Extra["spec_llvm_disagreements_discarded"] = c.discards
	if c.vectors > 0 && c.discards*50 > c.vectors {
		mbt.Infra("%d of %d vectors discarded because llvm-as and the specification disagree (> 2%%)", c.discards, c.vectors)
	}
	rep.Exhaustive = false
	rep.Explanation = "exhaustive: all 4680 module shapes (sequences <= 4 over {named, unnamed} x {global, alias, ifunc, func}) and the function family named in vectors_exhaustive*; the three-block family is sampled by TLC simulation (seeded)"
	rep.Assumptions = []string{
		"llvm-as 14 decides which numbering is valid; the explicit rendering of every vector carries the specification's numbers, so an error of the specification is a discarded vector, not a verdict",
		"value instructions are add / non-void call, void instructions call void, result-less ones store / fence; successors and named scaffolding blocks are added by the harness so that the LLVM verifier accepts the function",
		"module-level numbering exists in explicit form only (LLVM 14 has no implicit syntax for unnamed globals or functions)",
	}
	rep.Finish()
}

var reCex = regexp.MustCompile(`src = (<<.*>>)`)

func firstCounterexample(out string) string {
	ms := reCex.FindAllStringSubmatch(out, -1)
	if len(ms) == 0 {
		return "?"
	}
	return ms[len(ms)-1][1]
}

func (c *checker) runReplay(path string) {
	type rf struct {
		Failures []struct {
			Case struct {
				Stage   string        `json:"stage"`
				Vectors []vector      `json:"vectors"`
				Hist    []irhist.Call `json:"hist"`
				Want    irhist.Out    `json:"want"`
				Record  *record       `json:"record"`
			} `json:"case"`
		} `json:"failures"`
	}
	var one rf
	if err := mbt.ReadJSON(path, &one); err != nil {
		mbt.Infra("replay %s: %v", path, err)
	}
	seen := map[string]bool{}
	var fv, mv []vector
	for _, f := range one.Failures {
		for _, v := range f.Case.Vectors {
			if seen[v.key()] {
				continue
			}
			seen[v.key()] = true
			if v.Kind == "mod" {
				mv = append(mv, v)
			} else {
				fv = append(fv, v)
			}
		}
		if len(f.Case.Hist) > 0 {
			c.judgeHistory(irhist.Transition{Hist: f.Case.Hist, Want: f.Case.Want}, "replay")
			c.rep.TracesValidated++
		}
		if f.Case.Record != nil {
			r := *f.Case.Record
			r.ID = len(c.records) + 1
			r.desc = "replayed record"
			c.records = append(c.records, r)
		}
	}
	c.modVectors(mv)
	c.funcVectors(fv)
}
