package c08

import (
	"fmt"
	"regexp"
	"strconv"
	"strings"

	"github.com/llir/llvm/ir"
	"github.com/llir/llvm/ir/constant"
	"github.com/llir/llvm/ir/enum"
	"github.com/llir/llvm/ir/metadata"
	"github.com/llir/llvm/ir/types"
	"github.com/llir/llvm/ir/value"

	"verif/harness/mbt"
)

// --- vectors written by spec/NumberingGen.tla ----------------------------------

type shapeInst struct {
	Name string `json:"name"`
	Res  string `json:"res"`
}
type shapeTerm struct {
	K    string `json:"k"`
	Name string `json:"name"`
	Res  string `json:"res"`
}
type shapeBlock struct {
	Name  string      `json:"name"`
	Insts []shapeInst `json:"insts"`
	Term  shapeTerm   `json:"term"`
}
type shape struct {
	Params []string     `json:"params"`
	Blocks []shapeBlock `json:"blocks"`
}
type srcEnt struct {
	Kind string `json:"kind"`
	Name string `json:"name"`
}
type vector struct {
	Kind string `json:"kind"` // func | mod
	// func
	F     shape  `json:"f"`
	Form  string `json:"form"`  // spelling of the call-like values: short long longva bitcast asm tail addrspace
	Names string `json:"names"` // naming of the named definitions: alpha (p3, b4, ..) | numeral ("0", "1", "00", "42", ..)
	Ids   []int  `json:"ids"`   // LLVM numbering in flat order: params, then per block label, insts, term; -1 = none
	Ins   int    `json:"ins"`   // the number an unnamed value inserted as first instruction of the entry block takes (InsertFirst)
	// mod
	Src     []srcEnt `json:"src"`
	Textual []int    `json:"textual"` // number LLVM reads in the input text, per definition
	Printed []int    `json:"printed"` // number in printed output (print-group order), per definition
}

func (v vector) key() string {
	var sb strings.Builder
	if v.Kind == "mod" {
		sb.WriteString("mod:")
		if v.Names == "numeral" {
			sb.WriteString("numeral:")
		}
		for _, e := range v.Src {
			fmt.Fprintf(&sb, "%s%q,", e.Kind, e.Name)
		}
		return sb.String()
	}
	sb.WriteString("func:")
	if v.Form != "" && v.Form != "short" {
		sb.WriteString(v.Form + ":")
	}
	if v.Names == "numeral" {
		sb.WriteString("numeral:")
	}
	fmt.Fprintf(&sb, "%q", v.F.Params)
	for _, b := range v.F.Blocks {
		fmt.Fprintf(&sb, "|%q", b.Name)
		for _, i := range b.Insts {
			fmt.Fprintf(&sb, " %q/%s", i.Name, i.Res)
		}
		fmt.Fprintf(&sb, " %s/%q/%s", b.Term.K, b.Term.Name, b.Term.Res)
	}
	return sb.String()
}

// --- a function shape made concrete ---------------------------------------------

// item is one definition of the concrete function: a parameter, a block label,
// an instruction or a terminator.
type item struct {
	kind     string // param | block | inst | term
	name     string // concrete name, "" = unnamed
	res      string // value | void | none
	num      int    // the number the specification gives it, -1 = none
	op       string // add call callvoid store fence ret br invoke callbr catchswitch catchpad landingpad unreachable switch
	form     string // call-like values: how the callee is written (see callText)
	scaffold bool   // added by the harness (always named or without result)
	target   *pblock
	cs       *item // catchpad: its catchswitch
	stored   *item // store in the uses block: the value stored
	cases    []*pblock
	handler  *pblock
	pos      int // 1-based position in the flat walk order
}

type pblock struct {
	label *item
	insts []*item
	term  *item
}

type plan struct {
	fname        string
	params       []*item
	blocks       []*pblock // shape blocks, then scaffolding: handlers, lpad, exit, uses
	nshape       int
	flat         []*item // walk order of AssignIDs: params, then per block label, insts, term
	lpad         *pblock
	exit         *pblock
	uses         *pblock
	describe     string
	numeral      bool      // named definitions are called "0", "1", "00", ...
	tokLo, tokHi int       // token range of the function itself in the reference chunk (cached by shiftTokens)
	baBlocks     []*pblock // blocks whose address is taken by the companion globals and the companion function
}

func (it *item) ident() string {
	if it.name != "" {
		return "%" + quoteName(it.name)
	}
	return "%" + strconv.Itoa(it.num)
}

// quoteName spells a name as LLVM requires: a name made of digits only must be
// quoted (%"0" is a name, %0 a number).
func quoteName(name string) string {
	for _, c := range name {
		if c < '0' || c > '9' {
			return name
		}
	}
	return `"` + name + `"`
}

// numerals are names that look like numbers; the first ones collide with the
// numbers unnamed values get.
var numerals = []string{"0", "1", "00", "42", "2", "01", "3", "007", "10", "4", "5", "000"}

func numeralName(idx int) string {
	if idx < len(numerals) {
		return numerals[idx]
	}
	return strconv.Itoa(100 + idx)
}

func (it *item) describeKind() string {
	switch it.kind {
	case "param", "block":
		return it.kind
	case "inst":
		return "instruction(" + it.op + ")"
	}
	return "terminator(" + it.op + "," + it.res + ")"
}

// makePlan expands a shape: concrete opcodes, successor blocks, and named
// scaffolding (handler blocks for catchswitch, a landing pad, an exit block, and
// an unreachable block that uses every value and every eligible block) so that
// llvm-as verifies the function as correct and every number has a use.
func makePlan(fname string, v vector) *plan {
	pl := &plan{fname: fname, describe: v.key()}
	k := 0
	next := func() int { n := v.Ids[k]; k++; return n }
	// a named instruction or terminator result keeps a letter name when something has to refer to
	// it: the parser cannot resolve a reference to an instruction called %"42" (C11 known finding)
	cname := func(abstract string, idx int) string {
		if abstract == "" {
			return ""
		}
		if v.Names == "numeral" && abstract == "v" {
			// instruction results: numerals that differ as integers -- the parser keys instruction
			// names by Name(), which normalises "00" and "000" to the same key (C11 known finding)
			return strconv.Itoa(50 + idx)
		}
		if v.Names == "numeral" && abstract != "t" {
			return numeralName(idx)
		}
		return abstract + strconv.Itoa(idx)
	}
	pl.numeral = v.Names == "numeral"
	for range v.F.Params {
		pl.params = append(pl.params, &item{kind: "param", res: "value"})
	}
	for i, p := range v.F.Params {
		pl.params[i].name = cname(p, k)
		pl.params[i].num = next()
	}
	anyInvoke := false
	for _, b := range v.F.Blocks {
		pb := &pblock{}
		pb.label = &item{kind: "block", res: "value", name: cname(b.Name, k)}
		pb.label.num = next()
		for _, in := range b.Insts {
			it := &item{kind: "inst", res: in.Res, name: cname(in.Name, k)}
			switch in.Res {
			case "value":
				it.op = []string{"add", "call"}[k%2]
			case "void":
				it.op = "callvoid"
			case "none":
				it.op = []string{"store", "fence"}[k%2]
			default:
				mbt.Infra("vector with unknown result class %q", in.Res)
			}
			it.form = formFor(it.op, v.Form)
			it.num = next()
			pb.insts = append(pb.insts, it)
		}
		t := &item{kind: "term", res: b.Term.Res, name: cname(b.Term.Name, k), op: b.Term.K}
		t.form = formFor(t.op, v.Form)
		t.num = next()
		if t.op == "invoke" {
			anyInvoke = true
		}
		pb.term = t
		pl.blocks = append(pl.blocks, pb)
	}
	if k != len(v.Ids) {
		mbt.Infra("vector %s: %d ids for %d definitions", v.key(), len(v.Ids), k)
	}
	pl.nshape = len(pl.blocks)
	named := func(kind, name, op, res string) *item {
		return &item{kind: kind, name: name, op: op, res: res, num: -1, scaffold: true}
	}
	// scaffolding
	for bi := 0; bi < pl.nshape; bi++ {
		t := pl.blocks[bi].term
		if t.op == "catchswitch" {
			h := &pblock{label: named("block", "h"+strconv.Itoa(bi), "", "value")}
			cp := named("inst", "cp"+strconv.Itoa(bi), "catchpad", "value")
			cp.cs = t
			h.insts = []*item{cp}
			h.term = named("term", "", "unreachable", "none")
			t.handler = h
			pl.blocks = append(pl.blocks, h)
		}
	}
	if anyInvoke {
		pl.lpad = &pblock{label: named("block", "lpad", "", "value")}
		pl.lpad.insts = []*item{named("inst", "lp", "landingpad", "value")}
		pl.lpad.term = named("term", "", "br", "none")
		pl.blocks = append(pl.blocks, pl.lpad)
	}
	pl.exit = &pblock{label: named("block", "exit", "", "value"), term: named("term", "", "ret", "none")}
	pl.blocks = append(pl.blocks, pl.exit)
	if pl.lpad != nil {
		pl.lpad.term.target = pl.exit
	}
	// successors of the shape terminators: the next shape block unless it is an EH pad
	for bi := 0; bi < pl.nshape; bi++ {
		t := pl.blocks[bi].term
		t.target = pl.exit
		if bi+1 < pl.nshape && pl.blocks[bi+1].term.op != "catchswitch" {
			t.target = pl.blocks[bi+1]
		}
	}
	// the uses block
	pl.uses = &pblock{label: named("block", "uses", "", "value")}
	use := func(it *item) {
		st := named("inst", "", "store", "none")
		st.stored = it
		pl.uses.insts = append(pl.uses.insts, st)
	}
	for _, p := range pl.params {
		use(p)
	}
	for bi := 0; bi < pl.nshape; bi++ {
		for _, it := range pl.blocks[bi].insts {
			if it.res == "value" && !(pl.numeral && it.name != "") {
				use(it)
			}
		}
		if t := pl.blocks[bi].term; t.res == "value" && t.op != "catchswitch" && !(pl.numeral && t.name != "") {
			use(t)
		}
	}
	sw := named("term", "", "switch", "none")
	sw.target = pl.exit
	for bi := 1; bi < pl.nshape; bi++ {
		if pl.blocks[bi].term.op != "catchswitch" {
			sw.cases = append(sw.cases, pl.blocks[bi])
		}
	}
	pl.uses.term = sw
	pl.blocks = append(pl.blocks, pl.uses)
	// blocks whose address is taken from outside the function (not the entry block, no EH pad)
	pl.baBlocks = append(append([]*pblock{}, sw.cases...), pl.exit)
	// flat walk order
	add := func(it *item) { it.pos = len(pl.flat) + 1; pl.flat = append(pl.flat, it) }
	for _, p := range pl.params {
		add(p)
	}
	for _, b := range pl.blocks {
		add(b.label)
		for _, it := range b.insts {
			add(it)
		}
		add(b.term)
	}
	return pl
}

// numbering modes of rendered text
const (
	modeImplicit = iota // no unnamed value is written with its number
	modeExplicit        // every unnamed value is written with its number
	modeMixed           // alternating
)

var modeNames = []string{"implicit", "explicit", "mixed"}

func explicitIn(mode int, it *item) bool {
	switch mode {
	case modeExplicit:
		return true
	case modeMixed:
		return it.pos%2 == 0
	}
	return false
}

const prelude = "@sink = global i32 0\n\n@bsink = global i8* null\n\ndeclare i32 @__gxx_personality_v0(...)\n\ndeclare void @vf()\n\ndeclare i32 @vi()\n\n" +
	"declare void @vfa(i32)\n\ndeclare i32 @via(i32)\n\ndeclare void @vfv(...)\n\ndeclare i32 @viv(...)\n\n" +
	"declare void @vf1() addrspace(1)\n\ndeclare i32 @vi1() addrspace(1)\n\n"

// formFor returns the spelling used for a call-like value of the given op: the
// vector's form where it exists for that kind, "short" otherwise.
func formFor(op, form string) string {
	ok := map[string][]string{
		"call":     {"long", "longva", "bitcast", "asm", "tail", "addrspace"},
		"callvoid": {"long", "longva", "bitcast", "asm", "tail", "addrspace"},
		"invoke":   {"long", "longva", "bitcast", "addrspace"},
		"callbr":   {"long"},
	}
	for _, f := range ok[op] {
		if f == form {
			return form
		}
	}
	if _, callLike := ok[op]; callLike {
		return "short"
	}
	return ""
}

// callText spells the callee part of a call-like value: `<type> <callee>(<args>)`
// preceded by the optional address space, for a void or an i32 result.
func callText(form string, void bool) string {
	ty, f := "i32", "i"
	if void {
		ty, f = "void", "f"
	}
	switch form {
	case "long": // full function type, non-variadic
		return ty + " (i32) @v" + f + "a(i32 7)"
	case "longva": // full function type, variadic
		return ty + " (...) @v" + f + "v()"
	case "bitcast": // callee is a constant expression
		return ty + " bitcast (" + ty + " (...)* @v" + f + "v to " + ty + " ()*)()"
	case "addrspace":
		return "addrspace(1) " + ty + " @v" + f + "1()"
	}
	return ty + " @v" + f + "()"
}

func asmText(long, void bool) string {
	ty, con := "i32", "=r"
	if void {
		ty, con = "void", ""
	}
	if long {
		ty += " ()"
	}
	return ty + " asm \"\", \"" + con + "\"()"
}

func opText(it *item) string {
	lbl := func(b *pblock) string { return "label " + b.label.ident() }
	switch it.op {
	case "add":
		return "add i32 1, 2"
	case "call", "callvoid":
		void := it.op == "callvoid"
		switch it.form {
		case "asm":
			return "call " + asmText(false, void)
		case "tail":
			if void {
				return "tail call " + callText("short", void)
			}
			return "notail call " + callText("short", void)
		}
		return "call " + callText(it.form, void)
	case "store":
		if it.stored != nil {
			return "store i32 " + it.stored.ident() + ", i32* @sink"
		}
		return "store i32 0, i32* @sink"
	case "fence":
		return "fence seq_cst"
	case "catchpad":
		return "catchpad within " + it.cs.ident() + " []"
	case "landingpad":
		return "landingpad { i8*, i32 }\n\t\tcleanup"
	case "ret":
		return "ret void"
	case "unreachable":
		return "unreachable"
	case "br":
		return "br " + lbl(it.target)
	case "invoke":
		return "invoke " + callText(it.form, it.res == "void") + "\n\t\tto " + lbl(it.target) + " unwind label %lpad"
	case "callbr":
		return "callbr " + asmText(it.form == "long", it.res == "void") + "\n\t\tto " + lbl(it.target) + " []"
	case "catchswitch":
		return "catchswitch within none [" + lbl(it.handler) + "] unwind to caller"
	case "switch":
		var sb strings.Builder
		sb.WriteString("switch i32 0, " + lbl(it.target) + " [\n")
		for i, c := range it.cases {
			fmt.Fprintf(&sb, "\t\ti32 %d, %s\n", i+1, lbl(c))
		}
		sb.WriteString("\t]")
		return sb.String()
	}
	mbt.Infra("no text for op %q", it.op)
	return ""
}

// render writes the function as LLVM assembly in the given numbering mode.
func (pl *plan) render(mode int) string {
	var sb strings.Builder
	// the companion function comes first: it takes the address of blocks of a function defined later
	sb.WriteString("define void @u." + pl.fname + "() {\n0:\n")
	for _, b := range pl.baBlocks {
		sb.WriteString("\tstore i8* blockaddress(@" + pl.fname + ", " + b.label.ident() + "), i8** @bsink\n")
	}
	sb.WriteString("\tret void\n}\n\n")
	// companion globals initialised with block addresses; they too precede the function: LLVM
	// cannot take the address of a numbered label after the function has been defined
	for j, b := range pl.baBlocks {
		fmt.Fprintf(&sb, "@ba.%s.%d = global i8* blockaddress(@%s, %s)\n\n", pl.fname, j, pl.fname, b.label.ident())
	}
	// the same addresses inside metadata nodes listed by a named metadata definition (a site the translator reaches
	// in another phase than initialisers and function bodies); they precede the function for the same reason
	sb.WriteString(pl.mdText())
	sb.WriteString("define void @" + pl.fname + "(")
	allExplicit := true
	for i, p := range pl.params {
		if i > 0 {
			sb.WriteString(", ")
		}
		sb.WriteString("i32")
		// LLVM 14 counts only the explicitly numbered parameters when it checks an explicit
		// parameter number ("i32, i32 %1" is rejected, "i32 %0, i32" accepted): an unnamed
		// parameter can be written with its number only if all unnamed ones before it are.
		if p.name != "" {
			sb.WriteString(" " + p.ident())
		} else if allExplicit && (mode == modeExplicit || (mode == modeMixed && p.num == 0)) {
			sb.WriteString(" " + p.ident())
		} else {
			allExplicit = false
		}
	}
	sb.WriteString(") personality i32 (...)* @__gxx_personality_v0 {\n")
	for bi, b := range pl.blocks {
		if b.label.name != "" || explicitIn(mode, b.label) {
			if bi > 0 {
				sb.WriteString("\n")
			}
			sb.WriteString(b.label.ident()[1:] + ":\n")
		} else if bi > 0 {
			sb.WriteString("\n")
		}
		for _, it := range append(append([]*item{}, b.insts...), b.term) {
			sb.WriteString("\t")
			if it.res == "value" && (it.name != "" || explicitIn(mode, it)) {
				sb.WriteString(it.ident() + " = ")
			}
			sb.WriteString(opText(it))
			sb.WriteString("\n")
		}
	}
	sb.WriteString("}\n")
	return sb.String()
}

// --- the same function through the API -----------------------------------------

type env struct {
	m            *ir.Module
	sink, bsink  *ir.Global
	pers, vf, vi *ir.Func
	asmV, asmI   *ir.InlineAsm
	// callees of the other spellings: with a parameter, variadic, in address space 1
	vfa, via, vfv, viv, vf1, vi1 *ir.Func
}

func newEnv() *env {
	e := &env{m: ir.NewModule()}
	e.sink = e.m.NewGlobalDef("sink", constant.NewInt(types.I32, 0))
	e.bsink = e.m.NewGlobalDef("bsink", constant.NewNull(types.I8Ptr))
	e.pers = e.m.NewFunc("__gxx_personality_v0", types.I32)
	e.pers.Sig.Variadic = true
	e.vf = e.m.NewFunc("vf", types.Void)
	e.vi = e.m.NewFunc("vi", types.I32)
	e.asmV = ir.NewInlineAsm(types.NewPointer(types.NewFunc(types.Void)), "", "")
	e.asmI = ir.NewInlineAsm(types.NewPointer(types.NewFunc(types.I32)), "", "=r")
	e.vfa = e.m.NewFunc("vfa", types.Void, ir.NewParam("", types.I32))
	e.via = e.m.NewFunc("via", types.I32, ir.NewParam("", types.I32))
	e.vfv = e.m.NewFunc("vfv", types.Void)
	e.vfv.Sig.Variadic = true
	e.viv = e.m.NewFunc("viv", types.I32)
	e.viv.Sig.Variadic = true
	as1 := func(name string, ret types.Type) *ir.Func {
		f := e.m.NewFunc(name, ret)
		// NewFunc has already cached the pointer type for address space 0
		f.AddrSpace = 1
		f.Typ = nil
		f.Type()
		return f
	}
	e.vf1 = as1("vf1", types.Void)
	e.vi1 = as1("vi1", types.I32)
	return e
}

// objects maps the items of a plan to the IR objects that realise them.
type objects map[*item]interface{}

// callee returns the callee value and arguments that realise a spelling through the API.
func (e *env) callee(form string, void bool) (value.Value, []value.Value, types.AddrSpace) {
	pick := func(v, i *ir.Func) *ir.Func {
		if void {
			return v
		}
		return i
	}
	switch form {
	case "long":
		return pick(e.vfa, e.via), []value.Value{constant.NewInt(types.I32, 7)}, 0
	case "longva":
		return pick(e.vfv, e.viv), nil, 0
	case "bitcast":
		ret := types.Type(types.I32)
		if void {
			ret = types.Void
		}
		return constant.NewBitCast(pick(e.vfv, e.viv), types.NewPointer(types.NewFunc(ret))), nil, 0
	case "asm":
		if void {
			return e.asmV, nil, 0
		}
		return e.asmI, nil, 0
	case "addrspace":
		return pick(e.vf1, e.vi1), nil, 1
	}
	return pick(e.vf, e.vi), nil, 0
}

func (pl *plan) build(e *env) (*ir.Func, objects) {
	obj := objects{}
	var params []*ir.Param
	for _, p := range pl.params {
		ip := ir.NewParam(p.name, types.I32)
		obj[p] = ip
		params = append(params, ip)
	}
	u := e.m.NewFunc("u."+pl.fname, types.Void)
	f := e.m.NewFunc(pl.fname, types.Void, params...)
	f.Personality = e.pers
	blocks := map[*pblock]*ir.Block{}
	for _, b := range pl.blocks {
		ib := f.NewBlock(b.label.name)
		blocks[b] = ib
		obj[b.label] = ib
	}
	val := func(it *item) value.Value { return obj[it].(value.Value) }
	buildInsts := func(b *pblock) {
		ib := blocks[b]
		for _, it := range b.insts {
			switch it.op {
			case "add":
				x := ib.NewAdd(constant.NewInt(types.I32, 1), constant.NewInt(types.I32, 2))
				x.SetName(it.name)
				obj[it] = x
			case "call", "callvoid":
				void := it.op == "callvoid"
				callee, args, as := e.callee(it.form, void)
				x := ib.NewCall(callee, args...)
				x.AddrSpace = as
				if it.form == "tail" {
					x.Tail = enum.TailTail
					if !void {
						x.Tail = enum.TailNoTail
					}
				}
				if !void {
					x.SetName(it.name)
				}
				obj[it] = x
			case "store":
				if it.stored != nil {
					obj[it] = ib.NewStore(val(it.stored), e.sink)
				} else {
					obj[it] = ib.NewStore(constant.NewInt(types.I32, 0), e.sink)
				}
			case "fence":
				obj[it] = ib.NewFence(enum.AtomicOrderingSequentiallyConsistent)
			case "landingpad":
				x := ib.NewLandingPad(types.NewStruct(types.I8Ptr, types.I32))
				x.Cleanup = true
				x.SetName(it.name)
				obj[it] = x
			case "catchpad":
				// the catchswitch is created below; patched afterwards
				obj[it] = nil
			default:
				mbt.Infra("no builder for instruction op %q", it.op)
			}
		}
	}
	for _, b := range pl.blocks {
		if b != pl.uses {
			buildInsts(b)
		}
	}
	for _, b := range pl.blocks {
		ib := blocks[b]
		t := b.term
		if b == pl.uses {
			// the uses block stores the results of terminators: built once they exist
			buildInsts(b)
		}
		switch t.op {
		case "ret":
			obj[t] = ib.NewRet(nil)
		case "unreachable":
			obj[t] = ib.NewUnreachable()
		case "br":
			obj[t] = ib.NewBr(blocks[t.target])
		case "invoke":
			callee, args, as := e.callee(t.form, t.res == "void")
			x := ib.NewInvoke(callee, args, blocks[t.target], blocks[pl.lpad])
			x.AddrSpace = as
			x.SetName(t.name)
			obj[t] = x
		case "callbr":
			callee := e.asmI
			if t.res == "void" {
				callee = e.asmV
			}
			x := ib.NewCallBr(callee, nil, blocks[t.target])
			x.SetName(t.name)
			obj[t] = x
		case "catchswitch":
			x := ib.NewCatchSwitch(constant.None, []*ir.Block{blocks[t.handler]}, nil)
			x.SetName(t.name)
			obj[t] = x
		case "switch":
			var cases []*ir.Case
			for i, c := range t.cases {
				cases = append(cases, ir.NewCase(constant.NewInt(types.I32, int64(i+1)), blocks[c]))
			}
			obj[t] = ib.NewSwitch(constant.NewInt(types.I32, 0), blocks[t.target], cases...)
		default:
			mbt.Infra("no builder for terminator op %q", t.op)
		}
	}
	// catchpads, now that their catchswitch exists (inserted at the head of the handler block)
	for _, b := range pl.blocks {
		for i, it := range b.insts {
			if it.op == "catchpad" {
				x := ir.NewCatchPad(obj[it.cs].(*ir.TermCatchSwitch))
				x.SetName(it.name)
				blocks[b].Insts = append(blocks[b].Insts[:i:i], append([]ir.Instruction{x}, blocks[b].Insts[i:]...)...)
				obj[it] = x
			}
		}
	}
	// companions: block addresses taken from an earlier function and from global initialisers
	ub := u.NewBlock("")
	for j, b := range pl.baBlocks {
		ub.NewStore(constant.NewBlockAddress(f, blocks[b]), e.bsink)
		e.m.NewGlobalDef(fmt.Sprintf("ba.%s.%d", pl.fname, j), constant.NewBlockAddress(f, blocks[b]))
	}
	ub.NewRet(nil)
	if len(pl.baBlocks) > 0 {
		nmd := &metadata.NamedDef{Name: "ba." + pl.fname}
		for j, b := range pl.baBlocks {
			t := &metadata.Tuple{MetadataID: metadata.MetadataID(pl.mdBase() + j), Fields: []metadata.Field{constant.NewBlockAddress(f, blocks[b])}}
			e.m.MetadataDefs = append(e.m.MetadataDefs, t)
			nmd.Nodes = append(nmd.Nodes, t)
		}
		e.m.NamedMetadataDefs[nmd.Name] = nmd
	}
	return f, obj
}

// checkCompanions verifies that the block addresses of the companion function and
// globals of a parsed module are bound to the blocks at those positions.
func (pl *plan) checkCompanions(m *ir.Module, f *ir.Func, obj objects) string {
	isBA := func(v interface{}, b *pblock) bool {
		ba, ok := v.(*constant.BlockAddress)
		return ok && ba.Func == constant.Constant(f) && ba.Block == obj[b.label]
	}
	for _, g := range m.Globals {
		for j, b := range pl.baBlocks {
			if g.GlobalName == fmt.Sprintf("ba.%s.%d", pl.fname, j) && !isBA(g.Init, b) {
				return fmt.Sprintf("initialiser of @%s is not the address of block %s", g.GlobalName, b.label.ident())
			}
		}
	}
	if len(pl.baBlocks) > 0 {
		nmd := m.NamedMetadataDefs["ba."+pl.fname]
		if nmd == nil || len(nmd.Nodes) != len(pl.baBlocks) {
			return "named metadata !ba." + pl.fname + " missing or of another length"
		}
		for j, b := range pl.baBlocks {
			t, ok := nmd.Nodes[j].(*metadata.Tuple)
			if !ok || len(t.Fields) != 1 || !isBA(t.Fields[0], b) {
				return fmt.Sprintf("metadata node %d of !ba.%s is not the address of block %s (a block address in a metadata node)", j, pl.fname, b.label.ident())
			}
		}
	}
	for _, u := range m.Funcs {
		if u.GlobalName != "u."+pl.fname {
			continue
		}
		if len(u.Blocks) != 1 || len(u.Blocks[0].Insts) != len(pl.baBlocks) {
			return "companion function has another structure"
		}
		for j, b := range pl.baBlocks {
			st, ok := u.Blocks[0].Insts[j].(*ir.InstStore)
			if !ok || !isBA(st.Src, b) {
				return fmt.Sprintf("blockaddress %d of @%s is not the address of block %s", j, u.GlobalName, b.label.ident())
			}
		}
		return ""
	}
	return "companion function missing"
}

// mdBase is the ID of the first metadata node of the plan (IDs are module-wide: 32 per function).
func (pl *plan) mdBase() int {
	n, err := strconv.Atoi(strings.TrimPrefix(pl.fname, "f"))
	if err != nil {
		mbt.Infra("plan function name %q carries no index", pl.fname)
	}
	return 32 * n
}

// mdText renders the metadata companions: one node per block address and the named definition listing them.
func (pl *plan) mdText() string {
	if len(pl.baBlocks) == 0 {
		return ""
	}
	var sb strings.Builder
	var ids []string
	for j, b := range pl.baBlocks {
		fmt.Fprintf(&sb, "!%d = !{i8* blockaddress(@%s, %s)}\n", pl.mdBase()+j, pl.fname, b.label.ident())
		ids = append(ids, "!"+strconv.Itoa(pl.mdBase()+j))
	}
	fmt.Fprintf(&sb, "!ba.%s = !{%s}\n\n", pl.fname, strings.Join(ids, ", "))
	return sb.String()
}

// mdLines returns the printed metadata nodes of the plan (by ID).
func (pl *plan) mdLines(text string) string {
	if len(pl.baBlocks) == 0 {
		return ""
	}
	base := pl.mdBase()
	var sb strings.Builder
	for start := 0; start < len(text); {
		end := strings.IndexByte(text[start:], '\n')
		if end < 0 {
			end = len(text)
		} else {
			end += start
		}
		// "!<id> = ": a numbered node of this plan
		if line := text[start:end]; len(line) > 1 && line[0] == '!' && line[1] >= '0' && line[1] <= '9' {
			k := 1
			for k < len(line) && line[k] >= '0' && line[k] <= '9' {
				k++
			}
			if id, err := strconv.Atoi(line[1:k]); err == nil && id >= base && id < base+len(pl.baBlocks) && strings.HasPrefix(line[k:], " = ") {
				sb.WriteString(line + "\n")
			}
		}
		start = end + 1
	}
	return sb.String()
}

var reBAMetadata = regexp.MustCompile(`(?m)^(!ba\.[\w.]+ = .*|!\d+ = !\{i8\* blockaddress\(.*)\n`)

// withoutBAMetadata removes the metadata companions from printed text that is given to llvm-as: the printer (like
// llvm-dis) lists metadata after the functions, and LLVM cannot read the address of a NUMBERED label after the
// function has been defined -- a limitation of the textual format, not a statement about the numbering.
func withoutBAMetadata(text string) string { return reBAMetadata.ReplaceAllString(text, "") }

// chunk collects everything printed text says about a plan: the companion function, the
// function itself and the companion globals.
func (pl *plan) chunk(text string, per map[string]string) string {
	var sb strings.Builder
	sb.WriteString(per["u."+pl.fname])
	sb.WriteString(per[pl.fname])
	sb.WriteString(pl.globalLines(text))
	sb.WriteString(pl.mdLines(text))
	return sb.String()
}

// standalone orders the same pieces so that llvm-as accepts them on their own (the companion
// globals before the function whose numbered labels they name).
func (pl *plan) standalone(text string, per map[string]string) string {
	return pl.globalLines(text) + "\n" + per["u."+pl.fname] + "\n" + per[pl.fname]
}

func (pl *plan) globalLines(text string) string {
	var sb strings.Builder
	prefix := "@ba." + pl.fname + "."
	for _, line := range strings.Split(text, "\n") {
		if strings.HasPrefix(line, prefix) {
			sb.WriteString(line + "\n")
		}
	}
	return sb.String()
}

// locate maps the items of a plan to the objects of a parsed function by position.
func (pl *plan) locate(f *ir.Func) (objects, error) {
	obj := objects{}
	if len(f.Params) != len(pl.params) {
		return nil, fmt.Errorf("%d parameters, want %d", len(f.Params), len(pl.params))
	}
	for i, p := range pl.params {
		obj[p] = f.Params[i]
	}
	if len(f.Blocks) != len(pl.blocks) {
		return nil, fmt.Errorf("%d blocks, want %d", len(f.Blocks), len(pl.blocks))
	}
	for i, b := range pl.blocks {
		ib := f.Blocks[i]
		obj[b.label] = ib
		if len(ib.Insts) != len(b.insts) {
			return nil, fmt.Errorf("block %d: %d instructions, want %d", i, len(ib.Insts), len(b.insts))
		}
		for j, it := range b.insts {
			obj[it] = ib.Insts[j]
		}
		obj[b.term] = ib.Term
	}
	return obj, nil
}

type idHolder interface {
	ID() int64
	IsUnnamed() bool
	Name() string
}

// ids reads the cached id of every item (0 for objects that carry none).
func (pl *plan) ids(obj objects) []int {
	out := make([]int, len(pl.flat))
	for i, it := range pl.flat {
		if h, ok := obj[it].(idHolder); ok {
			out[i] = int(h.ID())
		}
	}
	return out
}

// checkBinding verifies that every use in the parsed function points to the
// object at the position the specification numbers so.
func (pl *plan) checkBinding(obj objects) (badKind string, detail string) {
	same := func(got interface{}, want *item) bool { return got == obj[want] }
	for bi, b := range pl.blocks {
		t := b.term
		switch t.op {
		case "br":
			if x, ok := obj[t].(*ir.TermBr); !ok || !same(x.Target, t.target.label) {
				return "block", fmt.Sprintf("br of block %d does not point to its target", bi)
			}
		case "invoke":
			x, ok := obj[t].(*ir.TermInvoke)
			if !ok || !same(x.NormalRetTarget, t.target.label) || !same(x.ExceptionRetTarget, pl.lpad.label) {
				return "block", fmt.Sprintf("invoke of block %d does not point to its targets", bi)
			}
		case "callbr":
			if x, ok := obj[t].(*ir.TermCallBr); !ok || !same(x.NormalRetTarget, t.target.label) {
				return "block", fmt.Sprintf("callbr of block %d does not point to its target", bi)
			}
		case "catchswitch":
			if x, ok := obj[t].(*ir.TermCatchSwitch); !ok || len(x.Handlers) != 1 || !same(x.Handlers[0], t.handler.label) {
				return "block", fmt.Sprintf("catchswitch of block %d does not point to its handler", bi)
			}
		case "switch":
			x, ok := obj[t].(*ir.TermSwitch)
			if !ok || len(x.Cases) != len(t.cases) {
				return "block", "switch of the uses block has the wrong shape"
			}
			for i, c := range t.cases {
				if !same(x.Cases[i].Target, c.label) {
					return "block", fmt.Sprintf("switch case %d (label %s) is bound to %v", i+1, c.label.ident(), x.Cases[i].Target.Ident())
				}
			}
		}
		for _, it := range b.insts {
			switch {
			case it.op == "store" && it.stored != nil:
				x, ok := obj[it].(*ir.InstStore)
				if !ok || !same(x.Src, it.stored) {
					got := "?"
					if ok {
						got = x.Src.Ident()
					}
					return it.stored.describeKind(), fmt.Sprintf("use %s is bound to %s, not to the %s at that position", it.stored.ident(), got, it.stored.describeKind())
				}
			case it.op == "catchpad":
				x, ok := obj[it].(*ir.InstCatchPad)
				if !ok || !same(x.CatchSwitch, it.cs) {
					return it.cs.describeKind(), fmt.Sprintf("catchpad within %s is not bound to its catchswitch", it.cs.ident())
				}
			}
		}
	}
	return "", ""
}

// --- token streams ---------------------------------------------------------------

var reTok = regexp.MustCompile(`(?m)^[\w.]+:|^"[^"\n]*":|[@%]"[^"\n]*"|[@%][\w.]+`)

// tokens returns every label and every %/@ identifier of text, in order;
// labels are rendered with a leading %.
func tokens(text string) []string {
	ms := reTok.FindAllString(text, -1)
	for i, m := range ms {
		if strings.HasSuffix(m, ":") {
			ms[i] = "%" + strings.TrimSuffix(m, ":")
		}
	}
	return ms
}

// splitFuncs cuts printed module text into its function definitions, keyed by name.
func splitFuncs(text string) map[string]string {
	out := map[string]string{}
	re := regexp.MustCompile(`(?m)^define [^@]*@([\w.]+)\(`)
	idx := re.FindAllStringSubmatchIndex(text, -1)
	for i, m := range idx {
		end := len(text)
		if i+1 < len(idx) {
			end = idx[i+1][0]
		}
		body := text[m[0]:end]
		if j := strings.Index(body, "\n}\n"); j >= 0 {
			body = body[:j+3]
		}
		out[text[m[2]:m[3]]] = body
	}
	return out
}

func firstDiff(a, b []string) int {
	n := len(a)
	if len(b) < n {
		n = len(b)
	}
	for i := 0; i < n; i++ {
		if a[i] != b[i] {
			return i
		}
	}
	if len(a) != len(b) {
		return n
	}
	return -1
}

// --- parse -> edit -> print ------------------------------------------------------

const insertedConst = 424242

var reBareNum = regexp.MustCompile(`^%(\d+)$`)

// shiftTokens applies the shift law of Numbering.tla (InsertShifts) to the reference token stream of a plan's chunk: an
// unnamed value that takes number p was inserted into the function; every local number >= p OF THAT FUNCTION grows by
// one -- all bare numbers inside the function (definitions, uses, labels) and, outside it, the block number of every
// blockaddress(@f, %N) (the token after @f); the companion function's own numbers, names and global identifiers stay.
func (pl *plan) shiftTokens(ref []string, p int) []string {
	if pl.tokHi == 0 {
		refText := pl.render(modeExplicit)
		per := splitFuncs(refText)
		pl.tokLo = len(tokens(per["u."+pl.fname]))
		pl.tokHi = pl.tokLo + len(tokens(per[pl.fname]))
	}
	lo, hi := pl.tokLo, pl.tokHi
	out := make([]string, len(ref))
	for i, t := range ref {
		out[i] = t
		inside := i >= lo && i < hi
		if !inside && (i == 0 || ref[i-1] != "@"+pl.fname) {
			continue
		}
		if m := reBareNum.FindStringSubmatch(t); m != nil {
			if n, _ := strconv.Atoi(m[1]); n >= p {
				out[i] = "%" + strconv.Itoa(n+1)
			}
		}
	}
	return out
}

// cutInserted removes the line of the inserted instruction from the printed function and returns its result token.
func cutInserted(fn string) (rest, def string, ok bool) {
	marker := fmt.Sprintf("add i32 %d, %d", insertedConst, insertedConst)
	lines := strings.Split(fn, "\n")
	for i, l := range lines {
		if strings.Contains(l, marker) {
			if ts := tokens(l); len(ts) == 1 {
				def = ts[0]
			}
			return strings.Join(append(lines[:i:i], lines[i+1:]...), "\n"), def, true
		}
	}
	return fn, "", false
}

// editRegion names the part of a plan's chunk that holds token d of the reference stream.
func (pl *plan) editRegion(d int) string {
	refText := pl.render(modeExplicit)
	per := splitFuncs(refText)
	nu, nf, ng := len(tokens(per["u."+pl.fname])), len(tokens(per[pl.fname])), len(tokens(pl.globalLines(refText)))
	switch {
	case d < nu:
		return "blockaddress in an earlier function"
	case d < nu+nf:
		return "the edited function"
	case d < nu+nf+ng:
		return "blockaddress in a global initialiser"
	}
	return "blockaddress in a metadata node"
}
