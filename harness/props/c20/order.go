package c20

import (
	"math/rand"

	"verif/harness/mbt"
)

// moduleOrder is the second half of C20 (printed definition order under permutation of the input).
func moduleOrder(rep *mbt.Report, tier string, rng *rand.Rand) {}

func replayModuleOrder(rep *mbt.Report, src string) {}
