package c20

import (
	"encoding/json"
	"fmt"
	"math/rand"
	"sort"
	"strings"

	"verif/harness/mbt"
	"verif/harness/props/trcheck"
	"verif/harness/props/trsrc"
)

// moduleOrder is the second half of C20: Translate.tla's CanonOrder (TLC: the assembled module
// equals the order-free ModuleOf(src) on every processing order, for every permutation of the
// definitions of every reference pattern) and the replay of each permutation into the real parser
// and printer: types, comdats and named metadata in natural order, attribute groups and metadata
// by ID, globals / aliases / ifuncs / functions in textual order, merged named metadata in
// textual order.
func moduleOrder(rep *mbt.Report, tier string, rng *rand.Rand) {
	permAll := 4
	if tier == "thorough" {
		permAll = 6
	}
	vs := trcheck.Generate(rep, "perms", permAll)
	// the same definitions laid out differently (several per line, indented, CR LF, comments): textual
	// order is the order of positions, whatever the columns
	vs = append(vs, trcheck.Generate(rep, "layouts", permAll)...)
	cs := trcheck.Run(vs)
	n, discarded := 0, 0
	// the permutations of one source are the same multiset of entities: whether the parser accepts must
	// not depend on the order (that every one of them is accepted is C01's business)
	group := func(c *trcheck.Case) string {
		var es []string
		for i := range c.Src {
			b, _ := json.Marshal(c.Src[i])
			es = append(es, string(b))
		}
		sort.Strings(es)
		return c.Lay.ID + "\n" + strings.Join(es, "\n")
	}
	accepted, rejected := map[string]*trcheck.Case{}, map[string]*trcheck.Case{}
	for _, c := range cs {
		if c.Want.St != "ok" || !c.LLVMOK {
			continue
		}
		if c.Mod != nil {
			accepted[group(c)] = c
		} else {
			rejected[group(c)] = c
		}
	}
	for g, r := range rejected {
		if a, ok := accepted[g]; ok {
			msg := r.Panic
			if r.Err != nil {
				msg = r.Err.Error()
			}
			rep.Fail(mbt.Failure{Signature: "C20|permutation-changes-acceptance", What: "one order of the top-level entities is accepted, another order of the same entities is rejected: " + mbt.Truncate(msg, 200) + "\nrejected order:\n" + mbt.Truncate(r.Text, 400) + "\naccepted order:\n" + mbt.Truncate(a.Text, 400), Case: map[string]string{"src": r.Text}})
		}
	}
	for _, c := range cs {
		if c.Want.St != "ok" {
			continue
		}
		if !c.LLVMOK {
			discarded++
			continue
		}
		if c.Mod == nil || c.PrintPanic != "" {
			continue // acceptance and printing are judged by C01/C04/C08
		}
		n++
		rep.Count("perm:"+c.Text, true)
		rep.TracesValidated++
		if n == 1 {
			rep.Sample(map[string]interface{}{"kind": "permutation", "src": c.Text, "required_order": c.Want.Mod})
		}
		for _, d := range trcheck.CompareOrder(c.Want.Mod, c.Parsed, c.Printed) {
			sec := d
			if i := strings.Index(d, ":"); i > 0 {
				sec = d[:i]
			}
			if strings.HasPrefix(sec, "named-metadata-nodes") {
				sec = "named-metadata-nodes"
			}
			if strings.HasPrefix(sec, "attrgroup-merge") {
				sec = "attrgroup-merge"
			}
			rep.Fail(mbt.Failure{Signature: "C20|module-order|" + sec, What: d + "\ninput:\n" + mbt.Truncate(c.Text, 400), Case: map[string]string{"src": c.Text}})
		}
	}
	if discarded*10 > len(cs) {
		mbt.Infra("LLVM rejects %d of %d permuted sources", discarded, len(cs))
	}
	rep.Extra["permuted_sources"] = n
	typeAliasOrder(rep, tier, permAll)
}

// typeAliasOrder: sources with type aliases (`%a = type %x`, outside LLVM's grammar, accepted by the parser).
// WHICH order the parser lists such definitions in is the business of the known C04 finding (an alias is a
// look-alike copy printed under the aliased name); what C20 still requires of them is that the order is ONE
// order: the same for every permutation of the same definitions and for every parse of the same text
// (Translate.tla, source set "aliasperms": CanonOrder holds on every processing order).
func typeAliasOrder(rep *mbt.Report, tier string, permAll int) {
	reps := 10
	if tier == "thorough" {
		reps = 40
	}
	typeLines := func(printed string) string {
		var ls []string
		for _, l := range strings.Split(printed, "\n") {
			if strings.HasPrefix(l, "%") && strings.Contains(l, " = type ") {
				ls = append(ls, l)
			}
		}
		return strings.Join(ls, "\n")
	}
	first := map[string][2]string{} // multiset of entities -> type-definition lines, text
	n := 0
	for _, v := range trcheck.Generate(rep, "aliasperms", permAll) {
		if v.Want.St != "ok" {
			continue
		}
		var es []string
		for i := range v.Src {
			b, _ := json.Marshal(v.Src[i])
			es = append(es, string(b))
		}
		sort.Strings(es)
		g := strings.Join(es, "\n")
		text := trsrc.RenderLay(v.Src, v.Lay)
		for r := 0; r < reps; r++ {
			m, err, p := trcheck.ParseReal("alias.ll", text)
			if m == nil || err != nil || p != "" {
				break // acceptance is C01 / C04 / C05's business
			}
			var printed string
			if _, pp := mbt.Guard(func() { printed = m.String() }); pp {
				break
			}
			got := typeLines(printed)
			rep.Count(fmt.Sprintf("alias-perm:%d:%s", r, text), true)
			f, ok := first[g]
			if !ok {
				first[g] = [2]string{got, text}
				n++
				continue
			}
			if got != f[0] {
				how := "permutation"
				if f[1] == text {
					how = "repetition"
				}
				rep.Fail(mbt.Failure{Signature: "C20|module-order|types|type-alias-order-varies-with-" + how,
					What: "the type definitions of the same set of definitions are listed in two different orders:\n" + f[0] + "\n-- and --\n" + got + "\ninput:\n" + text + "\nfirst input:\n" + f[1], Case: map[string]string{"src": text}})
				break
			}
		}
	}
	rep.Extra["type_alias_sources"] = n
}

func replayModuleOrder(rep *mbt.Report, src string) {
	// a replay re-runs the whole permutation family (the vector's required order comes from TLC)
	moduleOrder(rep, "quick", nil)
}
